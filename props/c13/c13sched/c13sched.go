// Package c13sched: the schedule-exploration companion of C13. The plain C13 check enumerates
// sequential histories; rollback points written by the persister's in-memory merge path while other
// batches land can only be produced with concurrency, so these scenarios run under the scheduler.
package c13sched

import (
	"fmt"
	"io"
	"os"
	"path/filepath"
	"strconv"
	"strings"

	"github.com/blevesearch/bleve/v2"
	"github.com/blevesearch/bleve/v2/index/scorch"

	"verif/bx"
	"verif/lww"
	"verif/mc"
	"verif/sched/drv"
	fgate "verif/sched/gate"
	"verif/sched/vrt"
)

func I(id string, v int) lww.Op { return lww.Op{Kind: "I", ID: id, V: v} }
func D(id string) lww.Op        { return lww.Op{Kind: "D", ID: id} }
func S(v int) lww.Op            { return lww.Op{Kind: "S", ID: "seq", V: v} }

var workload = []lww.Batch{
	{I("a", 1), I("b", 1), S(1)},
	{I("c", 1), I("d", 1), S(2)},
	{D("a"), D("c"), S(3)}, // delete-only: lands inside the merge window with one deviation
	{I("a", 2), S(4)},
}
var ids = append([]string{"d", "n"}, lww.FamilyIDs...)
var keys = []string{"seq"}

func modelAfter(q int) *lww.Model {
	m := lww.New()
	for j := 0; j < q && j < len(workload); j++ {
		m.Apply(workload[j])
	}
	return m
}

type gateT struct {
	armed   bool
	parked  chan int
	release chan int
}

var gate *gateT

func init() {
	scorch.RegistryEventCallbacks["verif-c13-persister-gate"] = func(e scorch.Event) bool {
		if g := gate; g != nil && g.armed && e.Kind == scorch.EventKindPersisterProgress {
			g.armed = false
			vrt.Send(g.parked, 1)
			vrt.Recv(g.release)
		}
		return true
	}
}

func body(keep int) func(c *drv.Ctx) {
	return func(c *drv.Ctx) {
		dir := c.Dir + "/idx"
		g := &gateT{armed: true, parked: make(chan int, 1), release: make(chan int, 1)}
		gate = g
		defer func() { gate = nil }()
		var idx bleve.Index
		vrt.Free(func() {
			var err error
			idx, err = bleve.NewUsing(dir, bleve.NewIndexMapping(), scorch.Name, scorch.Name, map[string]interface{}{
				"unsafe_batch": true, "numSnapshotsToKeep": keep, "eventCallbackName": "verif-c13-persister-gate",
				"scorchPersisterOptions": map[string]interface{}{"NumPersisterWorkers": 2, "MaxSizeInMemoryMergePerWorker": 1},
			})
			if err != nil {
				panic(err)
			}
		})
		vrt.Recv(g.parked)
		do := func(j int) {
			if err := lww.ExecBatch(idx, workload[j-1]); err != nil {
				c.Fail("error:batch", "Batch %d: %v", j, err)
			}
		}
		do(1)
		do(2)
		start := make(chan int, 1)
		var wg vrt.WaitGroup
		wg.Add(1)
		vrt.Go(func() {
			defer wg.Done()
			vrt.Recv(start)
			do(3)
		})
		vrt.Send(start, 1)
		vrt.Send(g.release, 1)
		wg.Wait()
		vrt.WaitIdle()
		do(4)
		vrt.WaitIdle()
		vrt.Free(func() {
			if err := idx.Close(); err != nil {
				c.Fail("error:close", "Close: %v", err)
			}
		})
	}
}

// ---- gated workload families (word x gate menu incl. persister+merger pairs x numSnapshotsToKeep are
// environment choices of the explorer): every batch in its own client thread, started when everything
// the previous one set in motion has settled. After a clean Close every rollback point offered is
// exercised (see after).
func bodyGatedFamily(conf map[string]interface{}, words []string, gated bool) func(c *drv.Ctx) {
	menu := fgate.Menu() // single gates (every rollback point of every execution is exercised: pairs are left to C04 / C12)
	if !gated {
		menu = menu[:1]
	}
	return func(c *drv.Ctx) {
		word := words[vrt.Choose(len(words), "workload")]
		spec := menu[vrt.Choose(len(menu), "gate")]
		keep := []int{2, 10}[vrt.Choose(2, "numSnapshotsToKeep")]
		wl := lww.BuildWord(word)
		c.Data = wl
		dir := c.Dir + "/idx"
		var idx bleve.Index
		vrt.Free(func() {
			cf := bx.CopyConfig(conf)
			if cf == nil {
				cf = map[string]interface{}{}
			}
			cf["eventCallbackName"] = fgate.Name
			cf["numSnapshotsToKeep"] = keep
			var err error
			idx, err = bleve.NewUsing(dir, bleve.NewIndexMapping(), scorch.Name, scorch.Name, cf)
			if err != nil {
				panic(err)
			}
			vrt.WaitIdle()
		})
		g := fgate.Arm(spec)
		defer g.Disarm()
		var wg vrt.WaitGroup
		for j := 1; j <= len(wl); j++ {
			j := j
			wg.Add(1)
			vrt.Go(func() {
				defer wg.Done()
				if err := lww.ExecBatch(idx, wl[j-1]); err != nil {
					c.Fail("error:batch", "Batch %d: %v", j, err)
				}
			})
			vrt.WaitIdle()
			if g.Step() {
				vrt.WaitIdle()
			}
		}
		if g.Was() > 0 {
			c.Count("executions_in_which_a_gate_parked_a_background_thread", 1)
		}
		g.Open()
		wg.Wait()
		vrt.WaitIdle()
		c.Observe(fmt.Sprintf("wl=%s gate=%s keep=%d", word, spec.Label, keep))
		c.Count("family_words_x_gates_run", 1)
		vrt.Free(func() {
			if err := idx.Close(); err != nil {
				c.Fail("error:close", "Close: %v", err)
			}
		})
	}
}

func copyDir(src, dst string) error {
	return filepath.Walk(src, func(p string, fi os.FileInfo, err error) error {
		if err != nil {
			return err
		}
		rel, _ := filepath.Rel(src, p)
		t := filepath.Join(dst, rel)
		if fi.IsDir() {
			return os.MkdirAll(t, 0o755)
		}
		in, err := os.Open(p)
		if err != nil {
			return err
		}
		defer in.Close()
		out, err := os.Create(t)
		if err != nil {
			return err
		}
		defer out.Close()
		_, err = io.Copy(out, in)
		return err
	})
}

// after: the index is closed; every rollback point offered must name a state the index had and
// restore exactly it.
func after(c *drv.Ctx) {
	wl := workload
	if w, ok := c.Data.([]lww.Batch); ok {
		wl = w
	}
	modelAfter := func(q int) *lww.Model {
		m := lww.New()
		for j := 0; j < q && j < len(wl); j++ {
			m.Apply(wl[j])
		}
		return m
	}
	dir := c.Dir + "/idx"
	pts, err := scorch.RollbackPoints(dir + "/store")
	if err != nil {
		c.Fail("rollbackpoints-error", "RollbackPoints: %v", err)
		return
	}
	if len(pts) == 0 {
		c.Fail("no-rollback-point", "no rollback point offered after a clean Close")
		return
	}
	var qs []string
	for pi, p := range pts {
		q := 0
		if v := p.GetInternal([]byte("seq")); v != nil {
			q, _ = strconv.Atoi(string(v))
		}
		qs = append(qs, fmt.Sprint(q))
		if pi == 0 && q != len(wl) {
			c.Fail("newest-point-is-not-last-persisted-state", "newest rollback point carries seq=%d, the last batch was %d", q, len(wl))
			return
		}
		cp := fmt.Sprintf("%s/rb%d", c.Dir, pi)
		if err := copyDir(dir, cp); err != nil {
			panic(err)
		}
		if err := scorch.Rollback(cp+"/store", p); err != nil {
			c.Fail("rollback-error", "Rollback to point %d (seq %d): %v", pi, q, err)
			return
		}
		res := ""
		werr := drv.InWorld(func() {
			i2, err := bleve.Open(cp)
			if err != nil {
				res = "open after rollback: " + err.Error()
				return
			}
			if bad := modelAfter(q).Check(i2, ids, keys); len(bad) > 0 {
				res = "state after rollback: " + strings.Join(bad, "; ")
				i2.Close()
				return
			}
			// the rolled-back index accepts a write, which survives a reopen
			if err := i2.Index("post", lww.Body(2)); err != nil {
				res = "write after rollback: " + err.Error()
			}
			vrt.WaitIdle()
			i2.Close()
			if res == "" {
				i3, err := bleve.Open(cp)
				if err != nil {
					res = "reopen after rollback and a write: " + err.Error()
					return
				}
				want := modelAfter(q)
				want.Docs["post"] = 2
				if bad := want.Check(i3, append([]string{"post"}, ids...), keys); len(bad) > 0 {
					res = "state after rollback, a write and a reopen: " + strings.Join(bad, "; ")
				}
				i3.Close()
			}
		})
		os.RemoveAll(cp)
		if werr != "" {
			res = "recovery " + werr
		}
		if res != "" {
			c.Fail("state-after-rollback", "rollback point %d carries seq=%d but: %s", pi, q, res)
			return
		}
		c.Count("rollback_points_exercised", 1)
	}
	c.Observe("points:" + strings.Join(qs, ","))
}

func Scenarios() []drv.Scenario {
	d0 := []drv.Phase{{Bound: 0}}
	words := lww.Words("ubdxz", 2)
	if mc.Tier() != "thorough" {
		words = lww.Words("bdz", 2) // every rollback point of every execution is rolled back to and reopened: keep quick small
	}
	plainWords := lww.Words("ubdwxz", 2)
	if mc.Tier() == "thorough" {
		plainWords = lww.Words(lww.FamilyAlphabet+"z", 3)
	}
	gdoc := "gated workload family: every word over the batch-shape alphabet x every member of the gate menu (single gates) x numSnapshotsToKeep {2,10} (environment choices); after a clean Close EVERY rollback point offered is rolled back to on a copy, opened, compared with the model state its internal value names, written to and reopened"
	return []drv.Scenario{
		{Name: "sched:gated-family-unsafe-2-persister-workers", Doc: gdoc, After: after, Class: "sched", Quick: d0, Thorough: d0,
			Body: bodyGatedFamily(map[string]interface{}{"unsafe_batch": true, "scorchPersisterOptions": map[string]interface{}{"NumPersisterWorkers": 2, "MaxSizeInMemoryMergePerWorker": 1}}, words, true)},
		{Name: "sched:gated-family-safe-default-merges", Doc: gdoc, After: after, Class: "sched", Thorough: d0,
			Body: bodyGatedFamily(nil, words, true)},
		{Name: "sched:gated-family-safe-nomerge", Doc: gdoc, After: after, Class: "sched", Thorough: d0,
			Body: bodyGatedFamily(map[string]interface{}{"scorchMergePlanOptions": bx.NoMergePlan}, words, true)},
		{Name: "sched:family-safe-nomerge", Doc: "un-gated workload family with merging suppressed: every word over the batch-shape alphabet x numSnapshotsToKeep {2,10}; the recorded snapshots keep several segments with DIFFERENT deletion bitmaps; every rollback point is exercised", After: after, Class: "sched", Quick: d0, Thorough: d0,
			Body: bodyGatedFamily(map[string]interface{}{"scorchMergePlanOptions": bx.NoMergePlan}, plainWords, false)},
		{Name: "sched:family-safe-partial-merges", Doc: "the same with the partial merge plan (kept segments with deletions next to merged ones)", After: after, Class: "sched", Quick: d0, Thorough: d0,
			Body: bodyGatedFamily(map[string]interface{}{"scorchMergePlanOptions": bx.PartialMergePlan}, plainWords, false)},
		{Name: "sched:unsafe-inmemory-merge-window-keep10", Body: body(10), After: after, Class: "sched",
			Quick: []drv.Phase{{Bound: 1, Filter: "restricted"}}, Thorough: []drv.Phase{{Bound: 1}, {Bound: 2, Filter: "restricted"}}},
		{Name: "sched:unsafe-inmemory-merge-window-keep2", Body: body(2), After: after, Class: "sched",
			Thorough: []drv.Phase{{Bound: 1}}},
	}
}

func Describe(r *mc.Run) {
	r.Rule("E3 companion of C13: the persister is parked (public event callback) while two unsafe batches pile up, then released together with a low-priority client thread issuing a delete-only batch; all schedules within the deviation bound; after Close every rollback point offered is rolled back to on a copy, opened and compared with the model state its internal value names")
	_ = bx.CopyConfig
}
