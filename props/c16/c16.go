// Package c16: a mapping survives its JSON form; reopened indexes map documents identically.
//
// E2: mapping trees are enumerated as cartesian products of small alphabets (four families:
// field mapping, document mapping, index level, custom analysis components); every valid
// member m is serialised and parsed back (m2) and the two are compared by
//
//	(1) m2.Validate(),
//	(2) Marshal(m2) == Marshal(m), also for a second round trip,
//	(3) a reflection walk over every exported field of the two mapping trees (independent of
//	    the JSON tags: catches an option that is neither written nor read),
//	(4) MapDocument + Analyze (+ composite _all composition, as the indexers do) of every
//	    document of a document alphabet: same fields with the same name, Go type, options,
//	    array positions, value, analysed length and token frequencies/locations,
//	(5) the mapping's query-side answers (analyzer name, field mapping, date parser per path),
//	(6) for a subset, a real create / index / Close / Open cycle on disk: Index.Mapping() of
//	    the reopened index is compared as in (2)-(4) and documents indexed before the close
//	    and after the reopen are stored identically.
package c16

import (
	"encoding/json"
	"fmt"
	"net"
	"os"
	"path/filepath"
	"reflect"
	"sort"
	"strings"
	"time"

	"github.com/blevesearch/bleve/v2"
	_ "github.com/blevesearch/bleve/v2/config"
	"github.com/blevesearch/bleve/v2/document"
	"github.com/blevesearch/bleve/v2/mapping"
	index "github.com/blevesearch/bleve_index_api"

	"verif/mc"
)

// ---------------------------------------------------------------------------------------
// specification of one mapping tree (JSON-able: it is the replay)

type docSpec struct {
	Enabled     bool   `json:"enabled"`
	Dynamic     bool   `json:"dynamic"`
	DefAnalyzer string `json:"default_analyzer,omitempty"`
	Nested      bool   `json:"nested,omitempty"`
	StructTag   string `json:"struct_tag_key,omitempty"`
}

type customSpec struct {
	CharFilters  []string `json:"char_filters,omitempty"`
	Tokenizer    string   `json:"tokenizer,omitempty"`
	TokenFilters []string `json:"token_filters,omitempty"`
	IfaceSlices  bool     `json:"lists_as_interface_slices,omitempty"`
	IntNumbers   bool     `json:"numbers_as_go_int,omitempty"`
	Synonyms     bool     `json:"synonym_source,omitempty"`
}

type spec struct {
	Family string `json:"family"`
	// the field mapping under test, placed at default.v, default.w (with a second field),
	// default.arr (renamed), default.sub.v, default.off.v (disabled parent), types.ty.v
	FType     string `json:"field_type"`
	Mask      int    `json:"field_option_mask"` // 1 store 2 index 4 term vectors 8 include_in_all 16 docvalues 32 skip_freq_norm
	FAnalyzer string `json:"field_analyzer,omitempty"`
	FDate     string `json:"field_date_format,omitempty"`
	FExtra    bool   `json:"field_extra_keys,omitempty"` // dims / similarity / vector_index_optimized_for / gpu set too
	// document mappings
	Default     docSpec `json:"default_mapping"`
	Type        docSpec `json:"type_mapping"`
	Sub         docSpec `json:"sub_mapping"`
	AllDisabled bool    `json:"all_field_disabled,omitempty"`
	NTypes      int     `json:"type_mappings"`
	// index level
	DefType   string      `json:"default_type"`
	TypeField string      `json:"type_field"`
	DefField  string      `json:"default_field"`
	DefAn     string      `json:"default_analyzer"`
	DefDate   string      `json:"default_datetime_parser"`
	Dyn       int         `json:"dynamic_mask"` // 1 store_dynamic 2 index_dynamic 4 docvalues_dynamic
	Scoring   string      `json:"scoring_model,omitempty"`
	Custom    *customSpec `json:"custom_analysis,omitempty"`
}

var optNames = []string{"store", "index", "include_term_vectors", "include_in_all", "docvalues", "skip_freq_norm"}

func baseSpec(fam string) spec {
	on := docSpec{Enabled: true, Dynamic: true}
	return spec{Family: fam, FType: "text", Mask: 0x1f, Default: on, Type: on, Sub: on, NTypes: 1,
		DefType: "_default", TypeField: "_type", DefField: "_all", DefAn: "standard", DefDate: "dateTimeOptional", Dyn: 7}
}

func (s spec) fieldMapping() *mapping.FieldMapping {
	fm := &mapping.FieldMapping{Type: s.FType, Analyzer: s.FAnalyzer, DateFormat: s.FDate,
		Store: s.Mask&1 != 0, Index: s.Mask&2 != 0, IncludeTermVectors: s.Mask&4 != 0,
		IncludeInAll: s.Mask&8 != 0, DocValues: s.Mask&16 != 0, SkipFreqNorm: s.Mask&32 != 0}
	if s.FExtra {
		fm.Dims = 3
		fm.Similarity = "dot_product"
		fm.VectorIndexOptimizedFor = "recall"
		fm.GPU = true
	}
	return fm
}

func (d docSpec) mk() *mapping.DocumentMapping {
	dm := bleve.NewDocumentMapping()
	dm.Enabled, dm.Dynamic, dm.DefaultAnalyzer, dm.Nested, dm.StructTagKey = d.Enabled, d.Dynamic, d.DefAnalyzer, d.Nested, d.StructTag
	return dm
}

// custom component pool (Go-native configuration values, as a user of the Go API writes them)
func num(s spec, v int) interface{} {
	if s.Custom != nil && s.Custom.IntNumbers {
		return v
	}
	return float64(v)
}

func strList(s spec, l ...string) interface{} {
	if s.Custom != nil && s.Custom.IfaceSlices {
		r := make([]interface{}, len(l))
		for i := range l {
			r[i] = l[i]
		}
		return r
	}
	return l
}

// defineCustom registers the whole component pool needed by the spec; error = not a valid mapping.
func defineCustom(m *mapping.IndexMappingImpl, s spec) error {
	c := s.Custom
	type def struct {
		name string
		f    func(string, map[string]interface{}) error
		cfg  map[string]interface{}
	}
	uses := func(n string) bool {
		if n == c.Tokenizer {
			return true
		}
		for _, x := range append(append([]string{}, c.CharFilters...), c.TokenFilters...) {
			if x == n {
				return true
			}
		}
		return false
	}
	needMap := false
	for _, n := range c.TokenFilters {
		switch n {
		case "tf_stop", "tf_elision", "tf_kw", "tf_dict":
			needMap = true
		}
	}
	var defs []def
	if uses("cf_re") {
		defs = append(defs, def{"cf_re", m.AddCustomCharFilter, map[string]interface{}{"type": "regexp", "regexp": "[0-9]+", "replace": "#"}})
	}
	if uses("cf_html") {
		defs = append(defs, def{"cf_html", m.AddCustomCharFilter, map[string]interface{}{"type": "html"}})
	}
	if uses("tk_re") || uses("tk_exc") {
		defs = append(defs, def{"tk_re", m.AddCustomTokenizer, map[string]interface{}{"type": "regexp", "regexp": "[A-Za-z']+"}})
	}
	if uses("tk_exc") {
		// exceptions accepts []string (Go) and []interface{} (JSON); remaining input by the custom regexp tokenizer
		defs = append(defs, def{"tk_exc", m.AddCustomTokenizer, map[string]interface{}{"type": "exception", "exceptions": strList(s, "[A-Z][a-z]+ [A-Z][a-z]+"), "tokenizer": "tk_re"}})
	}
	if needMap {
		defs = append(defs, def{"tm", m.AddCustomTokenMap, map[string]interface{}{"type": "custom", "tokens": []interface{}{"world", "World", "run", "l", "quick"}}})
	}
	tf := map[string]map[string]interface{}{
		"tf_stop":    {"type": "stop_tokens", "stop_token_map": "tm"},
		"tf_ngram":   {"type": "ngram", "min": num(s, 2), "max": num(s, 3)},
		"tf_trunc":   {"type": "truncate_token", "length": float64(3)},
		"tf_len":     {"type": "length", "min": float64(2), "max": float64(5)},
		"tf_shingle": {"type": "shingle", "min": float64(2), "max": float64(2), "output_original": true, "separator": "_", "filler": "-"},
		"tf_edge":    {"type": "edge_ngram", "back": true, "min": float64(1), "max": float64(2)},
		"tf_norm":    {"type": "normalize_unicode", "form": "nfkc"},
		"tf_elision": {"type": "elision", "articles_token_map": "tm"},
		"tf_kw":      {"type": "keyword_marker", "keywords_token_map": "tm"},
		"tf_dict":    {"type": "dict_compound", "dict_token_map": "tm", "min_word_size": float64(4), "min_subword_size": float64(2), "max_subword_size": float64(6), "only_longest_match": false},
	}
	for _, n := range c.TokenFilters {
		if cfg, ok := tf[n]; ok {
			dup := false
			for _, d := range defs {
				dup = dup || d.name == n
			}
			if !dup {
				defs = append(defs, def{n, m.AddCustomTokenFilter, cfg})
			}
		}
	}
	for _, d := range defs {
		if err := d.f(d.name, d.cfg); err != nil {
			return fmt.Errorf("%s: %v", d.name, err)
		}
	}
	an := map[string]interface{}{"type": "custom", "tokenizer": c.Tokenizer}
	if len(c.CharFilters) > 0 {
		an["char_filters"] = strList(s, c.CharFilters...)
	}
	if len(c.TokenFilters) > 0 {
		an["token_filters"] = strList(s, c.TokenFilters...)
	}
	if err := m.AddCustomAnalyzer("cust", an); err != nil {
		return fmt.Errorf("cust: %v", err)
	}
	if c.Synonyms {
		if err := m.AddSynonymSource("syn", map[string]interface{}{"collection": "c1", "analyzer": "cust"}); err != nil {
			return fmt.Errorf("syn: %v", err)
		}
	}
	return nil
}

var customDates = map[string]map[string]interface{}{
	"dp_flex": {"type": "flexiblego", "layouts": []interface{}{"02/01/2006", time.RFC3339}},
	"dp_san":  {"type": "sanitizedgo", "layouts": []interface{}{"02/01/2006"}},
	"dp_pct":  {"type": "percentstyle", "layouts": []interface{}{"%d/%m/%Y"}},
	"dp_iso":  {"type": "isostyle", "layouts": []interface{}{"dd/MM/yyyy"}},
}

// build constructs the mapping through the Go API only.
func build(s spec) (m *mapping.IndexMappingImpl, err error) {
	m = bleve.NewIndexMapping()
	usesCust := s.FAnalyzer == "cust" || s.DefAn == "cust" || s.Default.DefAnalyzer == "cust" || s.Type.DefAnalyzer == "cust" || s.Sub.DefAnalyzer == "cust"
	if s.Custom == nil && usesCust {
		s.Custom = &customSpec{Tokenizer: "tk_re", TokenFilters: []string{"to_lower", "tf_stop"}, CharFilters: []string{"cf_re"}}
	}
	if s.Custom != nil {
		if err := defineCustom(m, s); err != nil {
			return nil, err
		}
	}
	for _, n := range []string{s.FDate, s.DefDate} {
		if cfg, ok := customDates[n]; ok {
			if _, done := m.CustomAnalysis.DateTimeParsers[n]; !done {
				if err := m.AddCustomDateTimeParser(n, cfg); err != nil {
					return nil, err
				}
			}
		}
	}
	fm := s.fieldMapping()
	dflt := s.Default.mk()
	dflt.AddFieldMappingsAt("v", fm)
	// a property with two field mappings: the one under test and a fixed keyword text copy under another name
	second := bleve.NewKeywordFieldMapping()
	second.Name = "w_kw"
	second.IncludeInAll = false
	dflt.AddFieldMappingsAt("w", fm, second)
	renamed := *fm
	renamed.Name = "renamed"
	dflt.AddFieldMappingsAt("arr", &renamed)
	mkSub := func() *mapping.DocumentMapping {
		sub := s.Sub.mk()
		sub.AddFieldMappingsAt("v", fm)
		return sub
	}
	dflt.AddSubDocumentMapping("sub", mkSub())
	off := bleve.NewDocumentDisabledMapping()
	off.AddFieldMappingsAt("v", fm)
	dflt.AddSubDocumentMapping("off", off)
	if s.AllDisabled {
		dflt.AddSubDocumentMapping("_all", bleve.NewDocumentDisabledMapping())
	}
	if s.Custom != nil && s.Custom.Synonyms {
		sf := *fm
		sf.Name = "v_syn"
		sf.SynonymSource = "syn"
		dflt.AddFieldMappingsAt("v", &sf)
		dflt.DefaultSynonymSource = "syn"
		m.DefaultSynonymSource = "syn"
	}
	m.DefaultMapping = dflt
	if s.NTypes >= 1 {
		ty := s.Type.mk()
		ty.AddFieldMappingsAt("v", fm)
		ty.AddSubDocumentMapping("sub", mkSub())
		m.AddDocumentMapping("ty", ty)
	}
	if s.NTypes >= 2 {
		// a static second type whose field has the complementary options
		inv := *fm
		inv.Store, inv.Index, inv.IncludeTermVectors, inv.IncludeInAll, inv.DocValues, inv.SkipFreqNorm = !fm.Store, !fm.Index, !fm.IncludeTermVectors, !fm.IncludeInAll, !fm.DocValues, !fm.SkipFreqNorm
		ty2 := bleve.NewDocumentStaticMapping()
		ty2.AddFieldMappingsAt("v", &inv)
		m.AddDocumentMapping("ty2", ty2)
	}
	m.DefaultType, m.TypeField, m.DefaultField, m.DefaultAnalyzer, m.DefaultDateTimeParser = s.DefType, s.TypeField, s.DefField, s.DefAn, s.DefDate
	m.StoreDynamic, m.IndexDynamic, m.DocValuesDynamic = s.Dyn&1 != 0, s.Dyn&2 != 0, s.Dyn&4 != 0
	m.ScoringModel = s.Scoring
	return m, nil
}

// ---------------------------------------------------------------------------------------
// document alphabet

type structDoc struct {
	V   string  `json:"v" alt:"w"`
	W   float64 `json:"w" alt:"v"`
	Sub struct {
		V string `json:"v" alt:"x"`
		X string `json:"x" alt:"v"`
	} `json:"sub" alt:"sub"`
	Skip string `json:"-" alt:"dyn"`
	Dyn  bool   `json:"dyn" alt:"-"`
	kind string
}

func (s structDoc) Type() string { return s.kind }

type namedDoc struct {
	name string
	data interface{}
	// families that map this document in the quick tier ("" = all); the thorough tier maps every
	// document under every mapping
	quickFams string
}

var t0 = time.Date(2020, 1, 2, 3, 4, 5, 0, time.UTC)

func docAlphabet() []namedDoc {
	type M = map[string]interface{}
	type A = []interface{}
	vals := []struct {
		kind string
		v    interface{}
		v2   interface{}
	}{
		{"text", "Hello World's <b>running</b> quickly 42", "l'ami c"},
		{"datestr", "2020-01-02T03:04:05Z", "2021-05-06"},
		{"datecustom", "02/01/2020", "03/02/2021"},
		{"ipstr", "192.168.1.1", "::1"},
		{"float", 1.5, -2.0},
		{"int", int(7), uint8(3)},
		{"bool", true, false},
		{"geomap", M{"lon": 1.5, "lat": 2.5}, M{"lng": -1.5, "lat": -2.5}},
		{"geostr", "2.5,1.5", "s3y0zh7w1z0g"},
		{"geoslice", A{1.5, 2.5}, A{-1.5, -2.5}},
		{"shape", M{"type": "point", "coordinates": A{1.5, 2.5}}, M{"type": "linestring", "coordinates": A{A{1.0, 2.0}, A{3.0, 4.0}}}},
		{"time", t0, t0.Add(36 * time.Hour)},
		{"strings", A{"a b", "c"}, A{}},
		{"nil", nil, "after nil"},
		{"netip", net.ParseIP("10.0.0.1").To4(), net.ParseIP("::2")},
	}
	var docs []namedDoc
	for _, x := range vals {
		fams := "field"
		switch x.kind {
		case "text", "datestr", "float", "strings":
			fams = ""
		case "datecustom":
			fams = "field,index,analysis"
		case "bool":
			fams = "field,index"
		}
		docs = append(docs, namedDoc{"kind=" + x.kind, M{"v": x.v, "w": x.v, "arr": A{x.v, x.v2}, "sub": M{"v": x.v, "x": x.v2}, "off": M{"v": x.v, "y": x.v2}, "dyn": x.v, "deep": M{"er": M{"dyn": x.v2}}}, fams})
	}
	// type dispatch
	for i, x := range vals[:6] {
		f1, f2 := "field,index", "index"
		if i == 0 {
			f1, f2 = "", "index,document"
		} else if i >= 3 {
			f1, f2 = "field", "-"
		}
		docs = append(docs,
			namedDoc{"_type=ty kind=" + x.kind, M{"_type": "ty", "v": x.v, "sub": M{"v": x.v, "x": x.v2}, "dyn": x.v}, f1},
			namedDoc{"kind=ty kind=" + x.kind, M{"kind": "ty", "v": x.v, "sub": M{"v": x.v2}, "dyn": x.v2}, f2},
			namedDoc{"meta.kind=ty2 kind=" + x.kind, M{"meta": M{"kind": "ty2"}, "v": x.v, "dyn": x.v}, f2},
			namedDoc{"_type=unknown kind=" + x.kind, M{"_type": "nosuch", "v": x.v, "dyn": x.v}, f2},
		)
	}
	// array of objects under the (possibly nested) sub mapping
	docs = append(docs,
		namedDoc{"sub=array-of-objects", M{"v": "top", "sub": A{M{"v": "one two"}, M{"v": "two", "x": 3.0}, "scalar", nil}}, "field,document,index"},
		namedDoc{"sub=array-of-objects _type=ty", M{"_type": "ty", "sub": A{M{"v": "one"}, M{"v": 2.0, "x": "x"}}}, "field,document"},
	)
	// structs (reflect.Struct walk, struct_tag_key, Classifier)
	sd := structDoc{V: "Struct Value running", W: 2.5, Skip: "skipped", Dyn: true}
	sd.Sub.V, sd.Sub.X = "inner struct", "inner x"
	sd2 := sd
	sd2.kind = "ty"
	docs = append(docs, namedDoc{"struct", sd, "field,document,analysis"}, namedDoc{"struct Type()=ty", &sd2, "document,index"})
	// scalars and empties at top level
	docs = append(docs, namedDoc{"empty", M{}, "document"}, namedDoc{"top-level string", "just a string", "document"}, namedDoc{"nil document", nil, "document"})
	return docs
}

// ---------------------------------------------------------------------------------------
// rendering of what a mapping does to a document

type fieldLine struct {
	key    string // name + array positions + ordinal
	typ    string
	opts   string
	value  string
	tokens string
}

func renderTokens(tfs index.TokenFrequencies) string {
	var toks []string
	for term, tf := range tfs {
		var locs []string
		for _, l := range tf.Locations {
			locs = append(locs, fmt.Sprintf("%s@%d[%d:%d]%v", l.Field, l.Position, l.Start, l.End, l.ArrayPositions))
		}
		sort.Strings(locs)
		toks = append(toks, fmt.Sprintf("%q×%d{%s}", term, tf.Frequency(), strings.Join(locs, " ")))
	}
	sort.Strings(toks)
	return strings.Join(toks, ",")
}

// renderDoc maps data under m and returns the canonical field lines (sorted), or an error text.
func renderDoc(m mapping.IndexMapping, data interface{}) (lines []fieldLine, errText string) {
	d := document.NewDocument("x")
	if err := m.MapDocument(d, data); err != nil {
		return nil, "MapDocument error: " + err.Error()
	}
	var walk func(prefix string, d *document.Document)
	walk = func(prefix string, d *document.Document) {
		var composites []index.CompositeField
		d.VisitComposite(func(cf index.CompositeField) { composites = append(composites, cf) })
		seen := map[string]int{}
		d.VisitFields(func(f index.Field) {
			if _, isComposite := f.(index.CompositeField); isComposite {
				return
			}
			fl := fieldLine{typ: fmt.Sprintf("%T", f), opts: f.Options().String() + fmt.Sprintf("(%d)", int(f.Options())), value: fmt.Sprintf("%q", f.Value())}
			if dt, ok := f.(*document.DateTimeField); ok {
				t, layout, err := dt.DateTime()
				fl.value += fmt.Sprintf(" time=%s layout=%q err=%v", t.UTC().Format(time.RFC3339Nano), layout, err)
			}
			if f.Options().IsIndexed() {
				f.Analyze()
				fl.tokens = fmt.Sprintf("len=%d %s", f.AnalyzedLength(), renderTokens(f.AnalyzedTokenFrequencies()))
				if f.Name() != "_id" {
					for _, cf := range composites {
						cf.Compose(f.Name(), f.AnalyzedLength(), f.AnalyzedTokenFrequencies())
					}
				}
			}
			k := fmt.Sprintf("%s%s%v", prefix, f.Name(), f.ArrayPositions())
			seen[k]++
			fl.key = fmt.Sprintf("%s#%d", k, seen[k])
			lines = append(lines, fl)
		})
		for _, cf := range composites {
			lines = append(lines, fieldLine{key: prefix + "composite:" + cf.Name(), typ: fmt.Sprintf("%T", cf), opts: fmt.Sprint(int(cf.Options())),
				tokens: fmt.Sprintf("len=%d %s", cf.AnalyzedLength(), renderTokens(cf.AnalyzedTokenFrequencies()))})
		}
		lines = append(lines, fieldLine{key: prefix + "(indexed)", value: fmt.Sprint(d.Indexed())})
		d.VisitNestedDocuments(func(nd index.Document) {
			if dd, ok := nd.(*document.Document); ok {
				walk(prefix+"nested("+dd.ID()+")/", dd)
			}
		})
	}
	walk("", d)
	// fields with identical key and different content: make the order canonical
	sort.Slice(lines, func(i, j int) bool {
		a, b := lines[i], lines[j]
		if a.key != b.key {
			return a.key < b.key
		}
		return a.typ+a.opts+a.value+a.tokens < b.typ+b.opts+b.value+b.tokens
	})
	return lines, ""
}

// diffLines names the first aspect in which two renderings differ ("" = equal).
func diffLines(a, b []fieldLine) (aspect, detail string) {
	// sort by (name without ordinal, content) so that permutations inside one name do not matter
	norm := func(l []fieldLine) map[string][]fieldLine {
		m := map[string][]fieldLine{}
		for _, x := range l {
			k := x.key[:strings.LastIndex(x.key+"#", "#")]
			m[k] = append(m[k], x)
		}
		for _, v := range m {
			sort.Slice(v, func(i, j int) bool {
				return v[i].typ+v[i].opts+v[i].value+v[i].tokens < v[j].typ+v[j].opts+v[j].value+v[j].tokens
			})
		}
		return m
	}
	ma, mb := norm(a), norm(b)
	var keys []string
	for k := range ma {
		keys = append(keys, k)
	}
	for k := range mb {
		if _, ok := ma[k]; !ok {
			keys = append(keys, k)
		}
	}
	sort.Strings(keys)
	for _, k := range keys {
		la, lb := ma[k], mb[k]
		if len(la) != len(lb) {
			if len(la) > len(lb) {
				return "field-lost", fmt.Sprintf("field %s: %d before, %d after", k, len(la), len(lb))
			}
			return "field-added", fmt.Sprintf("field %s: %d before, %d after", k, len(la), len(lb))
		}
		for i := range la {
			x, y := la[i], lb[i]
			switch {
			case x.typ != y.typ:
				return "field-type", fmt.Sprintf("field %s: %s → %s", k, x.typ, y.typ)
			case x.opts != y.opts:
				return "field-options", fmt.Sprintf("field %s: options %s → %s", k, x.opts, y.opts)
			case x.value != y.value:
				return "field-value", fmt.Sprintf("field %s: value %s → %s", k, x.value, y.value)
			case x.tokens != y.tokens:
				if strings.Contains(k, "composite:") {
					return "composite-terms", fmt.Sprintf("%s: %s → %s", k, clip(x.tokens), clip(y.tokens))
				}
				return "analysed-terms", fmt.Sprintf("field %s: %s → %s", k, clip(x.tokens), clip(y.tokens))
			}
		}
	}
	return "", ""
}

func clip(s string) string {
	if len(s) > 300 {
		return s[:300] + "…"
	}
	return s
}

// ---------------------------------------------------------------------------------------
// structural comparison of two mapping trees through reflection (exported fields only)

func isEmptyish(v reflect.Value) bool {
	switch v.Kind() {
	case reflect.Map, reflect.Slice:
		return v.Len() == 0
	case reflect.Ptr, reflect.Interface:
		return v.IsNil()
	}
	return false
}

// treeDiff returns the abstract path of the first difference ("" = none). Names of map entries are
// abstracted to * and slice indexes to [] so that the path names a kind of place, not an instance.
func treeDiff(a, b reflect.Value, path string) string {
	for a.IsValid() && (a.Kind() == reflect.Ptr || a.Kind() == reflect.Interface) && !a.IsNil() {
		a = a.Elem()
	}
	for b.IsValid() && (b.Kind() == reflect.Ptr || b.Kind() == reflect.Interface) && !b.IsNil() {
		b = b.Elem()
	}
	if !a.IsValid() || !b.IsValid() {
		if a.IsValid() != b.IsValid() && !(a.IsValid() && isEmptyish(a)) && !(b.IsValid() && isEmptyish(b)) {
			return path
		}
		return ""
	}
	if isEmptyish(a) && isEmptyish(b) {
		return ""
	}
	isNum := func(v reflect.Value) (float64, bool) {
		switch v.Kind() {
		case reflect.Int, reflect.Int8, reflect.Int16, reflect.Int32, reflect.Int64:
			return float64(v.Int()), true
		case reflect.Uint, reflect.Uint8, reflect.Uint16, reflect.Uint32, reflect.Uint64:
			return float64(v.Uint()), true
		case reflect.Float32, reflect.Float64:
			return v.Float(), true
		}
		return 0, false
	}
	if x, ok := isNum(a); ok {
		if y, ok2 := isNum(b); !ok2 || x != y {
			return path
		}
		return ""
	}
	if (a.Kind() == reflect.Slice || a.Kind() == reflect.Array) && (b.Kind() == reflect.Slice || b.Kind() == reflect.Array) {
		if a.Len() != b.Len() {
			return path + "[]"
		}
		for i := 0; i < a.Len(); i++ {
			if d := treeDiff(a.Index(i), b.Index(i), path+"[]"); d != "" {
				return d
			}
		}
		return ""
	}
	if a.Kind() != b.Kind() {
		if isEmptyish(a) || isEmptyish(b) {
			return path
		}
		return path
	}
	switch a.Kind() {
	case reflect.Struct:
		for i := 0; i < a.NumField(); i++ {
			f := a.Type().Field(i)
			if f.PkgPath != "" { // unexported (registry cache)
				continue
			}
			if d := treeDiff(a.Field(i), b.Field(i), path+"."+f.Name); d != "" {
				return d
			}
		}
	case reflect.Map:
		keys := map[string]bool{}
		for _, k := range a.MapKeys() {
			keys[fmt.Sprint(k.Interface())] = true
		}
		for _, k := range b.MapKeys() {
			keys[fmt.Sprint(k.Interface())] = true
		}
		var ks []string
		for k := range keys {
			ks = append(ks, k)
		}
		sort.Strings(ks)
		for _, k := range ks {
			kv := reflect.ValueOf(k)
			if a.Type().Key().Kind() != reflect.String {
				continue
			}
			name := "*"
			// configuration maps of custom components: the key is an option name, keep it
			if a.Type().Elem().Kind() == reflect.Interface {
				name = k
			}
			if d := treeDiff(a.MapIndex(kv.Convert(a.Type().Key())), b.MapIndex(kv.Convert(b.Type().Key())), path+"."+name); d != "" {
				return d
			}
		}
	case reflect.String:
		if a.String() != b.String() {
			return path
		}
	case reflect.Bool:
		if a.Bool() != b.Bool() {
			return path
		}
	default:
		if fmt.Sprint(a.Interface()) != fmt.Sprint(b.Interface()) {
			return path
		}
	}
	return ""
}

// jsonDiff returns the abstract key path of the first difference of two JSON texts.
func jsonDiff(a, b []byte) string {
	var x, y interface{}
	if json.Unmarshal(a, &x) != nil || json.Unmarshal(b, &y) != nil {
		return "(unparseable)"
	}
	var rec func(x, y interface{}, path string, abstractKeys bool) string
	rec = func(x, y interface{}, path string, abstractKeys bool) string {
		switch xv := x.(type) {
		case map[string]interface{}:
			yv, ok := y.(map[string]interface{})
			if !ok {
				return path
			}
			keys := map[string]bool{}
			for k := range xv {
				keys[k] = true
			}
			for k := range yv {
				keys[k] = true
			}
			var ks []string
			for k := range keys {
				ks = append(ks, k)
			}
			sort.Strings(ks)
			for _, k := range ks {
				name := k
				if abstractKeys {
					name = "*"
				}
				xc, xok := xv[k]
				yc, yok := yv[k]
				if xok != yok {
					return path + "." + name
				}
				abs := false
				switch k {
				case "properties", "types", "char_filters", "tokenizers", "token_maps", "token_filters", "analyzers", "date_time_parsers", "synonym_sources":
					_, isMap := xc.(map[string]interface{})
					abs = isMap && !abstractKeys
				}
				if d := rec(xc, yc, path+"."+name, abs); d != "" {
					return d
				}
			}
			return ""
		case []interface{}:
			yv, ok := y.([]interface{})
			if !ok || len(xv) != len(yv) {
				return path + "[]"
			}
			for i := range xv {
				if d := rec(xv[i], yv[i], path+"[]", false); d != "" {
					return d
				}
			}
			return ""
		default:
			if !reflect.DeepEqual(x, y) {
				return path
			}
			return ""
		}
	}
	return rec(x, y, "", false)
}

// ---------------------------------------------------------------------------------------
// the check of one mapping

var probePaths = []string{"v", "w", "w_kw", "renamed", "arr", "sub.v", "sub.x", "off.v", "dyn", "_all", "nosuch"}

func queryView(m *mapping.IndexMappingImpl, ntypes int) string {
	var sb strings.Builder
	fmt.Fprintf(&sb, "default_search_field=%q", m.DefaultSearchField())
	for _, p := range probePaths {
		fmt.Fprintf(&sb, " | %s:an=%q", p, m.AnalyzerNameForPath(p))
		fm := m.FieldMappingForPath(p)
		fmt.Fprintf(&sb, " fm=%+v", fm)
		if m.AnalyzerNamed(m.AnalyzerNameForPath(p)) == nil {
			sb.WriteString(" analyzer-missing")
		}
		if m.DateTimeParserNamed(fm.DateFormat) == nil {
			sb.WriteString(" dateparser-missing")
		}
	}
	if nm, ok := interface{}(m).(mapping.NestedMapping); ok {
		fmt.Fprintf(&sb, " | nested=%d", nm.CountNested())
	}
	return sb.String()
}

type checker struct {
	r    *mc.Run
	docs []namedDoc
	sel  map[string][]int // family -> document indexes used
}

// docsFor returns the documents mapped under mappings of a family.
func (c *checker) docsFor(fam string) []int {
	if i := strings.Index(fam, "-"); i > 0 {
		fam = fam[:i]
	}
	return c.sel[fam]
}

func (c *checker) selectDocs() {
	c.sel = map[string][]int{}
	for _, fam := range []string{"field", "document", "index", "analysis"} {
		for i, d := range c.docs {
			// custom analysis only shows on text and date values: that family keeps its selection in both tiers
			if (!c.r.Quick() && fam != "analysis") || d.quickFams == "" || strings.Contains(","+d.quickFams+",", ","+fam+",") {
				c.sel[fam] = append(c.sel[fam], i)
			}
		}
	}
}

func (c *checker) report(s spec, b1 []byte, stage, root, aspect, detail string, doc *namedDoc) {
	class := stage
	if root != "" {
		class += ":" + root
	}
	if aspect != "" {
		class += ":" + aspect
	}
	rep := map[string]any{"spec": s, "mapping_json_before": string(b1), "stage": stage}
	if doc != nil {
		rep["document_name"] = doc.name
		rep["document"] = fmt.Sprintf("%#v", doc.data)
	}
	c.r.Violation(class, fmt.Sprintf("%s [%s]; mapping %s", detail, specShort(s), clip(string(b1))), rep)
}

func specShort(s spec) string {
	var on []string
	for i, n := range optNames {
		if s.Mask&(1<<i) != 0 {
			on = append(on, n)
		}
	}
	return fmt.Sprintf("family=%s field{type=%s opts=%v analyzer=%q date_format=%q} default=%+v type=%+v sub=%+v ntypes=%d index{default_type=%q type_field=%q default_field=%q analyzer=%q date=%q dyn=%03b scoring=%q} custom=%+v",
		s.Family, s.FType, on, s.FAnalyzer, s.FDate, s.Default, s.Type, s.Sub, s.NTypes, s.DefType, s.TypeField, s.DefField, s.DefAn, s.DefDate, s.Dyn, s.Scoring, s.Custom)
}

// compareMappings runs clauses (2)-(5) for m (with JSON b1) against m2; stage names where m2 came from.
func (c *checker) compareMappings(s spec, stage string, m, m2 *mapping.IndexMappingImpl, b1 []byte) (ok bool, nfields int) {
	// all discrepancies of one mapping are one counterexample; its class is the place in the mapping
	// tree where the two mappings differ (the root cause) when there is one, else the first symptom
	type finding struct {
		kind, aspect, detail string
		doc                  *namedDoc
	}
	var found []finding
	add := func(kind, aspect, detail string, doc *namedDoc) {
		if len(found) < 4 {
			found = append(found, finding{kind, aspect, detail, doc})
		}
		ok = false
	}
	ok = true
	b2, err := json.Marshal(m2)
	if err != nil {
		c.report(s, b1, stage+"/marshal-error", "", "", "re-marshal failed: "+err.Error(), nil)
		return false, 0
	}
	root := ""
	if string(b1) != string(b2) {
		root = jsonDiff(b1, b2)
		if root == "" {
			root = "(key order or formatting)"
		}
		add("json-changed", "", fmt.Sprintf("JSON after the round trip differs at %s: %s", root, clip(string(b2))), nil)
	}
	if td := treeDiff(reflect.ValueOf(m), reflect.ValueOf(m2), ""); td != "" {
		if root == "" {
			root = "tree" + td
			add("option-lost-silently", "", "mapping trees differ at "+td+" although the JSON texts are equal", nil)
		}
		ok = false
	}
	for _, di := range c.docsFor(s.Family) {
		d := &c.docs[di]
		var l1, l2 []fieldLine
		var e1, e2 string
		pv, st := mc.Try(func() { l1, e1 = renderDoc(m, d.data); l2, e2 = renderDoc(m2, d.data) })
		c.r.Eval(1)
		if pv != nil {
			c.report(s, b1, stage+"/panic-in-MapDocument", "", "", fmt.Sprintf("doc %s: panic %v @ %s", d.name, pv, mc.TrimStack(st)), d)
			ok = false
			continue
		}
		nfields += len(l1)
		if e1 != e2 {
			add("mapdoc-differs", "error", fmt.Sprintf("doc %s: %q vs %q", d.name, e1, e2), d)
			continue
		}
		if asp, det := diffLines(l1, l2); asp != "" {
			add("mapdoc-differs", asp, fmt.Sprintf("doc %s: %s", d.name, det), d)
		}
	}
	if s.NTypes <= 1 { // with several type mappings the path lookups iterate a Go map: not a function of the mapping
		q1, q2 := queryView(m, s.NTypes), queryView(m2, s.NTypes)
		if q1 != q2 {
			add("query-view-differs", "", fmt.Sprintf("analyzer/field-mapping lookups differ:\n  before %s\n  after  %s", clip(q1), clip(q2)), nil)
		}
	}
	if len(found) > 0 {
		var det []string
		var doc *namedDoc
		for _, f := range found {
			det = append(det, f.kind+": "+f.detail)
			if doc == nil {
				doc = f.doc
			}
		}
		detail := "[" + stage + "] " + strings.Join(det, " || ")
		if root != "" {
			c.report(s, b1, "changed", abstractRoot(root), "", detail, doc)
		} else {
			c.report(s, b1, strings.TrimPrefix(stage, "strict:")+"/"+found[0].kind, "", found[0].aspect, detail, doc)
		}
	}
	return ok, nfields
}

// abstractRoot drops where in the tree of document mappings a key sits: one class per kind of key.
func abstractRoot(p string) string {
	p = strings.ReplaceAll(p, ".properties.*", "")
	p = strings.ReplaceAll(p, ".Properties.*", "")
	for _, pre := range []string{".default_mapping", ".types.*", ".DefaultMapping", ".TypeMapping.*"} {
		if strings.HasPrefix(p, pre) {
			return "<document mapping>" + p[len(pre):]
		}
		if strings.HasPrefix(p, "tree"+pre) {
			return "tree<document mapping>" + p[len("tree"+pre):]
		}
	}
	return p
}

// checkOne evaluates one spec; returns the mapping and its JSON when valid.
func (c *checker) checkOne(s spec) (m *mapping.IndexMappingImpl, b1 []byte) {
	r := c.r
	m, err := build(s)
	if err != nil {
		r.Count("invalid_mappings_skipped(component definition rejected)", 1)
		r.Outcome("invalid:define")
		return nil, nil
	}
	if err := m.Validate(); err != nil {
		r.Count("invalid_mappings_skipped(Validate)", 1)
		r.Outcome("invalid:validate")
		return nil, nil
	}
	b1, err = json.Marshal(m)
	if err != nil {
		c.report(s, nil, "marshal-error", "", "", "valid mapping does not marshal: "+err.Error(), nil)
		return nil, nil
	}
	var m2 mapping.IndexMappingImpl
	var uerr error
	if pv, st := mc.Try(func() { uerr = json.Unmarshal(b1, &m2) }); pv != nil {
		c.report(s, b1, "unmarshal-panic", "", "", fmt.Sprintf("panic %v @ %s", pv, mc.TrimStack(st)), nil)
		return nil, nil
	}
	strict := ""
	if mapping.MappingJSONStrict {
		strict = "strict:"
	}
	if uerr != nil {
		c.report(s, b1, strict+"unmarshal-error", errClass(uerr), "", "its own JSON is rejected: "+uerr.Error(), nil)
		r.Outcome("unmarshal-error")
		return nil, nil
	}
	if err := m2.Validate(); err != nil {
		c.report(s, b1, strict+"invalid-after-round-trip", errClass(err), "", "parsed mapping does not validate: "+err.Error(), nil)
		r.Outcome("invalid-after")
		return nil, nil
	}
	ok, nf := c.compareMappings(s, strict+"json", m, &m2, b1)
	// second round trip must be a fixed point too
	b2, _ := json.Marshal(&m2)
	var m3 mapping.IndexMappingImpl
	if err := json.Unmarshal(b2, &m3); err != nil {
		c.report(s, b1, strict+"second-unmarshal-error", errClass(err), "", err.Error(), nil)
		ok = false
	} else if b3, _ := json.Marshal(&m3); string(b3) != string(b2) {
		c.report(s, b1, strict+"json/second-round-trip-changed", jsonDiff(b2, b3), "", "JSON changes again on the second round trip", nil)
		ok = false
	}
	r.Outcome(fmt.Sprintf("%s|ok=%v|fields=%d", s.Family, ok, bucket(nf)))
	return m, b1
}

func bucket(n int) int {
	switch {
	case n < 100:
		return n / 10 * 10
	default:
		return n / 100 * 100
	}
}

func errClass(err error) string {
	s := err.Error()
	// the innermost cause names the defect; the wrapping names the instance
	if i := strings.LastIndex(s, ": "); i >= 0 && i+2 < len(s) {
		s = s[i+2:]
	}
	// drop instance names inside quotes
	for _, q := range []string{"'", "\""} {
		for {
			i := strings.Index(s, q)
			if i < 0 {
				break
			}
			j := strings.Index(s[i+1:], q)
			if j < 0 {
				break
			}
			s = s[:i] + "…" + s[i+1+j+1:]
		}
	}
	if len(s) > 60 {
		s = s[:60]
	}
	return s
}

// ---------------------------------------------------------------------------------------
// real create / close / Open cycle

func storedView(idx bleve.Index, id string) (string, error) {
	d, err := idx.Document(id)
	if err != nil {
		return "", err
	}
	if d == nil {
		return "(absent)", nil
	}
	var lines []string
	d.VisitFields(func(f index.Field) {
		lines = append(lines, fmt.Sprintf("%s%v|%T|%q", f.Name(), f.ArrayPositions(), f, f.Value()))
	})
	sort.Strings(lines)
	return strings.Join(lines, "\n"), nil
}

func (c *checker) diskCycle(s spec, m *mapping.IndexMappingImpl, b1 []byte) {
	r := c.r
	dir := mc.ScratchDir("c16")
	defer os.RemoveAll(dir)
	p := filepath.Join(dir, "idx")
	fail := func(stage string, err error) {
		c.report(s, b1, "reopen/"+stage, errClass(err), "", stage+": "+err.Error(), nil)
	}
	var idx bleve.Index
	var err error
	if pv, st := mc.Try(func() { idx, err = bleve.New(p, m) }); pv != nil {
		c.report(s, b1, "reopen/panic-in-New", "", "", fmt.Sprintf("panic %v @ %s", pv, mc.TrimStack(st)), nil)
		return
	}
	if err != nil {
		fail("New", err)
		return
	}
	indexAll := func(prefix string) bool {
		b := idx.NewBatch()
		for _, i := range c.docsFor(s.Family) {
			d := c.docs[i]
			if d.data == nil {
				continue
			}
			if err := b.Index(fmt.Sprintf("%s%d", prefix, i), d.data); err != nil {
				fail("Batch.Index", err)
				return false
			}
		}
		if err := idx.Batch(b); err != nil {
			fail("Batch", err)
			return false
		}
		return true
	}
	if !indexAll("a") {
		idx.Close()
		return
	}
	if err := idx.Close(); err != nil {
		fail("Close", err)
		return
	}
	if pv, st := mc.Try(func() { idx, err = bleve.Open(p) }); pv != nil {
		c.report(s, b1, "reopen/panic-in-Open", "", "", fmt.Sprintf("panic %v @ %s", pv, mc.TrimStack(st)), nil)
		return
	}
	if err != nil {
		fail("Open", err)
		r.Outcome("reopen|open-error")
		return
	}
	defer idx.Close()
	m3, ok := idx.Mapping().(*mapping.IndexMappingImpl)
	if !ok {
		c.report(s, b1, "reopen/mapping-type", "", "", fmt.Sprintf("Index.Mapping() is a %T", idx.Mapping()), nil)
		return
	}
	good, _ := c.compareMappings(s, "reopen", m, m3, b1)
	// documents indexed after the reopen are stored like those indexed before the close
	if indexAll("b") {
		for _, i := range c.docsFor(s.Family) {
			d := c.docs[i]
			if d.data == nil {
				continue
			}
			va, ea := storedView(idx, fmt.Sprintf("a%d", i))
			vb, eb := storedView(idx, fmt.Sprintf("b%d", i))
			r.Eval(1)
			if ea != nil || eb != nil {
				fail("Document", fmt.Errorf("%v / %v", ea, eb))
				good = false
				continue
			}
			if va != vb && good { // when the mappings already differ this is a consequence, not a new class
				c.report(s, b1, "reopen/stored-document-differs", "", "", fmt.Sprintf("doc %s stored before close:\n%s\nstored after reopen:\n%s", d.name, clip(va), clip(vb)), &c.docs[i])
				good = false
			}
		}
		na, _ := idx.DocCount()
		r.Outcome(fmt.Sprintf("reopen|ok=%v|docs=%d", good, na))
	}
	r.Count("disk_create_close_open_cycles", 1)
}

// ---------------------------------------------------------------------------------------
// enumeration

var fieldTypes = []string{"text", "number", "boolean", "datetime", "geopoint", "geoshape", "IP"}

func bools() []bool { return []bool{true, false} }

func enumerate(r *mc.Run) []spec {
	var out []spec
	quick := r.Quick()
	// F: field mapping: type × all 64 option subsets × analyzer × date format (× dynamic on/off of all levels)
	analyzers := []string{"", "keyword", "en", "cust"}
	dates := []string{"", "dateTimeOptional", "dp_flex"}
	for _, ft := range fieldTypes {
		for mask := 0; mask < 64; mask++ {
			for _, an := range analyzers {
				for _, df := range dates {
					// analyzer only matters for text, date format only for datetime: the quick tier skips the inert combinations
					if quick && ((ft != "text" && an != "" && an != "en") || (ft != "datetime" && df != "" && df != "dp_flex")) {
						continue
					}
					for _, dyn := range bools() {
						s := baseSpec("field")
						s.FType, s.Mask, s.FAnalyzer, s.FDate = ft, mask, an, df
						s.Default.Dynamic, s.Type.Dynamic, s.Sub.Dynamic = dyn, !dyn, dyn
						s.Dyn = 7 &^ (mask & 7) // dynamic defaults complementary to the explicit flags
						s.NTypes = 1 + mask%2
						out = append(out, s)
					}
				}
			}
		}
	}
	// field mappings with the remaining JSON keys set (dims, similarity, vector_index_optimized_for, gpu), unknown type, unknown analyzer / date format
	for _, ft := range append(append([]string{}, fieldTypes...), "vector", "bogus", "") {
		for _, mask := range []int{0, 0x1f, 0x3f} {
			s := baseSpec("field-extra")
			s.FType, s.Mask, s.FExtra = ft, mask, true
			out = append(out, s)
		}
	}
	for _, bad := range []spec{
		func() spec { s := baseSpec("field-extra"); s.FAnalyzer = "nosuch"; return s }(),
		func() spec { s := baseSpec("field-extra"); s.FType = "datetime"; s.FDate = "nosuch"; return s }(),
		func() spec { s := baseSpec("field-extra"); s.Scoring = "bogus"; return s }(),
		func() spec { s := baseSpec("field-extra"); s.DefAn = ""; return s }(),
		func() spec { s := baseSpec("field-extra"); s.Sub.Nested = true; s.Type.Nested = true; return s }(),
	} {
		out = append(out, bad)
	}
	// D: document mappings: (enabled × dynamic × default_analyzer) for default, type and sub mapping × nested × _all disabled × struct tag × field variants
	danal := mc.Pick(r, []string{"", "simple", "cust"}, []string{"", "simple", "keyword", "cust"})
	fvar := []struct {
		ft   string
		an   string
		mask int
	}{{"text", "", 0x1f}, {"text", "en", 0x0b}, {"number", "", 0x1b}}
	var dspecs []docSpec
	for _, en := range bools() {
		for _, dy := range bools() {
			for _, an := range danal {
				dspecs = append(dspecs, docSpec{Enabled: en, Dynamic: dy, DefAnalyzer: an})
			}
		}
	}
	for _, d0 := range dspecs {
		for _, d1 := range dspecs {
			for _, d2 := range dspecs {
				for _, nested := range bools() {
					for vi, fv := range fvar {
						if quick && vi != (len(d0.DefAnalyzer)+len(d1.DefAnalyzer)+len(d2.DefAnalyzer))%3 {
							continue
						}
						s := baseSpec("document")
						s.Default, s.Type, s.Sub = d0, d1, d2
						s.Sub.Nested = nested
						s.FType, s.FAnalyzer, s.Mask = fv.ft, fv.an, fv.mask
						s.AllDisabled = nested != d0.Dynamic
						if d1.Dynamic != d2.Enabled {
							s.Default.StructTag = "alt"
						}
						if d0.Enabled != d2.Dynamic {
							s.Type.StructTag = "alt"
						}
						out = append(out, s)
					}
				}
			}
		}
	}
	// struct tag key and _all exhaustively against each other on a small base
	for _, st0 := range []string{"", "alt", "json"} {
		for _, st1 := range []string{"", "alt"} {
			for _, st2 := range []string{"", "alt"} {
				for _, alld := range bools() {
					for _, nested := range bools() {
						s := baseSpec("document-tags")
						s.Default.StructTag, s.Type.StructTag, s.Sub.StructTag = st0, st1, st2
						s.AllDisabled, s.Sub.Nested = alld, nested
						out = append(out, s)
					}
				}
			}
		}
	}
	// I: index level (quick tier: every 11th member of the product, 11 being coprime to every coordinate's size)
	ki, ka := 0, 0
	for _, dt := range []string{"_default", "ty", "other", ""} {
		for _, tf := range []string{"_type", "kind", "meta.kind", ""} {
			for _, df := range []string{"_all", "v", ""} {
				for _, da := range []string{"standard", "simple", "cust"} {
					for _, dd := range []string{"dateTimeOptional", "dp_flex", "dp_pct", "unix_sec"} {
						for dyn := 0; dyn < 8; dyn++ {
							for _, sc := range []string{"", "tf-idf", "bm25"} {
								for nt := 0; nt <= 2; nt++ {
									ki++
									if quick && ki%11 != 0 {
										continue
									}
									s := baseSpec("index")
									s.DefType, s.TypeField, s.DefField, s.DefAn, s.DefDate, s.Dyn, s.Scoring, s.NTypes = dt, tf, df, da, dd, dyn, sc, nt
									s.FType = []string{"text", "datetime", "number"}[nt]
									s.Type.Dynamic = dyn&1 == 0
									out = append(out, s)
								}
							}
						}
					}
				}
			}
		}
	}
	// A: custom analysis components
	cfSets := [][]string{nil, {"cf_re"}, {"cf_html"}, {"cf_html", "cf_re"}, {"zero_width_spaces", "cf_re"}}
	tokenizers := []string{"unicode", "whitespace", "tk_re", "tk_exc"}
	pool := []string{"tf_stop", "tf_ngram", "tf_trunc", "tf_len", "tf_shingle", "tf_edge", "tf_norm", "tf_elision", "tf_kw", "tf_dict"}
	tfSets := [][]string{nil, {"to_lower"}}
	for _, p := range pool {
		tfSets = append(tfSets, []string{p}, []string{"to_lower", p}, []string{p, "stemmer_porter"})
	}
	tfSets = append(tfSets, []string{"tf_stop", "tf_ngram", "tf_len"}, []string{"tf_stop", "tf_stop"}, []string{"nosuch_filter"})
	for _, cf := range cfSets {
		for _, tk := range tokenizers {
			for _, tfs := range tfSets {
				for _, iface := range bools() {
					for _, ints := range bools() {
						for _, dd := range []string{"dateTimeOptional", "dp_flex", "dp_san", "dp_pct", "dp_iso"} {
							for _, syn := range bools() {
								ka++
								if quick && ka%7 != 0 {
									continue
								}
								if syn && (iface || ints) {
									continue
								}
								s := baseSpec("analysis")
								s.Custom = &customSpec{CharFilters: cf, Tokenizer: tk, TokenFilters: tfs, IfaceSlices: iface, IntNumbers: ints, Synonyms: syn}
								s.FAnalyzer, s.DefAn, s.Sub.DefAnalyzer = "cust", "cust", "simple"
								s.DefDate = dd
								if dd != "dateTimeOptional" {
									s.FDate = "dp_flex"
								}
								out = append(out, s)
							}
						}
					}
				}
			}
		}
	}
	return out
}

func Run(r *mc.Run) {
	specs := enumerate(r)
	docs := docAlphabet()
	c := &checker{r: r, docs: docs}
	c.selectDocs()
	for f, l := range c.sel {
		r.Note("documents_per_mapping:"+f, len(l))
	}
	r.Rule("E2: mapping trees built through the Go API from four cartesian families — field (7 field types × all 64 subsets of store/index/term-vectors/include_in_all/docvalues/skip_freq_norm × analyzer none/named/custom × date format none/named/custom × dynamic on/off, 1–2 type mappings), document (enabled × dynamic × default_analyzer for the default, type and sub-document mapping × nested × _all disabled × struct_tag_key × 3 field variants), index (default_type × type_field × default_field × default_analyzer × default date parser × store/index/docvalues_dynamic × scoring model × 0–2 type mappings) and analysis (custom char filters × tokenizer × token filter chains × Go-native vs JSON-native config value types × custom date parsers × synonym source) — each valid one is marshalled, parsed back and compared: validates, JSON fixed point (twice), exported-field tree equal, MapDocument+Analyze of every document of a " + fmt.Sprint(len(docs)) + "-document alphabet equal (name, Go type, options, array positions, value, date layout, analysed length, terms/frequencies/locations, composite _all, nested documents), query-side lookups equal; then the same in strict JSON mode, and for a subset through a real New/Close/Open cycle on disk. An evaluation is one document mapped under both mappings; an outcome is (family, agreed?, number of fields produced).")
	r.Assume("a mapping is 'valid' when the Go API accepts its custom components and Validate() returns nil; invalid members of the product are counted and skipped",
		"analysis itself is C19's business: both sides run the same analyzers; what is compared is which analyzer/date parser each field gets",
		"with two or more type mappings AnalyzerNameForPath/FieldMappingForPath iterate a Go map and are not a function of the mapping; they are compared only for ≤ 1 type mapping",
		"built without the vectors tag: vector field types are invalid here and their keys are only checked for JSON preservation")
	r.Note("mappings_enumerated", len(specs))
	r.Note("documents", len(docs))
	if len(specs) > 3 {
		for _, i := range []int{0, len(specs) / 3, 2 * len(specs) / 3, len(specs) - 1} {
			if m, err := build(specs[i]); err == nil {
				b, _ := json.Marshal(m)
				r.Sample(map[string]any{"spec": specShort(specs[i]), "json": clip(string(b))})
			}
		}
	}
	r.Sample(map[string]any{"document": fmt.Sprintf("%v", docs[0].data)})

	type valid struct {
		i  int
		m  *mapping.IndexMappingImpl
		b1 []byte
	}
	t0 := time.Now()
	lap := func(part string) {
		r.Note("seconds_"+part, float64(int(time.Since(t0).Seconds()*10))/10)
		t0 = time.Now()
	}
	// phase 1: JSON round trip, default (lenient) mode
	mapping.MappingJSONStrict = false
	stride := mc.Pick(r, 97, 23)
	diskPick := make([]*valid, len(specs))
	r.ParFor(len(specs), 0, func(i int) {
		m, b1 := c.checkOne(specs[i])
		if m != nil {
			r.Count("valid_mappings:"+specs[i].Family, 1)
			if i%stride == 0 || specs[i].Family == "field-extra" || specs[i].Family == "document-tags" {
				diskPick[i] = &valid{i, m, b1}
			}
		}
	})
	lap("phase1_json")
	// phase 2: strict JSON mode: every key Marshal writes must be accepted by the strict decoders
	if !r.Expired() {
		mapping.MappingJSONStrict = true
		sstride := mc.Pick(r, 5, 3)
		n := (len(specs) + sstride - 1) / sstride
		r.ParFor(n, 0, func(k int) {
			c.checkOne(specs[k*sstride])
		})
		mapping.MappingJSONStrict = false
		r.Count("strict_mode_mappings", int64(n))
	}
	lap("phase2_strict")
	// phase 3: disk cycles (8 workers: tmpfs-bound)
	var picks []*valid
	for _, v := range diskPick {
		if v != nil {
			picks = append(picks, v)
		}
	}
	r.ParFor(len(picks), 8, func(k int) {
		v := picks[k]
		c.diskCycle(specs[v.i], v.m, v.b1)
	})
	lap("phase3_disk")
}
