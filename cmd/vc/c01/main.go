package main

import (
	"verif/mc"
	"verif/props/c01"
)

func main() { mc.Main("C01", "model_checking", c01.Run) }
