package main

import (
	"verif/props/c03"
	"verif/sched/drv"
)

func main() { drv.Main("C03", "fault_enumeration", c03.Scenarios(), c03.Describe) }
