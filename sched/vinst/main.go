// vinst: source instrumenter of engine E3.
// Rewrites channel operations, select, go statements, sync types and time calls
// of the given packages so that they go through package vrt.
package main

import (
	"bytes"
	"encoding/json"
	"flag"
	"fmt"
	"go/ast"
	"go/format"
	"go/importer"
	"go/parser"
	"go/token"
	"go/types"
	"io"
	"os"
	"os/exec"
	"path/filepath"
	"strconv"
	"strings"

	"verif/sched/vinst/astutil"
)

type listPkg struct {
	ImportPath string
	Dir        string
	Export     string
	GoFiles    []string
	Standard   bool
}

var (
	modDir  = flag.String("mod", ".", "directory of the harness module (go list is run there)")
	outDir  = flag.String("out", "", "output directory for rewritten sources")
	vrtPath = flag.String("vrt", "verif/sched/vrt", "import path of the runtime")
	tags    = flag.String("tags", "", "build tags")
	points  = flag.Bool("points", true, "inject fs points")
	ovlIn   = flag.String("overlay", "", "input overlay json (export files, deliberate mutations); merged into the output overlay")
	mapSort = flag.Bool("mapsort", true, "iterate maps with ordered keys in sorted key order")
)

var inReplace = map[string]string{}

func main() {
	flag.Parse()
	targets := flag.Args()
	if *outDir == "" || len(targets) == 0 {
		fmt.Fprintln(os.Stderr, "usage: vinst -mod dir -out dir pkg...")
		os.Exit(2)
	}
	args := []string{"list", "-export", "-deps", "-json=ImportPath,Dir,Export,GoFiles,Standard"}
	if *ovlIn != "" {
		b, err := os.ReadFile(*ovlIn)
		if err != nil {
			fatal("overlay: %v", err)
		}
		var o struct{ Replace map[string]string }
		if err := json.Unmarshal(b, &o); err != nil {
			fatal("overlay: %v", err)
		}
		inReplace = o.Replace
		args = append(args, "-overlay", *ovlIn)
	}
	if *tags != "" {
		args = append(args, "-tags", *tags)
	}
	args = append(args, targets...)
	cmd := exec.Command("go", args...)
	cmd.Dir = *modDir
	cmd.Stderr = os.Stderr
	out, err := cmd.Output()
	if err != nil {
		fatal("go list: %v", err)
	}
	pkgs := map[string]*listPkg{}
	dec := json.NewDecoder(bytes.NewReader(out))
	for {
		var p listPkg
		if err := dec.Decode(&p); err == io.EOF {
			break
		} else if err != nil {
			fatal("decode: %v", err)
		}
		pp := p
		pkgs[p.ImportPath] = &pp
	}
	fset := token.NewFileSet()
	imp := importer.ForCompiler(fset, "gc", func(path string) (io.ReadCloser, error) {
		p, ok := pkgs[path]
		if !ok || p.Export == "" {
			return nil, fmt.Errorf("no export data for %q", path)
		}
		return os.Open(p.Export)
	})
	overlay := map[string]string{}
	for k, v := range inReplace {
		overlay[k] = v
	}
	stats := map[string]int{}
	for _, t := range targets {
		p := pkgs[t]
		if p == nil {
			fatal("package %s not listed", t)
		}
		var files []*ast.File
		var names []string
		for _, f := range p.GoFiles {
			fn := filepath.Join(p.Dir, f)
			var src interface{}
			if rp, ok := inReplace[fn]; ok {
				b, err := os.ReadFile(rp)
				if err != nil {
					fatal("read %s: %v", rp, err)
				}
				src = b
			}
			af, err := parser.ParseFile(fset, fn, src, parser.ParseComments)
			if err != nil {
				fatal("parse %s: %v", fn, err)
			}
			files = append(files, af)
			names = append(names, fn)
		}
		info := &types.Info{
			Types: map[ast.Expr]types.TypeAndValue{},
			Uses:  map[*ast.Ident]types.Object{},
			Defs:  map[*ast.Ident]types.Object{},
		}
		conf := types.Config{Importer: imp, Error: func(err error) { fmt.Fprintln(os.Stderr, "typecheck:", err) }}
		if _, err := conf.Check(t, fset, files, info); err != nil {
			fatal("typecheck %s: %v", t, err)
		}
		for i, af := range files {
			r := &rewriter{fset: fset, info: info, file: af, stats: stats, fname: filepath.Base(names[i])}
			changed := r.rewrite()
			if !changed {
				continue
			}
			var buf bytes.Buffer
			if err := format.Node(&buf, fset, af); err != nil {
				fatal("print %s: %v", names[i], err)
			}
			dst := filepath.Join(*outDir, t, filepath.Base(names[i]))
			os.MkdirAll(filepath.Dir(dst), 0o755)
			if err := os.WriteFile(dst, buf.Bytes(), 0o644); err != nil {
				fatal("write: %v", err)
			}
			overlay[names[i]] = dst
		}
	}
	ob, _ := json.MarshalIndent(map[string]interface{}{"Replace": overlay}, "", " ")
	os.WriteFile(filepath.Join(*outDir, "overlay.json"), ob, 0o644)
	sb, _ := json.Marshal(stats)
	fmt.Println("vinst:", len(overlay), "files rewritten;", string(sb))
}

func fatal(f string, a ...interface{}) {
	fmt.Fprintf(os.Stderr, "vinst: "+f+"\n", a...)
	os.Exit(2)
}

type rewriter struct {
	fset    *token.FileSet
	info    *types.Info
	file    *ast.File
	fname   string
	stats   map[string]int
	usedVrt bool
	n       int
	skip    map[ast.Node]bool // comm statements of selects (handled by the select rewrite)
	rangeCh map[*ast.RangeStmt]bool
	rangeMp map[*ast.RangeStmt]bool
	selBlk  map[*ast.BlockStmt]bool // blocks produced by the select rewrite
	stmts   []ast.Node              // stack of enclosing list statements
	wantPt  map[ast.Node]string     // list statement -> fs label
}

// calls with a file-system / durability effect (matched on types.Func.FullName suffix)
var fsCalls = []string{
	"os.Remove", "os.RemoveAll", "os.Rename", "os.OpenFile", "os.Create", "os.WriteFile", "os.MkdirAll",
	"bbolt.Tx).Commit", "bbolt.Tx).Rollback", "bbolt.DB).Sync", "bbolt.DB).Close", "bbolt.Bucket).DeleteBucket",
	"BoltBucketImpl).DeleteBucket", "BoltTxImpl).Commit", "RootBoltImpl).Sync",
	"UnpersistedSegment).Persist", "SegmentPlugin).MergeUsing", "SegmentPlugin).OpenUsing",
	"scorch.persistToDirectory", "scorch.copyToDirectory", "util.OpenBolt",
	".persistSegmentBaseToWriter", // zapx: between creating a segment file and filling it in place
}

func fsLabel(full string) string {
	for _, f := range fsCalls {
		if strings.HasSuffix(full, f) {
			if i := strings.LastIndexAny(f, ".)"); i >= 0 {
				return strings.Trim(f[strings.LastIndex(f[:i], ".")+1:], ")")
			}
			return f
		}
	}
	return ""
}

func (r *rewriter) vrt(name string) *ast.SelectorExpr {
	r.usedVrt = true
	return &ast.SelectorExpr{X: ast.NewIdent("vrt"), Sel: ast.NewIdent(name)}
}

func (r *rewriter) call(name string, args ...ast.Expr) *ast.CallExpr {
	return &ast.CallExpr{Fun: r.vrt(name), Args: args}
}

func (r *rewriter) tmp(prefix string) *ast.Ident {
	r.n++
	return ast.NewIdent(fmt.Sprintf("__v%s%d", prefix, r.n))
}

func (r *rewriter) pkgOf(id *ast.Ident) string {
	if pn, ok := r.info.Uses[id].(*types.PkgName); ok {
		return pn.Imported().Path()
	}
	return ""
}

func isRecv(e ast.Expr) (*ast.UnaryExpr, bool) {
	u, ok := e.(*ast.UnaryExpr)
	if ok && u.Op == token.ARROW {
		return u, true
	}
	return nil, false
}

func (r *rewriter) isVrtCall(e ast.Expr, name string) (*ast.CallExpr, bool) {
	c, ok := e.(*ast.CallExpr)
	if !ok {
		return nil, false
	}
	s, ok := c.Fun.(*ast.SelectorExpr)
	if !ok {
		return nil, false
	}
	x, ok := s.X.(*ast.Ident)
	if ok && x.Name == "vrt" && s.Sel.Name == name {
		return c, true
	}
	return nil, false
}

var syncTypes = map[string]bool{"Mutex": true, "RWMutex": true, "WaitGroup": true}
var timeFuncs = map[string]bool{"Now": true, "Since": true, "After": true, "Sleep": true, "NewTicker": true}

func (r *rewriter) rewrite() bool {
	r.skip = map[ast.Node]bool{}
	r.rangeCh = map[*ast.RangeStmt]bool{}
	r.rangeMp = map[*ast.RangeStmt]bool{}
	r.selBlk = map[*ast.BlockStmt]bool{}
	r.wantPt = map[ast.Node]string{}
	changed := false
	pre := func(c *astutil.Cursor) bool {
		if _, isStmt := c.Node().(ast.Stmt); isStmt && c.Index() >= 0 {
			r.stmts = append(r.stmts, c.Node())
		}
		switch n := c.Node().(type) {
		case *ast.SelectStmt:
			for _, cl := range n.Body.List {
				cc := cl.(*ast.CommClause)
				if cc.Comm != nil {
					r.markComm(cc.Comm)
				}
			}
		case *ast.RangeStmt:
			if t := r.info.TypeOf(n.X); t != nil {
				if _, ok := t.Underlying().(*types.Chan); ok {
					r.rangeCh[n] = true
				}
				if mt, ok := t.Underlying().(*types.Map); ok && *mapSort && r.sortableRange(n, mt) {
					r.rangeMp[n] = true
				}
			}
		}
		return true
	}
	post := func(c *astutil.Cursor) bool {
		defer func() {
			if _, isStmt := c.Node().(ast.Stmt); isStmt && c.Index() >= 0 {
				nd := r.stmts[len(r.stmts)-1]
				r.stmts = r.stmts[:len(r.stmts)-1]
				if lbl, ok := r.wantPt[nd]; ok {
					pos := r.fset.Position(nd.Pos())
					c.InsertBefore(&ast.ExprStmt{X: r.call("Point", &ast.BasicLit{Kind: token.STRING,
						Value: strconv.Quote(fmt.Sprintf("fs:%s@%s:%d", lbl, r.fname, pos.Line))})})
					r.stats["fspoint"]++
					changed = true
				}
			}
		}()
		switch n := c.Node().(type) {
		case *ast.SendStmt:
			if r.skip[n] {
				return true
			}
			c.Replace(&ast.ExprStmt{X: &ast.CallExpr{Fun: r.call("SendTo", n.Chan), Args: []ast.Expr{n.Value}}})
			r.stats["send"]++
			changed = true
		case *ast.UnaryExpr:
			if n.Op == token.ARROW && !r.skip[n] {
				c.Replace(r.call("Recv", n.X))
				r.stats["recv"]++
				changed = true
			}
		case *ast.AssignStmt:
			if len(n.Lhs) == 2 && len(n.Rhs) == 1 {
				if call, ok := r.isVrtCall(n.Rhs[0], "Recv"); ok {
					call.Fun = r.vrt("Recv2")
				}
			}
		case *ast.ValueSpec:
			if len(n.Names) == 2 && len(n.Values) == 1 {
				if call, ok := r.isVrtCall(n.Values[0], "Recv"); ok {
					call.Fun = r.vrt("Recv2")
				}
			}
		case *ast.CallExpr:
			if *points && len(r.stmts) > 0 {
				var fn *types.Func
				switch f := n.Fun.(type) {
				case *ast.SelectorExpr:
					fn, _ = r.info.Uses[f.Sel].(*types.Func)
				case *ast.Ident:
					fn, _ = r.info.Uses[f].(*types.Func)
				}
				if fn != nil {
					if lbl := fsLabel(fn.FullName()); lbl != "" {
						r.wantPt[r.stmts[len(r.stmts)-1]] = lbl
					}
				}
			}
			if id, ok := n.Fun.(*ast.Ident); ok && id.Name == "close" && len(n.Args) == 1 {
				if _, isBuiltin := r.info.Uses[id].(*types.Builtin); isBuiltin {
					n.Fun = r.vrt("Close")
					r.stats["close"]++
					changed = true
				}
			}
		case *ast.SelectorExpr:
			if x, ok := n.X.(*ast.Ident); ok {
				switch r.pkgOf(x) {
				case "sync":
					if syncTypes[n.Sel.Name] {
						c.Replace(r.vrt(n.Sel.Name))
						r.stats["sync."+n.Sel.Name]++
						changed = true
					}
				case "time":
					if timeFuncs[n.Sel.Name] {
						c.Replace(r.vrt(n.Sel.Name))
						r.stats["time."+n.Sel.Name]++
						changed = true
					}
				}
			}
		case *ast.GoStmt:
			c.Replace(r.rewriteGo(n))
			r.stats["go"]++
			changed = true
		case *ast.SelectStmt:
			c.Replace(r.rewriteSelect(n, nil))
			r.stats["select"]++
			changed = true
		case *ast.LabeledStmt:
			// hoist the label of a rewritten select onto the generated switch
			if blk, ok := n.Stmt.(*ast.BlockStmt); ok && r.selBlk[blk] {
				last := len(blk.List) - 1
				blk.List[last] = &ast.LabeledStmt{Label: n.Label, Stmt: blk.List[last]}
				c.Replace(blk)
			}
		case *ast.RangeStmt:
			if r.rangeCh[n] {
				c.Replace(r.rewriteRangeChan(n))
				r.stats["rangechan"]++
				changed = true
			}
			if r.rangeMp[n] {
				r.rewriteRangeMap(n)
				r.stats["rangemap"]++
				changed = true
			}
		}
		return true
	}
	astutil.Apply(r.file, pre, post)
	if !changed {
		return false
	}
	r.fixImports()
	return true
}

// markComm marks the channel operation of a select comm clause so that the
// generic rules leave it alone.
func (r *rewriter) markComm(s ast.Stmt) {
	switch n := s.(type) {
	case *ast.SendStmt:
		r.skip[n] = true
	case *ast.ExprStmt:
		if u, ok := isRecv(n.X); ok {
			r.skip[u] = true
		}
	case *ast.AssignStmt:
		if u, ok := isRecv(n.Rhs[0]); ok {
			r.skip[u] = true
		}
	}
}

func (r *rewriter) rewriteSelect(n *ast.SelectStmt, _ *ast.Ident) ast.Stmt {
	blk := &ast.BlockStmt{}
	sw := &ast.SwitchStmt{Body: &ast.BlockStmt{}}
	hasDefault := false
	var caseArgs []ast.Expr
	idx := 0
	for _, cl := range n.Body.List {
		cc := cl.(*ast.CommClause)
		if cc.Comm == nil {
			hasDefault = true
			sw.Body.List = append(sw.Body.List, &ast.CaseClause{List: nil, Body: cc.Body})
			continue
		}
		cv := r.tmp("c")
		var prologue []ast.Stmt
		switch s := cc.Comm.(type) {
		case *ast.SendStmt:
			blk.List = append(blk.List, &ast.AssignStmt{Lhs: []ast.Expr{cv}, Tok: token.DEFINE,
				Rhs: []ast.Expr{&ast.CallExpr{Fun: r.call("SendCaseTo", s.Chan), Args: []ast.Expr{s.Value}}}})
		case *ast.ExprStmt:
			u, _ := isRecv(s.X)
			blk.List = append(blk.List, &ast.AssignStmt{Lhs: []ast.Expr{cv}, Tok: token.DEFINE,
				Rhs: []ast.Expr{r.call("RecvCase", u.X)}})
		case *ast.AssignStmt:
			u, _ := isRecv(s.Rhs[0])
			blk.List = append(blk.List, &ast.AssignStmt{Lhs: []ast.Expr{cv}, Tok: token.DEFINE,
				Rhs: []ast.Expr{r.call("RecvCase", u.X)}})
			rhs := []ast.Expr{&ast.SelectorExpr{X: cv, Sel: ast.NewIdent("Val")}}
			if len(s.Lhs) == 2 {
				rhs = append(rhs, &ast.SelectorExpr{X: cv, Sel: ast.NewIdent("Ok")})
			}
			prologue = append(prologue, &ast.AssignStmt{Lhs: s.Lhs, Tok: s.Tok, Rhs: rhs})
			if s.Tok == token.DEFINE {
				// avoid "declared and not used" for variables the body ignores
				for _, l := range s.Lhs {
					if id, ok := l.(*ast.Ident); ok && id.Name != "_" {
						prologue = append(prologue, &ast.AssignStmt{Lhs: []ast.Expr{ast.NewIdent("_")}, Tok: token.ASSIGN, Rhs: []ast.Expr{ast.NewIdent(id.Name)}})
					}
				}
			}
		}
		caseArgs = append(caseArgs, cv)
		sw.Body.List = append(sw.Body.List, &ast.CaseClause{
			List: []ast.Expr{&ast.BasicLit{Kind: token.INT, Value: strconv.Itoa(idx)}},
			Body: append(prologue, cc.Body...),
		})
		idx++
	}
	if !hasDefault {
		sw.Body.List = append(sw.Body.List, &ast.CaseClause{List: nil, Body: []ast.Stmt{
			&ast.ExprStmt{X: &ast.CallExpr{Fun: ast.NewIdent("panic"), Args: []ast.Expr{&ast.BasicLit{Kind: token.STRING, Value: strconv.Quote("vrt: select returned no case")}}}}}})
	}
	args := []ast.Expr{ast.NewIdent(strconv.FormatBool(hasDefault))}
	args = append(args, caseArgs...)
	sw.Tag = r.call("Select", args...)
	blk.List = append(blk.List, sw)
	r.selBlk[blk] = true
	return blk
}

func (r *rewriter) rewriteGo(n *ast.GoStmt) ast.Stmt {
	call := n.Call
	blk := &ast.BlockStmt{}
	newCall := &ast.CallExpr{Ellipsis: call.Ellipsis}
	// function value
	switch f := call.Fun.(type) {
	case *ast.FuncLit:
		newCall.Fun = f
	default:
		fv := r.tmp("f")
		blk.List = append(blk.List, &ast.AssignStmt{Lhs: []ast.Expr{fv}, Tok: token.DEFINE, Rhs: []ast.Expr{call.Fun}})
		newCall.Fun = fv
	}
	for _, a := range call.Args {
		tv, ok := r.info.Types[a]
		if ok && (tv.Value != nil || tv.IsNil()) {
			newCall.Args = append(newCall.Args, a)
			continue
		}
		av := r.tmp("a")
		blk.List = append(blk.List, &ast.AssignStmt{Lhs: []ast.Expr{av}, Tok: token.DEFINE, Rhs: []ast.Expr{a}})
		newCall.Args = append(newCall.Args, av)
	}
	if ell := call.Ellipsis; ell.IsValid() {
		newCall.Ellipsis = 1
	}
	fl := &ast.FuncLit{Type: &ast.FuncType{Params: &ast.FieldList{}}, Body: &ast.BlockStmt{List: []ast.Stmt{&ast.ExprStmt{X: newCall}}}}
	blk.List = append(blk.List, &ast.ExprStmt{X: r.call("Go", fl)})
	return blk
}

func (r *rewriter) rewriteRangeChan(n *ast.RangeStmt) ast.Stmt {
	ok := r.tmp("ok")
	var key ast.Expr = ast.NewIdent("_")
	if n.Key != nil {
		key = n.Key
	}
	tok := token.DEFINE
	var pre []ast.Stmt
	if n.Tok == token.ASSIGN {
		tok = token.ASSIGN
		pre = append(pre, &ast.DeclStmt{Decl: &ast.GenDecl{Tok: token.VAR, Specs: []ast.Spec{&ast.ValueSpec{Names: []*ast.Ident{ok}, Type: ast.NewIdent("bool")}}}})
	}
	recv := &ast.AssignStmt{Lhs: []ast.Expr{key, ok}, Tok: tok, Rhs: []ast.Expr{r.call("Recv2", n.X)}}
	brk := &ast.IfStmt{Cond: &ast.UnaryExpr{Op: token.NOT, X: ok}, Body: &ast.BlockStmt{List: []ast.Stmt{&ast.BranchStmt{Tok: token.BREAK}}}}
	body := &ast.BlockStmt{List: append([]ast.Stmt{recv, brk}, n.Body.List...)}
	loop := &ast.ForStmt{Body: body}
	if len(pre) == 0 {
		return loop
	}
	return &ast.BlockStmt{List: append(pre, loop)}
}

// sortableRange: `for k[, v] := range m` (define form, key named) over a map whose key type is an
// ordered basic type.
func (r *rewriter) sortableRange(n *ast.RangeStmt, mt *types.Map) bool {
	if n.Tok != token.DEFINE || n.Key == nil {
		return false
	}
	if id, ok := n.Key.(*ast.Ident); !ok || id.Name == "_" {
		return false
	}
	b, ok := mt.Key().Underlying().(*types.Basic)
	if !ok {
		return false
	}
	return b.Info()&(types.IsInteger|types.IsString|types.IsFloat) != 0
}

// rewriteRangeMap turns `for k, v := range m { B }` into
// `for _, k := range vrt.SortedKeys(m) { v, ok := m[k]; if !ok { continue }; B }` (in place).
// m is evaluated once by SortedKeys and once per iteration; it is only rewritten when m is a plain
// identifier or selector chain (no calls), so re-evaluation is side-effect free.
func (r *rewriter) rewriteRangeMap(n *ast.RangeStmt) {
	if !pureExpr(n.X) {
		return
	}
	key := n.Key
	val := n.Value
	mexpr := n.X
	n.X = r.call("SortedKeys", mexpr)
	n.Key = ast.NewIdent("_")
	n.Value = key
	okv := r.tmp("ok")
	var lhs0 ast.Expr = ast.NewIdent("_")
	if val != nil {
		lhs0 = val
	}
	pro := []ast.Stmt{
		&ast.AssignStmt{Lhs: []ast.Expr{lhs0, okv}, Tok: token.DEFINE, Rhs: []ast.Expr{&ast.IndexExpr{X: mexpr, Index: key}}},
		&ast.IfStmt{Cond: &ast.UnaryExpr{Op: token.NOT, X: okv}, Body: &ast.BlockStmt{List: []ast.Stmt{&ast.BranchStmt{Tok: token.CONTINUE}}}},
	}
	if id, ok := val.(*ast.Ident); ok && id.Name != "_" {
		pro = append(pro, &ast.AssignStmt{Lhs: []ast.Expr{ast.NewIdent("_")}, Tok: token.ASSIGN, Rhs: []ast.Expr{ast.NewIdent(id.Name)}})
	}
	n.Body.List = append(pro, n.Body.List...)
}

func pureExpr(e ast.Expr) bool {
	switch x := e.(type) {
	case *ast.Ident:
		return true
	case *ast.SelectorExpr:
		return pureExpr(x.X)
	case *ast.ParenExpr:
		return pureExpr(x.X)
	case *ast.StarExpr:
		return pureExpr(x.X)
	}
	return false
}

// fixImports adds the vrt import and drops imports that became unused.
func (r *rewriter) fixImports() {
	used := map[string]bool{}
	ast.Inspect(r.file, func(n ast.Node) bool {
		if s, ok := n.(*ast.SelectorExpr); ok {
			if x, ok := s.X.(*ast.Ident); ok {
				used[x.Name] = true
			}
		}
		return true
	})
	for _, d := range r.file.Decls {
		gd, ok := d.(*ast.GenDecl)
		if !ok || gd.Tok != token.IMPORT {
			continue
		}
		var keep []ast.Spec
		for _, sp := range gd.Specs {
			is := sp.(*ast.ImportSpec)
			path, _ := strconv.Unquote(is.Path.Value)
			if path == "sync" || path == "time" {
				name := path
				if is.Name != nil {
					name = is.Name.Name
				}
				if !used[name] {
					continue
				}
			}
			keep = append(keep, sp)
		}
		gd.Specs = keep
	}
	// drop empty import decls
	var decls []ast.Decl
	for _, d := range r.file.Decls {
		if gd, ok := d.(*ast.GenDecl); ok && gd.Tok == token.IMPORT && len(gd.Specs) == 0 {
			continue
		}
		decls = append(decls, d)
	}
	if r.usedVrt {
		imp := &ast.GenDecl{Tok: token.IMPORT, Specs: []ast.Spec{&ast.ImportSpec{
			Name: ast.NewIdent("vrt"), Path: &ast.BasicLit{Kind: token.STRING, Value: strconv.Quote(*vrtPath)}}}}
		decls = append([]ast.Decl{imp}, decls...)
	}
	r.file.Decls = decls
	// keep only header comments (build constraints, license) to avoid comment misplacement
	var cg []*ast.CommentGroup
	for _, g := range r.file.Comments {
		if g.End() < r.file.Package {
			cg = append(cg, g)
			continue
		}
		for _, c := range g.List {
			if strings.HasPrefix(c.Text, "//go:") {
				cg = append(cg, g)
				break
			}
		}
	}
	r.file.Comments = cg
}
