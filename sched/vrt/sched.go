// Package vrt is the cooperative-scheduler runtime used by instrumented code.
// Engine E3 runtime.
package vrt

import (
	"fmt"
	"os"
	"runtime"
	"runtime/debug"
	"strings"
	"sync"
	"sync/atomic"
	"time"
)

// ---------------------------------------------------------------------------
// threads and pending operations

type opKind int

const (
	opNone opKind = iota
	opPoint
	opLock
	opRLock
	opWLockAnnounce
	opWLockAcquire
	opSend
	opRecv
	opSelect
	opWGWait
	opStart // a freshly spawned thread waiting for its first turn
	opIdle  // harness: wait until no other thread can run
)

type thread struct {
	id     int
	name   string
	client bool // spawned by harness (driver) code, not by the instrumented packages
	wake   chan struct{}
	op     *pendingOp
	ready  bool // op completed by a partner; waiting to be scheduled again
	done   bool
	daemon bool
}

type pendingOp struct {
	kind       opKind
	label      string
	mu         *Mutex
	rw         *RWMutex
	wg         *WaitGroup
	ch         *chanOp   // for send/recv
	cases      []*chanOp // for select
	hasDefault bool
	chosen     int // select: chosen case (-1 default)
}

// chanOp describes one channel operation (stand-alone or a select arm).
type chanOp struct {
	key    uintptr // channel identity (0 = nil channel)
	isSend bool
	// typed closures provided by the generic front-ends
	bufLen   func() int
	bufCap   func() int
	realSend func(v any)              // buffered or closed-panic path
	realRecv func() (any, bool, bool) // non-blocking real receive: v, ok, success
	val      any                      // send: value to send; recv: received value
	ok       bool
	done     bool // completed (by partner)
}

// Choice is one recorded scheduling decision.
type Choice struct {
	N        int    // number of alternatives
	Chosen   int    // index taken
	Kind     string // "thread" or "select"
	Label    string
	CurFirst bool // alternative 0 is "keep running the current thread"
}

type Verdict struct {
	Diverged string // non-empty: the replayed prefix did not reproduce the recorded choice points (harness error)
	Deadlock bool
	Panic    any
	PanicStk string
	PanicThr string
	Steps    int
	Aborted  bool
	Blocked  []string
}

type sched struct {
	active   bool
	threads  []*thread
	cur      *thread
	prefix   []int
	expect   []Choice // recorded choices of the parent execution for the prefix (determinism check)
	diverged string
	trace    []Choice
	steps    int
	maxSteps int
	abort    bool
	verdict  Verdict
	finished chan struct{}
	wgAll    sync.WaitGroup
	closed   map[uintptr]bool
	keep     []any // keeps channels alive so that identities are not reused
	hook     func(label string)
	freeMode int // >0: no branching recorded (default policy only)
	nolog    bool
}

var S = &sched{}

// Hook, when set, is called at every explicit Point (used for crash images).
var Hook func(label string)

// StepHook, when set, is called at EVERY scheduling point (before the scheduler decides), with the
// pending operation's label; all other threads are parked, so it may inspect shared state.
var StepHook func(label string)

// LogSteps makes the next Run record one line per scheduling step.
var LogSteps bool
var StepLog []string

func site(skip int) string {
	pcs := make([]uintptr, 12)
	n := runtime.Callers(skip, pcs)
	fr := runtime.CallersFrames(pcs[:n])
	out := ""
	for {
		f, more := fr.Next()
		if !strings.Contains(f.File, "/vrt/") {
			file := f.File
			if i := strings.LastIndex(file, "/"); i >= 0 {
				file = file[i+1:]
			}
			out += fmt.Sprintf("%s:%d ", file, f.Line)
			if strings.Count(out, " ") >= 3 {
				break
			}
		}
		if !more {
			break
		}
	}
	return out
}

// unmanaged counts goroutines spawned through Go while no controlled execution
// was active (e.g. from package init). They must have ended before Run.
var unmanaged atomic.Int64

// WaitUnmanaged blocks until every pass-through goroutine has finished.
func WaitUnmanaged(d time.Duration) bool {
	deadline := time.Now().Add(d)
	for unmanaged.Load() != 0 {
		if time.Now().After(deadline) {
			return false
		}
		time.Sleep(100 * time.Microsecond)
	}
	return true
}

// Active reports whether a controlled execution is in progress.
func Active() bool { return S.active }

type abortSignal struct{}

// Run executes main under the scheduler, replaying prefix and then taking
// default choices. It returns the recorded trace and the verdict.
func Run(prefix []int, maxSteps int, hook func(label string), main func()) ([]Choice, Verdict) {
	return RunExpect(prefix, nil, maxSteps, hook, main)
}

// RunExpect is Run with the parent execution's recorded choices for the prefix: a replay
// that does not meet the same choice points is flagged in Verdict.Diverged.
func RunExpect(prefix []int, expect []Choice, maxSteps int, hook func(label string), main func()) ([]Choice, Verdict) {
	if S.active {
		panic("vrt: nested Run")
	}
	vclock = 0 // virtual time restarts with every execution: persisted timestamps depend on the schedule only
	*S = sched{
		active:   true,
		prefix:   prefix,
		expect:   expect,
		maxSteps: maxSteps,
		finished: make(chan struct{}),
		closed:   map[uintptr]bool{},
		hook:     hook,
	}
	t := S.newThread("main")
	S.cur = t
	S.wgAll.Add(1)
	go func() {
		defer S.wgAll.Done()
		defer S.threadExit(t)
		debug.SetPanicOnFault(true)
		<-t.wake
		main()
	}()
	t.wake <- struct{}{}
	<-S.finished
	// tear down: release every parked thread with the abort flag set
	S.abort = true
	for _, th := range S.threads {
		if !th.done {
			select {
			case th.wake <- struct{}{}:
			default:
			}
		}
	}
	S.wgAll.Wait()
	tr, v := S.trace, S.verdict
	v.Steps = S.steps
	v.Diverged = S.diverged
	S.active = false
	return tr, v
}

func (s *sched) newThread(name string) *thread {
	t := &thread{id: len(s.threads), name: name, wake: make(chan struct{}, 1)}
	s.threads = append(s.threads, t)
	return t
}

// threadExit runs as the last deferred function of every managed goroutine.
func (s *sched) threadExit(t *thread) {
	if r := recover(); r != nil {
		if _, ok := r.(abortSignal); !ok && !s.abort {
			if s.verdict.Panic == nil {
				s.verdict.Panic = r
				s.verdict.PanicStk = string(debug.Stack())
				s.verdict.PanicThr = t.name
			}
			s.finish()
			t.done = true
			return
		}
	}
	t.done = true
	if s.abort {
		return
	}
	if t.id == 0 {
		// main finished: the execution is over
		s.finish()
		return
	}
	// pick a successor
	s.cur = nil
	s.exitDispatch()
}

var debugSteps = os.Getenv("VERIF_DEBUG_STEPS") != ""

func (s *sched) finish() {
	select {
	case <-s.finished:
	default:
		close(s.finished)
	}
}

// Go spawns a managed thread.
func Go(f func()) {
	s := S
	if !s.active {
		unmanaged.Add(1)
		go func() {
			defer unmanaged.Add(-1)
			f()
		}()
		return
	}
	if s.abort {
		return
	}
	name, client := callerName()
	t := s.newThread(name)
	t.client = client
	t.op = &pendingOp{kind: opStart, label: "start"}
	s.wgAll.Add(1)
	go func() {
		defer s.wgAll.Done()
		defer s.threadExit(t)
		debug.SetPanicOnFault(true)
		<-t.wake
		if s.abort {
			panic(abortSignal{})
		}
		f()
	}()
	s.yield(&pendingOp{kind: opPoint, label: "go"})
}

func callerName() (string, bool) {
	_, file, line, ok := runtime.Caller(2)
	if !ok {
		return "?", false
	}
	client := strings.Contains(file, "/props/") || strings.Contains(file, "/sched/")
	for i := len(file) - 1; i >= 0; i-- {
		if file[i] == '/' {
			file = file[i+1:]
			break
		}
	}
	return fmt.Sprintf("%s:%d", file, line), client
}

// ClientPriority orders the enabled set of the DEFAULT schedule as: the running thread (if still
// enabled), then the driver's own threads by creation order, then the threads of the instrumented
// packages (introducer, persister, merger, helpers) by creation order. Clients run ahead and
// background work happens when they block; a deviation lets one background step happen early (or a
// client step late). With false the order is purely by creation id.
var ClientPriority = false

// Daemon marks the calling thread as a daemon (does not count for deadlock).
func Daemon() {
	if S.active && S.cur != nil {
		S.cur.daemon = true
	}
}

// Point is an explicit scheduling (and crash) point.
func Point(label string) {
	s := S
	if !s.active || s.abort {
		return
	}
	if s.hook != nil {
		s.hook(label)
	}
	if Hook != nil {
		Hook(label)
	}
	s.yield(&pendingOp{kind: opPoint, label: label})
}

// Choose is an environment choice point: the driver asks the explorer for one of n alternatives
// (which workload of a family, which moment an action is taken). Every alternative is explored,
// at no cost in deviations; outside a controlled execution and in free mode the answer is 0.
func Choose(n int, label string) int {
	s := S
	if !s.active || s.abort || n <= 1 {
		return 0
	}
	return s.choose(n, "env", label, false)
}

// WaitIdle blocks the calling thread until no other thread can make progress
// (all background work has settled).
func WaitIdle() {
	s := S
	if !s.active || s.abort {
		return
	}
	s.yield(&pendingOp{kind: opIdle, label: "idle"})
}

// Free runs f with branching disabled (default policy only).
func Free(f func()) {
	S.freeMode++
	defer func() { S.freeMode-- }()
	f()
}

// ---------------------------------------------------------------------------
// the core: announce an operation, let the scheduler pick who runs

func (s *sched) enabled(t *thread) bool {
	if t.done {
		return false
	}
	if t.ready {
		return true
	}
	op := t.op
	if op == nil {
		return false
	}
	switch op.kind {
	case opPoint, opStart:
		return true
	case opIdle:
		for _, o := range s.threads {
			if o != t && (o.op == nil || o.op.kind != opIdle) && s.enabled(o) {
				return false
			}
		}
		return true
	case opLock:
		return !op.mu.held
	case opRLock:
		return !op.rw.w && op.rw.wWaiting == 0
	case opWLockAnnounce:
		return !op.rw.w && op.rw.wWaiting == 0
	case opWLockAcquire:
		return op.rw.readers == 0
	case opWGWait:
		return op.wg.n == 0
	case opSend, opRecv:
		return s.chanReady(t, op.ch)
	case opSelect:
		if op.hasDefault {
			return true
		}
		for _, c := range op.cases {
			if s.chanReady(t, c) {
				return true
			}
		}
		return false
	}
	return false
}

// partner finds a pending complementary operation on the same unbuffered channel.
func (s *sched) partner(self *thread, c *chanOp) (*thread, *chanOp) {
	for _, o := range s.threads {
		if o == self || o.done || o.ready || o.op == nil {
			continue
		}
		switch o.op.kind {
		case opSend, opRecv:
			if o.op.ch.key == c.key && o.op.ch.isSend != c.isSend {
				return o, o.op.ch
			}
		case opSelect:
			for _, oc := range o.op.cases {
				if oc.key == c.key && oc.isSend != c.isSend {
					return o, oc
				}
			}
		}
	}
	return nil, nil
}

func (s *sched) chanReady(t *thread, c *chanOp) bool {
	if c.key == 0 {
		return false // nil channel
	}
	if c.isSend {
		if s.closed[c.key] {
			return true // will panic, as in Go
		}
		if c.bufCap() > 0 {
			return c.bufLen() < c.bufCap()
		}
		p, _ := s.partner(t, c)
		return p != nil
	}
	if c.bufLen() > 0 || s.closed[c.key] {
		return true
	}
	if c.bufCap() == 0 {
		if p, _ := s.partner(t, c); p != nil {
			return true
		}
	}
	// foreign close (e.g. ctx.Done()): probe the real channel
	if v, ok, success := c.realRecv(); success {
		if !ok {
			s.closed[c.key] = true
			return true
		}
		// a real value arrived from un-instrumented code: keep it
		c.val, c.ok, c.done = v, true, true
		return true
	}
	return false
}

// complete performs the operation of the thread that was just chosen.
func (s *sched) complete(t *thread) {
	if t.ready {
		t.ready = false
		t.op = nil
		return
	}
	op := t.op
	switch op.kind {
	case opPoint, opStart, opIdle:
	case opLock:
		op.mu.held = true
	case opRLock:
		op.rw.readers++
	case opWLockAnnounce:
		op.rw.wWaiting++
		// second phase
		t.op = &pendingOp{kind: opWLockAcquire, rw: op.rw, label: op.label}
		return
	case opWLockAcquire:
		op.rw.wWaiting--
		op.rw.w = true
	case opWGWait:
	case opSend, opRecv:
		s.completeChan(t, op.ch)
	case opSelect:
		var ready []int
		for i, c := range op.cases {
			if s.chanReady(t, c) {
				ready = append(ready, i)
			}
		}
		if len(ready) == 0 {
			op.chosen = -1
		} else {
			k := 0
			if len(ready) > 1 {
				k = s.choose(len(ready), "select", op.label, false)
			}
			op.chosen = ready[k]
			s.completeChan(t, op.cases[op.chosen])
		}
	}
	t.op = nil
}

func (s *sched) completeChan(t *thread, c *chanOp) {
	if c.done {
		return
	}
	if c.isSend {
		if s.closed[c.key] || c.bufCap() > 0 {
			c.realSend(c.val) // panics on closed channel, like Go
			c.done = true
			return
		}
		p, pc := s.partner(t, c)
		pc.val, pc.ok, pc.done = c.val, true, true
		s.partnerDone(p, pc)
		c.done = true
		return
	}
	if c.bufLen() > 0 {
		v, ok, _ := c.realRecv()
		c.val, c.ok, c.done = v, ok, true
		return
	}
	if s.closed[c.key] {
		c.val, c.ok, c.done = nil, false, true
		return
	}
	p, pc := s.partner(t, c)
	c.val, c.ok, c.done = pc.val, true, true
	pc.done = true
	s.partnerDone(p, pc)
}

// partnerDone marks the partner thread's operation as completed.
func (s *sched) partnerDone(p *thread, pc *chanOp) {
	if p.op.kind == opSelect {
		for i, c := range p.op.cases {
			if c == pc {
				p.op.chosen = i
			}
		}
	}
	p.ready = true
}

// choose records (or replays) one decision among n alternatives.
func (s *sched) choose(n int, kind, label string, curFirst bool) int {
	if s.freeMode > 0 {
		return 0
	}
	i := len(s.trace)
	c := 0
	if i < len(s.prefix) {
		c = s.prefix[i]
		if c >= n {
			if s.diverged == "" {
				s.diverged = fmt.Sprintf("replay divergence at choice %d: want alternative %d of %d (%s %s)", i, c, n, kind, label)
			}
			c = 0
		}
		if i < len(s.expect) && s.diverged == "" {
			if e := s.expect[i]; e.N != n || e.Kind != kind || e.Label != label {
				s.diverged = fmt.Sprintf("replay divergence at choice %d: recorded (%s %q, %d alternatives), now (%s %q, %d alternatives)", i, e.Kind, e.Label, e.N, kind, label, n)
			}
		}
	}
	s.trace = append(s.trace, Choice{N: n, Chosen: c, Kind: kind, Label: label, CurFirst: curFirst})
	return c
}

// pick selects the next thread among the enabled ones (from first if enabled),
// performs its pending operation and returns it. nil = nobody can run.
func (s *sched) pick(from *thread) *thread {
	s.steps++
	if debugSteps && s.steps%20000 == 0 {
		println("vrt: steps", s.steps, "threads", len(s.threads), "trace", len(s.trace))
	}
	if s.maxSteps > 0 && s.steps > s.maxSteps {
		s.verdict.Aborted = true
		return nil
	}
	var en []*thread
	curEnabled := false
	if from != nil && s.enabled(from) {
		en = append(en, from)
		curEnabled = true
	}
	if ClientPriority {
		for _, t := range s.threads {
			if t != from && (t.client || t.id == 0) && s.enabled(t) {
				en = append(en, t)
			}
		}
		for _, t := range s.threads {
			if t != from && !(t.client || t.id == 0) && s.enabled(t) {
				en = append(en, t)
			}
		}
	} else {
		for _, t := range s.threads {
			if t != from && s.enabled(t) {
				en = append(en, t)
			}
		}
	}
	if len(en) == 0 {
		for _, t := range s.threads {
			if !t.done && !t.daemon {
				lbl := "?"
				if t.op != nil {
					lbl = t.op.label
				}
				s.verdict.Blocked = append(s.verdict.Blocked, fmt.Sprintf("%s@%s", t.name, lbl))
			}
		}
		if len(s.verdict.Blocked) > 0 {
			s.verdict.Deadlock = true
		}
		return nil
	}
	k := 0
	if len(en) > 1 {
		lbl := ""
		if from != nil && from.op != nil {
			lbl = from.op.label
		}
		k = s.choose(len(en), "thread", lbl, curEnabled)
	}
	next := en[k]
	if LogSteps {
		StepLog = append(StepLog, fmt.Sprintf("   -> run T%d (of %d enabled, choice %d)", next.id, len(en), k))
	}
	s.complete(next)
	return next
}

func (s *sched) park(t *thread) {
	<-t.wake
	if s.abort {
		panic(abortSignal{})
	}
}

// yield announces op for the current thread and returns when the operation has
// been performed and the thread holds the baton again.
func (s *sched) yield(op *pendingOp) {
	t := s.cur
	if t == nil {
		panic("vrt: yield without current thread")
	}
	t.op = op
	if LogSteps {
		StepLog = append(StepLog, fmt.Sprintf("T%d(%s) %s @ %s", t.id, t.name, op.label, site(3)))
	}
	if StepHook != nil && s.freeMode == 0 {
		StepHook(op.label)
	}
	for {
		next := s.pick(t)
		if next == nil {
			s.finish()
			s.park(t) // only ever released by abort
		}
		if next != t {
			s.cur = next
			next.wake <- struct{}{}
			s.park(t)
			// whoever picked us already performed our operation
		}
		if t.op == nil {
			return
		}
		// two-phase operation (write lock): announce phase done, acquire pending
	}
}

// exitDispatch hands the baton on when the current thread terminates.
func (s *sched) exitDispatch() {
	next := s.pick(nil)
	if next == nil {
		s.finish()
		return
	}
	s.cur = next
	next.wake <- struct{}{}
}

// CurName returns the name of the running managed thread ("" outside a controlled execution).
func CurName() string {
	if S.active && S.cur != nil {
		return S.cur.name
	}
	return ""
}

// lockSite returns "file:line" of the caller of the Lock method (labels lock scheduling points).
func lockSite() string {
	_, file, line, ok := runtime.Caller(2)
	if !ok {
		return "?"
	}
	for i := len(file) - 1; i >= 0; i-- {
		if file[i] == '/' {
			file = file[i+1:]
			break
		}
	}
	return fmt.Sprintf("%s:%d", file, line)
}

// Alive lists the names (spawn sites) of managed threads that have not terminated, the calling
// thread and daemons excluded. Meant to be called by a driver thread while it holds the baton.
func Alive() []string {
	var out []string
	if !S.active {
		return out
	}
	for _, t := range S.threads {
		if t.done || t == S.cur || t.daemon {
			continue
		}
		lbl := ""
		if t.op != nil {
			lbl = "@" + t.op.label
		}
		out = append(out, t.name+lbl)
	}
	return out
}
