// Package c13: rollback restores exactly the state persisted at the chosen rollback point.
//
// E1: breadth-first search over histories of batches (each tagged seq=j in an internal key),
// ForceMerge and reopen steps; at EVERY state reached the index is closed, RollbackPoints is
// read, and for EVERY point offered the directory is copied, rolled back, opened and compared
// with the model state the point names.
package c13

import (
	"context"
	"fmt"
	"io"
	"os"
	"path/filepath"
	"strconv"
	"strings"
	"sync/atomic"
	"time"

	"github.com/blevesearch/bleve/v2"
	"github.com/blevesearch/bleve/v2/index/scorch"

	"verif/bx"
	"verif/lww"
	"verif/mc"
)

type conf struct {
	shrink bool // shrinkAlphabet, every history starts with its first operation
	name   string
	keep   int
	cfg    map[string]interface{}
}

func (c conf) config() map[string]interface{} {
	m := bx.CopyConfig(c.cfg)
	if m == nil {
		m = map[string]interface{}{}
	}
	m["numSnapshotsToKeep"] = c.keep
	return m
}

type op struct {
	batch  lww.Batch
	multi  []lww.Batch // a run of batches (each with its own seq), one segment each
	layout string
}

func (o op) String() string {
	if o.layout != "" {
		return o.layout
	}
	if o.multi != nil {
		var s []string
		for _, b := range o.multi {
			s = append(s, b.String())
		}
		return "{" + strings.Join(s, " ; ") + "}"
	}
	return o.batch.String()
}

// shrinkAlphabet: histories in which the newest segments disappear again (a delete-only batch
// obsoletes every document of the two newest segments, so the newest root names only older, lower
// numbered files while retained rollback points still name the higher ones), followed by reopen and
// further writes. The first operation of every history is the run of three single-document batches.
func shrinkAlphabet() []op {
	I := func(id string, v int) lww.Op { return lww.Op{Kind: "I", ID: id, V: v} }
	D := func(id string) lww.Op { return lww.Op{Kind: "D", ID: id} }
	return []op{
		{multi: []lww.Batch{{I("a", 1)}, {I("b", 1)}, {I("c", 1)}}},
		{batch: lww.Batch{D("b"), D("c")}},
		{layout: "reopen"},
		{batch: lww.Batch{I("d", 1)}},
		{batch: lww.Batch{I("b", 2)}},
		{layout: "forcemerge"},
	}
}

func alphabet() []op {
	I := func(id string, v int) lww.Op { return lww.Op{Kind: "I", ID: id, V: v} }
	D := func(id string) lww.Op { return lww.Op{Kind: "D", ID: id} }
	return []op{
		{batch: lww.Batch{I("a", 1)}}, {batch: lww.Batch{I("a", 2)}}, {batch: lww.Batch{I("b", 1)}}, {batch: lww.Batch{D("a")}},
		{batch: lww.Batch{I("a", 1), D("b")}}, {batch: lww.Batch{D("b"), I("b", 2)}},
		{layout: "forcemerge"}, {layout: "reopen"},
	}
}

var ids = []string{"a", "b", "c", "d", "zz"}
var keys = []string{"seq"}

func copyDir(src, dst string) error {
	return filepath.Walk(src, func(p string, fi os.FileInfo, err error) error {
		if err != nil {
			return err
		}
		rel, _ := filepath.Rel(src, p)
		t := filepath.Join(dst, rel)
		if fi.IsDir() {
			return os.MkdirAll(t, 0o755)
		}
		in, err := os.Open(p)
		if err != nil {
			return err
		}
		defer in.Close()
		out, err := os.Create(t)
		if err != nil {
			return err
		}
		defer out.Close()
		_, err = io.Copy(out, in)
		return err
	})
}

func Run(r *mc.Run) {
	ops := alphabet()
	depth := mc.Pick(r, 3, 4)
	confs := []conf{
		{name: "keep1-aggressive", keep: 1, cfg: map[string]interface{}{"scorchMergePlanOptions": bx.AggressiveMergePlan}},
		{name: "keep3-default", keep: 3},
		{name: "keep2-partial-merge", keep: 2, cfg: map[string]interface{}{"scorchMergePlanOptions": bx.PartialMergePlan}},
		{name: "keep2-nomerge-runs-of-batches-around-a-reopen", keep: 2, shrink: true, cfg: map[string]interface{}{"scorchMergePlanOptions": bx.NoMergePlan}},
		{name: "keep8-nomerge-newest-segments-disappear", keep: 8, shrink: true, cfg: map[string]interface{}{"scorchMergePlanOptions": bx.NoMergePlan}},
	}
	if !r.Quick() {
		confs = append(confs,
			conf{name: "keep8-nomerge", keep: 8, cfg: map[string]interface{}{"scorchMergePlanOptions": bx.NoMergePlan}},
			conf{name: "keep8-aggressive", keep: 8, cfg: map[string]interface{}{"scorchMergePlanOptions": bx.AggressiveMergePlan}},
			conf{name: "keep1-default", keep: 1},
			conf{name: "keep3-nomerge", keep: 3, cfg: map[string]interface{}{"scorchMergePlanOptions": bx.NoMergePlan}},
		)
	}
	r.Rule("E1: breadth-first search over histories of batches (each also SetInternal(seq,j)), ForceMerge and Close+Open steps up to the depth bound, per retention / merge-plan configuration; at every state: Close, RollbackPoints, and for EVERY offered point copy + Rollback + Open + comparison of all C01 observations with the model state S_q the point's internal value names, a new batch, close and reopen; states are merged by (sequence of model states, segment layout); an outcome is (configuration, number of points offered, distinct q offered)")
	r.Assume("rollbackSamplingInterval = 0 (time-series retention is not explored: it depends on wall-clock timestamps)", "the number of points is only bounded above by keep+2 (retention counts epochs, not logical states)")
	var names []string
	for _, o := range ops {
		names = append(names, o.String())
	}
	r.Note("alphabet", names)
	r.Note("depth", depth)
	for _, c := range confs {
		if r.Expired() {
			r.Cap("deadline before configuration " + c.name)
			break
		}
		c := c
		t0 := time.Now()
		ops, depth := ops, depth
		if c.shrink {
			ops, depth = shrinkAlphabet(), 4
			if r.Quick() {
				// quick tier: the runs family without the single-document updates and the forced merge
				n := 4
				if c.keep == 2 {
					n = 3
				}
				ops = ops[:n]
			}
		}
		seq := mc.Seq{N: len(ops), Depth: depth, Workers: 12, OpName: func(i int) string { return ops[i].String() }}
		seq.Exec = func(path []int) (string, bool) {
			var key string
			ok := true
			if c.shrink && len(path) > 0 && path[0] != 0 {
				return "", false // the family starts from the three-segment run
			}
			rep := map[string]any{"configuration": c.name, "path": seq.PathString(path)}
			var stage atomic.Value
			stage.Store("start")
			done, pv, st := mc.WithTimeout(40*time.Second, func() { key, ok = execPath(r, c, ops, path, rep, &stage) })
			if !done {
				// a call of the index API has not returned for 40 s (an execution takes well under a
				// second): run the same history once more on a fresh directory; only if the same call
				// is stuck again is it reported — as a violation where the property promises that
				// call works (a write accepted after Rollback, reopening), else as a cap
				first := stage.Load().(string)
				var stage2 atomic.Value
				stage2.Store("start")
				rep2 := map[string]any{"configuration": c.name, "path": seq.PathString(path)}
				done2, _, _ := mc.WithTimeout(40*time.Second, func() { execPath(r, c, ops, path, rep2, &stage2) })
				if !done2 && stage2.Load().(string) == first {
					rep["stuck_in"] = first
					r.Violation("never-returns:"+strings.SplitN(first, " ", 2)[0], fmt.Sprintf("%v: the call %q did not return within 40 s, twice in a row (fresh directory each time)", rep, first), rep)
				} else {
					r.Cap("an execution was slow or hung once (>40s) in " + c.name + " at " + first + "; not reproduced, abandoned")
				}
				return "", false
			}
			if pv != nil {
				r.Violation("panic:"+c.name, fmt.Sprintf("%v: %v @ %s", rep, pv, mc.TrimStack(st)), rep)
				return "", false
			}
			return key, ok
		}
		st, tr := r.BFS(seq)
		r.Note("conf:"+c.name, map[string]any{"states": st, "transitions": tr, "wall_s": time.Since(t0).Seconds()})
	}
}

func execPath(r *mc.Run, c conf, ops []op, path []int, rep map[string]any, stage *atomic.Value) (string, bool) {
	base := mc.ScratchDir("c13")
	defer os.RemoveAll(base)
	dir := base + "/idx"
	idx, err := bleve.NewUsing(dir, bleve.NewIndexMapping(), scorch.Name, scorch.Name, c.config())
	if err != nil {
		r.Violation("create:"+c.name, fmt.Sprintf("%v: %v", rep, err), rep)
		return "", false
	}
	closed := false
	defer func() {
		if !closed {
			idx.Close()
		}
	}()
	m := lww.New()
	states := []string{m.Key()} // states[q] = model after batch q
	models := []*lww.Model{m.Clone()}
	seqNo := 0
	for si, oi := range path {
		o := ops[oi]
		stage.Store(fmt.Sprintf("history-step %d %s", si, o))
		switch o.layout {
		case "":
			bs := o.multi
			if bs == nil {
				bs = []lww.Batch{o.batch}
			}
			for _, ob := range bs {
				seqNo++
				b := append(lww.Batch{}, ob...)
				b = append(b, lww.Op{Kind: "S", ID: "seq", V: seqNo})
				if err := lww.ExecBatch(idx, b); err != nil {
					r.Violation("batch-error:"+c.name, fmt.Sprintf("%v: step %d: %v", rep, si, err), rep)
					return "", false
				}
				m.Apply(b)
				states = append(states, m.Key())
				models = append(models, m.Clone())
			}
		case "forcemerge":
			if err := bx.Scorch(idx).ForceMerge(context.Background(), nil); err != nil {
				r.Violation("forcemerge-error:"+c.name, fmt.Sprintf("%v: step %d: %v", rep, si, err), rep)
				return "", false
			}
		case "reopen":
			if err := idx.Close(); err != nil {
				r.Violation("close-error:"+c.name, fmt.Sprintf("%v: step %d: %v", rep, si, err), rep)
				closed = true
				return "", false
			}
			idx, err = bleve.OpenUsing(dir, c.config())
			if err != nil {
				closed = true
				r.Violation("reopen-error:"+c.name, fmt.Sprintf("%v: step %d: %v", rep, si, err), rep)
				return "", false
			}
		}
		bx.Quiesce(idx, 2*time.Second)
	}
	layout := bx.ScorchLayout(idx)
	stage.Store("close after the history")
	if err := idx.Close(); err != nil {
		r.Violation("close-error:"+c.name, fmt.Sprintf("%v: final close: %v", rep, err), rep)
	}
	closed = true
	r.Eval(1)
	pts, err := scorch.RollbackPoints(dir + "/store")
	if err != nil {
		r.Violation("rollbackpoints-error:"+c.name, fmt.Sprintf("%v: %v", rep, err), rep)
		return "", false
	}
	fail := func(cls, f string, a ...any) {
		r.Violation(cls, fmt.Sprintf("%v: ", rep)+fmt.Sprintf(f, a...), rep)
	}
	if len(pts) == 0 {
		fail("no-rollback-point", "no rollback point offered although the index was closed cleanly")
		return "", false
	}
	qOf := func(p *scorch.RollbackPoint) int {
		v := p.GetInternal([]byte("seq"))
		if v == nil {
			return 0
		}
		q, err := strconv.Atoi(string(v))
		if err != nil {
			return -1
		}
		return q
	}
	if q := qOf(pts[0]); q != seqNo {
		fail("newest-point-is-not-last-persisted-state", "newest rollback point carries seq=%d, the last batch was %d", q, seqNo)
	}
	if len(pts) > c.keep+2 {
		// not an oracle: old epochs are purged lazily (when the persister goes idle), so how many are
		// still there when Close arrives depends on timing; what must not happen is that a point stays
		// although many batches have been persisted since (below)
		r.Count("states_closed_with_more_than_keep+2_points_(purge_still_pending)", 1)
	}
	// every batch persists at least one epoch, so the newest keep (+ a purge that has not run yet:
	// generously +3) epochs cannot reach further back than that many batches
	for pi, p := range pts {
		if q := qOf(p); q >= 0 && q < seqNo-(c.keep+3) {
			fail("stale-point-retained", "rollback point %d carries seq=%d although %d batches have been persisted since and numSnapshotsToKeep=%d", pi, q, seqNo-q, c.keep)
			break
		}
	}
	distinct := map[int]bool{}
	for pi, p := range pts {
		q := qOf(p)
		distinct[q] = true
		if q < 0 || q > seqNo {
			fail("point-names-unknown-state", "rollback point %d carries seq=%d; the history has batches 0..%d", pi, q, seqNo)
			continue
		}
		cp := fmt.Sprintf("%s/rb%d", base, pi)
		if err := copyDir(dir, cp); err != nil {
			panic(err)
		}
		r.Eval(1)
		stage.Store(fmt.Sprintf("rollback to point %d", pi))
		if err := scorch.Rollback(cp+"/store", p); err != nil {
			fail("rollback-error", "Rollback to point %d (seq %d): %v", pi, q, err)
			continue
		}
		stage.Store(fmt.Sprintf("open-after-rollback to point %d", pi))
		i2, err := bleve.OpenUsing(cp, c.config())
		if err != nil {
			fail("open-after-rollback", "Open after Rollback to point %d (seq %d): %v", pi, q, err)
			continue
		}
		if bad := models[q].Check(i2, ids, keys); len(bad) > 0 {
			fail("state-after-rollback", "after Rollback to point %d (seq %d): %s", pi, q, strings.Join(bad, "; "))
		}
		nb := lww.Batch{{Kind: "I", ID: "n", V: 3}, {Kind: "S", ID: "seq", V: 99}}
		stage.Store(fmt.Sprintf("write-after-rollback to point %d", pi))
		if err := lww.ExecBatch(i2, nb); err != nil {
			fail("write-after-rollback", "write after Rollback to point %d: %v", pi, err)
		}
		want := models[q].Clone()
		want.Apply(nb)
		stage.Store(fmt.Sprintf("close-after-rollback-write (point %d)", pi))
		i2.Close()
		stage.Store(fmt.Sprintf("reopen-after-rollback-write (point %d)", pi))
		i3, err := bleve.OpenUsing(cp, c.config())
		if err != nil {
			fail("reopen-after-rollback-write", "reopen after Rollback+write (point %d): %v", pi, err)
		} else {
			if bad := want.Check(i3, append([]string{"n"}, ids...), keys); len(bad) > 0 {
				fail("state-after-rollback-write", "after Rollback to point %d (seq %d), a write and a reopen: %s", pi, q, strings.Join(bad, "; "))
			}
			i3.Close()
		}
		os.RemoveAll(cp)
	}
	r.Outcome(fmt.Sprintf("%s|points=%d|distinct=%d", c.name, len(pts), len(distinct)))
	r.Count("rollback_points_exercised", int64(len(pts)))
	if len(distinct) > 1 {
		r.Count("states_offering_an_older_logical_state", 1)
	}
	if len(path) == 3 && path[0] != path[1] {
		r.Sample(map[string]any{"configuration": c.name, "path": rep["path"], "points": len(pts), "layout": layout})
	}
	// a reopen changes neither the model nor the layout, but it does change in-memory bookkeeping
	// (what the purger still has queued, where segment ids restart): histories that differ in where
	// they reopened are kept apart
	reopens := ""
	for si, oi := range path {
		if (c.shrink || !r.Quick()) && ops[oi].layout == "reopen" {
			reopens += fmt.Sprintf("r%d", si)
		}
	}
	return strings.Join(states, "/") + "#" + layout + "#" + reopens, true
}
