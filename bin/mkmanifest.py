#!/usr/bin/env python3
"""Regenerates MANIFEST.json from the table below (keeps it valid and in one place)."""
import json, os, sys
ROOT = os.path.dirname(os.path.dirname(os.path.abspath(__file__)))
props = [json.loads(l) for l in open(os.path.join(ROOT, 'properties.jsonl'))]
BASE = json.load(open('/root/.vp/BASELINE.json'))['cmd'] if os.path.exists('/root/.vp/BASELINE.json') else "cd /repo && go test ./..."

# id -> (engine, category, technique, level text, level note, design ref)
E3NOTE = "Sequentially consistent interleavings at synchronisation granularity (locks, channels, select, WaitGroup, go statements, injected file-system effect points); atomics and un-instrumented dependencies (zapx, bbolt, roaring) execute atomically between scheduling points; timers never fire; exploration is exhaustive up to the stated deviation bound, not beyond. The source rewrite is regenerated from /repo's current tree on every run."
CHECKS = {
 "C18": ("E2-space", "model_checking",
         "exhaustive enumeration of a shape family × point lattice (with points at ± encoding resolutions around every shape edge) against exact spherical geometry, three-valued at the encoding resolution",
         "On scorch, scorch with the s2 spatial plugin and upsidedown: every bounding box over a coarse lattice (date-line-crossing, pole-touching, zero-size), circles around all 77 lattice points with radii 1 m … 10 000 km, lattice rectangles and triangles in both windings; documents = the lattice points, grids of points at ±1…±1000 ×1e-7° around every edge coordinate, points on 8–16 bearings just inside and outside every circle, and multi-point documents; distance sort from every origin; Morton round trip of every point used. Oracle: exact spherical geometry, three-valued — clearly inside ⇒ must be returned, clearly outside ⇒ must not, inside the band (1.2e-6° for boxes/polygons, ±0.3 m plus the WGS84 radius interval for distances) ⇒ either.",
         "Polygons are asserted only where planar and great-circle readings of every edge agree; quick thins the plugin-less engines (large / polar shapes cost ~10^5 dictionary probes each).",
         "DESIGN.md §5 C18"),
 "C06": ("E2-space", "model_checking",
         "exhaustive enumeration of match streams × sort specifications × page settings through the real collector over a stub searcher, and of corpora × requests on real indexes, against a stable reference sort",
         "(a) Collector level: the real TopNCollector over a stub searcher / doc-value reader is fed EVERY match stream up to a length bound over alphabets of scores and keys (present, missing, multi-valued), all binary score streams of length 12–13 (crossing the slice→heap store switch), ids assigned by every permutation, × 56 sort specifications × Size {0,1,2,3,5,11} × From {0,1,2,10} × PreAllocSizeSkipCap {1000,3}, plus SearchAfter from every hit under total orders. (b) Index level on both engines: every sequence of ≤3–4 documents over 6 profiles plus tied corpora, 65 sort specifications, every From/Size page and SearchAfter/SearchBefore from every hit with keys taken from DecodedSort. Oracle: stable sort of the matches in natural index order by the documented comparison; hits = positions [From, From+Size), Total, MaxScore; pages tile.",
         "Natural order = arrival order (stub), insertion order (in-memory scorch, one document per batch), id order (upsidedown); default mode on multi-valued keys not compared; geo-distance keys not enumerated.",
         "DESIGN.md §5 C06"),
 "C16": ("E2-space", "model_checking",
         "exhaustive enumeration of mapping trees (cartesian families) × a document alphabet, comparing a mapping with its JSON round trip",
         "Four cartesian families of mapping trees built through the Go API (field: 7 types × all 64 option subsets × analyzer × date format; document: enabled × dynamic × default_analyzer × nested × _all × struct tag key for default/type/sub-document mappings; index-level defaults and dynamic flags × scoring model × type mappings; custom analysis components incl. Go-native vs JSON-native config values). For each valid mapping m and m2 = Unmarshal(Marshal(m)): m2 validates, JSON is a fixed point twice, a reflection walk over all exported fields is equal, MapDocument+Analyze of a 46-document alphabet (every value kind, wrong types, unmapped/disabled paths, _type dispatch, arrays of objects) gives identical fields, options, values, terms and locations; the same in strict mode and, for a subset, through a real New/Close/Open cycle.",
         "Quick subsamples two families (every 11th / 7th member); invalid mappings are counted and skipped.",
         "DESIGN.md §5 C16"),
 "C17": ("E2-space", "model_checking",
         "exhaustive enumeration of query trees / requests (JSON round trip), of ALL byte strings up to a length bound over a syntax alphabet (parser robustness), and of all grammar sentences up to 3 clauses (meaning) against constructed queries and the reference evaluator",
         "(a) every query of the C02 family plus option variants and every ordered pair under 16 compound forms: ParseQuery(Marshal(q)) parses, JSON is a fixed point, hits and scores are bit-identical on both engines; search requests (sorts, paging, search_after/before, facets, highlight, fields) round-trip to equal JSON and equal results. (b) EVERY string of length ≤4 (quick) / ≤5 (thorough) over a 21-symbol syntax alphabet through the query-string parser: no panic, terminates, answer independent of what the pooled lexer parsed before; accepted queries marshal and re-parse. (c) every sentence of ≤3 signed clauses over the documented clause forms: parsed query = directly constructed boolean query (hits and scores) = three-valued reference evaluation.",
         "A rejected input whose error text reveals a recovered internal failure counts as 'rejected' (observed, not alarmed); the JSON form of a Parse() result is a known finding.",
         "DESIGN.md §5 C17"),
 "C15": ("E1-opseq", "model_checking",
         "explicit-state breadth-first search over operation sequences with canonical-state dedup; every transition re-executes the real KV store adapter",
         "Breadth-first search over operation sequences on the real boltdb, goleveldb, gtreap and moss adapters and the metrics wrapper: execute a batch of ≤2 entries from Set/Delete/Merge(+1) over keys {a, a\\x00, a\\xff, a\\xffb, b, \\xff} and values {'', 1, 2}, open a reader, close a reader (depth 3 quick / 4 thorough, plus every single batch from the empty store). Every transition replays its path on a fresh store under a hang watchdog and compares — on a fresh reader and on every still-open reader against the model as of its creation — Get of every key and an absent one, MultiGet, PrefixIterator for 5 prefixes and RangeIterator for all (start,end) pairs incl. nil bounds, plain and after Seek to every key, as exact key/value sequences against a sorted-map model with a counter merge operator. States merged by (per-key model fact, multiset of open snapshot contents).",
         "boltdb initialMmapSize 16 MiB (a bbolt writer that must grow the mmap waits for open read transactions); moss's background merger is not controlled (classes are stable, instance counts vary); three moss / store_api defects are known findings and mask those exact patterns only.",
         "DESIGN.md §5 C15"),
 "C19": ("E2-space", "model_checking",
         "exhaustive enumeration of all byte strings up to a length bound over a boundary alphabet through every registered analysis component; exhaustive term-location enumeration for highlighters",
         "For every analyzer, tokenizer, token filter and char filter found in the registry at run time (minimal configurations where one is required; filters driven by several tokenizers), ALL strings of ≤3 symbols (quick; 4–5 thorough) over a 14-symbol alphabet (ASCII classes, multi-byte scripts, ZWNJ, emoji, invalid bytes 0xff / truncated 0xc3) plus long-token patterns: no panic, termination, and for tokenizers 0≤Start≤End≤len, non-decreasing starts, positive non-decreasing positions. Highlighters are driven directly on every short stored value with every term location and location pair (rune-splitting and out-of-range included), and through real indexes on both engines: each fragment, markup and escaping removed, is a contiguous slice of the stored value and each marked span is the text at a reported location.",
         "String length bound; token-filter offsets are observed, not asserted (the statement's offset clause is about tokenizers).",
         "DESIGN.md §5 C19"),
 "C05": ("E1-opseq", "model_checking",
         "exhaustive enumeration of histories × physical layouts with a differential oracle (baseline layout vs every alternative), all on the real engine",
         "Every history up to depth 3 (thorough: plus depth 4 on a reduced alphabet) over 3 ids × (4 document versions + delete) is laid out as one segment per operation (baseline) and in every alternative the engine offers — every partition into consecutive batches, forced file merges, ForceMerge + reopen, two persister workers with in-memory merges, older segment formats — and the complete SearchResult of 13 queries × 5 sorts with fields, locations, highlighting and facets is compared: ids, Total, MaxScore and scores bit-for-bit, sort keys, stored fields, locations, fragments, facet counts.",
         "Ties under a sort (equal complete sort key) are compared as sets (their order is internal-document-number order, layout dependent by design). One known finding masks score differences of dictionary-expanded multi-term queries when a layout still holds obsoleted documents.",
         "DESIGN.md §5 C05"),
 "C13": ("E1-opseq", "model_checking",
         "explicit-state breadth-first search over operation sequences with canonical-state dedup; every transition and every rollback re-executes the real code",
         "Breadth-first search over histories of batches (each tagged seq=j in an internal key), ForceMerge and Close+Open steps to depth 3 (quick) / 4 (thorough) for retention settings keep ∈ {1,3,8} × merge plans {default, aggressive, suppressed}. At every state reached: Close, RollbackPoints, and for EVERY point offered: copy, Rollback, Open, comparison of all C01 observations with the model state the point names, a further batch, close and reopen. The newest point must be the last persisted state; the number of points is bounded by keep+2.",
         "rollbackSamplingInterval = 0 only (time-series retention depends on wall-clock timestamps).",
         "DESIGN.md §5 C13"),
 "C03": ("E3-sched", "fault_enumeration",
         "stateless schedule exploration (deviation-bounded DFS under a cooperative scheduler) + exhaustive crash-image and torn-file enumeration with real recovery",
         "For every schedule of the batch workload within the deviation bound (safe mode, aggressive merging, unsafe_batch with 2 persister workers and persisted callbacks), the index directory is captured at every file-system / durability effect boundary of persist, merge, purge and removal (every occurrence; one scenario also at every rendezvous and lock point) with all other threads parked = the exact image of a process kill there. Every distinct image and every damage pattern {absent, empty, half, garbage} over zap files that no committed snapshot names is recovered by the real bleve.Open and must equal prefix state S_q with acked ≤ q ≤ submitted, then accept two more batches, close cleanly and reopen.",
         E3NOTE + " bbolt commit atomicity is trusted; power loss of un-synced writes to referenced files is not modelled.",
         "DESIGN.md §5 C03"),
 "C04": ("E3-sched", "model_checking",
         "stateless model checking of the implementation: deviation-bounded DFS over all interleavings under a controlled cooperative scheduler",
         "Five closed drivers (two writers ∥ reader with a held index reader; writer ∥ reader+searcher under a merge plan forcing file merges; writer ∥ reader ∥ ForceMerge; unsafe batches with two persister workers; upsidedown/gtreap) run the real bleve/scorch code, mechanically rewritten so that every lock, channel operation, select, go statement and WaitGroup goes through a scheduler; ALL schedules with ≤1 deviation from the default schedule (thorough: ≤2 on the rendezvous/spawn/select/fs/root-lock class) are executed. In every execution every read is checked: one view = one whole-batch prefix per writer, not older than acknowledged batches, per-client monotonic, held readers immutable.",
         E3NOTE, "DESIGN.md §5 C04"),
 "C11": ("E3-sched", "model_checking",
         "stateless model checking of the implementation: deviation-bounded DFS over all interleavings under a controlled cooperative scheduler",
         "A family of closed drivers (every unordered pair of public operations ∥ Close, selected triples, context cancellation; scorch on disk and upsidedown) explored over all schedules within the deviation bound. Scheduler verdicts give panic-, deadlock- and livelock-freedom; the closed-index contract (calls started after Close returned report closed, a second Close included; calls overlapping Close complete or report closed; after Close no scorch goroutine stays alive; cancelled search returns promptly and leaves the index usable) is evaluated in every execution.",
         E3NOTE + " The data-race clause is NOT decided by this technique (a scheduler switching at synchronisation points cannot see unsynchronised accesses); see DESIGN.md §6.",
         "DESIGN.md §5 C11"),
 "C12": ("E3-sched", "model_checking",
         "stateless model checking of the implementation with an invariant monitor evaluated at every file-system effect boundary / scheduling point",
         "Writer ∥ long-lived reader (∥ CopyTo) ∥ persister/merger/purger with forced file merges, all schedules within the deviation bound. Safety monitor (all other threads parked): every file named by a committed bolt snapshot, by the current root or by a reader still held exists. Liveness at quiescence: disk zap files = files named by recorded snapshots, epochs ≤ keep+1, no growth over 8 idle rounds, no descriptor left after Close.",
         E3NOTE + " scorch-internal views are read through a build-time export file (overlay/index+scorch/verif_export.go).",
         "DESIGN.md §5 C12"),
 "C14": ("E3-sched", "model_checking",
         "stateless model checking of the implementation: deviation-bounded DFS over all interleavings under a controlled cooperative scheduler",
         "Writer ∥ CopyTo started at any moment ∥ persister/merger/purger (forced file merges, one snapshot kept; also unsafe batches so that unpersisted segments are copied), all schedules within the deviation bound. The copy must open, equal prefix state S_q on every C01 observation with acked-before ≤ q ≤ submitted-at-end, accept a write and reopen; the source must equal the full history, keep nothing scheduled for copy and be tidy at quiescence.",
         E3NOTE, "DESIGN.md §5 C14"),
 "C01": ("E1-opseq", "model_checking",
         "explicit-state breadth-first search over operation sequences with canonical-state dedup; every transition re-executes the real index",
         "Breadth-first search over sequences of batches (single operations, multi-operation batches with several operations on one id, empty batch, delete of an absent id, internal keys) and layout operations (ForceMerge, Close+Open) up to depth 3 (quick) / 4 (thorough) for each index configuration (scorch in memory incl. forced zap v11–v16, scorch on disk with merges suppressed / aggressive / default, unsafe_batch with 2 persister workers, upsidedown over gtreap, boltdb, moss, goleveldb). Every transition replays the path on a fresh real index and compares DocCount, Document(id) for every id incl. a never-used one, match-all, doc-id and term searches and GetInternal with a map model; states are merged by (model state, segment layout signature).",
         "Depth bound; id space {a,b}+absent ids; three document versions; document order inside a batch segment never compared.",
         "DESIGN.md §5 C01"),
 "C08": ("E2-space", "model_checking",
         "exhaustive enumeration of all Next/Advance programs up to a length bound over all internal-id targets, on every searcher of a bounded query family and every index shape",
         "For every index shape (multi-segment layouts with deletions, a fully deleted segment, zero segments) × every query tree of the family (leaves, 9 compound forms over ordered pairs, depth-3 nestings) × searcher options × {scorch, upsidedown} × {slice, heap} disjunction: every program of Next / Advance(t) calls up to the bound, t ranging over ALL internal ids above the last returned one (matching, non-matching, deleted, segment boundaries, past the end), is executed on a fresh real searcher and compared with the Next-only enumeration, which itself must be strictly ascending and equal to the reference evaluator's live match set.",
         "Program length ≤ 2 (quick) / 3 (thorough); backward and repeated targets are outside the contract.",
         "DESIGN.md §5 C08"),
 "C02": ("E2-space", "model_checking",
         "exhaustive enumeration of a bounded input space (corpora × layouts × query trees × options × engines) against a three-valued reference evaluator",
         "Every member of the product {all subsets ≤3 of a 12-document alphabet + full corpus} × 3 physical layouts (one segment, segment per document, churn with deletes/updates) × query trees (≈85 leaves, all ordered pairs under 16 compound forms, a depth-3 family) × 8 request option sets × {scorch, upsidedown} × 5 searcher tuning settings is run on the real index and compared with an independent evaluator over the analysed tokens of the live documents: hit set, duplicates, Total, option independence.",
         "Vocabulary and corpus alphabet are fixed and small (chosen so that postings collide); fuzzy is three-valued between Levenshtein and Damerau; analysis output is taken from the mapping (C19 covers analysis).",
         "DESIGN.md §5 C02"),
 "C07": ("E2-space", "model_checking",
         "exhaustive enumeration of a bounded input space (boundary lattice, all pairs/tuples) against an interval-arithmetic reference",
         "All ordered pairs of a boundary lattice of float64 values (order, round trip, every precision shift); every (min,max,flags,open-end) tuple of the lattice through the real range searcher over a recording stub dictionary: the candidate terms must be pairwise disjoint intervals whose union is exactly the requested interval — an interval argument that settles membership for all 2^64 values of that tuple — within a probe budget (termination); end-to-end range and sort queries on both engines for numeric and date fields. Exhaustive within the lattice, nothing sampled.",
         "Values outside the lattice are covered only through the interval argument per bound tuple; NaN and -0 excluded as the property states; ±Inf at an open end is left unconstrained.",
         "DESIGN.md §5 C07"),
}
NOT_YET = "check not built yet in this round (planned, see DESIGN.md §5)"

checks, na = [], []
for p in props:
    i = p['id']
    if i in CHECKS:
        eng, cat, tech, text, note, ref = CHECKS[i]
        checks.append({
            "property_id": i,
            "quick_cmd": f"bin/check {i} quick",
            "thorough_cmd": f"bin/check {i} thorough",
            "evidence_file": f"/verif/evidence/{i}.json",
            "replay_cmd_template": f"bin/replay {i} {{path}}",
            "engine": eng,
            "level_claimed": {"category": cat, "text": text, "design_ref": ref},
            "level_note": note,
            "technique": tech,
        })
    else:
        na.append({"property_id": i, "reason": NOT_YET})
m = {
 "version": 1,
 "setup_cmd": "bin/setup",
 "hooks": {
   "guard": "verif",
   "enable": "no hook is committed in /repo: checks build /repo's current tree with `go build -tags verif -overlay .build/overlay.json` (files under /verif/overlay are added to bleve packages at build time, all tagged //go:build verif) and, for schedule exploration, with a mechanical source rewrite produced at check time by sched/vinst",
   "baseline_off_cmd": BASE,
   "source_commits": [],
   "add_only": True,
 },
 "engines": [
   {"name": "E2-space", "path": "mc/, props/*", "serves_properties": [c for c in CHECKS if CHECKS[c][0]=="E2-space"], "kind_free_text": "exhaustive enumeration of bounded input spaces against reference models, on the real code"},
   {"name": "E1-opseq", "path": "mc/, props/*", "serves_properties": [c for c in CHECKS if CHECKS[c][0]=="E1-opseq"], "kind_free_text": "explicit-state search over operation sequences; every transition executes the real implementation; states deduplicated by canonical key"},
   {"name": "E3-sched", "path": "sched/", "serves_properties": [c for c in CHECKS if CHECKS[c][0]=="E3-sched"], "kind_free_text": "stateless deviation-bounded schedule exploration of the instrumented implementation under a cooperative scheduler, with crash-image enumeration"},
 ],
 "checks": checks,
 "not_applicable": na,
 "notes": "All checks decide by exhaustive enumeration within stated bounds; see DESIGN.md. known_findings.json lists genuine defects (known / fixed).",
}
json.dump(m, open(os.path.join(ROOT, 'MANIFEST.json'), 'w'), indent=1)
print("checks:", len(checks), "not_applicable:", len(na))
