// vcheck runs one property check of the plain (un-instrumented) flavour.
package main

import (
	"fmt"
	"os"
	"runtime/debug"
	"runtime/pprof"

	"verif/mc"
	"verif/props/c02"
	"verif/props/c07"
	"verif/props/c08"
)

type check struct {
	level string
	run   func(*mc.Run)
}

var checks = map[string]check{
	"C02": {"model_checking", c02.Run},
	"C07": {"model_checking", c07.Run},
	"C08": {"model_checking", c08.Run},
}

func main() {
	if len(os.Args) < 2 {
		fmt.Fprintln(os.Stderr, "usage: vcheck <Cnn>   (env VERIF_TIER, VERIF_SEED, VERIF_DEADLINE_S)")
		os.Exit(2)
	}
	c, ok := checks[os.Args[1]]
	if !ok {
		fmt.Fprintln(os.Stderr, "unknown check", os.Args[1])
		os.Exit(2)
	}
	// enumeration is allocation-heavy and short-lived: trade memory for fewer GC cycles
	if os.Getenv("GOGC") == "" {
		debug.SetGCPercent(300)
	}
	debug.SetMemoryLimit(12 << 30)
	if pf := os.Getenv("VERIF_CPUPROFILE"); pf != "" {
		f, _ := os.Create(pf)
		pprof.StartCPUProfile(f)
		mc.AtExit = pprof.StopCPUProfile
	}
	r := mc.Start(os.Args[1], c.level)
	c.run(r)
	r.Finish()
}
