package main

import (
	"verif/mc"
	"verif/props/c20"
)

func main() { mc.Main("C20", "model_checking", c20.Run) }
