package main

import (
	"verif/props/c04"
	"verif/sched/drv"
)

func main() { drv.Main("C04", "model_checking", c04.Scenarios(), c04.Describe) }
