package main

import (
	"verif/mc"
	"verif/props/c19"
)

func main() { mc.Main("C19", "model_checking", c19.Run) }
