package main

import (
	"verif/mc"
	"verif/props/c02"
)

func main() { mc.Main("C02", "model_checking", c02.Run) }
