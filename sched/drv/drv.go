// Package drv is the driver framework of engine E3: a check binary built from the instrumented
// sources runs as a parent that shards the deviation-bounded exploration of each scenario over
// worker subprocesses (GOMAXPROCS=1 each, every one under a watchdog), aggregates their
// progress records and writes the evidence through mc.
package drv

import (
	"bufio"
	"crypto/sha1"
	"encoding/json"
	"flag"
	"fmt"
	"os"
	"os/exec"
	"os/signal"
	"path/filepath"
	"sort"
	"strings"
	"sync"
	"syscall"
	"time"

	"github.com/blevesearch/bleve/v2"

	"verif/mc"
	"verif/sched/vrt"
)

// Ctx is the per-execution context handed to a scenario body.
type Ctx struct {
	mu    sync.Mutex // Fail/Observe/Count may be called from free-running goroutines (race pass)
	Dir   string     // fresh scratch directory of this execution (removed afterwards)
	Data  any        // scenario-private per-execution data (e.g. captured crash images)
	class string     // first failure (kept for compatibility: Failed, replay output)
	fail  string
	fails []failure // every failure of this execution, distinct classes, in order
	obs   []string
	cnt   map[string]int
}

type failure struct{ class, detail string }

// Fail records a failure of this execution (one per distinct class; a class listed as a known
// finding must not hide a different failure of the same execution).
func (c *Ctx) Fail(class, format string, a ...any) {
	c.mu.Lock()
	defer c.mu.Unlock()
	d := fmt.Sprintf(format, a...)
	if c.fail == "" {
		c.class, c.fail = class, d
	}
	for _, f := range c.fails {
		if f.class == class {
			return
		}
	}
	c.fails = append(c.fails, failure{class, d})
}

func (c *Ctx) Failed() bool {
	c.mu.Lock()
	defer c.mu.Unlock()
	return c.fail != ""
}

// FailedExcept reports whether a failure of a class other than the given ones was recorded.
func (c *Ctx) FailedExcept(classes ...string) bool {
	c.mu.Lock()
	defer c.mu.Unlock()
outer:
	for _, f := range c.fails {
		for _, k := range classes {
			if f.class == k {
				continue outer
			}
		}
		return true
	}
	return false
}

// Observe appends to the observation vector of this execution (vacuity measure).
func (c *Ctx) Observe(s string) {
	c.mu.Lock()
	c.obs = append(c.obs, s)
	c.mu.Unlock()
}

// Count bumps a per-run counter (reported in the evidence).
func (c *Ctx) Count(name string, d int) {
	c.mu.Lock()
	c.cnt[name] += d
	c.mu.Unlock()
}

// Phase is one exploration pass over a scenario.
type Phase struct {
	Bound  int
	Filter string // "" = deviations at every choice point; "restricted" = rendezvous/spawn/select/fs/rootLock class; "restricted+" = that plus the persister's and merger's lock acquisitions
}

// Scenario is a closed driver.
type Scenario struct {
	Name     string
	Doc      string
	Body     func(c *Ctx) // runs as the main managed thread
	Quick    []Phase
	Thorough []Phase
	MaxSteps int
	// ExpectDeadlockFree etc. are implicit: deadlock, livelock (step budget) and panics are violations.
	Workers int // 0 = default 8
	// After, if set, runs after each execution OUTSIDE the scheduler (it may start further
	// controlled executions through InWorld, e.g. recovery of captured crash images).
	After func(c *Ctx)
	// Class prefixes the violation classes of this scenario (default: Name).
	Class string
	// Sequential: the driver has a single client thread and no concurrency of interest (skipped by the
	// free-running race pass).
	Sequential bool
}

// restricted deviation class: rendezvous, spawn, select arms, fs effects and the root lock.
func restrictedFilter(c vrt.Choice) bool {
	if c.Kind == "select" {
		return true
	}
	l := c.Label
	switch {
	case l == "send", l == "recv", l == "select", l == "go", l == "start", l == "WG.Wait", l == "":
		return true
	case strings.HasPrefix(l, "fs:"), strings.HasPrefix(l, "pt:"):
		return true
	case strings.Contains(l, "Lock@scorch.go"), strings.Contains(l, "Lock@introducer.go"), strings.Contains(l, "Lock@index_impl.go"):
		return true
	}
	return false
}

// restricted+ adds the lock acquisitions of the persister and the merger (their critical sections on the root).
func restrictedPlusFilter(c vrt.Choice) bool {
	return restrictedFilter(c) || strings.Contains(c.Label, "Lock@persister.go") || strings.Contains(c.Label, "Lock@merge.go")
}

type msg struct {
	T        string         `json:"t"` // progress | violation | done | harness
	Execs    int            `json:"execs,omitempty"`
	Steps    int64          `json:"steps,omitempty"`
	Points   int            `json:"points,omitempty"`
	MaxPts   int            `json:"maxpoints,omitempty"`
	Complete bool           `json:"complete,omitempty"`
	Outcomes map[string]int `json:"outcomes,omitempty"`
	Traces   int            `json:"traces,omitempty"`
	Counters map[string]int `json:"counters,omitempty"`
	Class    string         `json:"class,omitempty"`
	Detail   string         `json:"detail,omitempty"`
	Prefix   []int          `json:"prefix,omitempty"`
	Repro    int            `json:"reproduced,omitempty"`
	Sample   string         `json:"sample,omitempty"`
}

var (
	fWorker   = flag.Bool("worker", false, "worker mode")
	fScenario = flag.String("scenario", "", "scenario name")
	fPhase    = flag.Int("phase", 0, "phase index")
	fShard    = flag.Int("shard", 0, "shard")
	fNShards  = flag.Int("nshards", 1, "number of shards")
	fDeadline = flag.Int64("deadline", 0, "unix seconds")
	fReplay   = flag.String("replay", "", "replay file")
	fTrace    = flag.Bool("trace", false, "with -replay: print the step log")
	fFree     = flag.Int("free", 0, "free-running mode (no scheduler): run every quick scenario this many times; used by the supplementary -race pass")
	fFreeOut  = flag.String("free-out", "", "free-running mode: summary file")
	fSummary  = flag.String("summary", "", "companion mode: explore as usual but write a summary file (folded into the evidence of a plain-flavour check) instead of the evidence file")
)

func phases(s Scenario, tier string) []Phase {
	if tier == "thorough" {
		return s.Thorough
	}
	return s.Quick
}

// Main is the entry point of an E3 check binary.
func Main(prop, level string, scenarios []Scenario, describe func(r *mc.Run)) {
	flag.Parse()
	if *fWorker {
		worker(prop, scenarios)
		return
	}
	if *fReplay != "" {
		replay(prop, scenarios)
		return
	}
	if *fFree > 0 {
		freeRun(prop, scenarios)
		return
	}
	parent(prop, level, scenarios, describe)
}

// runOne executes the scenario once under the scheduler with the given prefix.
func runOne(s Scenario, prefix []int, expect []vrt.Choice) (*Ctx, []vrt.Choice, vrt.Verdict) {
	c := &Ctx{cnt: map[string]int{}}
	base := fmt.Sprintf("%s/verif-e3-%d", mc.ShmBase(), os.Getpid())
	os.MkdirAll(base, 0o755)
	dirSeq++
	c.Dir = fmt.Sprintf("%s/x%d", base, dirSeq)
	os.RemoveAll(c.Dir)
	os.MkdirAll(c.Dir, 0o755)
	maxSteps := s.MaxSteps
	if maxSteps == 0 {
		maxSteps = 400000
	}
	tr, v := vrt.RunExpect(prefix, expect, maxSteps, nil, func() {
		bleve.Config.SetAnalysisQueueSize(1)
		defer bleve.Config.SetAnalysisQueueSize(0)
		s.Body(c)
	})
	classify(c, v)
	if c.fail == "" && s.After != nil {
		s.After(c)
	}
	os.RemoveAll(c.Dir)
	return c, tr, v
}

var dirSeq int

// MaxWorkers is the number of worker subprocesses alive at any time (file-system heavy: 8 on one
// tmpfs is the measured sweet spot). Sequential runs the scenario phases one after the other.
var MaxWorkers = 8
var Sequential = false

// classify turns scheduler verdicts into failures of the execution.
func classify(c *Ctx, v vrt.Verdict) {
	switch {
	case v.Diverged != "":
		c.class, c.fail = "harness:replay-divergence", v.Diverged
		c.fails = []failure{{c.class, c.fail}}
	case v.Panic != nil:
		c.Fail("panic:"+panicSite(v.PanicStk), "panic in thread %s: %v @ %s", v.PanicThr, v.Panic, mc.TrimStack(v.PanicStk))
	case v.Deadlock:
		c.Fail("deadlock:"+blockedSig(v.Blocked), "deadlock: no enabled thread; blocked: %v", v.Blocked)
	case v.Aborted:
		c.Fail("livelock:step-budget", "step budget exhausted after %d scheduling steps (livelock / unbounded spinning)", v.Steps)
	}
}

func panicSite(stk string) string {
	for _, l := range strings.Split(stk, "\n") {
		l = strings.TrimSpace(l)
		if strings.HasPrefix(l, "/repo/") {
			if i := strings.Index(l, " "); i > 0 {
				l = l[:i]
			}
			return strings.TrimPrefix(l, "/repo/")
		}
	}
	return "?"
}

func blockedSig(b []string) string {
	var s []string
	for _, x := range b {
		// thread names are file:line of the go statement; keep the op label only
		if i := strings.LastIndex(x, "@"); i >= 0 {
			x = x[:i] + "@" + strings.SplitN(x[i+1:], "@", 2)[0]
		}
		s = append(s, x)
	}
	sort.Strings(s)
	if len(s) > 4 {
		s = s[:4]
	}
	return strings.Join(s, ",")
}

func traceHash(tr []vrt.Choice) string {
	h := sha1.New()
	for _, c := range tr {
		fmt.Fprintf(h, "%d/%d/%s;", c.Chosen, c.N, c.Label)
	}
	return fmt.Sprintf("%x", h.Sum(nil)[:8])
}

func emit(m msg) {
	b, _ := json.Marshal(m)
	fmt.Println(string(b))
}

func prepareProcess() {
	bleve.Config.SetAnalysisQueueSize(0)
	if !vrt.WaitUnmanaged(10 * time.Second) {
		fmt.Fprintln(os.Stderr, "harness: goroutines started before the controlled execution did not end")
		os.Exit(3)
	}
}

func findScenario(scenarios []Scenario, name string) Scenario {
	for _, s := range scenarios {
		if s.Name == name {
			return s
		}
	}
	fmt.Fprintln(os.Stderr, "unknown scenario", name)
	os.Exit(2)
	return Scenario{}
}

func worker(prop string, scenarios []Scenario) {
	prepareProcess()
	s := findScenario(scenarios, *fScenario)
	tier := os.Getenv("VERIF_TIER")
	ph := phases(s, tier)[*fPhase]
	if ph.Filter == "restricted+" {
		vrt.DeviationFilter = restrictedPlusFilter
	} else if ph.Filter == "restricted" {
		vrt.DeviationFilter = restrictedFilter
	}
	outcomes := map[string]int{}
	counters := map[string]int{}
	traces := map[string]bool{}
	execs := 0
	var steps int64
	lastEmit := time.Now()
	var cur *Ctx
	stop := make(chan os.Signal, 1)
	signal.Notify(stop, syscall.SIGTERM)
	// the polite stop is honoured between two executions; an execution that does not end (it
	// should not: every execution has a step budget) must not keep the process alive
	hard := make(chan os.Signal, 1)
	signal.Notify(hard, syscall.SIGTERM)
	go func() {
		<-hard
		time.Sleep(8 * time.Second)
		os.Exit(4)
	}()
	maxSteps := s.MaxSteps
	if maxSteps == 0 {
		maxSteps = 400000
	}
	deadline := time.Time{}
	if *fDeadline > 0 {
		deadline = time.Unix(*fDeadline, 0)
	}
	var violated bool
	sample := ""
	// classes listed as known findings do not end the exploration of this shard: they are reported
	// once and the enumeration goes on, so that a different violation is still found
	knownCls := map[string]bool{}
	for _, f := range mc.LoadKnown() {
		if f.Property == prop && f.Kind == "known" {
			knownCls[f.Class] = true
		}
	}
	reportedKnown := map[string]bool{}
	res := vrt.Explore(ph.Bound, maxSteps, *fShard, *fNShards, deadline, func() {
		// body wrapper: runOne is not used here because Explore owns the Run call
		cur = &Ctx{cnt: map[string]int{}}
		base := fmt.Sprintf("%s/verif-e3-%d", mc.ShmBase(), os.Getpid())
		dirSeq++
		cur.Dir = fmt.Sprintf("%s/x%d", base, dirSeq)
		os.MkdirAll(cur.Dir, 0o755)
		bleve.Config.SetAnalysisQueueSize(1)
		defer bleve.Config.SetAnalysisQueueSize(0)
		s.Body(cur)
	}, func(prefix []int, tr []vrt.Choice, v vrt.Verdict) bool {
		c := cur
		classify(c, v)
		if c.fail == "" && s.After != nil {
			s.After(c)
		}
		os.RemoveAll(c.Dir)
		execs++
		steps += int64(v.Steps)
		key := strings.Join(c.obs, "|")
		outcomes[key]++
		traces[traceHash(tr)] = true
		for k, n := range c.cnt {
			counters[k] += n
		}
		if sample == "" && len(prefix) > 0 {
			sample = fmt.Sprintf("prefix=%v choice_points=%d steps=%d observation=%s", prefix, len(tr), v.Steps, key)
		}
		select {
		case <-stop:
			return false
		default:
		}
		if time.Since(lastEmit) > 2*time.Second {
			lastEmit = time.Now()
			emit(msg{T: "progress", Execs: execs, Steps: steps, Outcomes: outcomes, Traces: len(traces), Counters: counters})
		}
		// known-finding classes are reported once and do not end the shard; the first failure of a class
		// that is not listed is the violation of this execution
		c.class, c.fail = "", ""
		for _, f := range c.fails {
			if knownCls[classPrefix(s)+":"+f.class] {
				if !reportedKnown[f.class] {
					reportedKnown[f.class] = true
					emit(msg{T: "violation", Class: f.class, Detail: f.detail, Prefix: prefix, Repro: 1})
				}
				continue
			}
			if c.fail == "" {
				c.class, c.fail = f.class, f.detail
			}
		}
		if c.fail != "" {
			violated = true
			if strings.HasPrefix(c.class, "harness:") {
				emit(msg{T: "harness", Class: c.class, Detail: c.fail, Prefix: prefix})
				return false
			}
			// believe a violation only if the same schedule fails every time
			repro := 0
			for k := 0; k < 5; k++ {
				c2, _, _ := runOne(s, prefix, nil)
				for _, f := range c2.fails {
					if f.class == c.class {
						repro++
						break
					}
				}
			}
			if repro == 5 {
				emit(msg{T: "violation", Class: c.class, Detail: c.fail, Prefix: prefix, Repro: repro})
			} else {
				emit(msg{T: "harness", Class: "harness:nondeterministic-failure", Detail: fmt.Sprintf("failure %q (%s) reproduced only %d/5 times from its schedule", c.class, c.fail, repro), Prefix: prefix})
			}
			return false
		}
		return true
	})
	os.RemoveAll(fmt.Sprintf("%s/verif-e3-%d", mc.ShmBase(), os.Getpid()))
	emit(msg{T: "done", Execs: execs, Steps: steps, Points: res.Points, MaxPts: res.MaxPoints, Complete: res.Complete && !violated, Outcomes: outcomes, Traces: len(traces), Counters: counters, Sample: sample})
}

type replayFile struct {
	Property string `json:"property"`
	Class    string `json:"class"`
	Detail   string `json:"detail"`
	Replay   struct {
		Scenario string `json:"scenario"`
		Phase    int    `json:"phase"`
		Prefix   []int  `json:"prefix"`
	} `json:"replay"`
}

func replay(prop string, scenarios []Scenario) {
	prepareProcess()
	b, err := os.ReadFile(*fReplay)
	if err != nil {
		fmt.Fprintln(os.Stderr, err)
		os.Exit(2)
	}
	var rf replayFile
	if err := json.Unmarshal(b, &rf); err != nil {
		fmt.Fprintln(os.Stderr, err)
		os.Exit(2)
	}
	s := findScenario(scenarios, rf.Replay.Scenario)
	vrt.LogSteps = *fTrace
	c, tr, v := runOne(s, rf.Replay.Prefix, nil)
	if *fTrace {
		for _, l := range vrt.StepLog {
			fmt.Println(l)
		}
	}
	fmt.Printf("replayed scenario %s prefix=%v: choice_points=%d steps=%d\n", s.Name, rf.Replay.Prefix, len(tr), v.Steps)
	if c.fail != "" {
		fmt.Printf("FAILS: class=%s %s\n", c.class, c.fail)
		p, _ := filepath.Abs(*fReplay)
		fmt.Printf("VIOLATION property=%s replay=%s\n", prop, p)
		os.Exit(1)
	}
	fmt.Println("holds on this schedule")
}

func parent(prop, level string, scenarios []Scenario, describe func(r *mc.Run)) {
	r := mc.Start(prop, level)
	if describe != nil {
		describe(r)
	}
	// the supplementary free-running -race pass runs alongside the exploration (bin/check-sched starts
	// it in the background); its result is folded in when first needed, at the latest before Finish
	var freeOnce sync.Once
	var freeOutcomes map[string]map[string]int
	getFree := func() {
		freeOnce.Do(func() {
			if done := os.Getenv("VERIF_FREE_DONE"); done != "" {
				deadline := time.Now().Add(20 * time.Minute)
				for time.Now().Before(deadline) {
					if _, err := os.Stat(done); err == nil {
						break
					}
					time.Sleep(200 * time.Millisecond)
				}
			}
			freeOutcomes = supplementary(r, prop)
		})
	}
	self, _ := os.Executable()
	type agg struct {
		execs    int
		steps    int64
		traces   int
		outcomes map[string]int
	}
	tokens := make(chan struct{}, MaxWorkers)
	var jobs sync.WaitGroup
	var stderrMu sync.Mutex
	for _, s := range scenarios {
		if f := os.Getenv("VERIF_SCENARIOS"); f != "" && !strings.Contains(s.Name, f) {
			continue // debugging aid: restrict the run to scenarios whose name contains the filter
		}
		for pi, ph := range phases(s, r.Tier) {
			s, pi, ph := s, pi, ph
			jobs.Add(1)
			runJob := func() {
				defer jobs.Done()
				if r.Expired() {
					r.Cap(fmt.Sprintf("deadline before scenario %s phase %d (bound %d %s)", s.Name, pi, ph.Bound, ph.Filter))
					return
				}
				n := s.Workers
				if n == 0 {
					n = 8
				}
				if ph.Bound == 0 {
					n = 1
				}
				var mu sync.Mutex
				last := make([]msg, n)
				var wg sync.WaitGroup
				complete := true
				t0 := time.Now()
				for k := 0; k < n; k++ {
					wg.Add(1)
					go func(k int) {
						defer wg.Done()
						tokens <- struct{}{}
						defer func() { <-tokens }()
						if r.Expired() {
							mu.Lock()
							complete = false
							mu.Unlock()
							return
						}
						dl := time.Now().Add(r.Remaining())
						cmd := exec.Command(self, "-worker", "-scenario", s.Name, "-phase", fmt.Sprint(pi), "-shard", fmt.Sprint(k), "-nshards", fmt.Sprint(n), "-deadline", fmt.Sprint(dl.Unix()))
						cmd.Env = append(os.Environ(), "GOMAXPROCS=1", "GOGC=200")
						cmd.Stderr = os.Stderr
						out, err := cmd.StdoutPipe()
						if err != nil {
							panic(err)
						}
						if err := cmd.Start(); err != nil {
							panic(err)
						}
						// hard watchdog: SIGTERM at the deadline + 10 s, SIGKILL 10 s later
						doneCh := make(chan struct{})
						go func() {
							select {
							case <-doneCh:
							case <-time.After(time.Until(dl) + 10*time.Second):
								cmd.Process.Signal(syscall.SIGTERM)
								select {
								case <-doneCh:
								case <-time.After(10 * time.Second):
									cmd.Process.Kill()
								}
							}
						}()
						sc := bufio.NewScanner(out)
						sc.Buffer(make([]byte, 1<<20), 1<<26)
						gotDone := false
						for sc.Scan() {
							var m msg
							if json.Unmarshal(sc.Bytes(), &m) != nil {
								continue
							}
							switch m.T {
							case "progress", "done":
								mu.Lock()
								last[k] = m
								mu.Unlock()
								if m.T == "done" {
									gotDone = true
									if !m.Complete {
										mu.Lock()
										complete = false
										mu.Unlock()
									}
								}
							case "violation":
								rep := map[string]any{"scenario": s.Name, "phase": pi, "bound": ph.Bound, "filter": ph.Filter, "prefix": m.Prefix, "reproduced": "5/5", "how": fmt.Sprintf("bin/replay %s <this file>  (needs the scheduler: replays the schedule prefix, default choices afterwards)", prop)}
								r.Violation(classPrefix(s)+":"+m.Class, fmt.Sprintf("scenario %s, schedule %s: %s", s.Name, prefixString(m.Prefix), m.Detail), rep)
							case "harness":
								fmt.Fprintf(os.Stderr, "harness: scenario %s shard %d: %s: %s (prefix %v)\n", s.Name, k, m.Class, m.Detail, m.Prefix)
								r.Cap(fmt.Sprintf("harness nondeterminism in scenario %s: %s — %s", s.Name, m.Class, m.Detail))
								r.Count("harness_errors", 1)
							}
						}
						cmd.Wait()
						close(doneCh)
						if !gotDone {
							mu.Lock()
							complete = false
							mu.Unlock()
							r.Cap(fmt.Sprintf("worker %d of scenario %s phase %d ended without a final record (killed by watchdog or crashed); its last progress record is used", k, s.Name, pi))
						}
					}(k)
				}
				wg.Wait()
				total := agg{outcomes: map[string]int{}}
				points, maxpts := 0, 0
				counters := map[string]int{}
				sample := ""
				for _, m := range last {
					total.execs += m.Execs
					total.steps += m.Steps
					total.traces += m.Traces
					for k, v := range m.Outcomes {
						total.outcomes[k] += v
					}
					for k, v := range m.Counters {
						counters[k] += v
					}
					if m.Points > points {
						points = m.Points
					}
					if m.MaxPts > maxpts {
						maxpts = m.MaxPts
					}
					if sample == "" {
						sample = m.Sample
					}
				}
				r.Eval(total.execs)
				r.State(total.traces)
				r.Transition(int(total.steps))
				for k, v := range total.outcomes {
					for i := 0; i < v && i < 1; i++ {
						r.Outcome(s.Name + "|" + k)
					}
					r.Count("outcome:"+s.Name+"|"+trunc(k, 80), int64(v))
				}
				for k, v := range counters {
					r.Count(s.Name+":"+k, int64(v))
				}
				getFree()
				if fo := freeOutcomes[s.Name]; fo != nil && pi == 0 {
					for k := range fo {
						if _, ok := total.outcomes[k]; !ok {
							r.Count("free_running_outcomes_not_enumerated_within_the_bound", 1)
						} else {
							r.Count("free_running_outcomes_also_enumerated", 1)
						}
					}
				}
				if !complete {
					r.Cap(fmt.Sprintf("scenario %s phase %d (deviation bound %d %s) not completed: %d schedules explored", s.Name, pi, ph.Bound, ph.Filter, total.execs))
				}
				r.Note(fmt.Sprintf("scenario:%s:phase%d", s.Name, pi), map[string]any{
					"what": s.Doc, "deviation_bound": ph.Bound, "deviation_class": orAll(ph.Filter), "completed": complete, "schedules": total.execs,
					"scheduling_steps": total.steps, "choice_points_default_schedule": points, "max_choice_points": maxpts,
					"distinct_observation_vectors": len(total.outcomes), "workers": n, "wall_s": time.Since(t0).Seconds(),
				})
				if sample != "" {
					r.Sample(map[string]any{"scenario": s.Name, "bound": ph.Bound, "schedule": sample})
				}
				stderrMu.Lock()
				fmt.Fprintf(os.Stderr, "  %s phase %d bound=%d %s: schedules=%d outcomes=%d complete=%v %.1fs\n", s.Name, pi, ph.Bound, ph.Filter, total.execs, len(total.outcomes), complete, time.Since(t0).Seconds())
				stderrMu.Unlock()
			}
			if Sequential {
				runJob()
			} else {
				go runJob()
			}
		}
	}
	jobs.Wait()
	if *fSummary != "" {
		if err := r.ExportSummary(*fSummary); err != nil {
			fmt.Fprintln(os.Stderr, "summary:", err)
			os.Exit(3)
		}
		os.Exit(0)
	}
	getFree()
	r.Finish()
}

func classPrefix(s Scenario) string {
	if s.Class != "" {
		return s.Class
	}
	return s.Name
}

func orAll(f string) string {
	if f == "" {
		return "all choice points"
	}
	return f
}

func trunc(s string, n int) string {
	if len(s) > n {
		return s[:n] + "…"
	}
	return s
}

// freeHang: how long one free-running driver body (normally milliseconds) may take before it is declared stuck.
const freeHang = 3 * time.Minute

// FreeSummary is what the free-running pass leaves for the explorer parent.
type FreeSummary struct {
	Iterations int                       `json:"iterations_per_scenario"`
	Scenarios  int                       `json:"scenarios"`
	Outcomes   map[string]map[string]int `json:"outcomes"`
	Failures   []string                  `json:"failures"`
}

// freeRun executes the scenario bodies WITHOUT the scheduler (vrt primitives pass through to the
// real ones), GOMAXPROCS unrestricted: the same driver bodies, free-running. Built with -race this
// is the supplementary data-race pass; its outcomes are also compared with the explorer's.
func freeRun(prop string, scenarios []Scenario) {
	sum := FreeSummary{Iterations: *fFree, Outcomes: map[string]map[string]int{}}
	base := fmt.Sprintf("%s/verif-free-%d", mc.ShmBase(), os.Getpid())
	defer os.RemoveAll(base)
	for _, s := range scenarios {
		if len(s.Quick) == 0 || s.Sequential {
			continue // sequential scenarios have no interleaving for the race pass to sample
		}
		sum.Scenarios++
		sum.Outcomes[s.Name] = map[string]int{}
		for i := 0; i < *fFree; i++ {
			c := &Ctx{cnt: map[string]int{}}
			c.Dir = fmt.Sprintf("%s/%d", base, i)
			os.MkdirAll(c.Dir, 0o755)
			done := make(chan struct{})
			go func() {
				defer close(done)
				defer func() {
					if e := recover(); e != nil {
						c.Fail("panic", "panic: %v", e)
					}
				}()
				s.Body(c)
			}()
			select {
			case <-done:
			case <-time.After(freeHang):
				// a body takes milliseconds; one that has not returned after minutes is stuck (Close
				// never returning, a deadlock between real goroutines). Nothing can be salvaged in
				// this process: report what was seen so far and stop the pass.
				sum.Failures = append(sum.Failures, fmt.Sprintf("%s: hang: the driver body did not return within %s when run free (a call never returns: deadlock or endless loop)", s.Name, freeHang))
				b, _ := json.MarshalIndent(sum, "", " ")
				if *fFreeOut != "" {
					os.WriteFile(*fFreeOut, b, 0o644)
				}
				fmt.Printf("free-running pass: stopped, scenario %s hangs\n", s.Name)
				os.Exit(0)
			}
			os.RemoveAll(c.Dir)
			sum.Outcomes[s.Name][strings.Join(c.obs, "|")]++
			if c.fail != "" {
				sum.Failures = append(sum.Failures, fmt.Sprintf("%s: %s: %s", s.Name, c.class, c.fail))
			}
		}
	}
	b, _ := json.MarshalIndent(sum, "", " ")
	if *fFreeOut != "" {
		os.WriteFile(*fFreeOut, b, 0o644)
	}
	fmt.Printf("free-running pass: %d scenarios × %d iterations, %d contract failures\n", sum.Scenarios, *fFree, len(sum.Failures))
}

// supplementary folds the result of the free-running -race pass (a SAMPLING technique, run by
// bin/check-sched before the exploration, declared as such) into the evidence. A reported race is
// a violation of the property's data-race clause; it is not what decides the other clauses.
func supplementary(r *mc.Run, prop string) map[string]map[string]int {
	sf := os.Getenv("VERIF_FREE_SUMMARY")
	if sf == "" {
		return nil
	}
	b, err := os.ReadFile(sf)
	if err != nil {
		r.Note("supplementary_race_pass", "not run: "+err.Error())
		return nil
	}
	var sum FreeSummary
	json.Unmarshal(b, &sum)
	races, harnessRaces := 0, 0
	if lp := os.Getenv("VERIF_RACE_LOG"); lp != "" {
		ms, _ := filepath.Glob(lp + "*")
		for _, m := range ms {
			lb, _ := os.ReadFile(m)
			// one report = the text between two "==================" lines; a report whose two
			// conflicting accesses are both made by harness code (innermost frame in verif/…) is a
			// bug of the harness, not of the code under test: it is counted and shown, never filed
			// as a violation of the property
			bySite := map[string][]string{}
			for _, rep := range strings.Split(string(lb), "==================") {
				if !strings.Contains(rep, "WARNING: DATA RACE") {
					continue
				}
				if raceInHarness(rep) {
					harnessRaces++
					fmt.Fprintln(os.Stderr, "harness: data race between two harness accesses (ignored for the verdict):", firstLines(strings.TrimSpace(rep), 12))
					continue
				}
				races++
				site := raceSite(rep)
				bySite[site] = append(bySite[site], rep)
			}
			for site, reps := range bySite {
				r.Violation("data-race:"+site, fmt.Sprintf("the free-running -race pass over the same driver bodies reported %d data race(s) at this site; first: %s", len(reps), firstLines(strings.TrimSpace(reps[0]), 30)), map[string]any{"race_log": strings.Join(reps, "==================")})
			}
		}
	}
	for _, f := range sum.Failures {
		r.Violation("free-running:"+strings.SplitN(strings.SplitN(f, ": ", 3)[1], " ", 2)[0], "free-running pass: "+f, map[string]any{"failure": f})
	}
	r.Note("supplementary_race_pass", map[string]any{"technique": "free-running execution of the same driver bodies, un-instrumented, built with -race (sampling; NOT the deciding method)", "scenarios": sum.Scenarios, "iterations_per_scenario": sum.Iterations, "data_races_reported": races, "races_between_harness_accesses_ignored": harnessRaces, "contract_failures": len(sum.Failures)})
	return sum.Outcomes
}

// raceInHarness: both conflicting accesses of a race report have their innermost frame in harness code.
func raceInHarness(rep string) bool {
	lines := strings.Split(rep, "\n")
	tops := 0
	harness := 0
	for i, l := range lines {
		t := strings.TrimSpace(l)
		if (strings.Contains(t, " at 0x") && strings.Contains(t, " by ")) && (strings.HasPrefix(t, "Read") || strings.HasPrefix(t, "Write") || strings.HasPrefix(t, "Previous") || strings.HasPrefix(t, "Atomic")) {
			if i+1 < len(lines) {
				tops++
				if strings.HasPrefix(strings.TrimSpace(lines[i+1]), "verif/") {
					harness++
				}
			}
		}
	}
	return tops >= 2 && harness == tops
}

func raceSite(log string) string {
	for _, l := range strings.Split(log, "\n") {
		l = strings.TrimSpace(l)
		if strings.HasPrefix(l, "/repo/") {
			if i := strings.Index(l, " "); i > 0 {
				l = l[:i]
			}
			return strings.TrimPrefix(l, "/repo/")
		}
	}
	return "?"
}

func firstLines(s string, n int) string {
	ls := strings.Split(s, "\n")
	if len(ls) > n {
		ls = ls[:n]
	}
	return strings.Join(ls, " | ")
}

// prefixString renders a schedule prefix compactly: the non-default choices and their positions.
func prefixString(p []int) string {
	var dev []string
	for i, c := range p {
		if c != 0 {
			dev = append(dev, fmt.Sprintf("choice#%d=alt%d", i, c))
		}
	}
	if len(dev) == 0 {
		return "default schedule"
	}
	return fmt.Sprintf("default schedule except %s (prefix length %d)", strings.Join(dev, ", "), len(p))
}
