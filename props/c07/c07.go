// Package c07: numbers sort and range-match exactly as numbers.
//
// Exhaustive enumeration (E2) over a boundary lattice of float64 / int64 values:
//
//	(1) all ordered pairs: order preservation + round trip of the sortable encoding at every shift;
//	(2) all (min,max) pairs × inclusive flags × open ends through the real NewNumericRangeSearcher
//	    over a stub index reader that records every candidate term the searcher asks the
//	    dictionary about: the valid terms must denote pairwise disjoint int64 intervals whose
//	    union is exactly the requested interval (interval arithmetic ⇒ settles all 2^64 values
//	    for that pair), and the number of dictionary probes must stay within a budget
//	    ("terminates");
//	(3) end to end on both engines: documents holding lattice values, every bound pair from
//	    the lattice, numeric and date fields, plus numeric / date sort order.
package c07

import (
	"bytes"
	"context"
	"fmt"
	"math"
	"sort"
	"time"

	"github.com/blevesearch/bleve/v2"
	"github.com/blevesearch/bleve/v2/numeric"
	"github.com/blevesearch/bleve/v2/search"
	"github.com/blevesearch/bleve/v2/search/searcher"
	index "github.com/blevesearch/bleve_index_api"

	"verif/bx"
	"verif/mc"
)

func okFloat(f float64) bool { return !math.IsNaN(f) && !(f == 0 && math.Signbit(f)) }

// Lattice returns the boundary lattice, sorted ascending. level 0 = small, 1 = medium, 2 = full.
func Lattice(level int) []float64 {
	set := map[uint64]float64{}
	add := func(f float64) {
		if okFloat(f) {
			set[math.Float64bits(f)] = f
		}
	}
	base := []float64{0, 1, 0.5, 2, 3, 10, 16, 255, 256, 4096, 65535, 65536, 1e9, 1e18, 1e300, math.MaxFloat64,
		math.SmallestNonzeroFloat64, math.Inf(1), 1.5, 2.5, 1e-300, 0x1p-1022, 0x1p-1021, 4.9e-320, 1e-310}
	for _, f := range base {
		for _, g := range []float64{f, -f} {
			add(g)
			add(math.Nextafter(g, math.Inf(1)))
			add(math.Nextafter(g, math.Inf(-1)))
		}
	}
	stepS := uint(4)
	if level == 0 {
		stepS = 8
	}
	for s := uint(0); s < 64; s += stepS {
		for _, d := range []int64{-1, 0, 1} {
			i := (int64(1) << s) + d
			add(numeric.Int64ToFloat64(i))
			add(numeric.Int64ToFloat64(-i))
			if level >= 1 {
				add(numeric.Int64ToFloat64(i | 0x0F0F0F0F0F0F0F0F))
				add(numeric.Int64ToFloat64(-(i | 0x0F0F0F0F0F0F0F0F)))
			}
			if level >= 2 {
				add(numeric.Int64ToFloat64(i | 0x70F0F0F0F0F0F0F0))
				add(numeric.Int64ToFloat64(i ^ 0x7F))
				add(numeric.Int64ToFloat64(-(i ^ 0x7F)))
				add(numeric.Int64ToFloat64(i<<1 | 0x7F))
			}
		}
	}
	// codes whose nibble at a precision-step boundary is 7 or F (the splitter's lower/upper wrap guards
	// only matter in the outermost sixteenths of the int64 space: top nibble 7 for positive, 8 for
	// negative codes), plus a few codes in the top byte
	for s := uint(0); s <= 60; s += stepS {
		for _, n := range []int64{7, 0xF} {
			if n == 0xF && s >= 60 {
				continue
			}
			i := n << s
			add(numeric.Int64ToFloat64(i))
			add(numeric.Int64ToFloat64(-i))
		}
	}
	for _, b := range []int64{0x71, 0x74, 0x78, 0x7C} {
		add(numeric.Int64ToFloat64(b << 56))
		add(numeric.Int64ToFloat64(-(b << 56)))
		add(numeric.Int64ToFloat64(b<<56 | 0x00FFFFFFFFFFFFFF))
	}
	if level >= 2 {
		// 7-bit group boundaries of the prefix coding
		for s := uint(0); s < 63; s += 7 {
			for _, d := range []int64{-1, 0, 1} {
				i := (int64(1) << s) + d
				add(numeric.Int64ToFloat64(i))
				add(numeric.Int64ToFloat64(-i))
			}
		}
	}
	r := make([]float64, 0, len(set))
	for _, f := range set {
		r = append(r, f)
	}
	sort.Float64s(r)
	return r
}

// ---------------------------------------------------------------- (1) encoding

func checkEncoding(r *mc.Run, L []float64) {
	type enc struct {
		f float64
		i int64
		e []numeric.PrefixCoded
	}
	E := make([]enc, len(L))
	for k, f := range L {
		i := numeric.Float64ToInt64(f)
		e := enc{f: f, i: i}
		for s := uint(0); s < 64; s += 4 {
			p, err := numeric.NewPrefixCodedInt64(i, s)
			if err != nil {
				r.Violation("encode:error", fmt.Sprintf("NewPrefixCodedInt64(%d,%d): %v", i, s, err), map[string]any{"value": f, "shift": s})
				continue
			}
			e.e = append(e.e, p)
			if ok, sh := numeric.ValidPrefixCodedTermBytes(p); !ok || uint(sh) != s {
				r.Violation("encode:invalid-term", fmt.Sprintf("value %v shift %d encodes to invalid term %x", f, s, []byte(p)), map[string]any{"value": f, "bits": math.Float64bits(f), "shift": s})
			}
			back, err := p.Int64()
			want := int64(uint64(i) >> s << s)
			if err != nil || back != want {
				r.Violation("encode:prefix-roundtrip", fmt.Sprintf("value %v shift %d decodes to %d want %d err=%v", f, s, back, want, err), map[string]any{"value": f, "bits": math.Float64bits(f), "shift": s})
			}
		}
		if back := numeric.Int64ToFloat64(i); math.Float64bits(back) != math.Float64bits(f) {
			r.Violation("encode:float-roundtrip", fmt.Sprintf("%v -> %d -> %v", f, i, back), map[string]any{"value": f, "bits": math.Float64bits(f)})
		}
		E[k] = e
	}
	r.ParFor(len(E), 0, func(a int) {
		ea := E[a]
		n := 0
		for b := a + 1; b < len(E); b++ {
			eb := E[b]
			n++
			// L is sorted and duplicate-free: ea.f < eb.f
			if !(ea.i < eb.i) {
				r.Violation("order:int64", fmt.Sprintf("%v < %v but sortable ints %d !< %d", ea.f, eb.f, ea.i, eb.i), map[string]any{"a": math.Float64bits(ea.f), "b": math.Float64bits(eb.f)})
			}
			if len(ea.e) > 0 && len(eb.e) > 0 && bytes.Compare(ea.e[0], eb.e[0]) >= 0 {
				r.Violation("order:bytes", fmt.Sprintf("%v < %v but shift-0 terms %x !< %x", ea.f, eb.f, []byte(ea.e[0]), []byte(eb.e[0])), map[string]any{"a": math.Float64bits(ea.f), "b": math.Float64bits(eb.f)})
			}
			// coarser shifts must be order-compatible (never inverted)
			for s := 1; s < len(ea.e) && s < len(eb.e); s++ {
				if bytes.Compare(ea.e[s], eb.e[s]) > 0 {
					r.Violation("order:bytes-shifted", fmt.Sprintf("%v < %v but shift-%d terms inverted", ea.f, eb.f, s*4), map[string]any{"a": math.Float64bits(ea.f), "b": math.Float64bits(eb.f), "shift": s * 4})
				}
			}
		}
		r.Eval(n)
	})
	r.Count("encoding_pairs", int64(len(E))*int64(len(E)-1)/2)
}

// ---------------------------------------------------------------- (2) splitter cover through a stub reader

type budgetExceeded struct{ n int }

type recDict struct {
	terms  [][]byte
	probes int
	budget int
}

func (d *recDict) Contains(key []byte) (bool, error) {
	d.probes++
	if d.probes > d.budget {
		panic(budgetExceeded{d.probes})
	}
	d.terms = append(d.terms, append([]byte(nil), key...))
	return false, nil
}
func (d *recDict) BytesRead() uint64 { return 0 }

type stubReader struct {
	index.IndexReader // nil: any other use panics and is reported
	d                 *recDict
}

func (s *stubReader) FieldDictContains(field string) (index.FieldDictContains, error) {
	return s.d, nil
}
func (s *stubReader) DocCount() (uint64, error) { return 0, nil }
func (s *stubReader) Close() error              { return nil }

type ival struct{ lo, hi int64 }

var zoneLo = numeric.Float64ToInt64(math.Inf(-1))
var zoneHi = numeric.Float64ToInt64(math.Inf(1))

func clip(a ival) (ival, bool) {
	if a.lo < zoneLo {
		a.lo = zoneLo
	}
	if a.hi > zoneHi {
		a.hi = zoneHi
	}
	return a, a.lo <= a.hi
}

const probeBudget = 4096

// coverOne runs the real searcher constructor for one bound tuple and checks the cover.
func coverOne(r *mc.Run, min, max *float64, imn, imx *bool) string {
	d := &recDict{budget: probeBudget}
	rd := &stubReader{d: d}
	rep := map[string]any{"min": fstr(min), "max": fstr(max), "inclusiveMin": bstr(imn), "inclusiveMax": bstr(imx)}
	pv, st := mc.Try(func() {
		s, err := searcher.NewNumericRangeSearcher(context.Background(), rd, min, max, imn, imx, "n", 1.0, search.SearcherOptions{})
		if err != nil {
			panic(fmt.Sprintf("searcher error: %v", err))
		}
		if s != nil {
			_ = s.Close()
		}
	})
	if pv != nil {
		if be, ok := pv.(budgetExceeded); ok {
			cls := "terminates:enumeration-budget:same-sign"
			if straddles(min, max) {
				cls = "terminates:enumeration-budget:range-straddles-zero"
			}
			r.Violation(cls, fmt.Sprintf("range %v: more than %d dictionary probes (%d) while enumerating candidate terms — the enumeration does not terminate in practice", rep, probeBudget, be.n), rep)
			return "budget"
		}
		r.Violation("searcher:panic", fmt.Sprintf("range %v: %v @ %s", rep, pv, mc.TrimStack(st)), rep)
		return "panic"
	}
	// expected interval in sortable-int space
	lo, hi := zoneLo, zoneHi
	empty := false
	if min != nil {
		lo = numeric.Float64ToInt64(*min)
		if imn != nil && !*imn {
			if lo == math.MaxInt64 {
				empty = true
			} else {
				lo++
			}
		}
	}
	if max != nil {
		hi = numeric.Float64ToInt64(*max)
		if imx == nil || !*imx {
			if hi == math.MinInt64 {
				empty = true
			} else {
				hi--
			}
		}
	}
	want, wantOK := clip(ival{lo, hi})
	if empty {
		wantOK = false
	}
	var ivs []ival
	for _, t := range d.terms {
		ok, sh := numeric.ValidPrefixCodedTermBytes(t)
		if !ok {
			continue
		}
		valid := true
		for _, b := range t[1:] {
			if b > 0x7f {
				valid = false
			}
		}
		if !valid {
			continue
		}
		v, err := numeric.PrefixCoded(t).Int64()
		if err != nil {
			continue
		}
		iv := ival{v, v}
		if sh > 0 {
			iv.hi = int64(uint64(v) | (uint64(1)<<uint(sh) - 1))
		}
		ivs = append(ivs, iv)
	}
	sort.Slice(ivs, func(i, j int) bool { return ivs[i].lo < ivs[j].lo })
	for k := 1; k < len(ivs); k++ {
		if ivs[k].lo <= ivs[k-1].hi {
			r.Violation("cover:overlap", fmt.Sprintf("range %v: candidate terms overlap: [%d,%d] and [%d,%d]", rep, ivs[k-1].lo, ivs[k-1].hi, ivs[k].lo, ivs[k].hi), rep)
			return "overlap"
		}
	}
	// with a nil bound the searcher substitutes ±Inf with the default inclusiveness; whether a value of
	// exactly ±Inf belongs to an open-ended range is left open by the statement, so that point is
	// removed from both sides of the comparison.
	zl, zh := zoneLo, zoneHi
	if min == nil {
		zl++
	}
	if max == nil {
		zh--
	}
	clipZ := func(a ival) (ival, bool) {
		if a.lo < zl {
			a.lo = zl
		}
		if a.hi > zh {
			a.hi = zh
		}
		return a, a.lo <= a.hi
	}
	if wantOK {
		want, wantOK = clipZ(want)
	}
	// merge adjacent, clip to the non-NaN zone
	var merged []ival
	for _, iv := range ivs {
		c, ok := clipZ(iv)
		if !ok {
			continue
		}
		if n := len(merged); n > 0 && merged[n-1].hi+1 == c.lo {
			merged[n-1].hi = c.hi
		} else {
			merged = append(merged, c)
		}
	}
	switch {
	case !wantOK && len(merged) == 0:
		return "empty"
	case !wantOK:
		r.Violation("cover:nonempty-for-empty-range", fmt.Sprintf("range %v is empty but terms cover %v", rep, merged), rep)
		return "bad"
	case len(merged) != 1 || merged[0] != want:
		r.Violation("cover:wrong-union", fmt.Sprintf("range %v: union of candidate terms %v, want [%d,%d]", rep, merged, want.lo, want.hi), rep)
		return "bad"
	}
	return fmt.Sprintf("ok:%dterms", bucket(len(ivs)))
}

func bucket(n int) int {
	b := 1
	for b < n {
		b *= 2
	}
	return b
}

func straddles(min, max *float64) bool {
	lo, hi := math.Inf(-1), math.Inf(1)
	if min != nil {
		lo = *min
	}
	if max != nil {
		hi = *max
	}
	return lo < 0 && hi >= 0
}

func fstr(p *float64) any {
	if p == nil {
		return nil
	}
	return fmt.Sprintf("%v (bits %#x)", *p, math.Float64bits(*p))
}
func bstr(p *bool) any {
	if p == nil {
		return nil
	}
	return *p
}

var flagCombos = [][2]*bool{{nil, nil}, {bx.Bp(true), bx.Bp(true)}, {bx.Bp(false), bx.Bp(false)}, {bx.Bp(false), bx.Bp(true)}, {bx.Bp(true), bx.Bp(false)}}

func checkCover(r *mc.Run, L []float64) {
	n := len(L)
	r.ParFor(n, 0, func(a int) {
		for b := 0; b < n; b++ {
			mn, mx := L[a], L[b]
			for _, fl := range flagCombos {
				r.Outcome("cover:" + coverOne(r, &mn, &mx, fl[0], fl[1]))
				r.Eval(1)
			}
		}
		// open ends
		v := L[a]
		for _, fl := range flagCombos {
			r.Outcome("cover:" + coverOne(r, &v, nil, fl[0], fl[1]))
			r.Outcome("cover:" + coverOne(r, nil, &v, fl[0], fl[1]))
			r.Eval(2)
		}
	})
	r.Outcome("cover:" + coverOne(r, nil, nil, nil, nil))
	r.Count("cover_bound_tuples", int64(n*n*len(flagCombos)+2*n*len(flagCombos)+1))
}

// ---------------------------------------------------------------- (3) end to end

const e2eTimeout = 5 * time.Second

func inRange(v float64, min, max *float64, imn, imx *bool) bool {
	if min != nil {
		inc := imn == nil || *imn
		if v < *min || (v == *min && !inc) {
			return false
		}
	}
	if max != nil {
		inc := imx != nil && *imx
		if v > *max || (v == *max && !inc) {
			return false
		}
	}
	return true
}

// searchTO runs a search under a watchdog; a hang is a violation of "terminates" and ends the run.
func searchTO(r *mc.Run, idx bleve.Index, req *bleve.SearchRequest, cls string, rep any) (*bleve.SearchResult, bool) {
	var res *bleve.SearchResult
	var err error
	ok, pv, st := mc.WithTimeout(e2eTimeout, func() { res, err = idx.Search(req) })
	if !ok {
		r.Violation("terminates:"+cls, fmt.Sprintf("search did not return within %v: %v", e2eTimeout, rep), rep)
		r.Cap("a search hung; run ended early")
		r.Finish()
	}
	if pv != nil {
		r.Violation("panic:"+cls, fmt.Sprintf("%v @ %s: %v", pv, mc.TrimStack(st), rep), rep)
		return nil, false
	}
	if err != nil {
		r.Violation("error:"+cls, fmt.Sprintf("search error %v: %v", err, rep), rep)
		return nil, false
	}
	return res, true
}

func checkE2ENumeric(r *mc.Run, docs, bounds []float64) {
	m := bleve.NewIndexMapping()
	for _, eng := range bx.MemEngines {
		idx := eng.Mk(m)
		ids := map[string][]float64{}
		b := idx.NewBatch()
		for i, f := range docs {
			id := fmt.Sprintf("d%03d", i)
			ids[id] = []float64{f}
			b.Index(id, map[string]interface{}{"n": f})
			if i%7 == 3 { // second batch → several segments on scorch
				if err := idx.Batch(b); err != nil {
					panic(err)
				}
				b = idx.NewBatch()
			}
		}
		// multi-valued documents
		mv := [][]float64{{-5, 7}, {docs[0], docs[len(docs)-1]}, {docs[len(docs)/2], docs[len(docs)/2+1]}}
		for i, vs := range mv {
			id := fmt.Sprintf("m%d", i)
			ids[id] = vs
			arr := make([]interface{}, len(vs))
			for k, v := range vs {
				arr[k] = v
			}
			b.Index(id, map[string]interface{}{"n": arr})
		}
		b.Index("none", map[string]interface{}{"t": "x"})
		if err := idx.Batch(b); err != nil {
			panic(err)
		}
		type job struct{ a, b int } // index -1 = open
		var jobs []job
		for a := -1; a < len(bounds); a++ {
			for bb := -1; bb < len(bounds); bb++ {
				jobs = append(jobs, job{a, bb})
			}
		}
		r.ParFor(len(jobs), 0, func(k int) {
			j := jobs[k]
			var pmn, pmx *float64
			if j.a >= 0 {
				pmn = &bounds[j.a]
			}
			if j.b >= 0 {
				pmx = &bounds[j.b]
			}
			for _, fl := range flagCombos {
				q := bleve.NewNumericRangeInclusiveQuery(pmn, pmx, fl[0], fl[1])
				q.SetField("n")
				req := bleve.NewSearchRequest(q)
				req.Size = 10000
				rep := map[string]any{"engine": eng.Name, "min": fstr(pmn), "max": fstr(pmx), "inclusiveMin": bstr(fl[0]), "inclusiveMax": bstr(fl[1])}
				res, ok := searchTO(r, idx, req, "numeric-range", rep)
				r.Eval(1)
				if !ok {
					continue
				}
				got := map[string]bool{}
				for _, h := range res.Hits {
					if got[h.ID] {
						r.Violation("e2e:duplicate-hit", fmt.Sprintf("%v: %s twice", rep, h.ID), rep)
					}
					got[h.ID] = true
				}
				nexp := 0
				for id, vs := range ids {
					exp, free := false, false
					for _, v := range vs {
						if inRange(v, pmn, pmx, fl[0], fl[1]) {
							exp = true
						}
						if (pmx == nil && math.IsInf(v, 1)) || (pmn == nil && math.IsInf(v, -1)) {
							free = true // ±Inf at an open end: unconstrained
						}
					}
					if exp {
						nexp++
					}
					if free {
						continue
					}
					if exp != got[id] {
						cls := "e2e:missing-doc"
						if !exp {
							cls = "e2e:extra-doc"
						}
						r.Violation(cls+":"+eng.Name, fmt.Sprintf("%v: doc %s values %v expected=%v got=%v", rep, id, vs, exp, got[id]), rep)
						break
					}
				}
				if got["none"] {
					r.Violation("e2e:extra-doc:"+eng.Name, fmt.Sprintf("%v: doc without the field returned", rep), rep)
				}
				if int(res.Total) != len(got) {
					r.Violation("e2e:total", fmt.Sprintf("%v: Total=%d hits=%d", rep, res.Total, len(got)), rep)
				}
				r.Outcome(fmt.Sprintf("e2e:%s:hits=%d", eng.Name, bucket(nexp+1)))
			}
		})
		// numeric sort
		for _, desc := range []bool{false, true} {
			q := bleve.NewNumericRangeInclusiveQuery(bx.Fp(math.Inf(-1)), bx.Fp(math.Inf(1)), bx.Bp(true), bx.Bp(true))
			q.SetField("n")
			req := bleve.NewSearchRequest(q)
			req.Size = 10000
			if desc {
				req.SortBy([]string{"-n"})
			} else {
				req.SortBy([]string{"n"})
			}
			rep := map[string]any{"engine": eng.Name, "sort_desc": desc}
			res, ok := searchTO(r, idx, req, "numeric-sort", rep)
			r.Eval(1)
			if !ok {
				continue
			}
			var seq []float64
			for _, h := range res.Hits {
				if vs := ids[h.ID]; len(vs) == 1 {
					seq = append(seq, vs[0])
				}
			}
			if len(seq) != len(docs) {
				r.Violation("sort:missing", fmt.Sprintf("%v: %d single-valued docs in sorted result, want %d", rep, len(seq), len(docs)), rep)
			}
			for k := 1; k < len(seq); k++ {
				if (!desc && !(seq[k-1] < seq[k])) || (desc && !(seq[k-1] > seq[k])) {
					r.Violation("sort:order:"+eng.Name, fmt.Sprintf("%v: %v then %v", rep, seq[k-1], seq[k]), rep)
					break
				}
			}
			r.Outcome(fmt.Sprintf("sort:%s:%v", eng.Name, desc))
		}
		idx.Close()
	}
}

func dateLattice(level int) []time.Time {
	var ts []time.Time
	add := func(ns int64) { ts = append(ts, time.Unix(0, ns).UTC()) }
	day := int64(86400) * 1e9
	for _, d := range []int64{0, 1, 1e9, day} {
		add(d)
		if d != 0 {
			add(-d)
		}
	}
	add(-2208988800 * 1e9) // 1900-01-01
	add(946684800 * 1e9)   // 2000-01-01
	add(946684800*1e9 + 1)
	add(1 << 56)
	add(-(1 << 56))
	if level > 0 {
		add(127)
		add(128)
		add(-128)
		add(-129)
		add(1<<28 - 1)
		add(1 << 28)
		add(-(1 << 28))
		add(-(1 << 28) - 1)
		add(1<<35 - 1)
		add(-(1 << 35))
		add(1 << 60)
		add(-(1 << 60))
	}
	mn, _ := time.Parse(time.RFC3339, "1677-12-01T00:00:00Z")
	mx, _ := time.Parse(time.RFC3339, "2262-04-11T11:59:59Z")
	ts = append(ts, mn, mx, mn.Add(time.Nanosecond), mx.Add(-time.Nanosecond))
	sort.Slice(ts, func(i, j int) bool { return ts[i].Before(ts[j]) })
	return ts
}

func checkE2EDates(r *mc.Run, ts []time.Time) {
	m := bleve.NewIndexMapping()
	for _, eng := range bx.MemEngines {
		idx := eng.Mk(m)
		b := idx.NewBatch()
		for i, t := range ts {
			b.Index(fmt.Sprintf("t%03d", i), map[string]interface{}{"d": t})
			if i%5 == 2 {
				if err := idx.Batch(b); err != nil {
					panic(err)
				}
				b = idx.NewBatch()
			}
		}
		if err := idx.Batch(b); err != nil {
			panic(err)
		}
		type job struct{ a, b int }
		var jobs []job
		for a := -1; a < len(ts); a++ {
			for bb := -1; bb < len(ts); bb++ {
				if a == -1 && bb == -1 {
					continue
				}
				jobs = append(jobs, job{a, bb})
			}
		}
		r.ParFor(len(jobs), 0, func(k int) {
			j := jobs[k]
			var st, en time.Time
			if j.a >= 0 {
				st = ts[j.a]
			}
			if j.b >= 0 {
				en = ts[j.b]
			}
			for _, fl := range flagCombos {
				q := bleve.NewDateRangeInclusiveQuery(st, en, fl[0], fl[1])
				q.SetField("d")
				req := bleve.NewSearchRequest(q)
				req.Size = 10000
				rep := map[string]any{"engine": eng.Name, "start": st.Format(time.RFC3339Nano), "end": en.Format(time.RFC3339Nano), "inclusiveStart": bstr(fl[0]), "inclusiveEnd": bstr(fl[1])}
				res, ok := searchTO(r, idx, req, "date-range", rep)
				r.Eval(1)
				if !ok {
					continue
				}
				got := map[string]bool{}
				for _, h := range res.Hits {
					got[h.ID] = true
				}
				nexp := 0
				for i, t := range ts {
					exp := true
					ns := t.UnixNano()
					if j.a >= 0 {
						inc := fl[0] == nil || *fl[0]
						if ns < st.UnixNano() || (ns == st.UnixNano() && !inc) {
							exp = false
						}
					}
					if j.b >= 0 {
						inc := fl[1] != nil && *fl[1]
						if ns > en.UnixNano() || (ns == en.UnixNano() && !inc) {
							exp = false
						}
					}
					if exp {
						nexp++
					}
					id := fmt.Sprintf("t%03d", i)
					if exp != got[id] {
						cls := "date:missing-doc"
						if !exp {
							cls = "date:extra-doc"
						}
						if exp && ((j.b < 0 && ns > zoneHi) || (j.a < 0 && ns < zoneLo)) {
							// the open end is replaced by ±Inf, whose sortable code lies inside the int64 nanosecond range
							r.Violation("date:open-end-beyond-float-infinity", fmt.Sprintf("%v: doc %s (%s) not matched by an open-ended date range", rep, id, t.Format(time.RFC3339Nano)), rep)
							continue
						}
						r.Violation(cls+":"+eng.Name, fmt.Sprintf("%v: doc %s (%s) expected=%v got=%v", rep, id, t.Format(time.RFC3339Nano), exp, got[id]), rep)
						break
					}
				}
				if int(res.Total) != len(res.Hits) {
					r.Violation("date:total", fmt.Sprintf("%v: Total=%d hits=%d", rep, res.Total, len(res.Hits)), rep)
				}
				r.Outcome(fmt.Sprintf("date:%s:hits=%d", eng.Name, bucket(nexp+1)))
			}
		})
		for _, desc := range []bool{false, true} {
			req := bleve.NewSearchRequest(bleve.NewMatchAllQuery())
			req.Size = 10000
			if desc {
				req.SortBy([]string{"-d"})
			} else {
				req.SortBy([]string{"d"})
			}
			rep := map[string]any{"engine": eng.Name, "date_sort_desc": desc}
			res, ok := searchTO(r, idx, req, "date-sort", rep)
			r.Eval(1)
			if !ok {
				continue
			}
			if len(res.Hits) != len(ts) {
				r.Violation("date-sort:missing", fmt.Sprintf("%v: %d hits want %d", rep, len(res.Hits), len(ts)), rep)
			}
			for k := 1; k < len(res.Hits); k++ {
				a, b := res.Hits[k-1].ID, res.Hits[k].ID
				if (!desc && !(a < b)) || (desc && !(a > b)) { // ids are in chronological order
					r.Violation("date-sort:order:"+eng.Name, fmt.Sprintf("%v: %s then %s", rep, a, b), rep)
					break
				}
			}
		}
		idx.Close()
	}
}

func pickEvery(L []float64, n int) []float64 {
	if n >= len(L) {
		return L
	}
	var out []float64
	for i := 0; i < n; i++ {
		out = append(out, L[i*(len(L)-1)/(n-1)])
	}
	return out
}

// Run is the check entry point.
func Run(r *mc.Run) {
	lvl := mc.Pick(r, 1, 2)
	L := Lattice(lvl)
	Lc := L
	if r.Quick() {
		Lc = Lattice(0)
	}
	r.Rule("E2 cartesian enumeration over a boundary lattice of float64/int64 values: all ordered pairs (encoding order), all (min,max)×flags×open-end tuples through the real range searcher over a recording stub dictionary (interval cover + probe budget), and end-to-end range/sort queries on scorch and upsidedown for numeric and date fields; an outcome is (sub-check, size bucket of the answer)")
	r.Assume("NaN and negative zero are outside the property", "the stub dictionary answers 'absent' for every probe, so the cover argument is about the candidate terms the searcher generates; presence filtering is exercised end to end")
	r.Note("lattice_size", len(L))
	r.Note("cover_lattice_size", len(Lc))
	r.Sample(map[string]any{"lattice_head": fmtFloats(L[:6]), "lattice_mid": fmtFloats(L[len(L)/2-3 : len(L)/2+3])})

	checkEncoding(r, L)
	r.Outcome("encoding:done")
	checkCover(r, Lc)

	// end to end: zero-straddling tiny ranges first (these are the ones that used to spin)
	var fin []float64
	for _, f := range L {
		fin = append(fin, f)
	}
	docs := pickEvery(fin, mc.Pick(r, 40, 90))
	bounds := pickEvery(fin, mc.Pick(r, 45, 120))
	// make sure the neighbourhood of zero is among the bounds
	for _, f := range []float64{-math.SmallestNonzeroFloat64, 0, math.SmallestNonzeroFloat64, -1e-310, 1e-310} {
		bounds = append(bounds, f)
	}
	sort.Float64s(bounds)
	r.Sample(map[string]any{"e2e_docs": len(docs), "e2e_bounds": len(bounds), "example_query": "n:[-5e-324 .. 5e-324] inclusive"})
	checkE2ENumeric(r, docs, bounds)
	checkE2EDates(r, dateLattice(mc.Pick(r, 0, 1)))
}

func fmtFloats(fs []float64) []string {
	var out []string
	for _, f := range fs {
		out = append(out, fmt.Sprintf("%v", f))
	}
	return out
}
