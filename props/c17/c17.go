// Package c17: queries and requests keep their meaning across JSON and the query-string syntax.
//
// E2, four enumerations on the C02 corpus (gen.DocAlphabet, simple analyzer, scorch and upsidedown,
// one-batch and per-document layouts):
//
//	(a1) every query of the C02 family (leaves, every ordered pair of a reduced leaf set under the 16
//	     compound forms) plus option variants (boosts, match operator/fuzziness/prefix/analyzer,
//	     phrase fuzziness, auto fuzziness, date-range strings, sub-second date endpoints, query-string
//	     queries, geo/IP queries): q2 = ParseQuery(Marshal(q)) parses, Marshal(q2) == Marshal(q) (and
//	     again after a third parse), and q, q2 return the same hits with bit-identical scores.
//	(a2) search requests (sort forms × paging × search_after/before; facets × highlight × fields ×
//	     explain/locations/score): Unmarshal(Marshal(req)) marshals to the same JSON and returns the
//	     same result (hits, scores, sort keys, fields, fragments, locations, facets).
//	(b)  every byte string of length ≤ L over a 21-symbol syntax alphabet through the query-string
//	     parser: returns a query or an error, no panic, terminates; the answer does not depend on what
//	     the pooled lexer parsed before; an accepted query marshals, re-parses and marshals to the same
//	     JSON; short accepted strings are also executed (parsed query == QueryStringQuery == JSON copy).
//	(c)  every sentence of ≤ 3 signed clauses of the documented grammar: the parsed query returns the
//	     same hits and scores as the directly constructed boolean query ('+' must, '-' must not, bare
//	     should) and the hit set the three-valued reference evaluator expects.
package c17

import (
	"encoding/json"
	"fmt"
	"math"
	"sort"
	"strings"
	"sync"
	"sync/atomic"
	"time"

	"github.com/blevesearch/bleve/v2"
	"github.com/blevesearch/bleve/v2/geo"
	"github.com/blevesearch/bleve/v2/search"
	"github.com/blevesearch/bleve/v2/search/query"

	"verif/bx"
	"verif/gen"
	"verif/mc"
	"verif/ref"
)

// ---------------------------------------------------------------------------------------
// corpus

type target struct {
	eng, layout string
	idx         bleve.Index
}

func (t target) String() string { return t.eng + "/" + t.layout }

func buildTargets() []target {
	var ts []target
	for _, e := range bx.MemEngines {
		for _, lay := range []string{"one-batch", "per-doc"} {
			idx := e.Mk(gen.TextMapping())
			if lay == "one-batch" {
				b := idx.NewBatch()
				for i, d := range gen.DocAlphabet {
					if err := b.Index(gen.DocID(i), d); err != nil {
						panic(err)
					}
				}
				if err := idx.Batch(b); err != nil {
					panic(err)
				}
			} else {
				for i, d := range gen.DocAlphabet {
					if err := idx.Index(gen.DocID(i), d); err != nil {
						panic(err)
					}
				}
			}
			ts = append(ts, target{e.Name, lay, idx})
		}
	}
	return ts
}

// runQuery returns the ordered hits with bit-exact scores, or the error text.
func runQuery(idx bleve.Index, q query.Query) (res string, ids []string, errText string, pv any, stack string) {
	pv, stack = mc.Try(func() {
		req := bleve.NewSearchRequest(q)
		req.Size = 100
		sr, err := idx.Search(req)
		if err != nil {
			errText = err.Error()
			return
		}
		var sb strings.Builder
		for _, h := range sr.Hits {
			fmt.Fprintf(&sb, "%s:%016x ", h.ID, math.Float64bits(h.Score))
			ids = append(ids, h.ID)
		}
		fmt.Fprintf(&sb, "total=%d max=%016x", sr.Total, math.Float64bits(sr.MaxScore))
		res = sb.String()
	})
	return
}

func idsOf(res string) string {
	var ids []string
	for _, f := range strings.Fields(res) {
		if i := strings.Index(f, ":"); i > 0 {
			ids = append(ids, f[:i])
		}
	}
	sort.Strings(ids)
	return strings.Join(ids, ",")
}

// ---------------------------------------------------------------------------------------
// (a1) query family

type qcase struct {
	name   string
	kind   string   // structural name used in classes
	leaves []string // names of the leaf cases a compound is made of
	mk     func() query.Query
}

func boostable(q query.Query, b float64) query.Query {
	if bq, ok := q.(query.BoostableQuery); ok {
		bq.SetBoost(b)
	}
	return q
}

// plainLeafCases: the C02 leaf family as it is.
func plainLeafCases() []qcase {
	var cs []qcase
	for _, l := range gen.Leaves() {
		l := l
		cs = append(cs, qcase{name: l.String(), kind: l.Kind, mk: func() query.Query { return ref.ToBleve(l) }})
	}
	return cs
}

// variantLeafCases: boosts and options; a variant of a leaf that fails on its own inherits that class.
func variantLeafCases() []qcase {
	var cs []qcase
	// boosts on every leaf
	for _, l := range gen.Leaves() {
		l := l
		for _, b := range []float64{2.5, 0} {
			b := b
			cs = append(cs, qcase{name: fmt.Sprintf("%s^%v", l, b), kind: "boost", leaves: []string{l.String()}, mk: func() query.Query { return boostable(ref.ToBleve(l), b) }})
			// the boost of a lone clause is normalised away; next to an unboosted clause it shows in the scores
			cs = append(cs, qcase{name: fmt.Sprintf("disj(%s^%v, all)", l, b), kind: "boost", leaves: []string{l.String()}, mk: func() query.Query {
				return bleve.NewDisjunctionQuery(boostable(ref.ToBleve(l), b), bleve.NewMatchAllQuery())
			}})
		}
	}
	add := func(name, kind string, mk func() query.Query) { cs = append(cs, qcase{name: name, kind: kind, mk: mk}) }
	// match options
	for _, txt := range []string{"x y", "xz yx", "X"} {
		for _, op := range []query.MatchQueryOperator{query.MatchQueryOperatorOr, query.MatchQueryOperatorAnd} {
			for fz := 0; fz <= 2; fz++ {
				for pl := 0; pl <= 1; pl++ {
					for _, an := range []string{"", "keyword"} {
						for _, auto := range []bool{false, true} {
							txt, op, fz, pl, an, auto := txt, op, fz, pl, an, auto
							if auto && fz != 0 {
								continue
							}
							add(fmt.Sprintf("match(t:%q op=%d ~%d p%d analyzer=%q auto=%v)", txt, op, fz, pl, an, auto), "match+options", func() query.Query {
								q := bleve.NewMatchQuery(txt)
								q.SetField("t")
								q.SetOperator(op)
								q.SetFuzziness(fz)
								q.SetPrefix(pl)
								q.Analyzer = an
								q.SetAutoFuzziness(auto)
								return q
							})
						}
					}
				}
			}
		}
	}
	// fuzzy options
	for _, term := range []string{"xy", "xyx"} {
		for fz := 0; fz <= 2; fz++ {
			for pl := 0; pl <= 2; pl++ {
				for _, auto := range []bool{false, true} {
					term, fz, pl, auto := term, fz, pl, auto
					add(fmt.Sprintf("fuzzy(t:%q ~%d p%d auto=%v)", term, fz, pl, auto), "fuzzy+options", func() query.Query {
						q := bleve.NewFuzzyQuery(term)
						q.SetField("t")
						q.SetFuzziness(fz)
						q.SetPrefix(pl)
						q.SetAutoFuzziness(auto)
						return q
					})
				}
			}
		}
	}
	// phrase family options
	for fz := 0; fz <= 1; fz++ {
		for _, auto := range []bool{false, true} {
			fz, auto := fz, auto
			add(fmt.Sprintf("match_phrase(t:\"x y\" ~%d auto=%v analyzer=keyword?%v)", fz, auto, fz == 1), "match_phrase+options", func() query.Query {
				q := bleve.NewMatchPhraseQuery("x y")
				q.SetField("t")
				q.SetFuzziness(fz)
				q.SetAutoFuzziness(auto)
				if fz == 1 {
					q.Analyzer = "simple"
				}
				return q
			})
			add(fmt.Sprintf("phrase(t:[x yy] ~%d auto=%v)", fz, auto), "phrase+options", func() query.Query {
				q := bleve.NewPhraseQuery([]string{"x", "yy"}, "t")
				q.SetFuzziness(fz)
				q.SetAutoFuzziness(auto)
				return q
			})
			add(fmt.Sprintf("multi_phrase(t:[[x y][y x xy]] ~%d auto=%v)", fz, auto), "multi_phrase", func() query.Query {
				q := query.NewMultiPhraseQuery([][]string{{"x", "y"}, {"y", "x", "xy"}}, "t")
				q.SetFuzziness(fz)
				q.SetAutoFuzziness(auto)
				return q
			})
		}
	}
	add("multi_phrase(single alternatives)", "multi_phrase", func() query.Query {
		return query.NewMultiPhraseQuery([][]string{{"x"}, {"y"}}, "t")
	})
	// date ranges: string form, parser named, sub-second endpoints
	t0s := gen.T0.Format(time.RFC3339)
	t1s := gen.T0.Add(24 * time.Hour).Format(time.RFC3339)
	for _, inc := range [][2]*bool{{nil, nil}, {bx.Bp(false), bx.Bp(true)}, {bx.Bp(true), bx.Bp(false)}} {
		for _, p := range []string{"", "dateTimeOptional"} {
			for _, ends := range [][2]string{{t0s, t1s}, {t0s, ""}, {"", t1s}, {"2001-02-03", "2001-02-05 00:00:00"}} {
				inc, p, ends := inc, p, ends
				add(fmt.Sprintf("date_range_string(d %q..%q inc=%v parser=%q)", ends[0], ends[1], incStr(inc), p), "date_range_string", func() query.Query {
					q := bleve.NewDateRangeInclusiveStringQuery(ends[0], ends[1], inc[0], inc[1])
					q.SetField("d")
					q.DateTimeParser = p
					return q
				})
			}
		}
	}
	for _, inc := range [][2]*bool{{nil, nil}, {bx.Bp(false), bx.Bp(true)}, {bx.Bp(true), bx.Bp(false)}, {bx.Bp(false), bx.Bp(false)}} {
		for _, ends := range [][2]time.Time{
			{gen.T0.Add(-time.Nanosecond), gen.T0},
			{gen.T0.Add(-time.Nanosecond), time.Time{}},
			{time.Time{}, gen.T0.Add(-time.Nanosecond)},
			{gen.T0.Add(-500 * time.Millisecond), gen.T0.Add(500 * time.Millisecond)},
		} {
			inc, ends := inc, ends
			add(fmt.Sprintf("date_range(d %s..%s inc=%v)", tstr(ends[0]), tstr(ends[1]), incStr(inc)), "date_range(sub-second endpoint)", func() query.Query {
				q := bleve.NewDateRangeInclusiveQuery(ends[0], ends[1], inc[0], inc[1])
				q.SetField("d")
				return q
			})
		}
	}
	// query string queries as JSON values
	for _, s := range []string{"t:x", "+t:x -u:y", "t:\"x y\"^2 n:>1", "", "x"} {
		for _, b := range []float64{-1, 3} {
			s, b := s, b
			add(fmt.Sprintf("query_string(%q boost=%v)", s, b), "query_string", func() query.Query {
				q := bleve.NewQueryStringQuery(s)
				if b >= 0 {
					q.SetBoost(b)
				}
				return q
			})
		}
	}
	// numeric range corner: only inclusive flags differ from defaults, integral and fractional bounds
	for _, v := range []float64{0, -0.5, 1e21, 1e-7} {
		v := v
		add(fmt.Sprintf("nrange(n min=max=%v)", v), "nrange", func() query.Query {
			q := bleve.NewNumericRangeInclusiveQuery(&v, &v, bx.Bp(true), bx.Bp(true))
			q.SetField("n")
			return q
		})
	}
	// term range with one empty side and explicit flags
	add("trange(t \"\"..\"xy\" incmax)", "trange", func() query.Query {
		q := bleve.NewTermRangeInclusiveQuery("", "xy", nil, bx.Bp(true))
		q.SetField("t")
		return q
	})
	// geo / ip (no such fields in the corpus: JSON dispatch and stability are what is exercised)
	add("geo_bounding_box", "geo", func() query.Query {
		q := bleve.NewGeoBoundingBoxQuery(-1, 1, 1, -1)
		q.SetField("g")
		return q
	})
	add("geo_distance", "geo", func() query.Query {
		q := bleve.NewGeoDistanceQuery(1, 2, "10km")
		q.SetField("g")
		return q
	})
	add("geo_polygon", "geo", func() query.Query {
		q := query.NewGeoBoundingPolygonQuery([]geo.Point{{Lon: 0, Lat: 0}, {Lon: 1, Lat: 0}, {Lon: 1, Lat: 1}})
		q.SetField("g")
		return q
	})
	add("geo_shape", "geo", func() query.Query {
		q, err := bleve.NewGeoShapeQuery([][][][]float64{{{{0, 0}, {1, 0}, {1, 1}, {0, 0}}}}, "polygon", "intersects")
		if err != nil {
			panic(err)
		}
		q.SetField("g")
		return q
	})
	add("ip_range", "ip", func() query.Query {
		q := bleve.NewIPRangeQuery("192.168.0.0/16")
		q.SetField("ip")
		return q
	})
	return cs
}

func tstr(t time.Time) string {
	if t.IsZero() {
		return "-"
	}
	return t.Format(time.RFC3339Nano)
}

func incStr(inc [2]*bool) string {
	s := ""
	for _, p := range inc {
		switch {
		case p == nil:
			s += "·"
		case *p:
			s += "i"
		default:
			s += "e"
		}
	}
	return s
}

func compoundCases(r *mc.Run) []qcase {
	ls := gen.Leaves()
	red := gen.Reduced(ls, mc.Pick(r, 8, 3), "mphrase")
	var cs []qcase
	for _, a := range red {
		for _, b := range red {
			for _, c := range gen.Compose2(a, b) {
				c := c
				cs = append(cs, qcase{name: c.String(), kind: ref.ShapeAbs(c), leaves: []string{a.String(), b.String()}, mk: func() query.Query { return ref.ToBleve(c) }})
			}
		}
	}
	// boosts on compounds and on their children
	x := &ref.Q{Kind: "term", Field: "t", Text: "x"}
	y := &ref.Q{Kind: "match", Field: "t", Text: "y"}
	for _, c := range gen.Compose2(x, y) {
		c := c
		cs = append(cs, qcase{name: c.String() + "^3 (child^0.5)", kind: "boost-on-compound", leaves: []string{x.String(), y.String()}, mk: func() query.Query {
			q := ref.ToBleve(c)
			boostable(q, 3)
			switch qq := q.(type) {
			case *query.ConjunctionQuery:
				boostable(qq.Conjuncts[0], 0.5)
			case *query.DisjunctionQuery:
				boostable(qq.Disjuncts[len(qq.Disjuncts)-1], 0.5)
			case *query.BooleanQuery:
				for _, sub := range []query.Query{qq.Must, qq.Should, qq.MustNot} {
					if sub != nil {
						boostable(sub, 0.5)
					}
				}
			}
			return q
		}})
	}
	// a query-string query nested inside compounds
	cs = append(cs, qcase{name: "bool(must{query_string(+t:x)} mustnot{query_string(u:y)})", kind: "bool(query_string)", mk: func() query.Query {
		q := bleve.NewBooleanQuery()
		q.AddMust(bleve.NewQueryStringQuery("+t:x"))
		q.AddMustNot(bleve.NewQueryStringQuery("u:y"))
		return q
	}})
	return cs
}

type a1state struct {
	mu      sync.Mutex
	badLeaf map[string]string // leaf case name -> class it failed with
}

// checkJSONQuery runs clause (a1) for one query; returns the class it failed with ("" = fine).
func checkJSONQuery(r *mc.Run, ts []target, c qcase, st *a1state, part string) string {
	q := c.mk()
	rep := map[string]any{"query": c.name, "part": part, "reproduce": "index verif/gen.DocAlphabet (ids d0..d11) under bleve.NewIndexMapping() with DefaultAnalyzer=simple; build the query with the bleve constructors as named; b,_ := json.Marshal(q); q2,_ := query.ParseQuery(b); compare Search(q) with Search(q2) (hits, scores) and json.Marshal(q2) with b"}
	first := ""
	var details []string
	note := func(what, detail string) {
		if first == "" {
			first = what
		}
		for _, d := range details {
			if strings.HasPrefix(d, what+": ") {
				return // one example per kind of failure
			}
		}
		details = append(details, what+": "+detail)
	}
	finish := func() string {
		if first == "" {
			return ""
		}
		class := fmt.Sprintf("json-query:%s:%s", c.kind, first)
		// a compound or variant made of a leaf that fails on its own is the leaf's defect
		if st != nil {
			st.mu.Lock()
			for _, l := range c.leaves {
				if lc, ok := st.badLeaf[l]; ok {
					class = lc
					break
				}
			}
			st.mu.Unlock()
		}
		r.Violation(class, fmt.Sprintf("%s: %s", c.name, strings.Join(details, " || ")), rep)
		return class
	}
	var b []byte
	var err error
	if pv, stk := mc.Try(func() { b, err = json.Marshal(q) }); pv != nil {
		note("marshal-panic", fmt.Sprintf("panic %v @ %s", pv, mc.TrimStack(stk)))
		return finish()
	}
	if err != nil {
		note("marshal-error", err.Error())
		return finish()
	}
	rep["json"] = string(b)
	var q2 query.Query
	if pv, stk := mc.Try(func() { q2, err = query.ParseQuery(b) }); pv != nil {
		note("parse-panic", fmt.Sprintf("ParseQuery(%s) panic %v @ %s", b, pv, mc.TrimStack(stk)))
		return finish()
	}
	if err != nil {
		note("parse-error", fmt.Sprintf("ParseQuery(%s): %v", b, err))
		return finish()
	}
	b2, err := json.Marshal(q2)
	if err != nil {
		note("remarshal-error", err.Error())
		return finish()
	}
	if string(b2) != string(b) {
		note("json-unstable", fmt.Sprintf("%s → %T → %s", b, q2, b2))
	} else if q3, err := query.ParseQuery(b2); err != nil {
		note("second-parse-error", err.Error())
	} else if b3, _ := json.Marshal(q3); string(b3) != string(b2) {
		note("json-unstable-second", fmt.Sprintf("%s → %s", b2, b3))
	}
	nh := -1
	for _, t := range ts {
		// fresh query values per execution: Search may expand query-string queries in place
		r1, _, e1, pv1, s1 := runQuery(t.idx, c.mk())
		var q2t query.Query
		q2t, _ = query.ParseQuery(b)
		r2, _, e2, pv2, s2 := runQuery(t.idx, q2t)
		r.Eval(1)
		if pv1 != nil || pv2 != nil {
			note("search-panic", fmt.Sprintf("%s: panic %v %v @ %s%s", t, pv1, pv2, mc.TrimStack(s1), mc.TrimStack(s2)))
			break
		}
		if e1 != e2 {
			note("error-differs", fmt.Sprintf("%s: original error %q, after JSON %q (json %s)", t, e1, e2, b))
			continue
		}
		if r1 != r2 {
			what := "only the scores differ"
			if idsOf(r1) != idsOf(r2) {
				what = "the hit sets differ"
			}
			note("results-differ", fmt.Sprintf("%s: %s: original %s | after JSON (%T) %s | json %s", t, what, r1, q2, r2, b))
			continue
		}
		if nh < 0 {
			nh = strings.Count(r1, ":")
			if e1 != "" {
				nh = -2
			}
		}
	}
	class := finish()
	r.Outcome(fmt.Sprintf("a1|%s→%T|hits=%d|ok=%v", rootKind(c.kind), q2, nh, class == ""))
	return class
}

func rootKind(k string) string {
	if i := strings.IndexAny(k, "(+:0123456789"); i > 0 {
		return k[:i]
	}
	return k
}

// ---------------------------------------------------------------------------------------
// (a2) search requests

type reqCase struct {
	name string
	mk   func() *bleve.SearchRequest
}

func sortForms() []struct {
	name string
	mk   func() search.SortOrder
	keys int
} {
	type sf = struct {
		name string
		mk   func() search.SortOrder
		keys int
	}
	var out []sf
	strs := [][]string{{"_score"}, {"-_score", "_id"}, {"_id"}, {"-_id"}, {"t"}, {"-t", "_id"}, {"n", "-_id"}, {"-n", "d", "_id"}, {"+u", "-_score"}, {"f", "_id"}}
	for _, s := range strs {
		s := s
		out = append(out, sf{"strings" + fmt.Sprint(s), func() search.SortOrder { return search.ParseSortOrderStrings(s) }, len(s)})
	}
	for _, field := range []string{"n", "t"} {
		for typ := search.SortFieldAuto; typ <= search.SortFieldAsDate; typ++ {
			for mode := search.SortFieldDefault; mode <= search.SortFieldMax; mode++ {
				for missing := search.SortFieldMissingLast; missing <= search.SortFieldMissingFirst; missing++ {
					for _, desc := range []bool{false, true} {
						field, typ, mode, missing, desc := field, typ, mode, missing, desc
						out = append(out, sf{fmt.Sprintf("field{%s type=%d mode=%d missing=%d desc=%v},_id", field, typ, mode, missing, desc), func() search.SortOrder {
							return search.SortOrder{&search.SortField{Field: field, Type: typ, Mode: mode, Missing: missing, Desc: desc}, &search.SortDocID{}}
						}, 2})
					}
				}
			}
		}
	}
	out = append(out, sf{"geo_distance,_id", func() search.SortOrder {
		g, err := search.NewSortGeoDistance("g", "km", 1, 2, true)
		if err != nil {
			panic(err)
		}
		return search.SortOrder{g, &search.SortDocID{Desc: true}}
	}, 2})
	return out
}

func requestCases(r *mc.Run) []reqCase {
	var cs []reqCase
	baseQ := func(k int) query.Query {
		switch k {
		case 0:
			return bleve.NewMatchAllQuery()
		case 1:
			q := bleve.NewMatchQuery("x y")
			q.SetField("t")
			return q
		default:
			q := bleve.NewBooleanQuery()
			tq := bleve.NewTermQuery("x")
			tq.SetField("t")
			q.AddShould(tq)
			nq := bleve.NewNumericRangeQuery(bx.Fp(0), nil)
			nq.SetField("n")
			q.AddShould(nq)
			return q
		}
	}
	type page struct{ from, size int }
	pages := []page{{0, 10}, {0, 0}, {2, 3}, {5, 100}, {0, 1}}
	// sort × paging × search_after/before × query
	for qi := 0; qi < 3; qi++ {
		for _, sf := range sortForms() {
			for _, pg := range pages {
				for cursor := 0; cursor < 3; cursor++ {
					qi, sf, pg, cursor := qi, sf, pg, cursor
					if cursor != 0 && (pg.from != 0 || sf.keys == 0) {
						continue
					}
					cs = append(cs, reqCase{fmt.Sprintf("q%d sort=%s from=%d size=%d cursor=%d", qi, sf.name, pg.from, pg.size, cursor), func() *bleve.SearchRequest {
						req := bleve.NewSearchRequestOptions(baseQ(qi), pg.size, pg.from, false)
						if so := sf.mk(); so != nil {
							req.SortByCustom(so)
						} else {
							req.Sort = nil
						}
						keys := []string{"1", "d5", "x"}[:0]
						for k := 0; k < sf.keys; k++ {
							keys = append(keys, []string{"1", "d5", "x"}[k%3])
						}
						switch cursor {
						case 1:
							req.SetSearchAfter(keys)
						case 2:
							req.SetSearchBefore(keys)
						}
						return req
					}})
				}
			}
		}
	}
	// facets × highlight × fields × flags × query
	type facetForm struct {
		name string
		add  func(req *bleve.SearchRequest)
	}
	s0, s1 := gen.T0.Format(time.RFC3339), gen.T0.Add(24*time.Hour).Format(time.RFC3339)
	facets := []facetForm{
		{"none", func(req *bleve.SearchRequest) {}},
		{"terms(t,2)", func(req *bleve.SearchRequest) { req.AddFacet("ft", bleve.NewFacetRequest("t", 2)) }},
		{"terms(t,10,prefix x)", func(req *bleve.SearchRequest) {
			f := bleve.NewFacetRequest("t", 10)
			f.SetPrefixFilter("x")
			req.AddFacet("ft", f)
		}},
		{"terms(t,10,pattern)", func(req *bleve.SearchRequest) {
			f := bleve.NewFacetRequest("t", 10)
			f.SetRegexFilter("^x.*")
			req.AddFacet("ft", f)
		}},
		{"numeric(n)", func(req *bleve.SearchRequest) {
			f := bleve.NewFacetRequest("n", 3)
			f.AddNumericRange("low", nil, bx.Fp(1.5))
			f.AddNumericRange("mid", bx.Fp(1), bx.Fp(2.5))
			f.AddNumericRange("high", bx.Fp(2.5), nil)
			req.AddFacet("fn", f)
		}},
		{"dates(d,time)", func(req *bleve.SearchRequest) {
			f := bleve.NewFacetRequest("d", 3)
			f.AddDateTimeRange("old", time.Time{}, gen.T0)
			f.AddDateTimeRange("new", gen.T0, gen.T0.Add(48*time.Hour))
			req.AddFacet("fd", f)
		}},
		{"dates(d,time with nanoseconds)", func(req *bleve.SearchRequest) {
			f := bleve.NewFacetRequest("d", 3)
			f.AddDateTimeRange("before", time.Time{}, gen.T0.Add(-time.Nanosecond))
			f.AddDateTimeRange("from", gen.T0.Add(-time.Nanosecond), time.Time{})
			req.AddFacet("fd", f)
		}},
		{"dates(d,strings)", func(req *bleve.SearchRequest) {
			f := bleve.NewFacetRequest("d", 3)
			f.AddDateTimeRangeString("old", nil, &s0)
			f.AddDateTimeRangeString("new", &s0, &s1)
			req.AddFacet("fd", f)
		}},
		{"dates(d,strings,parser)", func(req *bleve.SearchRequest) {
			f := bleve.NewFacetRequest("d", 3)
			f.AddDateTimeRangeStringWithParser("old", nil, &s0, "dateTimeOptional")
			req.AddFacet("fd", f)
		}},
		{"two facets", func(req *bleve.SearchRequest) {
			req.AddFacet("ft", bleve.NewFacetRequest("t", 3))
			f := bleve.NewFacetRequest("n", 3)
			f.AddNumericRange("all", bx.Fp(-10), bx.Fp(10))
			req.AddFacet("fn", f)
		}},
	}
	type hlForm struct {
		name string
		mk   func() *bleve.HighlightRequest
	}
	hls := []hlForm{
		{"none", func() *bleve.HighlightRequest { return nil }},
		{"default", func() *bleve.HighlightRequest { return bleve.NewHighlight() }},
		{"html[t]", func() *bleve.HighlightRequest { h := bleve.NewHighlightWithStyle("html"); h.AddField("t"); return h }},
		{"ansi[t,u]", func() *bleve.HighlightRequest {
			h := bleve.NewHighlightWithStyle("ansi")
			h.AddField("t")
			h.AddField("u")
			return h
		}},
	}
	fieldSets := [][]string{nil, {"*"}, {"t", "n", "d", "f"}, {}}
	for qi := 0; qi < 3; qi++ {
		for _, ff := range facets {
			for _, hl := range hls {
				for fi, fs := range fieldSets {
					for flags := 0; flags < 8; flags++ {
						qi, ff, hl, fs, flags := qi, ff, hl, fs, flags
						if r.Quick() && (qi+fi+flags)%2 == 1 {
							continue
						}
						cs = append(cs, reqCase{fmt.Sprintf("q%d facets=%s highlight=%s fields=%v explain=%v locations=%v score=%v", qi, ff.name, hl.name, fs, flags&1 != 0, flags&2 != 0, flags&4 != 0), func() *bleve.SearchRequest {
							req := bleve.NewSearchRequestOptions(baseQ(qi), 10, 0, flags&1 != 0)
							ff.add(req)
							req.Highlight = hl.mk()
							req.Fields = fs
							req.IncludeLocations = flags&2 != 0
							if flags&4 != 0 {
								req.Score = "none"
							}
							req.SortBy([]string{"-_score", "_id"})
							return req
						}})
					}
				}
			}
		}
	}
	return cs
}

func resultView(sr *bleve.SearchResult) string {
	b, err := json.Marshal(map[string]any{"hits": sr.Hits, "total": sr.Total, "max": math.Float64bits(sr.MaxScore), "facets": sr.Facets, "status": sr.Status})
	if err != nil {
		return "unmarshalable result: " + err.Error()
	}
	return string(b)
}

// requestProblem runs clause (a2) for one request: "" when the JSON copy is equivalent.
func requestProblem(ts []target, mk func() *bleve.SearchRequest) (what, detail string, nhits int, evals int) {
	b, err := json.Marshal(mk())
	if err != nil {
		return "marshal-error", err.Error(), 0, 0
	}
	var req2 bleve.SearchRequest
	var uerr error
	if pv, stk := mc.Try(func() { uerr = json.Unmarshal(b, &req2) }); pv != nil {
		return "unmarshal-panic", fmt.Sprintf("json %s: panic %v @ %s", b, pv, mc.TrimStack(stk)), 0, 0
	}
	if uerr != nil {
		return "unmarshal-error", fmt.Sprintf("json %s: %v", b, uerr), 0, 0
	}
	b2, err := json.Marshal(&req2)
	if err != nil || string(b2) != string(b) {
		what, detail = "json-unstable", fmt.Sprintf("%s → %s (%v)", b, b2, err)
	}
	for _, t := range ts {
		if t.layout != "per-doc" {
			continue
		}
		var v1, v2, e1, e2 string
		pv, stk := mc.Try(func() {
			// the original request is re-made: Search may record things in the request's sort objects
			sr1, err1 := t.idx.Search(mk())
			var rq bleve.SearchRequest
			if err := json.Unmarshal(b, &rq); err != nil {
				panic(err)
			}
			sr2, err2 := t.idx.Search(&rq)
			if err1 != nil {
				e1 = err1.Error()
			} else {
				v1 = resultView(sr1)
				nhits = len(sr1.Hits)
			}
			if err2 != nil {
				e2 = err2.Error()
			} else {
				v2 = resultView(sr2)
			}
		})
		evals++
		add := func(w, d string) {
			if what == "" {
				what = w
			}
			if len(detail) < 1500 {
				if detail != "" {
					detail += " || "
				}
				detail += d
			}
		}
		switch {
		case pv != nil:
			add("search-panic", fmt.Sprintf("on %s: panic %v @ %s", t, pv, mc.TrimStack(stk)))
		case e1 != e2:
			add("error-differs", fmt.Sprintf("on %s: original error %q, after JSON %q; json %s", t, e1, e2, b))
		case v1 != v2:
			add("result-differs", fmt.Sprintf("on %s: json %s: original %s; after JSON %s", t, b, clip(v1, 500), clip(v2, 500)))
		}
		if e1 != "" {
			nhits = -1
		}
	}
	return
}

// request features that can be reset to their default one at a time to find the one at fault
var reqFeatures = []struct {
	name    string
	present func(*bleve.SearchRequest) bool
	strip   func(*bleve.SearchRequest)
}{
	{"search_after/before", func(q *bleve.SearchRequest) bool { return q.SearchAfter != nil || q.SearchBefore != nil }, func(q *bleve.SearchRequest) { q.SearchAfter, q.SearchBefore = nil, nil }},
	{"sort", func(q *bleve.SearchRequest) bool {
		b, _ := json.Marshal(q.Sort)
		return string(b) != `["-_score"]`
	}, func(q *bleve.SearchRequest) {
		q.SearchAfter, q.SearchBefore = nil, nil
		q.SortBy([]string{"-_score"})
	}},
	{"facets", func(q *bleve.SearchRequest) bool { return len(q.Facets) > 0 }, func(q *bleve.SearchRequest) { q.Facets = nil }},
	{"highlight", func(q *bleve.SearchRequest) bool { return q.Highlight != nil }, func(q *bleve.SearchRequest) { q.Highlight = nil }},
	{"fields", func(q *bleve.SearchRequest) bool { return q.Fields != nil }, func(q *bleve.SearchRequest) { q.Fields = nil }},
	{"from/size", func(q *bleve.SearchRequest) bool { return q.From != 0 || q.Size != 10 }, func(q *bleve.SearchRequest) { q.From, q.Size = 0, 10 }},
	{"explain", func(q *bleve.SearchRequest) bool { return q.Explain }, func(q *bleve.SearchRequest) { q.Explain = false }},
	{"includeLocations", func(q *bleve.SearchRequest) bool { return q.IncludeLocations }, func(q *bleve.SearchRequest) { q.IncludeLocations = false }},
	{"score", func(q *bleve.SearchRequest) bool { return q.Score != "" }, func(q *bleve.SearchRequest) { q.Score = "" }},
}

func featureDetail(name string, q *bleve.SearchRequest) string {
	switch name {
	case "sort":
		var kinds []string
		for _, so := range q.Sort {
			k := strings.TrimPrefix(fmt.Sprintf("%T", so), "*search.")
			if b, err := json.Marshal(so); err == nil && k == "SortField" && strings.HasPrefix(string(b), "{") {
				k += "(object form)"
			}
			kinds = append(kinds, k)
		}
		return "sort=" + strings.Join(kinds, ",")
	case "facets":
		set := map[string]bool{}
		for _, f := range q.Facets {
			switch {
			case len(f.NumericRanges) > 0:
				set["numeric-ranges"] = true
			case len(f.DateTimeRanges) > 0:
				set["date-ranges"] = true
			case f.TermPrefix != "" || f.TermPattern != "":
				set["terms-filtered"] = true
			default:
				set["terms"] = true
			}
		}
		return "facets=" + strings.Join(bx.Keys(set), "+")
	}
	return name
}

// classifyRequest names the request feature(s) whose removal makes the discrepancy disappear.
func classifyRequest(ts []target, mk func() *bleve.SearchRequest) string {
	var present, guilty []string
	for _, f := range reqFeatures {
		if !f.present(mk()) {
			continue
		}
		present = append(present, featureDetail(f.name, mk()))
		f := f
		w, _, _, _ := requestProblem(ts, func() *bleve.SearchRequest { q := mk(); f.strip(q); return q })
		if w == "" {
			guilty = append(guilty, featureDetail(f.name, mk()))
		}
	}
	switch {
	case len(guilty) > 0:
		// stripping the sort also strips the cursor: prefer the cursor when it alone is enough
		if len(guilty) > 1 && guilty[0] == "search_after/before" {
			return guilty[0]
		}
		return guilty[0]
	case len(present) == 0:
		return "plain request"
	}
	return strings.Join(present, ",")
}

func checkRequest(r *mc.Run, ts []target, c reqCase) {
	what, detail, nh, evals := requestProblem(ts, c.mk)
	r.Eval(evals)
	if what != "" {
		b, _ := json.Marshal(c.mk())
		r.Violation("json-request:"+classifyRequest(ts, c.mk)+":"+what, c.name+": "+detail, map[string]any{"request": c.name, "json": string(b), "part": "a2"})
	}
	feat := ""
	for _, f := range reqFeatures[:4] {
		if f.present(c.mk()) {
			feat += featureDetail(f.name, c.mk()) + ";"
		}
	}
	r.Outcome(fmt.Sprintf("a2|%s|hits=%d|ok=%v", feat, nh, what == ""))
}

func clip(s string, n int) string {
	if len(s) > n {
		return s[:n] + "…"
	}
	return s
}

// ---------------------------------------------------------------------------------------
// (b) all short strings through the query-string parser

var alphabet = []string{"a", "b", " ", "+", "-", ":", "\"", "^", "~", "\\", "(", ")", ">", "<", "=", "1", ".", "*", "?", "/", "\xff"}

// strings that leave the pooled lexer in every non-initial state when parsing stops
var poison = []string{"a\\", "\"a\\", "1.", "a^\\", "a~1\\", "+", "a:"}

func shapeOf(q query.Query) string {
	switch v := q.(type) {
	case *query.BooleanQuery:
		return fmt.Sprintf("bool(m%s s%s n%s)", shapeOf(v.Must), shapeOf(v.Should), shapeOf(v.MustNot))
	case *query.ConjunctionQuery:
		return fmt.Sprintf("[%d]", len(v.Conjuncts))
	case *query.DisjunctionQuery:
		return fmt.Sprintf("[%d]", len(v.Disjuncts))
	case nil:
		return "-"
	}
	return strings.TrimPrefix(fmt.Sprintf("%T", q), "*query.")
}

func clauseTypes(q query.Query) string {
	set := map[string]bool{}
	var walk func(q query.Query)
	walk = func(q query.Query) {
		switch v := q.(type) {
		case *query.BooleanQuery:
			for _, s := range []query.Query{v.Must, v.Should, v.MustNot} {
				if s != nil {
					walk(s)
				}
			}
		case *query.ConjunctionQuery:
			for _, s := range v.Conjuncts {
				walk(s)
			}
		case *query.DisjunctionQuery:
			for _, s := range v.Disjuncts {
				walk(s)
			}
		case nil:
		default:
			set[strings.TrimSuffix(strings.TrimPrefix(fmt.Sprintf("%T", q), "*query."), "Query")] = true
		}
	}
	walk(q)
	var l []string
	for k := range set {
		l = append(l, k)
	}
	sort.Strings(l)
	return strings.Join(l, "+")
}

type parseAnswer struct {
	ok   bool
	json string
	err  string
}

func parseOnce(s string) (a parseAnswer, q query.Query) {
	q, err := bleve.NewQueryStringQuery(s).Parse()
	if err != nil {
		return parseAnswer{err: err.Error()}, nil
	}
	if q == nil {
		return parseAnswer{err: "(nil query and nil error)"}, nil
	}
	b, merr := json.Marshal(q)
	if merr != nil {
		return parseAnswer{ok: true, err: "marshal: " + merr.Error()}, q
	}
	return parseAnswer{ok: true, json: string(b)}, q
}

type bstats struct {
	outcomes                            map[string]int
	accepted, rejected, executed, total int64
}

// checkString runs clause (b) for one string; cur is published for the watchdog.
func checkString(r *mc.Run, ts []target, s string, execLen int, st *bstats) {
	rep := map[string]any{"query_string": s, "query_string_quoted": fmt.Sprintf("%q", s), "part": "b", "reproduce": "q, err := bleve.NewQueryStringQuery(s).Parse(); for the JSON copy: b,_ := json.Marshal(q); q2,_ := query.ParseQuery(b); search q and q2 on an index of verif/gen.DocAlphabet (default mapping, DefaultAnalyzer=simple)"}
	a, q := parseOnce(s)
	st.total++
	r.Eval(1)
	if !a.ok {
		st.rejected++
		if strings.Contains(a.err, "runtime error") || strings.Contains(a.err, "nil query") {
			// the parser recovered from an internal failure and REJECTED the input with an error: that is
			// what the statement allows ("accepts or rejects ... without panicking"); observed, not alarmed
			r.Count("observed_not_asserted:internal_failure_reported_as_syntax_error", 1)
			_ = rep
		}
		k := a.err
		if i := strings.Index(k, "\n"); i > 0 {
			k = k[:i]
		}
		st.outcomes["b|rejected|"+clip(k, 40)]++
	} else {
		st.accepted++
		st.outcomes["b|accepted|"+clauseTypes(q)]++
		if a.err != "" {
			r.Violation("query-string:accepted-query-does-not-marshal:"+clauseTypes(q), fmt.Sprintf("%q: %s", s, a.err), rep)
		} else {
			q2, err := query.ParseQuery([]byte(a.json))
			if err != nil {
				r.Violation("query-string:accepted-query-json-does-not-parse:"+clauseTypes(q), fmt.Sprintf("%q → %s: %v", s, a.json, err), rep)
			} else if b2, _ := json.Marshal(q2); string(b2) != a.json {
				r.Violation("query-string:accepted-query-json-unstable:"+clauseTypes(q), fmt.Sprintf("%q → %s → %s", s, a.json, b2), rep)
			}
		}
	}
	// the pooled lexer must not carry state from one parse into the next
	for _, p := range poison {
		_, _ = bleve.NewQueryStringQuery(p).Parse()
		a2, _ := parseOnce(s)
		if a2 != a {
			r.Violation("query-string:answer-depends-on-previous-parse", fmt.Sprintf("%q parsed after %q: %+v; parsed first: %+v", s, p, a2, a), map[string]any{"query_string": s, "parsed_before": p, "part": "b"})
			break
		}
	}
	if !a.ok || len(s) > execLen || a.err != "" {
		return
	}
	// execute: parsed query == QueryStringQuery through Index.Search; (a3) JSON copy of the parsed query
	for _, t := range ts {
		if t.layout != "per-doc" {
			continue
		}
		q1, _ := bleve.NewQueryStringQuery(s).Parse()
		r1, _, e1, pv1, s1 := runQuery(t.idx, q1)
		r2, _, e2, pv2, s2 := runQuery(t.idx, bleve.NewQueryStringQuery(s))
		st.executed++
		r.Eval(1)
		if pv1 != nil || pv2 != nil {
			r.Violation("query-string:search-panic:"+clauseTypes(q), fmt.Sprintf("%q on %s: panic %v %v @ %s %s", s, t, pv1, pv2, mc.TrimStack(s1), mc.TrimStack(s2)), rep)
			return
		}
		if r1 != r2 || (e1 == "") != (e2 == "") {
			r.Violation("query-string:parsed-vs-QueryStringQuery-differ:"+clauseTypes(q), fmt.Sprintf("%q on %s: Parse() result gives %s (%s); QueryStringQuery gives %s (%s)", s, t, r1, e1, r2, e2), rep)
		}
		checkParsedJSONCopy(r, t, s, a.json, r1, e1, q, rep)
	}
}

// analysesToNothing reports whether q contains a match/match-phrase clause whose text yields no token
// under the corpus mapping (such a clause is skipped in query-string mode, a MatchNone otherwise).
func emptyClause(q query.Query, analyse func(field, text string) []string) bool {
	found := false
	var walk func(q query.Query)
	walk = func(q query.Query) {
		switch v := q.(type) {
		case *query.BooleanQuery:
			for _, s := range []query.Query{v.Must, v.Should, v.MustNot} {
				if s != nil {
					walk(s)
				}
			}
		case *query.ConjunctionQuery:
			for _, s := range v.Conjuncts {
				walk(s)
			}
		case *query.DisjunctionQuery:
			for _, s := range v.Disjuncts {
				walk(s)
			}
		case *query.MatchQuery:
			f := v.FieldVal
			if f == "" {
				f = "_all"
			}
			if len(analyse(f, v.Match)) == 0 {
				found = true
			}
		case *query.MatchPhraseQuery:
			f := v.FieldVal
			if f == "" {
				f = "_all"
			}
			if len(analyse(f, v.MatchPhrase)) == 0 {
				found = true
			}
		}
	}
	walk(q)
	return found
}

var theAnalyse func(field, text string) []string

// checkParsedJSONCopy is clause (a) applied to the query values the query-string parser produces.
func checkParsedJSONCopy(r *mc.Run, t target, s, js, r1, e1 string, q query.Query, rep map[string]any) {
	q3, err := query.ParseQuery([]byte(js))
	if err != nil {
		return // reported by the caller
	}
	r3, _, e3, pv3, s3 := runQuery(t.idx, q3)
	r.Eval(1)
	if pv3 != nil {
		r.Violation("json-query:search-panic:parsed-query-string", fmt.Sprintf("%q on %s: panic %v @ %s", s, t, pv3, mc.TrimStack(s3)), rep)
		return
	}
	if r3 == r1 && (e1 == "") == (e3 == "") {
		return
	}
	what := "only the scores differ"
	if idsOf(r1) != idsOf(r3) || (e1 == "") != (e3 == "") {
		what = "the hit sets differ"
	}
	cause := "other"
	if emptyClause(q, theAnalyse) {
		// the parser's boolean/conjunction/disjunction carry an unexported query-string-mode flag (a clause
		// that analyses to nothing is skipped instead of matching nothing); JSON has no key for it
		cause = "a clause analyses to nothing; the query-string-mode flag is not serialised"
	}
	r.Violation("json-query:parsed-query-string("+cause+"):results-differ",
		fmt.Sprintf("query string %q on %s: %s: Parse() result gives %s (%s); its JSON copy %s gives %s (%s)", s, t, what, r1, e1, js, r3, e3), rep)
}

// ---------------------------------------------------------------------------------------
// (c) documented grammar

type clause struct {
	text string
	mk   func() query.Query // the documented meaning, built through the API
	rq   *ref.Q             // reference form (nil: only the direct construction is compared)
}

func fm(field string, q query.FieldableQuery) query.Query {
	if field != "" {
		q.SetField(field)
	}
	return q
}

func clauseAlphabet(r *mc.Run) []clause {
	f1, f2, fm1 := 1.0, 2.0, -1.0
	t0s := gen.T0.Format(time.RFC3339)
	t1 := gen.T0.Add(24 * time.Hour)
	t1s := t1.Format(time.RFC3339)
	nr := func(min, max *float64, imin, imax *bool) func() query.Query {
		return func() query.Query { return fm("n", bleve.NewNumericRangeInclusiveQuery(min, max, imin, imax)) }
	}
	dr := func(s, e time.Time, imin, imax *bool) func() query.Query {
		return func() query.Query { return fm("d", bleve.NewDateRangeInclusiveQuery(s, e, imin, imax)) }
	}
	match := func(field, text string, fuzz int, boost float64) func() query.Query {
		return func() query.Query {
			q := bleve.NewMatchQuery(text)
			if fuzz > 0 {
				q.SetFuzziness(fuzz)
			}
			if boost >= 0 {
				q.SetBoost(boost)
			}
			return fm(field, q)
		}
	}
	all := []clause{
		// the quick tier uses the first 12
		{`t:x`, match("t", "x", 0, -1), &ref.Q{Kind: "match", Field: "t", Text: "x"}},
		{`u:y`, match("u", "y", 0, -1), &ref.Q{Kind: "match", Field: "u", Text: "y"}},
		{`t:"x y"`, func() query.Query { return fm("t", bleve.NewMatchPhraseQuery("x y")) }, &ref.Q{Kind: "mphrase", Field: "t", Text: "x y"}},
		{`t:xy~1`, match("t", "xy", 1, -1), &ref.Q{Kind: "match", Field: "t", Text: "xy", Fuzz: 1}},
		{`n:>1`, nr(&f1, nil, bx.Bp(false), nil), &ref.Q{Kind: "nrange", Field: "n", Min: &f1, IncMin: bx.Bp(false)}},
		{`n:<=2`, nr(nil, &f2, nil, bx.Bp(true)), &ref.Q{Kind: "nrange", Field: "n", Max: &f2, IncMax: bx.Bp(true)}},
		{`t:yx^2`, match("t", "yx", 0, 2), &ref.Q{Kind: "match", Field: "t", Text: "yx"}},
		{`t:x*`, func() query.Query { return fm("t", bleve.NewWildcardQuery("x*")) }, &ref.Q{Kind: "wildcard", Field: "t", Text: "x*"}},
		{`d:>"` + t0s + `"`, dr(gen.T0, time.Time{}, bx.Bp(false), nil), &ref.Q{Kind: "drange", Field: "d", Start: gen.T0, IncMin: bx.Bp(false)}},
		{`y`, match("", "y", 0, -1), &ref.Q{Kind: "match", Field: "_all", Text: "y"}},
		{`t:/x.*/`, func() query.Query { return fm("t", bleve.NewRegexpQuery("x.*")) }, &ref.Q{Kind: "regexp", Field: "t", Text: "x.*"}},
		{`n:>=-1`, nr(&fm1, nil, bx.Bp(true), nil), &ref.Q{Kind: "nrange", Field: "n", Min: &fm1, IncMin: bx.Bp(true)}},
		// thorough
		{`n:<2`, nr(nil, &f2, nil, bx.Bp(false)), &ref.Q{Kind: "nrange", Field: "n", Max: &f2, IncMax: bx.Bp(false)}},
		{`n:>=1`, nr(&f1, nil, bx.Bp(true), nil), &ref.Q{Kind: "nrange", Field: "n", Min: &f1, IncMin: bx.Bp(true)}},
		{`d:<="` + t1s + `"`, dr(time.Time{}, t1, nil, bx.Bp(true)), &ref.Q{Kind: "drange", Field: "d", End: t1, IncMax: bx.Bp(true)}},
		{`d:<"` + t1s + `"`, dr(time.Time{}, t1, nil, bx.Bp(false)), &ref.Q{Kind: "drange", Field: "d", End: t1, IncMax: bx.Bp(false)}},
		{`d:>="` + t0s + `"`, dr(gen.T0, time.Time{}, bx.Bp(true), nil), &ref.Q{Kind: "drange", Field: "d", Start: gen.T0, IncMin: bx.Bp(true)}},
		{`t:zz^0.5`, match("t", "zz", 0, 0.5), &ref.Q{Kind: "match", Field: "t", Text: "zz"}},
		{`t:xz~2`, match("t", "xz", 2, -1), &ref.Q{Kind: "match", Field: "t", Text: "xz", Fuzz: 2}},
		{`t:xy~`, match("t", "xy", 1, -1), &ref.Q{Kind: "match", Field: "t", Text: "xy", Fuzz: 1}},
		{`"t":x\ y`, match("t", "x y", 0, -1), &ref.Q{Kind: "match", Field: "t", Text: "x y"}},
		{`t:\+xy`, match("t", "+xy", 0, -1), &ref.Q{Kind: "match", Field: "t", Text: "+xy"}},
		{`"x y"`, func() query.Query { return bleve.NewMatchPhraseQuery("x y") }, nil},
		{`t:?y`, func() query.Query { return fm("t", bleve.NewWildcardQuery("?y")) }, &ref.Q{Kind: "wildcard", Field: "t", Text: "?y"}},
		{`xyx~1`, match("", "xyx", 1, -1), &ref.Q{Kind: "match", Field: "_all", Text: "xyx", Fuzz: 1}},
	}
	return all[:mc.Pick(r, 12, len(all))]
}

type sclause struct {
	sign string
	c    clause
}

func sentenceText(cs []sclause, sep string) string {
	var parts []string
	for _, sc := range cs {
		parts = append(parts, sc.sign+sc.c.text)
	}
	return strings.Join(parts, sep)
}

// sentenceProblem evaluates one sentence on one target: "" when the parsed query agrees with the
// directly constructed boolean query and with the reference; else what is wrong.
func sentenceProblem(t target, rdocs []*ref.RDoc, cs []sclause, sep string) (what, detail, r1, e1 string, ids []string, panicked bool) {
	s := sentenceText(cs, sep)
	rq := &ref.Q{Kind: "boolean"}
	haveRef := true
	bq := bleve.NewBooleanQuery()
	for _, sc := range cs {
		switch sc.sign {
		case "+":
			bq.AddMust(sc.c.mk())
		case "-":
			bq.AddMustNot(sc.c.mk())
		default:
			bq.AddShould(sc.c.mk())
		}
		if sc.c.rq == nil {
			haveRef = false
			continue
		}
		switch sc.sign {
		case "+":
			rq.Must = append(rq.Must, sc.c.rq)
		case "-":
			rq.MustNot = append(rq.MustNot, sc.c.rq)
		default:
			rq.Should = append(rq.Should, sc.c.rq)
		}
	}
	r1, ids, e1, pv1, s1 := runQuery(t.idx, bleve.NewQueryStringQuery(s))
	r2, _, e2, pv2, s2 := runQuery(t.idx, bq)
	switch {
	case pv1 != nil || pv2 != nil:
		return "search-panic", fmt.Sprintf("%q on %s: panic %v %v @ %s %s", s, t, pv1, pv2, mc.TrimStack(s1), mc.TrimStack(s2)), r1, e1, ids, true
	case e1 != "":
		return "well-formed-sentence-rejected", fmt.Sprintf("%q on %s: %s", s, t, e1), r1, e1, ids, false
	case e2 != "":
		return "direct-construction-fails", fmt.Sprintf("%q on %s: %s", s, t, e2), r1, e1, ids, false
	case r1 != r2:
		w := "only the scores differ"
		if idsOf(r1) != idsOf(r2) {
			w = "the hit sets differ"
		}
		return "parsed-vs-constructed", fmt.Sprintf("%q on %s: %s: query string gives %s; constructed boolean query gives %s", s, t, w, r1, r2), r1, e1, ids, false
	}
	if haveRef {
		must, may := ref.Expected(rq, rdocs, theAnalyse)
		got := map[string]bool{}
		for _, id := range ids {
			got[id] = true
		}
		var miss, extra []string
		for id := range must {
			if !got[id] {
				miss = append(miss, id)
			}
		}
		for id := range got {
			if !must[id] && !may[id] {
				extra = append(extra, id)
			}
		}
		if len(miss)+len(extra) > 0 {
			sort.Strings(miss)
			sort.Strings(extra)
			return "meaning", fmt.Sprintf("%q on %s: reference (%s) expects %v; missing %v extra %v (got %v)", s, t, rq, bx.Keys(must), miss, extra, ids), r1, e1, ids, false
		}
	}
	return "", "", r1, e1, ids, false
}

var signName = map[string]string{"+": "must(+)", "-": "must-not(-)", "": "should(bare)"}

// classifySentence names the root cause of a failing sentence: the smallest failing part of it, and
// for a single clause whether the sign or the clause form is at fault.
func classifySentence(t target, rdocs []*ref.RDoc, base []clause, cs []sclause, sep string) (class string, minimal []sclause) {
	fails := func(x []sclause, sep string) bool {
		w, _, _, _, _, _ := sentenceProblem(t, rdocs, x, sep)
		return w != ""
	}
	for _, sc := range cs {
		if !fails([]sclause{sc}, " ") {
			continue
		}
		all := true
		for _, sg := range []string{"", "+", "-"} {
			all = all && fails([]sclause{{sg, sc.c}}, " ")
		}
		if all {
			return "clause-form:" + clauseKind(sc.c), []sclause{{"", sc.c}}
		}
		probe := base[0]
		if probe.text == sc.c.text {
			probe = base[1]
		}
		if fails([]sclause{{sc.sign, probe}}, " ") {
			return "sign:" + signName[sc.sign], []sclause{{sc.sign, base[0]}}
		}
		return signName[sc.sign] + ":" + clauseKind(sc.c), []sclause{sc}
	}
	var signs []string
	for _, sc := range cs {
		signs = append(signs, signName[sc.sign])
	}
	sort.Strings(signs)
	if len(cs) == 2 && sep != " " && !fails(cs, " ") {
		return "separator:" + fmt.Sprintf("%q", sep), cs
	}
	for i := 0; i < len(cs); i++ {
		for j := i + 1; j < len(cs) && len(cs) > 2; j++ {
			if fails([]sclause{cs[i], cs[j]}, " ") {
				p := []string{signName[cs[i].sign], signName[cs[j].sign]}
				sort.Strings(p)
				return "combination:" + strings.Join(p, "+") + ":" + clauseKinds([]sclause{cs[i], cs[j]}), []sclause{cs[i], cs[j]}
			}
		}
	}
	return "combination:" + strings.Join(signs, "+") + ":" + clauseKinds(cs), cs
}

func checkSentence(r *mc.Run, ts []target, rdocs []*ref.RDoc, base []clause, cs []sclause, sep string) {
	light := r.Quick() && len(cs) == 3 // quick tier: three-clause sentences on scorch only, without the JSON copy
	s := sentenceText(cs, sep)
	rep := map[string]any{"query_string": s, "part": "c", "reproduce": "search bleve.NewQueryStringQuery(s) and the boolean query built with AddMust('+' clauses)/AddShould(bare)/AddMustNot('-') on an index of verif/gen.DocAlphabet (default mapping, DefaultAnalyzer=simple)"}
	for _, t := range ts {
		if t.layout != "per-doc" || (light && t.eng != "scorch") {
			continue
		}
		what, detail, r1, e1, ids, _ := sentenceProblem(t, rdocs, cs, sep)
		r.Eval(1)
		if what != "" {
			class, min := classifySentence(t, rdocs, base, cs, sep)
			if sentenceText(min, " ") != s {
				// report the smallest failing sentence instead
				if w2, d2, _, _, _, _ := sentenceProblem(t, rdocs, min, " "); w2 != "" {
					what, detail = w2, d2+fmt.Sprintf(" (shrunk from %q)", s)
					rep = map[string]any{"query_string": sentenceText(min, " "), "part": "c"}
				}
			}
			r.Violation("grammar:"+class+":"+what, detail, rep)
			continue
		}
		if t.eng == "scorch" {
			var signs []string
			for _, sc := range cs {
				signs = append(signs, signName[sc.sign])
			}
			sort.Strings(signs)
			r.Outcome(fmt.Sprintf("c|%s|hits=%d", strings.Join(signs, "+"), len(ids)))
		}
		if light {
			continue
		}
		// (a3) the parsed sentence through JSON
		if pq, err := bleve.NewQueryStringQuery(s).Parse(); err == nil {
			if b, err := json.Marshal(pq); err == nil {
				checkParsedJSONCopy(r, t, s, string(b), r1, e1, pq, rep)
			}
		}
	}
}

func clauseKind(c clause) string {
	if c.rq != nil {
		k := c.rq.Kind
		if c.rq.Fuzz > 0 {
			k += "~"
		}
		if c.rq.Field == "_all" {
			k += "(default field)"
		}
		return k
	}
	return "phrase(default field)"
}

func clauseKinds(cs []sclause) string {
	set := map[string]bool{}
	for _, sc := range cs {
		set[clauseKind(sc.c)] = true
	}
	return strings.Join(bx.Keys(set), "+")
}

// ---------------------------------------------------------------------------------------

func Run(r *mc.Run) {
	ts := buildTargets()
	defer func() {
		for _, t := range ts {
			t.idx.Close()
		}
	}()
	m := gen.TextMapping()
	theAnalyse = ref.Analyser(m)
	var rdocs []*ref.RDoc
	for i, d := range gen.DocAlphabet {
		rd := ref.Analyse(m, gen.DocID(i), d)
		// the composite _all field: every text token of every field (all fields are include_in_all)
		var all []ref.Tok
		for _, f := range []string{"t", "u"} {
			all = append(all, rd.Fields[f]...)
		}
		rd.Fields["_all"] = all
		rdocs = append(rdocs, rd)
	}
	maxLen := mc.Pick(r, 4, 5)
	execLen := mc.Pick(r, 2, 3)
	r.Rule(fmt.Sprintf("E2 on the 12-document C02 corpus × {scorch, upsidedown} × {one batch, one segment per document}: (a1) every query of the C02 family + option variants: ParseQuery(Marshal(q)) parses, JSON fixed point (twice), same ordered hits with bit-identical scores, Total, MaxScore; (a2) search requests: sort forms × paging × search_after/before and facets × highlight × fields × flags: JSON fixed point and equal marshalled results; (b) all %d-symbol strings of length ≤ %d through the query-string parser (no panic, terminates under a watchdog, answer independent of the pooled lexer's previous input, accepted queries marshal / re-parse / re-marshal identically; strings of length ≤ %d are executed: Parse() result == QueryStringQuery == JSON copy); (c) all sentences of ≤ 3 signed clauses over the documented clause forms: parsed == directly constructed boolean query (hits and scores) and == reference evaluation (hit set, fuzzy three-valued). An outcome is (part, query kind / clause types / sign multiset, number of hits or accept/reject reason).", len(alphabet), maxLen, execLen))
	r.Assume("DateRangeQuery parses back as DateRangeStringQuery and []string-built sort orders parse back as objects of the same meaning: Go types are not compared, JSON text and results are",
		"query-string clauses whose text analyses to no token (digits, punctuation under the simple analyzer) are outside (c): the syntax documentation does not say what they mean; they are covered by (b)",
		"the reference evaluator's _all field is the union of the text tokens of all fields (numeric/date terms of _all are binary and cannot equal a word)",
		"fuzziness and boost on one term (term~2^3) is not a documented form (the lexer reads '2^3' as the fuzziness and rejects it); not in the clause alphabet",
		"a lexer failure reported through panic/recover inside the parser ('unterminated quote') is an ordinary rejection; only Go runtime errors surfacing that way are flagged")

	t0 := time.Now()
	lap := func(part string) {
		r.Note("seconds_"+part, math.Round(time.Since(t0).Seconds()*10)/10)
		t0 = time.Now()
	}
	// ---- (a1)
	leaves := plainLeafCases()
	variants := variantLeafCases()
	comps := compoundCases(r)
	st := &a1state{badLeaf: map[string]string{}}
	r.Note("a1_leaf_queries", len(leaves)+len(variants))
	r.Note("a1_compound_queries", len(comps))
	r.ParFor(len(leaves), 0, func(i int) {
		if cls := checkJSONQuery(r, ts, leaves[i], nil, "a1"); cls != "" {
			st.mu.Lock()
			st.badLeaf[leaves[i].name] = cls
			st.mu.Unlock()
		}
	})
	r.ParFor(len(variants), 0, func(i int) { checkJSONQuery(r, ts, variants[i], st, "a1") })
	r.ParFor(len(comps), 0, func(i int) { checkJSONQuery(r, ts, comps[i], st, "a1") })
	leaves = append(leaves, variants...)
	if b, err := json.Marshal(comps[len(comps)/2].mk()); err == nil {
		r.Sample(map[string]any{"a1_query": comps[len(comps)/2].name, "json": string(b)})
	}
	r.Count("a1_queries", int64(len(leaves)+len(comps)))

	lap("a1")
	// ---- (a2)
	reqs := requestCases(r)
	r.Note("a2_requests", len(reqs))
	r.ParFor(len(reqs), 0, func(i int) { checkRequest(r, ts, reqs[i]) })
	if b, err := json.Marshal(reqs[len(reqs)/3].mk()); err == nil {
		r.Sample(map[string]any{"a2_request": reqs[len(reqs)/3].name, "json": string(b)})
	}
	r.Count("a2_requests", int64(len(reqs)))

	lap("a2")
	// ---- (c)
	base := clauseAlphabet(r)
	var signed []sclause
	for _, c := range base {
		for _, s := range []string{"", "+", "-"} {
			signed = append(signed, sclause{s, c})
		}
	}
	r.Note("c_clause_forms", len(base))
	r.Sample(map[string]any{"c_sentence": sentenceText([]sclause{signed[1], signed[5], signed[12]}, " ")})
	var nsent atomic.Int64
	r.ParFor(len(signed), 0, func(i int) {
		a := signed[i]
		checkSentence(r, ts, rdocs, base, []sclause{a}, " ")
		nsent.Add(1)
		for _, b := range signed {
			checkSentence(r, ts, rdocs, base, []sclause{a, b}, " ")
			checkSentence(r, ts, rdocs, base, []sclause{a, b}, "  ")
			nsent.Add(2)
			for _, c := range signed {
				checkSentence(r, ts, rdocs, base, []sclause{a, b, c}, " ")
				nsent.Add(1)
			}
		}
	})
	r.Count("c_sentences", nsent.Load())

	lap("c")
	// ---- (b)
	if r.Expired() {
		r.Cap("deadline before part (b)")
		return
	}
	// one work item = all strings with a given two-symbol prefix (plus, in item 0, the strings shorter than 2)
	n := len(alphabet)
	items := n * n
	var total, accepted, rejected, executed atomic.Int64
	var hung atomic.Bool
	// strings of length ≤ 2 first and in order, so that the example kept for a class is a shortest one
	{
		stt := &bstats{outcomes: map[string]int{}}
		var current atomic.Value
		current.Store("")
		ok, pv, stk := mc.WithTimeout(120*time.Second, func() {
			short := []string{""}
			short = append(short, alphabet...)
			for _, a := range alphabet {
				for _, b := range alphabet {
					short = append(short, a+b)
				}
			}
			for _, s := range short {
				current.Store(s)
				checkString(r, ts, s, execLen, stt)
			}
		})
		cs, _ := current.Load().(string)
		if !ok {
			r.Violation("query-string:does-not-terminate", fmt.Sprintf("parsing %q did not finish within 120 s", cs), map[string]any{"query_string": cs, "part": "b"})
			r.Cap("a query-string parse did not terminate; run ended at once")
			r.Finish()
			return
		}
		if pv != nil {
			r.Violation("query-string:panic", fmt.Sprintf("%q: panic %v @ %s", cs, pv, mc.TrimStack(stk)), map[string]any{"query_string": cs, "query_string_quoted": fmt.Sprintf("%q", cs), "part": "b"})
		}
		for k := range stt.outcomes {
			r.Outcome(k)
		}
		total.Add(stt.total)
		accepted.Add(stt.accepted)
		rejected.Add(stt.rejected)
		executed.Add(stt.executed)
	}
	r.ParFor(items, 0, func(it int) {
		if hung.Load() {
			return
		}
		var current atomic.Value
		current.Store("")
		stt := &bstats{outcomes: map[string]int{}}
		work := func() {
			do := func(s string) {
				current.Store(s)
				checkString(r, ts, s, execLen, stt)
			}
			prefix := alphabet[it/n] + alphabet[it%n]
			var rec func(p string, left int)
			rec = func(p string, left int) {
				if len(p) > 2 {
					do(p)
				}
				if left == 0 || r.Expired() {
					return
				}
				for _, a := range alphabet {
					rec(p+a, left-1)
				}
			}
			rec(prefix, maxLen-2)
		}
		ok, pv, stk := mc.WithTimeout(120*time.Second, work)
		if !ok {
			s, _ := current.Load().(string)
			hung.Store(true)
			r.Violation("query-string:does-not-terminate", fmt.Sprintf("subtree of prefix %q did not finish within 120 s; last string started: %q", alphabet[it/n]+alphabet[it%n], s), map[string]any{"query_string": s, "part": "b"})
			r.Cap("a query-string parse did not terminate; run ended at once")
			r.Finish()
			return
		}
		if pv != nil {
			s, _ := current.Load().(string)
			r.Violation("query-string:panic", fmt.Sprintf("%q: panic %v @ %s", s, pv, mc.TrimStack(stk)), map[string]any{"query_string": s, "query_string_quoted": fmt.Sprintf("%q", s), "part": "b"})
		}
		for k := range stt.outcomes {
			r.Outcome(k)
		}
		total.Add(stt.total)
		accepted.Add(stt.accepted)
		rejected.Add(stt.rejected)
		executed.Add(stt.executed)
	})
	if r.Expired() {
		r.Cap("deadline inside part (b): string subtrees were cut short")
	}
	lap("b")
	r.Count("b_strings", total.Load())
	r.Count("b_accepted", accepted.Load())
	r.Count("b_rejected", rejected.Load())
	r.Count("b_executed_searches", executed.Load())
	r.Sample(map[string]any{"b_string": "a:\"b", "b_alphabet": fmt.Sprintf("%q", alphabet)})
}
