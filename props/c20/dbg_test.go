package c20

import (
	"fmt"
	"testing"

	"github.com/blevesearch/bleve/v2"
)

func TestDbg(t *testing.T) {
	for _, nested := range []bool{false, true} {
		idx := newMem(nested)
		idx.Index("p", Doc{Name: "x"}.Data())
		idx.Index("q", Doc{Name: "y", Items: []Item{{K: "x", V: "x"}}}.Data())
		for _, q := range []*Q{
			{Kind: "bool", Must: []*Q{T("name", "x")}, Should: []*Q{T("name", "y"), T("name", "y")}, SMin: 1},
			{Kind: "bool", Must: []*Q{T("name", "x")}, Should: []*Q{T("name", "y"), T("items.k", "y")}, SMin: 1},
			{Kind: "bool", Must: []*Q{T("name", "x")}, Should: []*Q{T("name", "y")}, SMin: 1},
			{Kind: "bool", MustNot: []*Q{T("name", "x")}},
			{Kind: "all"},
		} {
			for _, sc := range []string{"", "none"} {
				req := bleve.NewSearchRequest(q.ToBleve())
				req.Score = sc
				res, err := idx.Search(req)
				var ids []string
				for _, h := range res.Hits {
					ids = append(ids, h.ID)
				}
				fmt.Println(nested, q, "score", sc, "->", ids, res.Total, err, string(queryJSON(q)))
			}
		}
	}
}
