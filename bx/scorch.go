package bx

import (
	"context"
	"fmt"
	"os"
	"sort"
	"strings"
	"time"

	"github.com/blevesearch/bleve/v2"
	"github.com/blevesearch/bleve/v2/index/scorch"
	"github.com/blevesearch/bleve/v2/mapping"
)

// Scorch returns the scorch instance behind idx (nil for other engines).
func Scorch(idx bleve.Index) *scorch.Scorch {
	adv, err := idx.Advanced()
	if err != nil {
		return nil
	}
	s, _ := adv.(*scorch.Scorch)
	return s
}

// ScorchLayout renders the physical layout of the current root through exported API only:
// per segment (in root order) the external ids by local doc number with their deleted bit.
// Segment ids, epochs and file names are deliberately left out.
func ScorchLayout(idx bleve.Index) string {
	s := Scorch(idx)
	if s == nil {
		return ""
	}
	r, err := s.Reader()
	if err != nil {
		return "ERR:" + err.Error()
	}
	defer r.Close()
	is, ok := r.(*scorch.IndexSnapshot)
	if !ok {
		return "?"
	}
	var segs []string
	for _, ss := range is.Segments() {
		var ds []string
		del := ss.Deleted()
		n := ss.Segment().Count()
		for d := uint64(0); d < n; d++ {
			id, _ := ss.DocID(d)
			mark := ""
			if del != nil && del.Contains(uint32(d)) {
				mark = "!"
			}
			ds = append(ds, string(id)+mark)
		}
		sort.Strings(ds) // order inside a segment is unspecified
		segs = append(segs, strings.Join(ds, ","))
	}
	return fmt.Sprintf("%d[%s]", len(segs), strings.Join(segs, "|"))
}

// Quiesce waits (polling statistics, no sleeping oracle) until the root epoch has been
// persisted and examined by the merger, or until max has elapsed. It reports whether the
// index became quiescent; callers use the answer only to decide how to proceed, never as
// an oracle.
func Quiesce(idx bleve.Index, max time.Duration) bool {
	deadline := time.Now().Add(max)
	stable := 0
	for {
		m, _ := idx.StatsMap()["index"].(map[string]interface{})
		if m == nil {
			return true
		}
		if m["CurRootEpoch"] == m["LastPersistedEpoch"] && m["CurRootEpoch"] == m["LastMergedEpoch"] {
			stable++
			if stable >= 3 {
				return true
			}
		} else {
			stable = 0
		}
		if time.Now().After(deadline) {
			return false
		}
		time.Sleep(50 * time.Microsecond)
	}
}

// Persisted waits until the root epoch is persisted.
func Persisted(idx bleve.Index, max time.Duration) bool {
	deadline := time.Now().Add(max)
	for {
		m, _ := idx.StatsMap()["index"].(map[string]interface{})
		if m == nil || m["CurRootEpoch"] == m["LastPersistedEpoch"] {
			return true
		}
		if time.Now().After(deadline) {
			return false
		}
		time.Sleep(50 * time.Microsecond)
	}
}

// Merge-plan presets (scorchMergePlanOptions), each verified empirically by the layouts they produce
// (see DESIGN.md §9.3): the planner treats every segment below FloorSegmentSize (default 2000 documents)
// as belonging to the floor tier and merges them eagerly, so the DEFAULT options already merge after
// every small batch; lowering FloorSegmentSize to 1 is what stops merging.
//
// NoMergePlan: never merges (segments accumulate on disk).
var NoMergePlan = map[string]interface{}{"MaxSegmentsPerTier": 1000, "SegmentsPerMergeTask": 2, "TierGrowth": 1.0, "FloorSegmentSize": 1, "MaxSegmentSize": 1000000, "ReclaimDeletesWeight": 0.0}

// AggressiveMergePlan: a file merge after every batch, two segments per task, down to one segment.
var AggressiveMergePlan = map[string]interface{}{"MaxSegmentsPerTier": 1, "SegmentsPerMergeTask": 2}

// PartialMergePlan: small segments merge after every batch, but a segment with >= 2 live documents
// (half of MaxSegmentSize 4) is not eligible and stays — merges are introduced next to kept segments
// that carry obsoleted documents.
var PartialMergePlan = map[string]interface{}{"MaxSegmentSize": 4}

// DiskScorch creates an on-disk scorch index in a scratch directory; cleanup closes nothing, it
// only removes the directory (call it after Close).
func DiskScorch(m mapping.IndexMapping, cfg map[string]interface{}) (bleve.Index, func(), error) {
	base := "/dev/shm"
	if st, err := os.Stat(base); err != nil || !st.IsDir() {
		base = os.TempDir()
	}
	dir, err := os.MkdirTemp(base, "verif-disk-")
	if err != nil {
		return nil, nil, err
	}
	idx, err := bleve.NewUsing(dir+"/idx", m, scorch.Name, scorch.Name, CopyConfig(cfg))
	if err != nil {
		os.RemoveAll(dir)
		return nil, nil, err
	}
	return idx, func() { os.RemoveAll(dir) }, nil
}

// ForceMergeNow merges all segments of idx into one (and waits for quiescence).
func ForceMergeNow(idx bleve.Index) error {
	s := Scorch(idx)
	if s == nil {
		return nil
	}
	Quiesce(idx, 3*time.Second)
	if err := s.ForceMerge(context.Background(), nil); err != nil {
		return err
	}
	Quiesce(idx, 3*time.Second)
	return nil
}
