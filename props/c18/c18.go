// Package c18: geo point queries match exactly the points inside the shape.
//
// E2 enumeration. Documents hold points of a boundary lattice (±180, ±179.99, ±90, ±89.99, …)
// plus points a few encoding cells on either side of every shape edge; shapes are all bounding
// boxes over a coarser lattice (date-line-crossing, pole-touching, zero-width), circles around
// every lattice point with radii from 1 m to 10 000 km, and triangles / rectangles on the
// lattice; engines are scorch, scorch with the s2 spatial plugin, and upsidedown.
//
// Oracle: exact spherical geometry, three-valued.
//
//   - Encoding resolution (stated): Morton code, 32 bits per dimension, truncating:
//     360/(2^32-1) = 8.4e-8° of longitude, 180/(2^32-1) = 4.2e-8° of latitude (≤ 9.3 mm).
//   - Boxes / polygons: bleve compares decoded coordinates with its declared geo tolerance
//     (geo.geoTolerance = 1e-6°); band = 1e-6° + one longitude cell, rounded up to 1.2e-6°
//     (0.13 m). A point farther than that inside must be returned, farther outside must not.
//   - Circles / distance sort: "true distance" depends on the earth model. bleve's Haversin
//     uses a latitude dependent radius between the WGS84 polar and equatorial radii, so the
//     oracle takes the exact central angle θ and the interval [θ·b, θ·a] (b = 6356752.3 m,
//     a = 6378137 m; ±0.17 % around the mean sphere) widened by 0.3 m: the encoding moves a
//     point by ≤ 1.1 cm, and Haversin forms h from 1-cos(Δ), whose absolute rounding error
//     (≈ 2e-16) turns into 2R·√2e-16 ≈ 0.2 m of distance when the true distance is near zero
//     or near half the circumference (the run measures the worst excess of geo.Haversin over
//     the interval — 0.16 m quick, 0.20 m thorough — and records it; an excess above the band
//     is itself reported as a violation).
//   - Polygons: the documentation does not say whether edges are straight in the lon/lat
//     plane or great-circle arcs; a point is asserted only when both readings agree (it is
//     outside every sliver between an edge's chord and its geodesic, and farther than the box
//     band from both). Polygons with a vertex on a pole, an edge spanning ≥ 180° of longitude
//     or zero area are executed (no panic, no error) but nothing is asserted about their hits.
package c18

import (
	"fmt"
	"math"
	"os"
	"runtime/debug"
	"sort"
	"strconv"
	"strings"
	"sync"
	"time"

	"github.com/blevesearch/bleve/v2"
	"github.com/blevesearch/bleve/v2/geo"
	"github.com/blevesearch/bleve/v2/index/scorch"
	"github.com/blevesearch/bleve/v2/mapping"
	"github.com/blevesearch/bleve/v2/search"
	"github.com/blevesearch/bleve/v2/search/query"
	index "github.com/blevesearch/bleve_index_api"

	"verif/bx"
	"verif/mc"
)

const (
	lonRes    = 360.0 / 4294967295.0 // one longitude cell, degrees
	latRes    = 180.0 / 4294967295.0 // one latitude cell, degrees
	unit      = 1e-7                 // offset unit around edges, ≈ one cell
	bandDeg   = 1.2e-6               // geoTolerance (1e-6°) + one longitude cell, rounded up
	absBandM  = 0.3                  // metres, see package comment
	earthA    = 6378137.0            // WGS84 equatorial radius
	earthB    = 6356752.3142         // WGS84 polar radius
	earthMean = 6371008.7714
	deg       = math.Pi / 180
)

type pt struct {
	Lon float64 `json:"lon"`
	Lat float64 `json:"lat"`
}

type doc struct {
	id  string
	pts []pt
}

// tv is the three-valued verdict of the oracle.
type tv int8

const (
	out  tv = -1
	band tv = 0
	in   tv = 1
)

// ---------------------------------------------------------------------------------------------
// engines

type engine struct {
	name string
	mk   func(m mapping.IndexMapping) bleve.Index
}

func engines() []engine {
	return []engine{
		{"scorch", bx.MemEngines[0].Mk},
		{"scorch+s2", func(m mapping.IndexMapping) bleve.Index {
			idx, err := bleve.NewUsing("", m, scorch.Name, scorch.Name, map[string]interface{}{"spatialPlugin": "s2"})
			if err != nil {
				panic(err)
			}
			return idx
		}},
		{"upsidedown", bx.MemEngines[1].Mk},
	}
}

func s2Active(idx bleve.Index) bool {
	ii, err := idx.Advanced()
	if err != nil {
		return false
	}
	rd, err := ii.Reader()
	if err != nil {
		return false
	}
	defer rd.Close()
	sp, ok := rd.(index.SpatialIndexPlugin)
	if !ok {
		return false
	}
	p, err := sp.GetSpatialAnalyzerPlugin("s2")
	return err == nil && p != nil
}

func geoMapping() mapping.IndexMapping {
	m := bleve.NewIndexMapping()
	m.DefaultMapping.AddFieldMappingsAt("loc", bleve.NewGeoPointFieldMapping())
	return m
}

func build(e engine, docs []doc) bleve.Index {
	idx := e.mk(geoMapping())
	b := idx.NewBatch()
	for _, d := range docs {
		var v interface{}
		switch len(d.pts) {
		case 0:
			if err := b.Index(d.id, map[string]interface{}{"name": "nogeo"}); err != nil {
				panic(err)
			}
			continue
		case 1:
			v = map[string]interface{}{"lon": d.pts[0].Lon, "lat": d.pts[0].Lat}
		default:
			var l []interface{}
			for _, p := range d.pts {
				l = append(l, map[string]interface{}{"lon": p.Lon, "lat": p.Lat})
			}
			v = l
		}
		if err := b.Index(d.id, map[string]interface{}{"loc": v}); err != nil {
			panic(err)
		}
	}
	if err := idx.Batch(b); err != nil {
		panic(err)
	}
	return idx
}

// ---------------------------------------------------------------------------------------------
// spherical geometry (reference)

// centralAngle is the exact angle between two points (atan2 form: accurate from 0 to π).
func centralAngle(a, b pt) float64 {
	p1, p2, dl := a.Lat*deg, b.Lat*deg, (b.Lon-a.Lon)*deg
	s1, c1 := math.Sincos(p1)
	s2, c2 := math.Sincos(p2)
	sd, cd := math.Sincos(dl)
	x := c2 * sd
	y := c1*s2 - s1*c2*cd
	return math.Atan2(math.Hypot(x, y), s1*s2+c1*c2*cd)
}

// distInterval returns the interval of distances (metres) over all spheres between the polar
// and the equatorial radius, widened by the absolute band.
func distInterval(a, b pt) (lo, hi float64) {
	th := centralAngle(a, b)
	return th*earthB - absBandM, th*earthA + absBandM
}

func normLon(l float64) float64 {
	for l > 180 {
		l -= 360
	}
	for l < -180 {
		l += 360
	}
	return l
}

// destination returns the point at angular distance th (radians) and bearing brg (degrees)
// from c. Its accuracy does not matter: the oracle recomputes the angle from the result.
func destination(c pt, brg, th float64) pt {
	if math.Abs(c.Lat) > 89.9999999 {
		// from a pole every direction is a meridian
		lat := 90 - th/deg
		if c.Lat < 0 {
			lat = -lat
		}
		return pt{normLon(c.Lon + brg), clampLat(lat)}
	}
	s1, c1 := math.Sincos(c.Lat * deg)
	st, ct := math.Sincos(th)
	sb, cb := math.Sincos(brg * deg)
	s2 := s1*ct + c1*st*cb
	lat := math.Asin(math.Max(-1, math.Min(1, s2)))
	lon := c.Lon*deg + math.Atan2(sb*st*c1, ct-s1*s2)
	return pt{normLon(lon / deg), clampLat(lat / deg)}
}

func clampLat(l float64) float64 { return math.Max(-90, math.Min(90, l)) }

// cyc is the cyclic distance between two longitudes in degrees.
func cyc(a, b float64) float64 {
	d := math.Mod(math.Abs(a-b), 360)
	if d > 180 {
		d = 360 - d
	}
	return d
}

// ---------------------------------------------------------------------------------------------
// shapes and their oracles

type box struct{ tlx, tly, brx, bry float64 }

func (b box) feature() string {
	var f []string
	if b.tlx > b.brx {
		f = append(f, "dateline")
	}
	if b.tly >= 90 || b.bry <= -90 {
		f = append(f, "pole")
	}
	if b.tlx == b.brx || b.tly == b.bry {
		f = append(f, "degenerate")
	}
	if len(f) == 0 {
		return "plain"
	}
	return strings.Join(f, "+")
}

func (b box) state(p pt) tv {
	// latitude: an edge on a pole is the end of the domain, nothing lies beyond it
	var ls tv
	inLo := b.bry <= -90 || p.Lat > b.bry+bandDeg
	inHi := b.tly >= 90 || p.Lat < b.tly-bandDeg
	switch {
	case inLo && inHi:
		ls = in
	case p.Lat < b.bry-bandDeg || p.Lat > b.tly+bandDeg:
		ls = out
	default:
		ls = band
	}
	if ls == out {
		return out
	}
	// longitude: cyclic; ±180 are the same meridian
	var xs tv
	switch {
	case b.tlx == -180 && b.brx == 180:
		xs = in
	case cyc(p.Lon, b.tlx) <= bandDeg || cyc(p.Lon, b.brx) <= bandDeg:
		xs = band
	default:
		var inside bool
		if b.tlx <= b.brx {
			inside = p.Lon > b.tlx && p.Lon < b.brx
		} else {
			inside = p.Lon > b.tlx || p.Lon < b.brx
		}
		if inside {
			xs = in
		} else {
			xs = out
		}
	}
	// within the band of a pole all longitudes coincide
	if xs == out && 90-math.Abs(p.Lat) <= bandDeg {
		xs = band
	}
	if xs == out {
		return out
	}
	if ls == in && xs == in {
		return in
	}
	return band
}

type circle struct {
	c     pt
	r     float64 // metres
	label string  // as passed to the query
}

func (c circle) feature() string {
	ang := c.r / earthMean
	if (90-c.c.Lat)*deg <= ang || (90+c.c.Lat)*deg <= ang {
		return "pole"
	}
	q := math.Sin(ang) / math.Cos(c.c.Lat*deg)
	if q >= 1 {
		return "pole"
	}
	dl := math.Asin(q) / deg
	if c.c.Lon+dl > 180 || c.c.Lon-dl < -180 {
		return "dateline"
	}
	return "plain"
}

func (c circle) state(p pt) tv {
	lo, hi := distInterval(c.c, p)
	switch {
	case hi < c.r:
		return in
	case lo > c.r:
		return out
	}
	return band
}

type polygon struct {
	v        []pt   // as given to the query (a closed ring repeats the first vertex)
	kind     string // rect | rect-dense | tri
	closed   bool
	cw       bool
	asserted bool
	why      string // why nothing is asserted
}

func (pg polygon) feature() string {
	f := pg.kind
	if pg.closed {
		f += "+closed"
	}
	if pg.cw {
		f += "+cw"
	}
	return f
}

// ring returns the vertices without the repeated closing vertex.
func (pg polygon) ring() []pt {
	if pg.closed {
		return pg.v[:len(pg.v)-1]
	}
	return pg.v
}

func area2(v []pt) float64 {
	s := 0.0
	for i := range v {
		a, b := v[i], v[(i+1)%len(v)]
		s += a.Lon*b.Lat - b.Lon*a.Lat
	}
	return s
}

func finishPolygon(pg polygon) polygon {
	v := pg.ring()
	pg.asserted = true
	if area2(v) == 0 {
		pg.asserted, pg.why = false, "zero area"
	}
	for i := range v {
		a, b := v[i], v[(i+1)%len(v)]
		if math.Abs(a.Lat) >= 90 {
			pg.asserted, pg.why = false, "vertex on a pole"
		}
		if math.Abs(a.Lon-b.Lon) >= 180 {
			pg.asserted, pg.why = false, "edge spans >= 180 degrees of longitude"
		}
	}
	return pg
}

// planarInside: winding number of the ring around p in the lon/lat plane.
func planarInside(p pt, v []pt) bool {
	wn := 0
	for i := range v {
		a, b := v[i], v[(i+1)%len(v)]
		left := (b.Lon-a.Lon)*(p.Lat-a.Lat) - (p.Lon-a.Lon)*(b.Lat-a.Lat)
		if a.Lat <= p.Lat {
			if b.Lat > p.Lat && left > 0 {
				wn++
			}
		} else if b.Lat <= p.Lat && left < 0 {
			wn--
		}
	}
	return wn != 0
}

// geodesicLat is the latitude at which the great circle through a and b crosses longitude lon
// (a.Lon != b.Lon, |a.Lon-b.Lon| < 180, no pole).
func geodesicLat(a, b pt, lon float64) float64 {
	t1, t2 := math.Tan(a.Lat*deg), math.Tan(b.Lat*deg)
	num := t1*math.Sin((b.Lon-lon)*deg) + t2*math.Sin((lon-a.Lon)*deg)
	return math.Atan(num/math.Sin((b.Lon-a.Lon)*deg)) / deg
}

// nearEdge: p lies within the band of the chord a-b, of the geodesic a-b, or between them.
func nearEdge(p, a, b pt) bool {
	const w = bandDeg // the envelope over [lon-w, lon+w] widened by w in latitude contains the w-disc around p
	if a.Lon == b.Lon {
		lo, hi := math.Min(a.Lat, b.Lat), math.Max(a.Lat, b.Lat)
		return math.Abs(p.Lon-a.Lon) <= w && p.Lat >= lo-w && p.Lat <= hi+w
	}
	lmin, lmax := math.Min(a.Lon, b.Lon), math.Max(a.Lon, b.Lon)
	if p.Lon < lmin-w || p.Lon > lmax+w {
		return false
	}
	lo, hi := math.Inf(1), math.Inf(-1)
	for _, l := range []float64{p.Lon - w, p.Lon, p.Lon + w} {
		l = math.Max(lmin, math.Min(lmax, l))
		chord := a.Lat + (b.Lat-a.Lat)*(l-a.Lon)/(b.Lon-a.Lon)
		g := geodesicLat(a, b, l)
		lo = math.Min(lo, math.Min(chord, g))
		hi = math.Max(hi, math.Max(chord, g))
	}
	return p.Lat >= lo-w && p.Lat <= hi+w
}

func (pg polygon) state(p pt) tv {
	if !pg.asserted {
		return band
	}
	v := pg.ring()
	for i := range v {
		if nearEdge(p, v[i], v[(i+1)%len(v)]) {
			return band
		}
	}
	if planarInside(p, v) {
		return in
	}
	return out
}

// ---------------------------------------------------------------------------------------------
// running a query and comparing

type checker struct {
	r *mc.Run
}

var timing = os.Getenv("VERIF_C18_TIMING") != ""

func docState(d doc, st func(pt) tv) tv {
	if len(d.pts) == 0 {
		return out
	}
	best := out
	for _, p := range d.pts {
		s := st(p)
		if s == in {
			return in
		}
		if s == band {
			best = band
		}
	}
	return best
}

// run executes req and returns the hit ids in order; ok=false when a violation was recorded.
func (c *checker) run(kind, feature, eng string, idx bleve.Index, req *bleve.SearchRequest, rep map[string]any) (ids []string, ok bool) {
	var res *bleve.SearchResult
	var err error
	t0 := time.Now()
	pv, st := mc.Try(func() { res, err = idx.Search(req) })
	c.r.Eval(1)
	if timing {
		c.r.Count("timing_ms:"+kind+":"+eng, time.Since(t0).Milliseconds())
	}
	if pv != nil {
		c.r.Violation(fmt.Sprintf("%s:panic:%s:%s", kind, eng, feature), fmt.Sprintf("%v: panic %v @ %s", rep, pv, mc.TrimStack(st)), rep)
		return nil, false
	}
	if err != nil {
		c.r.Violation(fmt.Sprintf("%s:error:%s:%s", kind, eng, feature), fmt.Sprintf("%v: error %v", rep, err), rep)
		return nil, false
	}
	seen := map[string]bool{}
	for _, h := range res.Hits {
		if seen[h.ID] {
			c.r.Violation(fmt.Sprintf("%s:duplicate:%s:%s", kind, eng, feature), fmt.Sprintf("%v: %s returned twice", rep, h.ID), rep)
		}
		seen[h.ID] = true
		ids = append(ids, h.ID)
	}
	if int(res.Total) != len(ids) {
		c.r.Violation(fmt.Sprintf("%s:total:%s:%s", kind, eng, feature), fmt.Sprintf("%v: Total=%d hits=%d", rep, res.Total, len(ids)), rep)
	}
	return ids, true
}

func bucket(n int) string {
	switch {
	case n == 0:
		return "0"
	case n == 1:
		return "1"
	case n < 10:
		return "2-9"
	case n < 100:
		return "10-99"
	case n < 1000:
		return "100-999"
	}
	return ">=1000"
}

// family names the candidate-term scheme of an engine: both engines without a plugin run the
// same Morton-cell searcher code.
func family(eng string) string {
	if strings.HasSuffix(eng, "+s2") {
		return "s2-plugin"
	}
	return "no-plugin"
}

// compare checks the hit set against the three-valued states.
func (c *checker) compare(kind, feature, eng string, docs []doc, states []tv, st func(pt) tv, ids []string, rep map[string]any) {
	got := make(map[string]bool, len(ids))
	for _, id := range ids {
		got[id] = true
	}
	for i, d := range docs {
		switch states[i] {
		case in:
			if !got[d.id] {
				rp := cloneRep(rep)
				rp["engine"], rp["doc"], rp["doc_points"], rp["expected"] = eng, d.id, d.pts, "returned (clearly inside)"
				class := fmt.Sprintf("%s:missing:%s:%s", kind, eng, feature)
				if len(d.pts) > 1 {
					// a document with a point inside and another point not inside is one structural
					// input class of its own, whatever the engine and the shape's position; a
					// document all of whose points are inside is classed like a single point
					var verdicts []string
					mixed := false
					for _, p := range d.pts {
						v := st(p)
						verdicts = append(verdicts, map[tv]string{in: "inside", out: "outside", band: "band"}[v])
						mixed = mixed || v != in
					}
					rp["point_verdicts"] = verdicts
					if mixed {
						class = fmt.Sprintf("%s:missing:%s:multi-point-doc:some-point-not-inside", kind, family(eng))
					}
				}
				c.r.Violation(class,
					fmt.Sprintf("%s on %s %v: document %s with point(s) %v is clearly inside but was not returned", kind, eng, rep["shape"], d.id, d.pts), rp)
			}
		case out:
			if got[d.id] {
				rp := cloneRep(rep)
				rp["engine"], rp["doc"], rp["doc_points"], rp["expected"] = eng, d.id, d.pts, "not returned (clearly outside)"
				c.r.Violation(fmt.Sprintf("%s:extra:%s:%s", kind, eng, feature),
					fmt.Sprintf("%s on %s %v: document %s with point(s) %v is clearly outside but was returned", kind, eng, rep["shape"], d.id, d.pts), rp)
			}
		}
	}
	c.r.Outcome(fmt.Sprintf("%s|%s|hits=%s", kind, feature, bucket(len(ids))))
}

const howTo = "mapping: default mapping + geopoint field \"loc\"; index the document as {\"loc\": {\"lon\":…, \"lat\":…}} (several points: an array of such objects) into an in-memory index (bleve.NewUsing(\"\", mapping, scorch.Name, scorch.Name, config); engine scorch+s2: config {\"spatialPlugin\": \"s2\"}; upsidedown: upsidedown.Name, gtreap.Name); set the query's field to \"loc\" and search"

func cloneRep(m map[string]any) map[string]any {
	o := make(map[string]any, len(m)+6)
	for k, v := range m {
		o[k] = v
	}
	o["how"] = howTo
	return o
}

func (c *checker) countStates(kind string, docs []doc, states []tv) {
	var ni, no, nb, nmi, nmo int64
	for i, s := range states {
		switch s {
		case in:
			ni++
			if len(docs[i].pts) > 1 {
				nmi++
			}
		case out:
			no++
			if len(docs[i].pts) > 1 {
				nmo++
			}
		default:
			nb++
		}
	}
	c.r.Count(kind+":doc_verdicts_must_be_returned", ni)
	c.r.Count(kind+":doc_verdicts_must_not_be_returned", no)
	c.r.Count(kind+":doc_verdicts_in_band(either)", nb)
	c.r.Count(kind+":multi_point_docs_must_be_returned", nmi)
	c.r.Count(kind+":multi_point_docs_must_not_be_returned", nmo)
}

// ---------------------------------------------------------------------------------------------
// lattices

var (
	latticeLons = []float64{-180, -179.99, -135, -90, -45, 0, 45, 90, 135, 179.99, 180}
	latticeLats = []float64{-90, -89.99, -45, 0, 45, 89.99, 90}
)

func lattice() []pt {
	var l []pt
	for _, lo := range latticeLons {
		for _, la := range latticeLats {
			l = append(l, pt{lo, la})
		}
	}
	return l
}

// around returns v + k*unit for every offset k, clipped to [lo,hi], merged with extra, sorted, unique.
func around(vals []float64, offsets []float64, lo, hi float64, extra []float64) []float64 {
	set := map[float64]bool{}
	for _, v := range vals {
		for _, k := range offsets {
			x := v + k*unit
			if x >= lo && x <= hi {
				set[x] = true
			}
		}
	}
	for _, v := range extra {
		set[v] = true
	}
	var outv []float64
	for v := range set {
		outv = append(outv, v)
	}
	sort.Float64s(outv)
	return outv
}

func multiDocs(l []pt, prefix string, n int) []doc {
	var ds []doc
	for k := 0; k < n && k < len(l); k++ {
		a, b := l[(k*3)%len(l)], l[(k*5+11)%len(l)]
		d := doc{id: fmt.Sprintf("%s%d", prefix, k), pts: []pt{a, b}}
		if k%3 == 2 {
			d.pts = append(d.pts, l[(k*7+29)%len(l)])
		}
		ds = append(ds, d)
	}
	return ds
}

func ptID(prefix string, p pt) string {
	return prefix + strconv.FormatFloat(p.Lon, 'g', -1, 64) + "_" + strconv.FormatFloat(p.Lat, 'g', -1, 64)
}

// ---------------------------------------------------------------------------------------------
// phase 1: Morton round trip + Haversin band measurement

func phaseMorton(r *mc.Run, pts []pt, origins []pt) {
	var worstLon, worstLat float64
	for _, p := range pts {
		h := geo.MortonHash(p.Lon, p.Lat)
		lo, la := geo.MortonUnhashLon(h), geo.MortonUnhashLat(h)
		r.Eval(1)
		dlo, dla := math.Abs(lo-p.Lon), math.Abs(la-p.Lat)
		worstLon, worstLat = math.Max(worstLon, dlo), math.Max(worstLat, dla)
		if dlo > lonRes*1.01+1e-12 || dla > latRes*1.01+1e-12 {
			where := "interior"
			if math.Abs(p.Lon) == 180 || math.Abs(p.Lat) == 90 {
				where = "domain-boundary"
			}
			r.Violation("morton:roundtrip-beyond-resolution:"+where,
				fmt.Sprintf("MortonHash(%v,%v) decodes to (%v,%v): off by (%.3g°, %.3g°), resolution (%.3g°, %.3g°)", p.Lon, p.Lat, lo, la, dlo, dla, lonRes, latRes),
				map[string]any{"lon": p.Lon, "lat": p.Lat, "decoded_lon": lo, "decoded_lat": la})
		}
		r.Outcome(fmt.Sprintf("morton|lonerr>half=%v|laterr>half=%v", dlo > lonRes/2, dla > latRes/2))
	}
	r.Note("morton_points", len(pts))
	r.Note("morton_worst_roundtrip_error_deg", map[string]float64{"lon": worstLon, "lat": worstLat, "lon_resolution": lonRes, "lat_resolution": latRes})

	// geo.Haversin on decoded coordinates against the sphere interval: measures the absolute band
	var mu sync.Mutex
	worst := 0.0
	r.ParFor(len(origins), 0, func(i int) {
		o := origins[i]
		w := 0.0
		for _, p := range pts {
			h := geo.MortonHash(p.Lon, p.Lat)
			d := geo.Haversin(o.Lon, o.Lat, geo.MortonUnhashLon(h), geo.MortonUnhashLat(h)) * 1000
			th := centralAngle(o, p)
			ex := math.Max(th*earthB-d, d-th*earthA)
			w = math.Max(w, ex)
			if ex > absBandM {
				r.Violation("haversin:outside-earth-radius-interval",
					fmt.Sprintf("geo.Haversin(%v -> %v) = %.4f m, but central angle %.12g rad gives [%.4f, %.4f] m on spheres between the polar and equatorial radius", o, p, d, th, th*earthB, th*earthA),
					map[string]any{"from": o, "to": p, "haversin_m": d, "angle_rad": th})
			}
		}
		r.Eval(len(pts))
		mu.Lock()
		worst = math.Max(worst, w)
		mu.Unlock()
	})
	r.Note("haversin_max_excess_over_sphere_interval_m(absolute band used: 0.3)", worst)
}

// ---------------------------------------------------------------------------------------------
// phase 2: boxes and polygons on the grid index

func boxesOver(lons, lats []float64) []box {
	var bs []box
	for _, tlx := range lons {
		for _, brx := range lons {
			for _, tly := range lats {
				for _, bry := range lats {
					if tly < bry {
						continue // rejected by Validate: not a box
					}
					bs = append(bs, box{tlx, tly, brx, bry})
				}
			}
		}
	}
	return bs
}

func between(vals []float64, lo, hi float64) []float64 {
	var o []float64
	for _, v := range vals {
		if v > lo && v < hi {
			o = append(o, v)
		}
	}
	return o
}

func mkRing(v []pt, cw, closed bool) []pt {
	v = append([]pt{}, v...)
	if (area2(v) < 0) != cw {
		for i, j := 0, len(v)-1; i < j; i, j = i+1, j-1 {
			v[i], v[j] = v[j], v[i]
		}
	}
	if closed {
		v = append(v, v[0])
	}
	return v
}

func polygonsOver(r *mc.Run, lons, lats []float64, triLons, triLats []float64) []polygon {
	var ps []polygon
	n, nu := 0, 0
	// winding (ccw / cw) and ring form (open / closed) are coordinates of the product; each
	// polygon gets k of the four combinations, rotating, so that every combination occurs with
	// every family (a run over all four for every polygon costs 4× for the same code paths).
	variants := func(kind string, v []pt, k int) {
		for j := 0; j < k; j++ {
			vi := (n + j) % 4
			if j == 1 {
				vi = (n % 4) ^ 3 // the opposite winding and ring form
			}
			cw, closed := vi&1 == 1, vi&2 == 2
			pg := finishPolygon(polygon{v: mkRing(v, cw, closed), kind: kind, cw: cw, closed: closed})
			if !pg.asserted {
				// executed only for "no panic, no error": keep every eighth (thorough: every fourth)
				nu++
				if nu%mc.Pick(r, 8, 4) != 0 {
					continue
				}
			}
			ps = append(ps, pg)
		}
		n++
	}
	for i, x0 := range lons {
		for _, x1 := range lons[i+1:] {
			for j, y0 := range lats {
				for _, y1 := range lats[j+1:] {
					variants("rect", []pt{{x0, y0}, {x1, y0}, {x1, y1}, {x0, y1}}, mc.Pick(r, 1, 2))
					mid := between(lons, x0, x1)
					if len(mid) > 0 {
						var v []pt
						v = append(v, pt{x0, y0})
						for _, m := range mid {
							v = append(v, pt{m, y0})
						}
						v = append(v, pt{x1, y0}, pt{x1, y1})
						for k := len(mid) - 1; k >= 0; k-- {
							v = append(v, pt{mid[k], y1})
						}
						v = append(v, pt{x0, y1})
						variants("rect-dense", v, 1)
					}
				}
			}
		}
	}
	var tl []pt
	for _, lo := range triLons {
		for _, la := range triLats {
			tl = append(tl, pt{lo, la})
		}
	}
	for a := 0; a < len(tl); a++ {
		for b := a + 1; b < len(tl); b++ {
			for c := b + 1; c < len(tl); c++ {
				variants("tri", []pt{tl[a], tl[b], tl[c]}, 1)
			}
		}
	}
	return ps
}

// skipSlow: without FieldDictContains upsidedown opens a term reader per candidate cell (tens of
// milliseconds for a large box); it runs the same searcher code as scorch without a plugin, so
// the quick tier gives it a fixed quarter of the shapes of the grid phase (thorough: all).
func skipSlow(r *mc.Run, e engine, i int) bool {
	return r.Quick() && e.name == "upsidedown" && (uint32(i)*2654435761>>8)%4 != 0 // a fixed quarter, not aligned with the loop nest
}

func phaseGrid(r *mc.Run, c *checker, engs []engine) (gridPts []pt) {
	offs := mc.Pick(r,
		[]float64{0, -1, 1, -20, 20, -1000, 1000},
		[]float64{0, -1, 1, -5, 5, -11, 11, -13, 13, -20, 20, -1000, 1000, -300000, 300000})
	// The lattice values are dyadic fractions of 360° / 180°, i.e. they coincide with Morton cell
	// borders at every level, which makes "boundary cells" trivial; one value per axis (45.3,
	// -44.6) is therefore moved off the cell grid, so that the cell containing an edge extends
	// 0.01–0.02° beyond it and the ±2e-6° / ±1e-4° points around the edge lie in that cell.
	boxLons := mc.Pick(r, []float64{-180, -135, -45, 0, 45.3, 179.99, 180}, []float64{-180, -179.99, -135, -90, -45, 0, 45.3, 90, 135, 179.99, 180})
	boxLats := mc.Pick(r, []float64{-90, -44.6, 0, 89.99, 90}, []float64{-90, -89.99, -44.6, 0, 45, 89.99, 90})
	polyLons := mc.Pick(r, []float64{-180, -45, 45.3, 180}, []float64{-180, -135, -45, 0, 45.3, 135, 180})
	polyLats := mc.Pick(r, []float64{-90, -89.99, -44.6, 0, 45, 89.99}, []float64{-90, -89.99, -44.6, 0, 45, 89.99, 90})
	triLons := mc.Pick(r, []float64{-180, 0, 45, 135}, []float64{-180, -45, 0, 45, 135})
	triLats := mc.Pick(r, []float64{-89.99, 0, 45}, []float64{-89.99, -45, 0, 45})

	edgeLons := append(append([]float64{}, boxLons...), polyLons...)
	edgeLats := append(append([]float64{}, boxLats...), polyLats...)
	glons := around(edgeLons, offs, -180, 180, latticeLons)
	glats := around(edgeLats, offs, -90, 90, latticeLats)
	var docs []doc
	for _, lo := range glons {
		for _, la := range glats {
			p := pt{lo, la}
			gridPts = append(gridPts, p)
			docs = append(docs, doc{id: ptID("g", p), pts: []pt{p}})
		}
	}
	docs = append(docs, multiDocs(lattice(), "multi", 40)...)
	docs = append(docs, multiDocs(gridPts, "multigrid", 40)...)
	docs = append(docs, doc{id: "nogeo"})
	r.Note("grid_index_documents", len(docs))
	r.Note("grid_longitudes", len(glons))
	r.Note("grid_latitudes", len(glats))

	idxs := make([]bleve.Index, len(engs))
	r.ParFor(len(engs), 0, func(i int) { idxs[i] = build(engs[i], docs) })
	defer func() {
		for _, i := range idxs {
			if i != nil {
				i.Close()
			}
		}
	}()
	for i, e := range engs {
		if idxs[i] == nil {
			return
		}
		if e.name == "scorch+s2" {
			if !s2Active(idxs[i]) {
				r.Cap("the s2 spatial plugin could not be switched on (index config spatialPlugin=s2)")
			} else {
				r.Count("indexes_with_s2_plugin_active", 1)
			}
		} else if s2Active(idxs[i]) {
			r.Cap("engine " + e.name + " unexpectedly has a spatial plugin")
		}
	}

	boxes := boxesOver(boxLons, boxLats)
	r.Note("boxes", len(boxes))
	r.Sample(map[string]any{"kind": "box", "top_left": []float64{179.99, 90}, "bottom_right": []float64{-135, -44.6}, "feature": "dateline+pole",
		"must_return": "(180, 90), (-180, 0), (-135.000002, -44.599998), (179.990002, 89.99), …", "must_not_return": "(179.989998, 0) 2e-6° west of the west edge, (-134.9999, 0), (0, 0), …", "either": "(179.9900001, 0), (-135, 0), (-180, -44.6): within 1.2e-6° of an edge"})
	size := len(docs) + 10
	r.ParFor(len(boxes), 0, func(bi int) {
		b := boxes[bi]
		states := make([]tv, len(docs))
		for i, d := range docs {
			states[i] = docState(d, b.state)
		}
		c.countStates("box", docs, states)
		feat := b.feature()
		r.Count("boxes:"+feat, 1)
		rep := map[string]any{"shape": fmt.Sprintf("box top_left=(%v,%v) bottom_right=(%v,%v)", b.tlx, b.tly, b.brx, b.bry),
			"query": "NewGeoBoundingBoxQuery(topLeftLon, topLeftLat, bottomRightLon, bottomRightLat)", "args": []float64{b.tlx, b.tly, b.brx, b.bry}, "field": "loc"}
		for ei, e := range engs {
			if skipSlow(r, e, bi) {
				continue
			}
			q := bleve.NewGeoBoundingBoxQuery(b.tlx, b.tly, b.brx, b.bry)
			q.SetField("loc")
			req := bleve.NewSearchRequest(q)
			req.Size = size
			rp := cloneRep(rep)
			rp["engine"] = e.name
			if ids, ok := c.run("box", feat, e.name, idxs[ei], req, rp); ok {
				c.compare("box", feat, e.name, docs, states, b.state, ids, rep)
			}
		}
	})

	polys := polygonsOver(r, polyLons, polyLats, triLons, triLats)
	r.Note("polygons", len(polys))
	r.Sample(map[string]any{"kind": "polygon", "points": []pt{{-45, 0}, {45.3, 0}, {45.3, 45}, {-45, 45}}, "asserted": "points away from the slivers between each edge's chord and its great-circle arc (meridian and equator edges have none)",
		"must_return": "(0, 0.000002), (45.299998, 44.9999), …", "must_not_return": "(45.300002, 0.0001), (0, -0.000002), …", "either": "(0, 45.0001): between the 45° parallel and the great circle through the two upper corners"})
	r.ParFor(len(polys), 0, func(pi int) {
		pg := polys[pi]
		feat := pg.feature()
		states := make([]tv, len(docs))
		for i, d := range docs {
			states[i] = docState(d, pg.state)
		}
		if pg.asserted {
			c.countStates("polygon", docs, states)
			r.Count("polygons_asserted:"+pg.kind, 1)
		} else {
			r.Count("polygons_executed_only("+pg.why+")", 1)
		}
		rep := map[string]any{"shape": fmt.Sprintf("polygon %v", pg.v), "query": "NewGeoBoundingPolygonQuery(points)", "points": pg.v, "field": "loc"}
		gp := make([]geo.Point, len(pg.v))
		for i, p := range pg.v {
			gp[i] = geo.Point{Lon: p.Lon, Lat: p.Lat}
		}
		for ei, e := range engs {
			if skipSlow(r, e, pi) {
				continue
			}
			q := query.NewGeoBoundingPolygonQuery(gp)
			q.SetField("loc")
			req := bleve.NewSearchRequest(q)
			req.Size = size
			rp := cloneRep(rep)
			rp["engine"] = e.name
			if ids, ok := c.run("polygon", feat, e.name, idxs[ei], req, rp); ok {
				c.compare("polygon", feat, e.name, docs, states, pg.state, ids, rep)
			}
		}
	})
	return gridPts
}

// ---------------------------------------------------------------------------------------------
// phase 3: circles and distance sort, one index per centre

type radius struct {
	label string
	m     float64
}

func phaseCentres(r *mc.Run, c *checker, engs []engine) (edgePts []pt) {
	radii := mc.Pick(r,
		[]radius{{"1m", 1}, {"1km", 1000}, {"100km", 100000}, {"5000km", 5000000}, {"10000km", 10000000}},
		[]radius{{"1m", 1}, {"10m", 10}, {"1km", 1000}, {"10km", 10000}, {"100km", 100000}, {"1000km", 1000000}, {"5000km", 5000000}, {"10000km", 10000000}, {"15000km", 15000000}, {"20000km", 20000000}})
	nb := mc.Pick(r, 8, 16)
	// margins (metres) on either side of the circle: inside the band, and just outside it
	bandMargins := []float64{0, 0.02, -0.02}
	clearMargins := mc.Pick(r, []float64{2 * absBandM, 50}, []float64{2 * absBandM, 1.5 * absBandM, 5, 50, 2000})
	centres := lattice()
	lat := lattice()
	var mu sync.Mutex
	r.Sample(map[string]any{"kind": "circle", "centre": pt{179.99, 89.99}, "radius": "100km", "feature": "pole",
		"must_return":     "every lattice point with |lat| ≥ 89.99 on the northern side incl. (−135, 90); edge points 0.6 m inside on the equatorial-radius sphere",
		"must_not_return": "edge points 0.6 m outside on the polar-radius sphere", "either": "points whose distance interval [θ·b, θ·a] ± 0.3 m contains the radius"})
	r.Sample(map[string]any{"kind": "distance-sort", "origin": pt{-180, 0}, "rule": "a hit may not precede another when its distance interval lies entirely above the other's"})
	r.ParFor(len(centres), 0, func(ci int) {
		ctr := centres[ci]
		var docs []doc
		for _, p := range lat {
			docs = append(docs, doc{id: ptID("l", p), pts: []pt{p}})
		}
		var mine []pt
		seen := map[pt]bool{}
		for _, rad := range radii {
			for b := 0; b < nb; b++ {
				brg := float64(b) * 360 / float64(nb)
				var ths []float64
				for _, m := range bandMargins {
					ths = append(ths, (rad.m+m)/earthMean)
				}
				for _, m := range clearMargins {
					if rad.m-m > 0 {
						ths = append(ths, (rad.m-m)/earthA*(1-1e-12)) // clearly inside on the largest sphere
					}
					ths = append(ths, (rad.m+m)/earthB*(1+1e-12)) // clearly outside on the smallest sphere
				}
				for _, th := range ths {
					if th <= 0 || th > math.Pi {
						continue
					}
					p := destination(ctr, brg, th)
					if seen[p] {
						continue
					}
					seen[p] = true
					mine = append(mine, p)
					docs = append(docs, doc{id: ptID("e"+rad.label+"_", p), pts: []pt{p}})
				}
			}
		}
		docs = append(docs, multiDocs(lat, "multi", 24)...)
		if len(mine) > 2 {
			docs = append(docs, multiDocs(mine, "multiedge", 24)...)
		}
		docs = append(docs, doc{id: "nogeo"})
		mu.Lock()
		edgePts = append(edgePts, mine...)
		mu.Unlock()
		size := len(docs) + 10
		// quick tier: building a gtreap index costs ~1 s of CPU per centre, and a circle of
		// thousands of kilometres ~10^5 dictionary probes without the plugin; upsidedown runs the
		// same searcher code as plugin-less scorch, so quick gives upsidedown every fourth centre
		// and both plugin-less engines the two largest radii from every eighth centre (thorough: all).
		engs := engs
		if r.Quick() && ci%4 != 2 {
			engs = engs[:2]
		}
		skipCostly := func(e engine, m float64) bool {
			if !r.Quick() || m < 5e6 {
				return false
			}
			return (e.name == "scorch" && ci%8 != 0) || (e.name == "upsidedown" && ci%8 != 2)
		}
		idxs := make([]bleve.Index, len(engs))
		for i, e := range engs {
			idxs[i] = build(e, docs)
		}
		defer func() {
			for _, i := range idxs {
				i.Close()
			}
		}()
		for _, rad := range radii {
			ck := circle{ctr, rad.m, rad.label}
			feat := ck.feature()
			states := make([]tv, len(docs))
			for i, d := range docs {
				states[i] = docState(d, ck.state)
			}
			c.countStates("circle", docs, states)
			r.Count("circles:"+feat, 1)
			rep := map[string]any{"shape": fmt.Sprintf("circle centre=(%v,%v) radius=%s", ctr.Lon, ctr.Lat, rad.label),
				"query": "NewGeoDistanceQuery(lon, lat, distance)", "lon": ctr.Lon, "lat": ctr.Lat, "distance": rad.label, "field": "loc"}
			for ei, e := range engs {
				if skipCostly(e, rad.m) {
					continue
				}
				q := bleve.NewGeoDistanceQuery(ctr.Lon, ctr.Lat, rad.label)
				q.SetField("loc")
				req := bleve.NewSearchRequest(q)
				req.Size = size
				rp := cloneRep(rep)
				rp["engine"] = e.name
				if ids, ok := c.run("circle", feat, e.name, idxs[ei], req, rp); ok {
					c.compare("circle", feat, e.name, docs, states, ck.state, ids, rep)
				}
			}
		}
		// distance sort from this origin over all documents
		byID := make(map[string]doc, len(docs))
		for _, d := range docs {
			byID[d.id] = d
		}
		for _, desc := range []bool{false, true} {
			for ei, e := range engs {
				c.sortCheck(e.name, idxs[ei], ctr, desc, byID, size, nil)
			}
		}
		// and over the hits of a large circle (sort applied to a geo query)
		for ei, e := range engs {
			if skipCostly(e, 5e6) {
				continue
			}
			q := bleve.NewGeoDistanceQuery(ctr.Lon, ctr.Lat, "1000km")
			q.SetField("loc")
			c.sortCheck(e.name, idxs[ei], ctr, false, byID, size, q)
		}
	})
	return edgePts
}

func (c *checker) sortCheck(eng string, idx bleve.Index, origin pt, desc bool, byID map[string]doc, size int, q query.Query) {
	kind := "sort-asc"
	if desc {
		kind = "sort-desc"
	}
	qs := "match_all"
	if q == nil {
		q = bleve.NewMatchAllQuery()
	} else {
		qs = "geo distance 1000km around the origin"
		kind += "-of-circle"
	}
	so, err := search.NewSortGeoDistance("loc", "m", origin.Lon, origin.Lat, desc)
	if err != nil {
		panic(err)
	}
	req := bleve.NewSearchRequest(q)
	req.Size = size
	req.SortByCustom(search.SortOrder{so})
	rep := map[string]any{"engine": eng, "query": qs, "sort": "NewSortGeoDistance(\"loc\", \"m\", lon, lat, desc)", "lon": origin.Lon, "lat": origin.Lat, "desc": desc}
	ids, ok := c.run(kind, "origin", eng, idx, req, rep)
	if !ok {
		return
	}
	// interval of each hit (a multi-point document may be placed by any of its points)
	type iv struct {
		id     string
		lo, hi float64
	}
	var seq []iv
	for _, id := range ids {
		d := byID[id]
		if len(d.pts) == 0 {
			continue // no point: placed by the missing-value rule, not a distance
		}
		v := iv{id, math.Inf(1), math.Inf(-1)}
		for _, p := range d.pts {
			lo, hi := distInterval(origin, p)
			v.lo, v.hi = math.Min(v.lo, lo), math.Max(v.hi, hi)
		}
		seq = append(seq, v)
	}
	if desc {
		for i, j := 0, len(seq)-1; i < j; i, j = i+1, j-1 {
			seq[i], seq[j] = seq[j], seq[i]
		}
	}
	// ascending: no earlier hit may be clearly farther than a later one
	inversions := 0
	var maxLo iv
	maxLo.lo = math.Inf(-1)
	for _, v := range seq {
		if maxLo.lo > v.hi {
			inversions++
			if inversions == 1 {
				a, b := byID[maxLo.id], byID[v.id]
				rp := cloneRep(rep)
				rp["first"], rp["first_points"], rp["second"], rp["second_points"] = a.id, a.pts, b.id, b.pts
				c.r.Violation(fmt.Sprintf("%s:order:%s", kind, eng),
					fmt.Sprintf("distance sort from (%v,%v) desc=%v on %s: %s %v (≥ %.3f m away) is ranked on the near side of %s %v (≤ %.3f m away)", origin.Lon, origin.Lat, desc, eng, a.id, a.pts, maxLo.lo, b.id, b.pts, v.hi), rp)
			}
		}
		if v.lo > maxLo.lo {
			maxLo = v
		}
	}
	c.r.Count("sort:hits_ordered", int64(len(seq)))
	c.r.Outcome(fmt.Sprintf("%s|hits=%s|inversions=%v", kind, bucket(len(ids)), inversions > 0))
}

// ---------------------------------------------------------------------------------------------

func Run(r *mc.Run) {
	r.Rule("E2: documents = 77-point lattice (lon ±180, ±179.99, ±135, ±90, ±45, 0 × lat ±90, ±89.99, ±45, 0) + the grid of points at 0, ±1, ±20, ±1000 ×1e-7° (1e-7° ≈ one cell; thorough adds ±5, ±11, ±13, ±300000) around every box / polygon edge coordinate + points on 8 (thorough 16) bearings at radius ± {0, 2 cm} (band) and radius ∓ {0.6 m, 50 m, …} (clear of the band on the largest / smallest sphere) around every circle + multi-point documents (2–3 points) + one document without a point; " +
		"shapes = every bounding box (top-left, bottom-right) over a coarser lattice with one value per axis moved off the Morton cell grid (45.3, -44.6), incl. date-line-crossing (left > right), pole-touching and zero-width/height boxes; circles = every lattice centre × radii 1 m, 1 km, 100 km, 5 000 km, 10 000 km (thorough: 10 radii up to 20 000 km); polygons = rectangles (4 corners, and with intermediate vertices on the parallels) and all triangles over a sub-lattice, rotating through both windings and open / closed rings; " +
		"engines = scorch, scorch with spatialPlugin=s2, upsidedown (quick tier: upsidedown gets a fixed quarter of the boxes / polygons and every fourth centre, and the plugin-less engines get the two largest radii from every eighth centre — same searcher code as plugin-less scorch, ~10^5 dictionary probes per such query; thorough: everything on every engine); " +
		"plus distance sort (asc, desc, and of a circle query's hits) from every lattice origin, Morton hash round trip of every point used, and geo.Haversin from every lattice origin to every point against the sphere interval. " +
		"Oracle: exact spherical geometry, three-valued (must be returned / must not / either within the band: 1.2e-6° for boxes and polygons, [θ·b, θ·a] ± 0.3 m for distances; polygons additionally only where planar and great-circle edges agree). An outcome is (shape kind, structural feature, bucketed hit count) resp. (sort kind, hit bucket, inversion seen).")
	r.Assume(
		"stated resolution: 32-bit Morton code per dimension (8.4e-8° lon, 4.2e-8° lat) plus bleve's declared geo tolerance of 1e-6° for box/polygon comparisons ⇒ band 1.2e-6°",
		"'true distance' is any great-circle distance on a sphere whose radius lies between the WGS84 polar and equatorial radii (bleve's Haversin uses a latitude dependent radius in that range), ± 0.3 m",
		"polygon edges may be straight in the lon/lat plane or great-circle arcs (documentation silent): points between the two readings of an edge are not asserted; polygons crossing the date line, touching a pole or with an edge ≥ 180° wide are executed but not asserted",
		"an edge lying on a pole (lat ±90) is the end of the coordinate domain: points up to the pole are inside; points within the band of a pole have no definite longitude",
		"a multi-point document must match when any of its points is clearly inside and must not when all are clearly outside; in distance sort it may be placed by any of its points",
		"in-memory indexes, one batch; segment layout / merging is C05's business")
	// the searches allocate heavily (one FST state per dictionary probe); with the default
	// GOGC=300 of mc.Main the heap grows into fresh pages faster than it is reused, which costs
	// more (page faults, zeroing) than the collections it saves: measured 25 % less CPU at 100.
	if os.Getenv("GOGC") == "" {
		defer debug.SetGCPercent(debug.SetGCPercent(100))
	}
	c := &checker{r: r}
	engs := engines()

	gridPts := phaseGrid(r, c, engs)
	if r.Expired() {
		return
	}
	edgePts := phaseCentres(r, c, engs)
	if r.Expired() {
		return
	}
	all := append(append(lattice(), gridPts...), edgePts...)
	// finer sweep across cell boundaries next to the domain corners for the round trip
	for _, base := range []pt{{-180, -90}, {180, 90}, {0, 0}, {-180, 90}, {179.99, 89.99}} {
		for i := -40; i <= 40; i++ {
			for j := -40; j <= 40; j += 8 {
				p := pt{base.Lon + float64(i)*lonRes/4, base.Lat + float64(j)*latRes/4}
				if p.Lon >= -180 && p.Lon <= 180 && p.Lat >= -90 && p.Lat <= 90 {
					all = append(all, p)
				}
			}
		}
	}
	phaseMorton(r, all, lattice())
}
