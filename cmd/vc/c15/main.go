package main

import (
	"verif/mc"
	"verif/props/c15"
)

func main() { mc.Main("C15", "model_checking", c15.Run) }
