package main

import (
	"verif/props/c14"
	"verif/sched/drv"
)

func main() { drv.Main("C14", "model_checking", c14.Scenarios(), c14.Describe) }
