// Package c20: nested-object search respects object boundaries and returns each parent once.
//
// Part Q (E2): document alphabet × {nested, flat} mapping × segment layouts × query trees
// (conjunction / disjunction with min / boolean over 1–3 term clauses on nested and top-level
// fields, alone and as a clause of a larger query) × score options; every search is compared
// parent by parent with a three-valued nested-document reference evaluator (model.go).
//
// Part H (E1): every index/update/delete history over 2–3 parents with 3 nested-document
// versions each, one segment per operation (in memory), and on disk with merges held back,
// then force-merged, then reopened; after each history DocCount, match-all and a fixed set
// of nested queries are compared with the reference model state.
package c20

import (
	"encoding/json"
	"fmt"
	"os"
	"sort"
	"strings"
	"sync"
	"sync/atomic"
	"time"

	"github.com/blevesearch/bleve/v2"
	"github.com/blevesearch/bleve/v2/index/scorch"
	"github.com/blevesearch/bleve/v2/search/collector"

	"verif/mc"
)

// ---------------------------------------------------------------------------------------------
// document alphabet

var vals = []string{"x", "y"}

// all sequences (ordered) of length lo..hi over n symbols
func seqs(n, lo, hi int) [][]int {
	var out [][]int
	var rec func(cur []int, l int)
	rec = func(cur []int, l int) {
		if len(cur) == l {
			out = append(out, append([]int{}, cur...))
			return
		}
		for i := 0; i < n; i++ {
			rec(append(cur, i), l)
		}
	}
	for l := lo; l <= hi; l++ {
		rec(nil, l)
	}
	return out
}

// all multisets (non-decreasing sequences) of size lo..hi over n symbols
func multisets(n, lo, hi int) [][]int {
	var out [][]int
	var rec func(cur []int, from, l int)
	rec = func(cur []int, from, l int) {
		if len(cur) == l {
			out = append(out, append([]int{}, cur...))
			return
		}
		for i := from; i < n; i++ {
			rec(append(cur, i), i, l)
		}
	}
	for l := lo; l <= hi; l++ {
		rec(nil, 0, l)
	}
	return out
}

type family struct {
	name string
	docs []Doc
}

// families builds the document alphabet: three full cartesian products, each over a
// projection of the schema.
func families(quick bool) []family {
	kv := func(i int) Item { return Item{K: vals[i/2], V: vals[i%2]} }
	ab := func(i int) Sub { return Sub{A: vals[i/2], B: vals[i%2]} }
	// A: name × every ordered items array of 0..3 elements over (k,v)
	var a []Doc
	for _, nm := range vals {
		for _, s := range seqs(4, 0, 3) {
			d := Doc{Name: nm}
			for _, i := range s {
				d.Items = append(d.Items, kv(i))
			}
			a = append(a, d)
		}
	}
	// B: two sibling arrays: items multiset of 0..2 × tags multiset of 1..3
	var b []Doc
	for _, nm := range vals {
		for _, is := range multisets(4, 0, 2) {
			for _, ts := range multisets(2, 1, 3) {
				d := Doc{Name: nm}
				for _, i := range is {
					d.Items = append(d.Items, kv(i))
				}
				for _, t := range ts {
					d.Tags = append(d.Tags, Tag{T: vals[t]})
				}
				if quick {
					d.TagsFirst = len(b)%2 == 1 // quick tier: the two source orders alternate
					b = append(b, d)
					continue
				}
				b = append(b, d)
				d.TagsFirst = true
				b = append(b, d)
			}
		}
	}
	// C: two levels: items of 1..2 elements, each k ∈ {x,y} with a subs multiset of 0..S
	// elements over (a,b); v fixed
	S := 2
	if !quick {
		S = 3
	}
	subsets := multisets(4, 0, S)
	type el struct {
		k  string
		ss []int
	}
	var els []el
	for _, k := range vals {
		for _, ss := range subsets {
			els = append(els, el{k, ss})
		}
	}
	mkItem := func(e el) Item {
		it := Item{K: e.k, V: "x"}
		for _, s := range e.ss {
			it.Subs = append(it.Subs, ab(s))
		}
		return it
	}
	var c []Doc
	for _, e := range els {
		c = append(c, Doc{Name: "x", Items: []Item{mkItem(e)}})
	}
	for i, e1 := range els {
		for j, e2 := range els {
			if quick && j < i {
				continue // unordered pairs in the quick tier
			}
			if len(e1.ss)+len(e2.ss) > 3 {
				continue // at most 3 second-level elements per parent
			}
			d := Doc{Name: "y", Items: []Item{mkItem(e1), mkItem(e2)}}
			if (i+j)%3 == 0 {
				d.Tags = []Tag{{T: vals[(i+j)/3%2]}}
				d.TagsFirst = (i+j)/6%2 == 1
			}
			c = append(c, d)
		}
	}
	return []family{{"A", a}, {"B", b}, {"C", c}}
}

// ---------------------------------------------------------------------------------------------
// query family

func leaves() []*Q {
	var l []*Q
	for _, f := range Fields {
		for _, v := range vals {
			l = append(l, T(f, v))
		}
	}
	return l
}

type qset struct {
	list []*Q
	seen map[string]bool
}

func (s *qset) add(q *Q) {
	k := q.String()
	if s.seen == nil {
		s.seen = map[string]bool{}
	}
	if s.seen[k] {
		return
	}
	s.seen[k] = true
	s.list = append(s.list, q)
}

// boolsOver enumerates every assignment of the clauses to must / should / must-not, with
// every should minimum 0..min(2,#should).
func boolsOver(cl []*Q, add func(*Q)) {
	n := len(cl)
	tot := 1
	for i := 0; i < n; i++ {
		tot *= 3
	}
	for code := 0; code < tot; code++ {
		q := &Q{Kind: "bool"}
		c := code
		for i := 0; i < n; i++ {
			switch c % 3 {
			case 0:
				q.Must = append(q.Must, cl[i])
			case 1:
				q.Should = append(q.Should, cl[i])
			case 2:
				q.MustNot = append(q.MustNot, cl[i])
			}
			c /= 3
		}
		maxMin := len(q.Should)
		if maxMin > 2 {
			maxMin = 2
		}
		for m := 0; m <= maxMin; m++ {
			qq := *q
			qq.SMin = m
			add(&qq)
		}
	}
}

// six leaves, one per field, values alternating: the reduced clause alphabet
func leaves6() []*Q {
	return []*Q{T("name", "x"), T("items.k", "x"), T("items.v", "y"), T("items.subs.a", "x"), T("items.subs.b", "y"), T("tags.t", "x")}
}

// baseQueries: compounds over 1..3 leaf clauses.
//
//	1 and 2 clauses: every ordered choice of the 12 leaves under every operator form;
//	3 clauses, conjunction / disjunction: quick every multiset of leaves, thorough every ordered triple;
//	3 clauses, boolean (27 role assignments × should-min): quick multisets over the six-leaf
//	alphabet, thorough multisets over all 12 leaves.
func baseQueries(quick bool) []*Q {
	ls := leaves()
	var s qset
	s.add(&Q{Kind: "all"})
	for _, a := range ls {
		s.add(a)
	}
	for _, a := range ls {
		s.add(&Q{Kind: "conj", Subs: []*Q{a}})
		s.add(&Q{Kind: "disj", Subs: []*Q{a}, Min: 0})
		boolsOver([]*Q{a}, s.add)
	}
	for _, a := range ls {
		for _, b := range ls {
			s.add(&Q{Kind: "conj", Subs: []*Q{a, b}})
			for m := 0; m <= 2; m++ {
				s.add(&Q{Kind: "disj", Subs: []*Q{a, b}, Min: m})
			}
			boolsOver([]*Q{a, b}, s.add)
		}
	}
	for i, a := range ls {
		for j, b := range ls {
			for k, c := range ls {
				if quick && !(i <= j && j <= k) {
					continue
				}
				s.add(&Q{Kind: "conj", Subs: []*Q{a, b, c}})
				for m := 0; m <= 2; m++ {
					s.add(&Q{Kind: "disj", Subs: []*Q{a, b, c}, Min: m})
				}
			}
		}
	}
	bl := ls
	if quick {
		bl = leaves6()
	}
	for i, a := range bl {
		for j, b := range bl {
			for k, c := range bl {
				if i <= j && j <= k {
					boolsOver([]*Q{a, b, c}, s.add)
				}
			}
		}
	}
	return s.list
}

// wrapped puts two-clause compounds in as a clause of a larger query (10 forms). Quick: the
// compounds over ordered pairs of the six-leaf alphabet, wrapped with 5 leaves; thorough:
// the compounds over ordered pairs of all 12 leaves, wrapped with the six-leaf alphabet.
func wrapped(quick bool) []*Q {
	var inner qset
	il := leaves()
	wl := leaves6()
	if quick {
		il = leaves6()
		wl = []*Q{T("name", "x"), T("items.k", "y"), T("items.v", "y"), T("items.subs.a", "x"), T("tags.t", "x")}
	}
	for _, a := range il {
		for _, b := range il {
			inner.add(&Q{Kind: "conj", Subs: []*Q{a, b}})
			inner.add(&Q{Kind: "disj", Subs: []*Q{a, b}, Min: 1})
			inner.add(&Q{Kind: "disj", Subs: []*Q{a, b}, Min: 2})
			boolsOver([]*Q{a, b}, func(q *Q) {
				if len(q.Should) > 0 && q.SMin == 0 && len(q.Must) > 0 {
					return // optional should: same matches as without it
				}
				if len(q.Must) == 2 && quick {
					return // must{a,b} alone: covered by conj(a,b) wrappers in the quick tier
				}
				inner.add(q)
			})
		}
	}
	var s qset
	for _, in := range inner.list {
		for _, w := range wl {
			s.add(&Q{Kind: "conj", Subs: []*Q{in, w}})
			s.add(&Q{Kind: "conj", Subs: []*Q{w, in}})
			s.add(&Q{Kind: "disj", Subs: []*Q{w, in}, Min: 1})
			s.add(&Q{Kind: "disj", Subs: []*Q{in, w}, Min: 2})
			s.add(&Q{Kind: "bool", Must: []*Q{w}, MustNot: []*Q{in}})
			s.add(&Q{Kind: "bool", Must: []*Q{in}, MustNot: []*Q{w}})
			s.add(&Q{Kind: "bool", Must: []*Q{w}, Should: []*Q{in}, SMin: 1})
			s.add(&Q{Kind: "bool", Must: []*Q{in}, Should: []*Q{w}, SMin: 1})
			s.add(&Q{Kind: "bool", Should: []*Q{in, w}, SMin: 1})
			s.add(&Q{Kind: "bool", MustNot: []*Q{in}})
		}
	}
	return s.list
}

// ---------------------------------------------------------------------------------------------
// violation bookkeeping: keep the smallest counterexample of every class (deterministic),
// hand them to mc at the end.

type example struct {
	cost   [3]int
	key    string
	detail string
	replay map[string]any
}

type book struct {
	mu sync.Mutex
	m  map[string]*example
	n  map[string]int
}

func (b *book) add(class string, ex *example) {
	b.mu.Lock()
	defer b.mu.Unlock()
	if b.m == nil {
		b.m, b.n = map[string]*example{}, map[string]int{}
	}
	b.n[class]++
	old := b.m[class]
	if old == nil || less(ex, old) {
		b.m[class] = ex
	}
}

// improves counts one occurrence of class and reports whether ex would replace the example
// held for it (so that the costly confirmation is only done for those).
func (b *book) improves(class string, ex *example) bool {
	b.mu.Lock()
	defer b.mu.Unlock()
	if b.m == nil {
		b.m, b.n = map[string]*example{}, map[string]int{}
	}
	old := b.m[class]
	if old == nil || less(ex, old) {
		return true
	}
	b.n[class]++
	return false
}

func less(a, b *example) bool {
	for i := range a.cost {
		if a.cost[i] != b.cost[i] {
			return a.cost[i] < b.cost[i]
		}
	}
	return a.key < b.key
}

func (b *book) flush(r *mc.Run) {
	var cs []string
	for c := range b.m {
		cs = append(cs, c)
	}
	sort.Strings(cs)
	for _, c := range cs {
		ex := b.m[c]
		for i := 0; i < b.n[c]; i++ {
			r.Violation(c, ex.detail, ex.replay)
		}
	}
}

// ---------------------------------------------------------------------------------------------
// Part Q

const (
	layOne   = iota // the whole corpus in one batch: one segment
	layChurn        // 4 batches, a ghost parent with elements deleted afterwards,
	// the first parent indexed with other content and then updated, the last parent
	// deleted and re-indexed
	nLayouts
)

var layoutName = []string{"one-batch", "4-batches+churn"}

type corpus struct {
	name  string
	ids   []string
	pos   map[string]int
	docs  []Doc
	trees []*tree
	built []built
	// number of index-internal documents under the nested mapping (request size: nothing
	// may be cut off even when elements are wrongly returned as hits)
	internal int
}

func chk(err error) {
	if err != nil {
		panic(err)
	}
}

var ghost = Doc{TagsFirst: true, Name: "x", Items: []Item{{K: "x", V: "x", Subs: []Sub{{"x", "x"}, {"y", "y"}}}, {K: "y", V: "y", Subs: []Sub{{"x", "y"}}}}, Tags: []Tag{{"x"}, {"y"}}}

func newMem(nested bool) bleve.Index {
	idx, err := bleve.NewUsing("", Mapping(nested), scorch.Name, scorch.Name, nil)
	chk(err)
	return idx
}

func buildCorpus(c *corpus, nested bool, layout int) bleve.Index {
	idx := newMem(nested)
	switch layout {
	case layOne:
		b := idx.NewBatch()
		for i, d := range c.docs {
			chk(b.Index(c.ids[i], d.Data()))
		}
		chk(idx.Batch(b))
	case layChurn:
		chk(idx.Index("ghost", ghost.Data()))
		chk(idx.Index(c.ids[0], ghost.Data()))
		per := (len(c.docs) + 3) / 4
		for lo := 0; lo < len(c.docs); lo += per {
			b := idx.NewBatch()
			for i := lo; i < lo+per && i < len(c.docs); i++ {
				if i == 0 {
					continue
				}
				chk(b.Index(c.ids[i], c.docs[i].Data()))
			}
			chk(idx.Batch(b))
		}
		chk(idx.Delete("ghost"))
		chk(idx.Delete("absent"))
		last := len(c.docs) - 1
		if last > 0 {
			chk(idx.Delete(c.ids[last]))
			chk(idx.Index(c.ids[last], c.docs[last].Data()))
		}
		chk(idx.Index(c.ids[0], c.docs[0].Data()))
	}
	return idx
}

func queryJSON(q *Q) json.RawMessage {
	b, err := json.Marshal(q.ToBleve())
	if err != nil {
		return json.RawMessage(fmt.Sprintf("%q", err.Error()))
	}
	return b
}

type checker struct {
	r             *mc.Run
	bk            *book
	dbgMu         sync.Mutex
	dbg           map[string]int // outcome dump for debugging (C20_DEBUG_OUTCOMES=file)
	advQ          sync.Map       // query text -> *Q: queries seen deviating under classAdvance
	small         []Doc          // Part Q documents occupying at most 3 internal documents, smallest first
	nCmp, nEither atomic.Int64   // parent answers compared / left three-valued by the oracle
	// searches in flight, for the hang watchdog
	flight sync.Map // *inflight -> struct{}
}

type inflight struct {
	since time.Time
	class string
	what  func() (string, map[string]any)
}

// searchBudget: a single search on a corpus of at most a few hundred index-internal
// documents that has not returned after this long is reported as not terminating.
const searchBudget = 45 * time.Second

// watchdog ends the run when a search does not return (the goroutine cannot be killed).
func (ck *checker) watchdog() {
	for {
		time.Sleep(2 * time.Second)
		var stuck *inflight
		ck.flight.Range(func(k, _ any) bool {
			f := k.(*inflight)
			if time.Since(f.since) > searchBudget {
				stuck = f
				return false
			}
			return true
		})
		if stuck != nil {
			detail, rep := stuck.what()
			ck.bk.add(stuck.class, &example{detail: fmt.Sprintf("search did not return within %v: %s", searchBudget, detail), replay: rep})
			ck.r.Cap("a search did not terminate; run ended at once (the goroutine cannot be stopped)")
			ck.bk.flush(ck.r)
			ck.r.Finish()
		}
	}
}

func (ck *checker) outcome(k string) {
	ck.r.Outcome(k)
	if ck.dbg != nil {
		ck.dbgMu.Lock()
		ck.dbg[k]++
		ck.dbgMu.Unlock()
	}
}

// symptomClass names a violation of "hits are parents, each once, Total = parents": elements
// returned as hits (and counted in Total) by a query of the must-not-only shape are that
// shape's class, everything else is keyed by symptom, mapping and index layout.
func symptomClass(kind string, q *Q, nested bool, layout string) string {
	if nested && kind != "duplicate-hit" && elementHitsShape(q) {
		return classElemHits
	}
	return kind + ":" + mappingName(nested) + ":" + layout
}

// search runs one request and returns the hit ids (nil, false when it was reported).
func (ck *checker) search(idx bleve.Index, nested bool, lay, tie string, q *Q, size int, score string, where func() map[string]any) (map[string]bool, uint64, bool) {
	req := bleve.NewSearchRequest(q.ToBleve())
	req.Size = size
	req.Score = score
	var res *bleve.SearchResult
	var err error
	fl := &inflight{since: time.Now(), class: "terminates:" + mappingName(nested) + ":" + q.Kind + "@" + pathRel(q) + ":" + lay,
		what: func() (string, map[string]any) { rep := where(); return q.String() + " " + brief(rep), rep }}
	ck.flight.Store(fl, struct{}{})
	pv, st := mc.Try(func() { res, err = idx.Search(req) })
	ck.flight.Delete(fl)
	ck.r.Eval(1)
	// cost of a symptom example: query size, then request size (= corpus size)
	report := func(class string, what func(rep map[string]any) string) {
		ex := &example{cost: [3]int{q.nodes(), size, len(q.String())}, key: q.String() + score + tie}
		if !ck.bk.improves(class, ex) {
			return
		}
		ex.replay = where()
		ex.detail = what(ex.replay)
		ck.bk.add(class, ex)
	}
	if pv != nil {
		report("panic:"+mappingName(nested)+":"+q.Kind+"@"+pathRel(q)+":"+lay, func(rep map[string]any) string {
			return fmt.Sprintf("search panicked: %v @ %s — %s %s", pv, mc.TrimStack(st), q, brief(rep))
		})
		return nil, 0, false
	}
	if err != nil {
		report("error:"+mappingName(nested)+":"+q.Kind+"@"+pathRel(q)+":"+lay, func(rep map[string]any) string {
			return fmt.Sprintf("search returned error %v — %s %s", err, q, brief(rep))
		})
		return nil, 0, false
	}
	got := map[string]bool{}
	for _, h := range res.Hits {
		if got[h.ID] {
			id := h.ID
			report(symptomClass("duplicate-hit", q, nested, lay), func(rep map[string]any) string {
				rep["duplicate"] = id
				return fmt.Sprintf("%s: parent %s returned more than once %s", q, id, brief(rep))
			})
		}
		got[h.ID] = true
	}
	if int(res.Total) != len(got) {
		report(symptomClass("total", q, nested, lay), func(rep map[string]any) string {
			return fmt.Sprintf("%s: Total=%d but %d distinct hits returned (size %d) %s", q, res.Total, len(got), size, brief(rep))
		})
	}
	return got, res.Total, true
}

// brief renders the small parts of a replay map for the detail line.
func brief(rep map[string]any) string {
	var p []string
	for _, k := range []string{"mapping", "layout", "corpus", "stage", "score"} {
		if v, ok := rep[k]; ok {
			p = append(p, fmt.Sprintf("%s=%v", k, v))
		}
	}
	if h, ok := rep["history"]; ok {
		p = append(p, fmt.Sprintf("history=%v", h))
	}
	if d, ok := rep["docs"].(map[string]any); ok && len(d) <= 2 {
		b, _ := json.Marshal(d)
		p = append(p, "docs="+string(b))
	}
	return "[" + strings.Join(p, " ") + "]"
}

// confirmAlone re-runs q on a fresh one-segment index holding only parent d.
func (ck *checker) confirmAlone(q *Q, d Doc, nested bool, score string, wantHit bool) (reproduced bool) {
	idx := newMem(nested)
	defer idx.Close()
	chk(idx.Index("p", d.Data()))
	got, _, ok := ck.search(idx, nested, "single-document", d.String(), q, 5+d.size(), score, func() map[string]any {
		return map[string]any{"mapping": mappingName(nested), "docs": map[string]any{"p": d.Data()}, "query": queryJSON(q), "query_text": q.String(), "score": score}
	})
	if !ok {
		return false
	}
	for id := range got {
		if id != "p" {
			class := symptomClass("non-parent-hit", q, nested, "single-document")
			ex := &example{cost: [3]int{q.nodes(), 5 + d.size(), len(q.String())}, key: q.String() + score + d.String()}
			if ck.bk.improves(class, ex) {
				ex.replay = map[string]any{"mapping": mappingName(nested), "docs": map[string]any{"p": d.Data()}, "query": queryJSON(q), "query_text": q.String(), "score": score, "foreign_hit": id}
				ex.detail = fmt.Sprintf("%s: hit %q is not a parent document %s", q, id, brief(ex.replay))
				ck.bk.add(class, ex)
			}
		}
	}
	return got["p"] != wantHit
}

type built struct {
	idx    bleve.Index
	nested bool
	layout int
}

// evalQ runs q on one index of the corpus and compares parent by parent with want.
func (ck *checker) evalQ(c *corpus, b built, q *Q, score string, want []Tri) {
	r := ck.r
	idx, nested, layout := b.idx, b.nested, b.layout
	where := func() map[string]any {
		docs := map[string]any{}
		for i, d := range c.docs {
			docs[c.ids[i]] = d.Data()
		}
		return map[string]any{"mapping": mappingName(nested), "layout": layoutName[layout], "corpus": c.name,
			"docs": docs, "query": queryJSON(q), "query_text": q.String(), "score": score}
	}
	got, _, ok := ck.search(idx, nested, layoutName[layout], c.name, q, c.internal+5, score, where)
	if !ok {
		ck.outcome(mappingName(nested) + "|" + q.Kind + "|failed")
		return
	}
	nEither, nFound := 0, 0
	for i, id := range c.ids {
		if got[id] {
			nFound++
		}
		if want[i] == Either {
			nEither++
			continue
		}
		if got[id] == (want[i] == Yes) {
			continue
		}
		extra := got[id]
		class := classify(q, nested, score, extra, layoutName[layout])
		if isShapeClass(class) {
			// the shape explains the deviation only if it is the answer raw-id combination gives
			if ra := rawPredict(q, c.trees[i]); ra.ok && ra.parentHit != got[id] {
				class = unexplainedClass(q, extra, layoutName[layout])
			}
		}
		if class == classAdvance {
			ck.advQ.LoadOrStore(q.String(), q)
		}
		d := c.docs[i]
		ex := &example{cost: [3]int{q.nodes(), d.size(), len(q.String())}, key: q.String() + d.String() + score + layoutName[layout]}
		if !ck.bk.improves(class, ex) {
			continue // counted; a smaller counterexample of the class is already held
		}
		alone := ck.confirmAlone(q, d, nested, score, want[i] == Yes)
		var rep map[string]any
		if alone {
			rep = map[string]any{"mapping": mappingName(nested), "docs": map[string]any{"p": d.Data()}, "query": queryJSON(q),
				"query_text": q.String(), "score": score, "expected_hit": want[i] == Yes, "observed_hit": got[id],
				"how": "index the one document under the mapping of props/c20.Mapping(nested) (items, items.subs, tags mapped nested; keyword fields) and run the query"}
		} else {
			if class != classAdvance {
				class += "+only-with-neighbours"
			}
			rep = where()
			rep["parent"] = id
			rep["expected_hit"] = want[i] == Yes
		}
		dir := "missing from"
		if extra {
			dir = "wrongly in"
		}
		ex.detail = fmt.Sprintf("[%s mapping, score=%q] %s: parent %s is %s the hits (reference: %v)", mappingName(nested), score, q, d, dir, want[i])
		ex.replay = rep
		ck.bk.add(class, ex)
	}
	if nFound != len(got) {
		for id := range got {
			if _, known := c.pos[id]; known {
				continue
			}
			class := symptomClass("non-parent-hit", q, nested, layoutName[layout])
			if class == classElemHits {
				explained := false
				if k := strings.Index(id, "_$"); k > 0 {
					if pi, ok := c.pos[id[:k]]; ok {
						ra := rawPredict(q, c.trees[pi])
						explained = !ra.ok || ra.elementHits
					}
				}
				if !explained {
					class = "non-parent-hit(not-the-raw-id-answer):" + mappingName(nested) + ":" + layoutName[layout]
				}
			}
			// the hit id of an element starts with its parent's id: try that parent alone (the
			// single-document search files the smaller example itself)
			if k := strings.Index(id, "_$"); k > 0 {
				if pi, ok := c.pos[id[:k]]; ok {
					one := &example{cost: [3]int{q.nodes(), 5 + c.docs[pi].size(), len(q.String())}, key: q.String() + score + c.docs[pi].String()}
					if ck.bk.improves(class, one) {
						ck.confirmAlone(q, c.docs[pi], nested, score, false)
					}
					continue
				}
			}
			ex := &example{cost: [3]int{q.nodes(), c.internal + 5, len(q.String())}, key: q.String() + score}
			if ck.bk.improves(class, ex) {
				ex.replay = where()
				ex.replay["foreign_hit"] = id
				ex.detail = fmt.Sprintf("%s: hit %q is not a live parent document %s", q, id, brief(ex.replay))
				ck.bk.add(class, ex)
			}
		}
	}
	if ck.dbg != nil && nested {
		ck.dbgMu.Lock()
		ck.dbg[fmt.Sprintf("R|%s|%s|%s|%q|%v", c.name, layoutName[layout], q, score, bxKeys(got))]++
		ck.dbgMu.Unlock()
	}
	nb := len(got)
	if nb > 3 {
		nb = 3 + nb*4/(len(c.ids)+1) // coarse bucket
	}
	ck.outcome(fmt.Sprintf("%s|%s|hits~%d|either=%v", mappingName(nested), q.Kind, nb, nEither > 0))
	ck.nCmp.Add(int64(len(c.ids)))
	ck.nEither.Add(int64(nEither))
	if nEither > 0 {
		r.Count("Q:searches_with_a_three-valued_parent", 1)
	}
}

func partQ(r *mc.Run, ck *checker) {
	quick := r.Quick()
	fams := families(quick)
	base := baseQueries(quick)
	wr := wrapped(quick)
	qs := append(append([]*Q{}, base...), wr...)
	for _, q := range qs {
		q.prep()
	}
	for _, f := range fams {
		for _, d := range f.docs {
			if d.size() <= 3 {
				ck.small = append(ck.small, d)
			}
		}
	}
	sort.SliceStable(ck.small, func(i, j int) bool {
		if ck.small[i].size() != ck.small[j].size() {
			return ck.small[i].size() < ck.small[j].size()
		}
		return ck.small[i].String() < ck.small[j].String()
	})
	per := 140
	var corpora []*corpus
	ndocs := 0
	for _, f := range fams {
		for lo := 0; lo < len(f.docs); lo += per {
			hi := lo + per
			if hi > len(f.docs) {
				hi = len(f.docs)
			}
			c := &corpus{name: fmt.Sprintf("%s[%d:%d]", f.name, lo, hi), pos: map[string]int{}}
			for i := lo; i < hi; i++ {
				id := fmt.Sprintf("%s%03d", f.name, i)
				c.pos[id] = len(c.ids)
				c.ids = append(c.ids, id)
				c.docs = append(c.docs, f.docs[i])
				c.trees = append(c.trees, f.docs[i].tree())
				c.internal += f.docs[i].size()
			}
			corpora = append(corpora, c)
			ndocs += hi - lo
		}
	}
	r.Note("Q_parent_documents", ndocs)
	r.Note("Q_corpora", len(corpora))
	r.Note("Q_queries", map[string]int{"compounds_over_1-3_clauses": len(base), "as_clause_of_larger_query": len(wr)})
	sample := func(d Doc, q *Q) {
		r.Sample(map[string]any{"part": "Q", "doc": d.String(), "query": q.String(),
			"reference_nested": Expect(q, d.tree(), true).String(), "reference_flat": Expect(q, d.tree(), false).String()})
	}
	sample(Doc{Name: "x", Items: []Item{{K: "x", V: "x"}, {K: "y", V: "y"}}}, &Q{Kind: "conj", Subs: []*Q{T("items.k", "x"), T("items.v", "y")}})
	sample(fams[2].docs[len(fams[2].docs)/2], wr[len(wr)/3])
	sample(fams[1].docs[len(fams[1].docs)/3], &Q{Kind: "bool", Must: []*Q{T("items.k", "x")}, MustNot: []*Q{T("items.v", "x")}})
	// shape statistics (vacuity): how many queries contain a known shape
	nKnown := 0
	for _, q := range qs {
		if len(knownShapes(q, true, "")) > 0 {
			nKnown++
		}
	}
	r.Count("Q:queries_containing_a_known_defect_shape", int64(nKnown))
	r.Count("Q:queries_without_known_shape", int64(len(qs)-nKnown))

	// indexes: every corpus under both mappings and both layouts
	r.ParFor(len(corpora), 0, func(ci int) {
		c := corpora[ci]
		for _, nested := range []bool{true, false} {
			for l := 0; l < nLayouts; l++ {
				b := built{buildCorpus(c, nested, l), nested, l}
				if n, err := b.idx.DocCount(); err != nil || int(n) != len(c.docs) {
					rep := map[string]any{"mapping": mappingName(nested), "layout": layoutName[l], "corpus": c.name}
					ck.bk.add("doccount:"+mappingName(nested)+":"+layoutName[l], &example{key: c.name,
						detail: fmt.Sprintf("DocCount=%d err=%v, %d parents are live — %v", n, err, len(c.docs), rep), replay: rep})
				}
				c.built = append(c.built, b)
			}
		}
	})
	defer func() {
		for _, c := range corpora {
			for _, b := range c.built {
				b.idx.Close()
			}
		}
	}()
	const chunk = 512
	type job struct {
		c      *corpus
		lo, hi int
	}
	var jobs []job
	for lo := 0; lo < len(qs); lo += chunk {
		hi := lo + chunk
		if hi > len(qs) {
			hi = len(qs)
		}
		for _, c := range corpora {
			jobs = append(jobs, job{c, lo, hi})
		}
	}
	r.ParFor(len(jobs), 0, func(ji int) {
		j := jobs[ji]
		want := map[bool][]Tri{true: make([]Tri, len(j.c.docs)), false: make([]Tri, len(j.c.docs))}
		for qi := j.lo; qi < j.hi; qi++ {
			q := qs[qi]
			if qi%64 == 0 && r.Expired() {
				r.Cap(fmt.Sprintf("deadline inside query chunk job %d of %d", ji, len(jobs)))
				return
			}
			have := map[bool]bool{}
			expect := func(nested bool) []Tri {
				w := want[nested]
				if !have[nested] {
					have[nested] = true
					for i, t := range j.c.trees {
						w[i] = Expect(q, t, nested)
					}
				}
				return w
			}
			for _, b := range j.c.built {
				// quick: the one-segment nested index sees every query (score alternating), the
				// many-segment nested index every second, the one-segment flat index every
				// fourth query; thorough: the nested indexes and the one-segment flat index see every
				// query (one-segment nested under both score options, the others alternating), the
				// many-segment flat index every second query
				switch {
				case quick && b.nested && b.layout == layOne:
					ck.evalQ(j.c, b, q, []string{"", "none"}[qi%2], expect(b.nested))
				case quick && b.nested:
					if qi%2 == 0 {
						ck.evalQ(j.c, b, q, []string{"none", ""}[qi/2%2], expect(b.nested))
					}
				case quick:
					if qi%4 == 1 && b.layout == layOne {
						ck.evalQ(j.c, b, q, []string{"", "none"}[qi/4%2], expect(b.nested))
					}
				case b.nested && b.layout == layOne:
					ck.evalQ(j.c, b, q, "", expect(b.nested))
					ck.evalQ(j.c, b, q, "none", expect(b.nested))
				case b.nested || b.layout == layOne:
					ck.evalQ(j.c, b, q, []string{"none", ""}[qi%2], expect(b.nested))
				default:
					if qi%2 == 0 {
						ck.evalQ(j.c, b, q, []string{"none", ""}[qi/2%2], expect(b.nested))
					}
				}
			}
		}
	})
}

// ---------------------------------------------------------------------------------------------

func Run(r *mc.Run) {
	ck := &checker{r: r, bk: &book{}}
	if os.Getenv("C20_DEBUG_OUTCOMES") != "" {
		ck.dbg = map[string]int{}
	}
	r.Rule("Part Q (E2): every parent document of three cartesian families (A: name × every ordered items array of 0–3 elements over k,v ∈ {x,y}; " +
		"B: name × items multiset of 0–2 × tags multiset of 1–3 × source order {items first, tags first}" + mc.Pick(r, " (alternating)", "") + "; C: items of 1–2 elements (" + mc.Pick(r, "unordered", "ordered") + "), each k ∈ {x,y} with a subs multiset of 0–" +
		mc.Pick(r, "2", "3") + " over a,b ∈ {x,y}, ≤ 3 second-level elements per parent) " +
		"× {nested, non-nested} mapping × {one segment, four batches with a deleted ghost parent and updated / deleted-and-recreated parents} × score {default, none} " +
		"× query trees over term clauses on name, items.k, items.v, items.subs.a, items.subs.b, tags.t with values {x,y}: every conjunction / disjunction (min 0..2) / " +
		"boolean (every assignment of the clauses to must/should/must-not, should-min 0..2) over 1 and 2 clauses (ordered), over 3 clauses (" +
		mc.Pick(r, "conj/disj: every multiset of the 12 leaves; boolean: every multiset of a 6-leaf alphabet", "conj/disj: every ordered triple of the 12 leaves; boolean: every multiset of the 12 leaves") +
		"), and every 2-clause compound (" + mc.Pick(r, "over the 6-leaf alphabet", "over all 12 leaves") + ") as a clause of 10 larger query forms (conj, disj min 1/2, must/must-not, must/should-min, should-only, must-not-only). " +
		"Oracle: three-valued nested-document evaluator — a conjunction joins at the deepest nesting level its fields share (single element, recursively for two levels), " +
		"clauses on different arrays / top level combine per parent; counting operators (disjunction min ≥ 2, boolean parts) whose clauses all lie on one array are accepted element-level or parent-level; " +
		"non-nested mapping = per-clause existential. Every search: hits are live parents, each once, Total = number of distinct parents; DocCount and match-all = parents. " +
		"Part H (E1): every index/update/delete history (depth ≤ " + mc.Pick(r, "3", "4") + ") over 2–3 parents × 3 nested-document versions, one in-memory scorch segment per operation; every history (depth ≤ " + mc.Pick(r, "2", "3") + ") that starts from three parents indexed by ONE batch (they share a segment, so later deletes and updates hit a segment that already carries deletions); and (depth ≤ 3" +
		mc.Pick(r, ", 2 parents × 2 versions", ", 3 parents; 2 parents at depth 4") + ") on disk with merges held at EventKindPreMergeCheck, after ForceMerge, after close+reopen; after each history DocCount, match-all and 8 nested queries " +
		"(term on each array and on the second level, same-element conjunction on both levels, parent+nested, item+sub conjunction, top-level/second-level disjunction) are compared with the reference model state " +
		"(state key = map parent → version). An outcome is (mapping, root operator, hit-count bucket, three-valued?) for Q and the vector of observation sizes per physical stage for H.")
	r.Assume("term queries over keyword-analysed fields only: analysis is C19's business, other leaf query types C02's",
		"nested documents exist on scorch only (upsidedown has no nested reader), so scorch is the only engine",
		"boolean / min-counted clauses that all address ONE array are accepted under both the element-level and the parent-level reading (the statement fixes neither); a boolean is combined in three steps (must, counted should, must-not) whose level can only move towards the root",
		"a disjunction minimum of 0 means 1; should-min 0 next to a must clause makes the should clauses optional; a boolean with only must-not clauses is taken from all parents",
		"the order of documents inside one multi-document batch is decided by bleve's analysis queue, not by the caller: per-class counts can differ by a few units between runs; classes, verdict and the minimal examples (re-confirmed on a one- or two-call index) do not",
		"collector.PreAllocSizeSkipCap is lowered to 8 for the run (public tuning variable) so that requests sized above the number of index-internal documents stay cheap",
		"scorch background persister/merger are made deterministic for the disk histories by holding merges at EventKindPreMergeCheck and waiting for CurRootEpoch == LastPersistedEpoch (== LastMergedEpoch)")
	r.Note("classifier", "a deviation is filed under a known shape class (boolean must-not / counted should / disjunction min>=2 across different nesting paths) only if the query tree contains that shape in a position where it can push the answer in the observed direction AND the observed answer is exactly what combining those clauses by raw index-internal id yields (raw.go); anything else gets its own class")

	// request sizes must exceed the number of index-internal documents (so that nothing is cut
	// off when elements are wrongly returned); the collector's preallocation is capped through
	// its public tuning variable so that such requests stay cheap
	defer func(v int) { collector.PreAllocSizeSkipCap = v }(collector.PreAllocSizeSkipCap)
	collector.PreAllocSizeSkipCap = 8
	go ck.watchdog()
	t0 := time.Now()
	lap := func(name string) {
		r.Note("wall_s_"+name, time.Since(t0).Seconds())
		t0 = time.Now()
	}
	partQ(r, ck)
	lap("part_Q")
	r.Count("Q:parent_answers_compared", ck.nCmp.Load())
	r.Count("Q:parent_answers_three-valued(accepted_either_way)", ck.nEither.Load())
	states := &stateSet{m: map[string]bool{}}
	if !r.Expired() {
		partHMem(r, ck, states)
		lap("part_H_memory")
	}
	if !r.Expired() {
		partHBatched(r, ck, states)
		lap("part_H_parents_share_a_segment")
	}
	if !r.Expired() {
		partHDisk(r, ck, states)
		lap("part_H_disk")
	}
	ck.minimiseAdvance()
	lap("minimise")
	ck.bk.flush(r)
	lap("flush")
	if ck.dbg != nil {
		var ks []string
		for k, n := range ck.dbg {
			ks = append(ks, fmt.Sprintf("%s %d", k, n))
		}
		sort.Strings(ks)
		os.WriteFile(os.Getenv("C20_DEBUG_OUTCOMES"), []byte(strings.Join(ks, "\n")+"\n"), 0o644)
	}
}

func bxRemove(d string) {
	if d != "" {
		os.RemoveAll(d)
	}
}

func bxKeys(m map[string]bool) []string {
	var k []string
	for s := range m {
		k = append(k, s)
	}
	sort.Strings(k)
	return k
}

// minimiseAdvance replaces the example of classAdvance (found inside a multi-document batch,
// whose internal order bleve does not fix) by a deterministic one: two parents indexed by two
// calls, the smallest query of that shape and the smallest pair of documents for which the
// answer is neither the reference's nor the raw-id model's.
func (ck *checker) minimiseAdvance() {
	ck.bk.mu.Lock()
	_, seen := ck.bk.m[classAdvance]
	ck.bk.mu.Unlock()
	if !seen {
		return
	}
	var cand []*Q
	ck.advQ.Range(func(_, v any) bool {
		cand = append(cand, v.(*Q))
		return true
	})
	sort.SliceStable(cand, func(i, j int) bool {
		a, b := cand[i], cand[j]
		if a.nodes() != b.nodes() {
			return a.nodes() < b.nodes()
		}
		if len(a.String()) != len(b.String()) {
			return len(a.String()) < len(b.String())
		}
		return a.String() < b.String()
	})
	if len(cand) > 40 {
		cand = cand[:40]
	}
	for _, q := range cand {
		// every b in parallel, each looking for its smallest a; the smallest b wins
		found := make([]*example, len(ck.small))
		ck.r.ParFor(len(ck.small), 0, func(bi int) {
			b := ck.small[bi]
			wb := Expect(q, b.tree(), true)
			if wb == Either {
				return
			}
			ra := rawPredict(q, b.tree())
			if !ra.ok {
				return
			}
			for _, a := range ck.small {
				idx := newMem(true)
				chk(idx.Index("a", a.Data()))
				chk(idx.Index("b", b.Data()))
				rep := func() map[string]any {
					return map[string]any{"mapping": "nested", "docs_in_index_order": []any{map[string]any{"a": a.Data()}, map[string]any{"b": b.Data()}},
						"query": queryJSON(q), "query_text": q.String(), "score": "", "expected_hit_b": wb == Yes,
						"how": "index a, then b (one Index call each) under props/c20.Mapping(true); run the query"}
				}
				got, _, ok := ck.search(idx, true, "two-documents", a.String()+b.String(), q, 5+a.size()+b.size(), "", rep)
				idx.Close()
				if !ok || got["b"] == (wb == Yes) || ra.parentHit == got["b"] {
					continue
				}
				dir := "missing from"
				if got["b"] {
					dir = "wrongly in"
				}
				found[bi] = &example{replay: rep(),
					detail: fmt.Sprintf("[nested mapping] index a=%s, then b=%s; %s: parent b is %s the hits (reference: %v; raw-id combination also says %v)", a, b, q, dir, wb, wb)}
				return
			}
		})
		for _, ex := range found {
			if ex != nil {
				ck.bk.mu.Lock()
				ck.bk.m[classAdvance] = ex
				ck.bk.mu.Unlock()
				return
			}
		}
	}
}
