// Package gate: a generic event gate for workload-family scenarios of the scheduler flavour.
//
// scorch's PUBLIC event callback registry runs harness code inside the persister / merger thread.
// Under the cooperative scheduler that code can park on a managed channel, which turns a timing
// window that no small deviation bound reaches ("the merger is suspended between building a merged
// segment and introducing it while two batches land") into an ordinary step of the driver. Which
// window is opened — event kind, occurrence, and for how many further driver steps it stays open —
// is an ENVIRONMENT CHOICE of the explorer (vrt.Choose): every member of the menu is explored.
package gate

import (
	"fmt"

	"github.com/blevesearch/bleve/v2/index/scorch"

	"verif/sched/vrt"
)

// Name is the callback name to put into the index configuration ("eventCallbackName").
const Name = "verif-family-gate"

// Spec is one member of the gate menu.
type Spec struct {
	Kind  scorch.EventKind
	Occ   int // park at this occurrence of the event after Arm (1-based); 0 = no gate
	Steps int // driver steps the gate stays closed after the step in which it parked
	Label string
}

// Menu: no gate, then {persister finished a round, persister about to purge, merger about to plan,
// merger about to introduce a merged segment} x occurrence {1,2} x open after {1,2} further steps.
func Menu() []Spec {
	m := []Spec{{Label: "none"}}
	kinds := []struct {
		k scorch.EventKind
		n string
	}{
		{scorch.EventKindMergeTaskIntroductionStart, "merger-before-introducing-merge"},
		{scorch.EventKindPersisterProgress, "persister-after-round"},
		{scorch.EventKindPurgerCheck, "persister-before-purge"},
		{scorch.EventKindPreMergeCheck, "merger-before-planning"},
	}
	for _, k := range kinds {
		for occ := 1; occ <= 2; occ++ {
			for steps := 1; steps <= 2; steps++ {
				m = append(m, Spec{Kind: k.k, Occ: occ, Steps: steps, Label: fmt.Sprintf("%s#%d+%d", k.n, occ, steps)})
			}
		}
	}
	return m
}

// G is an armed gate.
type G struct {
	Spec
	seen     int
	Parked   bool // a background thread is parked at the gate right now
	Was      bool // it parked at some moment
	left     int
	opened   bool
	release  chan int
	disarmed bool
}

var cur *G

func init() {
	scorch.RegistryEventCallbacks[Name] = func(e scorch.Event) bool {
		g := cur
		if g == nil || g.disarmed || g.Occ == 0 || g.Was || e.Kind != g.Kind {
			return true
		}
		g.seen++
		if g.seen == g.Occ {
			g.Was, g.Parked = true, true
			g.left = g.Steps
			vrt.Recv(g.release)
			g.Parked = false
		}
		return true
	}
}

// Arm installs the gate (occurrences are counted from now on).
func Arm(s Spec) *G {
	g := &G{Spec: s, release: make(chan int, 1)}
	cur = g
	return g
}

// Step is called by the driver after each of its steps (when everything has settled): the gate
// opens when it has been closed for the chosen number of steps. It reports whether it opened now.
func (g *G) Step() bool {
	if g == nil || !g.Parked || g.opened {
		return false
	}
	if g.left > 0 {
		g.left--
		return false
	}
	g.Open()
	return true
}

// Open opens the gate for good (harmless when nothing is or ever gets parked).
func (g *G) Open() {
	if g == nil || g.opened {
		return
	}
	g.opened = true
	vrt.Send(g.release, 1)
}

// Disarm opens and removes the gate.
func (g *G) Disarm() {
	if g == nil {
		return
	}
	g.Open()
	g.disarmed = true
	if cur == g {
		cur = nil
	}
}
