// Package c13sched: the schedule-exploration companion of C13. The plain C13 check enumerates
// sequential histories; rollback points written by the persister's in-memory merge path while other
// batches land can only be produced with concurrency, so these scenarios run under the scheduler.
package c13sched

import (
	"fmt"
	"io"
	"os"
	"path/filepath"
	"strconv"
	"strings"

	"github.com/blevesearch/bleve/v2"
	"github.com/blevesearch/bleve/v2/index/scorch"

	"verif/bx"
	"verif/lww"
	"verif/mc"
	"verif/sched/drv"
	"verif/sched/vrt"
)

func I(id string, v int) lww.Op { return lww.Op{Kind: "I", ID: id, V: v} }
func D(id string) lww.Op        { return lww.Op{Kind: "D", ID: id} }
func S(v int) lww.Op            { return lww.Op{Kind: "S", ID: "seq", V: v} }

var workload = []lww.Batch{
	{I("a", 1), I("b", 1), S(1)},
	{I("c", 1), I("d", 1), S(2)},
	{D("a"), D("c"), S(3)}, // delete-only: lands inside the merge window with one deviation
	{I("a", 2), S(4)},
}
var ids = []string{"a", "b", "c", "d", "n", "zz"}
var keys = []string{"seq"}

func modelAfter(q int) *lww.Model {
	m := lww.New()
	for j := 0; j < q && j < len(workload); j++ {
		m.Apply(workload[j])
	}
	return m
}

type gateT struct {
	armed   bool
	parked  chan int
	release chan int
}

var gate *gateT

func init() {
	scorch.RegistryEventCallbacks["verif-c13-persister-gate"] = func(e scorch.Event) bool {
		if g := gate; g != nil && g.armed && e.Kind == scorch.EventKindPersisterProgress {
			g.armed = false
			vrt.Send(g.parked, 1)
			vrt.Recv(g.release)
		}
		return true
	}
}

func body(keep int) func(c *drv.Ctx) {
	return func(c *drv.Ctx) {
		dir := c.Dir + "/idx"
		g := &gateT{armed: true, parked: make(chan int, 1), release: make(chan int, 1)}
		gate = g
		defer func() { gate = nil }()
		var idx bleve.Index
		vrt.Free(func() {
			var err error
			idx, err = bleve.NewUsing(dir, bleve.NewIndexMapping(), scorch.Name, scorch.Name, map[string]interface{}{
				"unsafe_batch": true, "numSnapshotsToKeep": keep, "eventCallbackName": "verif-c13-persister-gate",
				"scorchPersisterOptions": map[string]interface{}{"NumPersisterWorkers": 2, "MaxSizeInMemoryMergePerWorker": 1},
			})
			if err != nil {
				panic(err)
			}
		})
		vrt.Recv(g.parked)
		do := func(j int) {
			if err := lww.ExecBatch(idx, workload[j-1]); err != nil {
				c.Fail("error:batch", "Batch %d: %v", j, err)
			}
		}
		do(1)
		do(2)
		start := make(chan int, 1)
		var wg vrt.WaitGroup
		wg.Add(1)
		vrt.Go(func() {
			defer wg.Done()
			vrt.Recv(start)
			do(3)
		})
		vrt.Send(start, 1)
		vrt.Send(g.release, 1)
		wg.Wait()
		vrt.WaitIdle()
		do(4)
		vrt.WaitIdle()
		vrt.Free(func() {
			if err := idx.Close(); err != nil {
				c.Fail("error:close", "Close: %v", err)
			}
		})
	}
}

func copyDir(src, dst string) error {
	return filepath.Walk(src, func(p string, fi os.FileInfo, err error) error {
		if err != nil {
			return err
		}
		rel, _ := filepath.Rel(src, p)
		t := filepath.Join(dst, rel)
		if fi.IsDir() {
			return os.MkdirAll(t, 0o755)
		}
		in, err := os.Open(p)
		if err != nil {
			return err
		}
		defer in.Close()
		out, err := os.Create(t)
		if err != nil {
			return err
		}
		defer out.Close()
		_, err = io.Copy(out, in)
		return err
	})
}

// after: the index is closed; every rollback point offered must name a state the index had and
// restore exactly it.
func after(c *drv.Ctx) {
	dir := c.Dir + "/idx"
	pts, err := scorch.RollbackPoints(dir + "/store")
	if err != nil {
		c.Fail("rollbackpoints-error", "RollbackPoints: %v", err)
		return
	}
	if len(pts) == 0 {
		c.Fail("no-rollback-point", "no rollback point offered after a clean Close")
		return
	}
	var qs []string
	for pi, p := range pts {
		q := 0
		if v := p.GetInternal([]byte("seq")); v != nil {
			q, _ = strconv.Atoi(string(v))
		}
		qs = append(qs, fmt.Sprint(q))
		if pi == 0 && q != len(workload) {
			c.Fail("newest-point-is-not-last-persisted-state", "newest rollback point carries seq=%d, the last batch was %d", q, len(workload))
			return
		}
		cp := fmt.Sprintf("%s/rb%d", c.Dir, pi)
		if err := copyDir(dir, cp); err != nil {
			panic(err)
		}
		if err := scorch.Rollback(cp+"/store", p); err != nil {
			c.Fail("rollback-error", "Rollback to point %d (seq %d): %v", pi, q, err)
			return
		}
		res := ""
		werr := drv.InWorld(func() {
			i2, err := bleve.Open(cp)
			if err != nil {
				res = "open after rollback: " + err.Error()
				return
			}
			if bad := modelAfter(q).Check(i2, ids, keys); len(bad) > 0 {
				res = "state after rollback: " + strings.Join(bad, "; ")
			}
			i2.Close()
		})
		os.RemoveAll(cp)
		if werr != "" {
			res = "recovery " + werr
		}
		if res != "" {
			c.Fail("state-after-rollback", "rollback point %d carries seq=%d but: %s", pi, q, res)
			return
		}
		c.Count("rollback_points_exercised", 1)
	}
	c.Observe("points:" + strings.Join(qs, ","))
}

func Scenarios() []drv.Scenario {
	return []drv.Scenario{
		{Name: "sched:unsafe-inmemory-merge-window-keep10", Body: body(10), After: after, Class: "sched",
			Quick: []drv.Phase{{Bound: 1, Filter: "restricted"}}, Thorough: []drv.Phase{{Bound: 1}, {Bound: 2, Filter: "restricted"}}},
		{Name: "sched:unsafe-inmemory-merge-window-keep2", Body: body(2), After: after, Class: "sched",
			Thorough: []drv.Phase{{Bound: 1}}},
	}
}

func Describe(r *mc.Run) {
	r.Rule("E3 companion of C13: the persister is parked (public event callback) while two unsafe batches pile up, then released together with a low-priority client thread issuing a delete-only batch; all schedules within the deviation bound; after Close every rollback point offered is rolled back to on a copy, opened and compared with the model state its internal value names")
	_ = bx.CopyConfig
}
