package main

import (
	"verif/mc"
	"verif/props/c07"
)

func main() { mc.Main("C07", "model_checking", c07.Run) }
