package c20

import (
	"fmt"
	"testing"

	"github.com/blevesearch/bleve/v2"
)

func TestAll(t *testing.T) {
	for _, nested := range []bool{true, false} {
		idx := newMem(nested)
		idx.Index("p", Doc{Name: "x", Items: []Item{{K: "x", V: "x"}, {K: "y", V: "y"}}}.Data())
		idx.Index("q", Doc{Name: "y", Items: []Item{{K: "x", V: "x"}}}.Data())
		for _, q := range []*Q{
			{Kind: "bool", Must: []*Q{{Kind: "all"}}, MustNot: []*Q{T("name", "x")}},
			{Kind: "bool", MustNot: []*Q{T("name", "x")}},
			{Kind: "bool", Must: []*Q{T("name", "x")}, MustNot: []*Q{T("name", "x")}},
		} {
			for _, sc := range []string{"", "none"} {
				req := bleve.NewSearchRequest(q.ToBleve())
				req.Size = 50
				req.Score = sc
				res, err := idx.Search(req)
				var ids []string
				for _, h := range res.Hits {
					ids = append(ids, h.ID)
				}
				fmt.Println(nested, sc, q, string(queryJSON(q)), "->", ids, res.Total, err)
			}
		}
	}
}
