// Package c12: needed segment files are never removed; unneeded files do not accumulate.
//
// E3: writer (batches with updates/deletes, merge plan forcing file merges) ∥ long-lived reader
// (∥ CopyTo) ∥ scorch's persister / merger / purger, all schedules within the deviation bound.
// Safety monitor at every file-system effect boundary (thorough: at every scheduling point), with
// all other threads parked: every file named by a committed bolt snapshot, by the current root,
// or by a reader the driver still holds exists on disk. Liveness at quiescence: zap files on disk
// = files named by the recorded snapshots, recorded epochs bounded, further rounds do not grow
// either; after Close no descriptor points into the index directory.
package c12

import (
	"fmt"
	"io"
	"os"
	"path/filepath"
	"sort"
	"strconv"
	"strings"

	"github.com/blevesearch/bleve/v2"
	"github.com/blevesearch/bleve/v2/index/scorch"
	index "github.com/blevesearch/bleve_index_api"
	segment "github.com/blevesearch/scorch_segment_api/v2"

	"verif/bx"
	"verif/lww"
	"verif/mc"
	"verif/sched/drv"
	fgate "verif/sched/gate"
	"verif/sched/vrt"
)

type cfg struct {
	name    string
	keep    int
	copy    bool
	copies  int  // number of concurrent CopyTo threads (default 1 when copy is set)
	unsafe  bool // unsafe_batch: batches return before they are persisted, so readers and copies are taken on roots that are never persisted under their own epoch
	allStep bool
	batches int
	family  []string               // workload family (lww.BuildWord): the explorer chooses the word (vrt.Choose)
	plan    map[string]interface{} // merge plan (default: aggressive)
}

func zapFiles(store string) map[string]bool {
	rv := map[string]bool{}
	ents, _ := os.ReadDir(store)
	for _, e := range ents {
		if strings.HasSuffix(e.Name(), ".zap") {
			rv[e.Name()] = true
		}
	}
	return rv
}

// heldReader: the files of a reader the driver holds, the reader's epoch, and whether that epoch was
// ever recorded in root.bolt while the reader was held. A reader on a recorded epoch is protected by
// reference counting (the epoch only becomes eligible for purging when the reader is closed). A
// reader on an epoch that is never recorded (the root the persister introduces after a persist, or
// a merge introduces, taken before the persister's next round) has no such protection: its files are
// safe only while some recorded snapshot or the current root names them (known finding, DESIGN §9.2).
const neverRecorded = "missing:file-held-by-reader-of-a-never-recorded-epoch"

type heldReader struct {
	files    []string
	epoch    uint64
	recorded bool
	reported bool
}

func holdReader(r index.IndexReader) *heldReader {
	h := &heldReader{files: readerFiles(r)}
	if is, ok := r.(*scorch.IndexSnapshot); ok {
		h.epoch = scorch.VerifSnapshotEpoch(is)
	}
	return h
}

// check reports a file of the held reader that is missing on disk.
func (h *heldReader) check(c *drv.Ctx, label string, st *scorch.VerifFileState, disk map[string]bool) bool {
	if h == nil {
		return true
	}
	for _, e := range st.Epochs {
		if e == h.epoch {
			h.recorded = true
		}
	}
	for _, f := range h.files {
		if !disk[f] {
			if h.recorded {
				c.Fail("missing:file-held-by-open-reader", "at %s: %s is used by an index reader (epoch %d, recorded in root.bolt while held) that is still open but is missing on disk", label, f, h.epoch)
				return false
			}
			// known finding: reported once per execution, the monitor goes on (it must not hide anything else)
			if !h.reported {
				h.reported = true
				c.Fail(neverRecorded, "at %s: %s is used by an index reader that is still open but is missing on disk; the reader's epoch %d was never recorded in root.bolt (recorded now: %v)", label, f, h.epoch, st.Epochs)
			}
			return true
		}
	}
	return true
}

func readerFiles(r index.IndexReader) []string {
	is, ok := r.(*scorch.IndexSnapshot)
	if !ok {
		return nil
	}
	var out []string
	for _, ss := range is.Segments() {
		if ps, ok := ss.Segment().(segment.PersistedSegment); ok {
			out = append(out, filepath.Base(ps.Path()))
		}
	}
	return out
}

func body(k cfg) func(c *drv.Ctx) {
	return func(c *drv.Ctx) {
		k := k
		var wl []lww.Batch
		keeper := "a" // a document the workload never deletes (the held reader re-reads it)
		if k.family != nil {
			word := k.family[vrt.Choose(len(k.family), "workload")]
			wl = lww.BuildWord(word)
			k.batches = len(wl)
			keeper = "k0"
			c.Observe("wl=" + word)
			c.Count("family_words_run", 1)
		}
		base := c.Dir + "/idx"
		store := filepath.Join(base, "store")
		var idx bleve.Index
		vrt.Free(func() {
			var err error
			plan := k.plan
			if plan == nil {
				plan = bx.AggressiveMergePlan
			}
			conf := map[string]interface{}{
				"numSnapshotsToKeep":     k.keep,
				"scorchMergePlanOptions": bx.CopyConfig(plan),
			}
			if k.unsafe {
				conf["unsafe_batch"] = true
			}
			idx, err = bleve.NewUsing(base, bleve.NewIndexMapping(), scorch.Name, scorch.Name, conf)
			if err != nil {
				panic(err)
			}
		})
		sc := bx.Scorch(idx)
		var held *heldReader // the reader the driver currently holds
		monitorOn := true
		checks := 0
		monitor := func(label string) {
			if !monitorOn || c.FailedExcept(neverRecorded) {
				return
			}
			st, err := sc.VerifFileState()
			if err != nil {
				c.Fail("monitor-error", "monitor: %v", err)
				return
			}
			checks++
			disk := zapFiles(store)
			for _, f := range st.BoltFiles {
				if !disk[f] {
					c.Fail("missing:bolt-named-file", "at %s: %s is named by a snapshot committed in root.bolt (epochs %v) but is missing on disk", label, f, st.Epochs)
					return
				}
			}
			for _, f := range st.RootFiles {
				if !disk[f] {
					c.Fail("missing:current-root-file", "at %s: %s belongs to the current root (epoch %d) but is missing on disk", label, f, st.RootEpoch)
					return
				}
			}
			if !held.check(c, label, st, disk) {
				return
			}
		}
		vrt.Hook = func(label string) {
			if strings.HasPrefix(label, "fs:") {
				monitor(label)
			}
		}
		if k.allStep {
			vrt.StepHook = func(label string) { monitor("step:" + label) }
		}
		defer func() { vrt.Hook, vrt.StepHook = nil, nil }()

		tok := make(chan int, 16)
		ncopies := 0
		if k.copy {
			ncopies = 1
			if k.copies > 1 {
				ncopies = k.copies
			}
		}
		tok2 := make([]chan int, ncopies)
		for n := range tok2 {
			tok2[n] = make(chan int, 16)
		}
		var wg vrt.WaitGroup
		wg.Add(2)
		vrt.Go(func() {
			defer wg.Done()
			for j := 1; j <= k.batches; j++ {
				b := idx.NewBatch()
				if wl != nil {
					if err := lww.Fill(b, wl[j-1]); err != nil {
						panic(err)
					}
				} else {
					b.Index("a", map[string]interface{}{"seq": strconv.Itoa(j)})
					if j%2 == 0 {
						b.Delete("b")
					} else {
						b.Index("b", map[string]interface{}{"seq": strconv.Itoa(j)})
					}
					b.Index(fmt.Sprintf("d%d", j), map[string]interface{}{"seq": strconv.Itoa(j)})
				}
				if err := idx.Batch(b); err != nil {
					c.Fail("error:batch", "Batch: %v", err)
					return
				}
				vrt.Send(tok, j)
				for n := 0; n < ncopies; n++ {
					vrt.Send(tok2[n], j)
				}
			}
		})
		vrt.Go(func() {
			defer wg.Done()
			// a reader held from after batch 1 until after the last batch
			vrt.Recv(tok)
			adv, _ := idx.Advanced()
			r, err := adv.Reader()
			if err != nil {
				c.Fail("error:reader", "Reader: %v", err)
				return
			}
			held = holdReader(r)
			want, _ := r.DocCount()
			for n := 1; n < k.batches; n++ {
				vrt.Recv(tok)
				c.Observe(fmt.Sprintf("z%d", len(zapFiles(store))))
				got, err := r.DocCount()
				if err != nil || got != want {
					c.Fail("reader-changed", "held reader DocCount %d -> %d (%v)", want, got, err)
				}
				d, err := r.Document(keeper)
				if err != nil || d == nil {
					c.Fail("reader-lost-document", "held reader lost document %s: %v", keeper, err)
				} else {
					d.VisitFields(func(f index.Field) {})
				}
			}
			held = nil
			r.Close()
		})
		for cn := 0; cn < ncopies; cn++ {
			cn := cn
			wg.Add(1)
			vrt.Go(func() {
				defer wg.Done()
				vrt.Recv(tok2[cn])
				vrt.Recv(tok2[cn])
				if ic, ok := idx.(bleve.IndexCopyable); ok {
					dst := fmt.Sprintf("%s/copy%d", c.Dir, cn)
					if err := ic.CopyTo(bleve.FileSystemDirectory(dst)); err != nil {
						c.Fail("copy-failed", "CopyTo #%d failed while the index was written, merged and purged: %v", cn, err)
					} else {
						c.Count("copies_completed", 1)
					}
				}
				for n := 2; n < k.batches; n++ {
					vrt.Recv(tok2[cn])
				}
			})
		}
		wg.Wait()
		settleAndClose(c, idx, sc, store, base, k.keep, func() { monitorOn = false; c.Count("monitor_evaluations", checks) })
	}
}

// settleAndClose: liveness at quiescence (idle rounds: directory = files named by the recorded
// snapshots, epochs bounded, no growth), then Close and the descriptor scan.
func settleAndClose(c *drv.Ctx, idx bleve.Index, sc *scorch.Scorch, store, base string, keep int, monitorOff func()) {
	{
		vrt.Free(func() {
			type q struct{ files, epochs int }
			var hist []q
			for round := 0; round < 3+8; round++ {
				idx.SetInternal([]byte("tick"), []byte(strconv.Itoa(round)))
				vrt.WaitIdle()
				st, _ := sc.VerifFileState()
				disk := zapFiles(store)
				if round >= 2 {
					hist = append(hist, q{len(disk), len(st.Epochs)})
				}
				if round == 2 {
					var dl []string
					for f := range disk {
						dl = append(dl, f)
					}
					sort.Strings(dl)
					if strings.Join(dl, ",") != strings.Join(st.BoltFiles, ",") {
						c.Fail("quiescence:stray-or-missing-files", "after writing stopped and background work settled the directory holds zap files %v but the recorded snapshots name %v (epochs %v, ineligible %v, copy-scheduled %v)", dl, st.BoltFiles, st.Epochs, st.Ineligible, st.CopySched)
					}
					if len(st.Epochs) > keep+1 {
						c.Fail("quiescence:too-many-epochs", "%d snapshot epochs recorded at quiescence with numSnapshotsToKeep=%d (bound keep+1)", len(st.Epochs), keep)
					}
					if len(st.CopySched) > 0 {
						c.Fail("quiescence:copy-scheduled-left", "files still scheduled for copy at quiescence: %v", st.CopySched)
					}
					c.Observe(fmt.Sprintf("files=%d epochs=%d", len(dl), len(st.Epochs)))
				}
			}
			for i := 1; i < len(hist); i++ {
				if hist[i].files > hist[0].files || hist[i].epochs > hist[0].epochs {
					c.Fail("quiescence:growth", "zap files / epochs grow over idle rounds: %v", hist)
					break
				}
			}
			monitorOff()
			if err := idx.Close(); err != nil {
				c.Fail("error:close", "Close: %v", err)
			}
			fds, _ := os.ReadDir("/proc/self/fd")
			for _, fd := range fds {
				if t, err := os.Readlink("/proc/self/fd/" + fd.Name()); err == nil && strings.HasPrefix(t, base) {
					c.Fail("fd-left-open-after-close", "file still open after Close: %s", strings.TrimPrefix(t, base))
				}
			}
		})
	}
}

// ---- gated workload families: word x gate are environment choices of the explorer. Every batch in
// its own client thread, started when everything the previous one set in motion has settled; a reader
// is taken after the first batch and held to the end; the file monitor runs at every effect boundary.
func bodyGatedFamily(k cfg) func(c *drv.Ctx) {
	menu := fgate.MenuPairs()
	return func(c *drv.Ctx) {
		word := k.family[vrt.Choose(len(k.family), "workload")]
		spec := menu[vrt.Choose(len(menu), "gate")]
		wl := lww.BuildWord(word)
		base := c.Dir + "/idx"
		store := filepath.Join(base, "store")
		var idx bleve.Index
		vrt.Free(func() {
			plan := k.plan
			if plan == nil {
				plan = bx.AggressiveMergePlan
			}
			conf := map[string]interface{}{"numSnapshotsToKeep": k.keep, "scorchMergePlanOptions": bx.CopyConfig(plan), "eventCallbackName": fgate.Name}
			if k.unsafe {
				conf["unsafe_batch"] = true
			}
			var err error
			idx, err = bleve.NewUsing(base, bleve.NewIndexMapping(), scorch.Name, scorch.Name, conf)
			if err != nil {
				panic(err)
			}
			vrt.WaitIdle()
		})
		sc := bx.Scorch(idx)
		var held *heldReader
		monitorOn := true
		checks := 0
		vrt.Hook = func(label string) {
			if !monitorOn || c.FailedExcept(neverRecorded) || !strings.HasPrefix(label, "fs:") {
				return
			}
			st, err := sc.VerifFileState()
			if err != nil {
				return
			}
			checks++
			disk := zapFiles(store)
			for _, f := range st.BoltFiles {
				if !disk[f] {
					c.Fail("missing:bolt-named-file", "at %s: %s is named by a snapshot committed in root.bolt (epochs %v) but is missing on disk", label, f, st.Epochs)
					return
				}
			}
			for _, f := range st.RootFiles {
				if !disk[f] {
					c.Fail("missing:current-root-file", "at %s: %s belongs to the current root (epoch %d) but is missing on disk", label, f, st.RootEpoch)
					return
				}
			}
			if !held.check(c, label, st, disk) {
				return
			}
		}
		defer func() { vrt.Hook = nil }()
		g := fgate.Arm(spec)
		defer g.Disarm()
		var wg vrt.WaitGroup
		var rd index.IndexReader
		var want uint64
		for j := 1; j <= len(wl); j++ {
			j := j
			wg.Add(1)
			vrt.Go(func() {
				defer wg.Done()
				if err := lww.ExecBatch(idx, wl[j-1]); err != nil {
					c.Fail("error:batch", "Batch %d: %v", j, err)
				}
			})
			vrt.WaitIdle()
			if j == 1 {
				adv, _ := idx.Advanced()
				if r, err := adv.Reader(); err == nil {
					rd = r
					held = holdReader(r)
					want, _ = r.DocCount()
				}
			}
			if g.Step() {
				vrt.WaitIdle()
			}
		}
		parked := g.Was()
		g.Open()
		wg.Wait()
		vrt.WaitIdle()
		if rd != nil {
			got, err := rd.DocCount()
			if err != nil || got != want {
				c.Fail("reader-changed", "held reader DocCount %d -> %d (%v)", want, got, err)
			}
			if d, err := rd.Document("k0"); err != nil || d == nil {
				c.Fail("reader-lost-document", "held reader lost document k0: %v", err)
			} else {
				d.VisitFields(func(f index.Field) {})
			}
			held = nil
			rd.Close()
		}
		if parked > 0 {
			c.Count("executions_in_which_a_gate_parked_a_background_thread", 1)
		}
		if parked > 1 {
			c.Count("executions_in_which_persister_and_merger_were_both_parked", 1)
		}
		c.Observe(fmt.Sprintf("wl=%s gate=%s parked=%v", word, spec.Label, parked))
		c.Count("family_words_x_gates_run", 1)
		settleAndClose(c, idx, sc, store, base, k.keep, func() { monitorOn = false; c.Count("monitor_evaluations", checks) })
	}
}

// ---- purge gate: the persister is parked (public event callback, EventKindPurgerCheck) right
// before it removes old data; meanwhile a file merge is introduced (its new file is named by no
// committed snapshot yet) and a batch is introduced on top; then the purge runs. The merged file is
// needed by the current root and must survive.

type purgeGateT struct {
	armed   bool
	parked  chan int
	release chan int
}

var purgeGate *purgeGateT

func init() {
	scorch.RegistryEventCallbacks["verif-c12-purge-gate"] = func(e scorch.Event) bool {
		if g := purgeGate; g != nil && g.armed && e.Kind == scorch.EventKindPurgerCheck {
			g.armed = false
			vrt.Send(g.parked, 1)
			vrt.Recv(g.release)
		}
		return true
	}
}

func bodyPurgeGate(k cfg) func(c *drv.Ctx) {
	return func(c *drv.Ctx) {
		base := c.Dir + "/idx"
		store := filepath.Join(base, "store")
		g := &purgeGateT{parked: make(chan int, 1), release: make(chan int, 1)}
		purgeGate = g
		defer func() { purgeGate = nil }()
		var idx bleve.Index
		vrt.Free(func() {
			var err error
			idx, err = bleve.NewUsing(base, bleve.NewIndexMapping(), scorch.Name, scorch.Name, map[string]interface{}{
				"numSnapshotsToKeep": k.keep, "eventCallbackName": "verif-c12-purge-gate",
				"scorchMergePlanOptions": bx.CopyConfig(bx.AggressiveMergePlan),
			})
			if err != nil {
				panic(err)
			}
		})
		sc := bx.Scorch(idx)
		monitorOn := true
		checks := 0
		monitor := func(label string) {
			if !monitorOn || c.FailedExcept(neverRecorded) {
				return
			}
			st, err := sc.VerifFileState()
			if err != nil {
				return
			}
			checks++
			disk := zapFiles(store)
			for _, f := range st.BoltFiles {
				if !disk[f] {
					c.Fail("missing:bolt-named-file", "at %s: %s is named by a snapshot committed in root.bolt (epochs %v) but is missing on disk", label, f, st.Epochs)
					return
				}
			}
			for _, f := range st.RootFiles {
				if !disk[f] {
					c.Fail("missing:current-root-file", "at %s: %s belongs to the current root (epoch %d) but is missing on disk", label, f, st.RootEpoch)
					return
				}
			}
		}
		vrt.Hook = func(label string) {
			if strings.HasPrefix(label, "fs:") || strings.HasPrefix(label, "pt:") {
				monitor(label)
			}
		}
		defer func() { vrt.Hook = nil }()
		batch := func(j int) {
			b := idx.NewBatch()
			b.Index("a", map[string]interface{}{"seq": strconv.Itoa(j)})
			b.Index(fmt.Sprintf("d%d", j), map[string]interface{}{"seq": strconv.Itoa(j)})
			if err := idx.Batch(b); err != nil {
				c.Fail("error:batch", "Batch: %v", err)
			}
		}
		batch(1)
		batch(2)
		vrt.WaitIdle() // files of batches 1,2 merged and persisted
		g.armed = true
		batch(3)           // persisted and acknowledged; afterwards the persister parks before its purge
		vrt.Recv(g.parked) // persister parked at the purger check
		vrt.WaitIdle()     // the merger merges the files and introduces the merged segment (not persisted: persister parked)
		vrt.Point("pt:merge-introduced-persister-parked")
		var wg vrt.WaitGroup
		wg.Add(1)
		vrt.Go(func() { // a safe batch: introduced at once, acknowledged only after the persister runs again
			defer wg.Done()
			batch(4)
		})
		vrt.WaitIdle() // batch 4 introduced on top of the merged segment
		vrt.Point("pt:batch-introduced-before-purge")
		vrt.Send(g.release, 1) // the purge runs now, then the persister persists the new root
		wg.Wait()
		vrt.WaitIdle()
		vrt.Point("pt:settled")
		c.Observe(fmt.Sprintf("z%d", len(zapFiles(store))))
		vrt.Free(func() {
			monitorOn = false
			c.Count("monitor_evaluations", checks)
			if err := idx.Close(); err != nil {
				c.Fail("error:close", "Close: %v", err)
			}
			// reopening must not fall back to older data: everything was acknowledged
			re, err := bleve.Open(base)
			if err != nil {
				c.Fail("reopen-fails", "the index does not open again after a clean Close: %v", err)
				return
			}
			if n, _ := re.DocCount(); n != 5 {
				c.Fail("reopen-falls-back-to-older-data", "after a clean Close the reopened index holds %d documents, want 5 (a, d1..d4)", n)
			}
			re.Close()
		})
	}
}

// openFilesUnder lists descriptors of this process that point below dir.
func openFilesUnder(dir string) []string {
	var out []string
	fds, _ := os.ReadDir("/proc/self/fd")
	for _, fd := range fds {
		if t, err := os.Readlink("/proc/self/fd/" + fd.Name()); err == nil && strings.HasPrefix(t, dir) {
			out = append(out, strings.TrimPrefix(t, dir))
		}
	}
	// memory mappings outlive their descriptor (and a descriptor can be reaped by a finalizer)
	if maps, err := os.ReadFile("/proc/self/maps"); err == nil {
		for _, l := range strings.Split(string(maps), "\n") {
			if i := strings.Index(l, dir); i >= 0 {
				out = append(out, "mmap:"+strings.TrimPrefix(l[i:], dir))
			}
		}
	}
	sort.Strings(out)
	return out
}

// bodyEmptiedWhilePersisted: a segment leaves the root (a delete-only batch obsoletes its only
// document) after the persister took its snapshot and before the freshly written file is swapped
// in; the file was written and opened for nothing. It must be closed and must not stay behind.
func bodyEmptiedWhilePersisted(k cfg) func(c *drv.Ctx) {
	return func(c *drv.Ctx) {
		base := c.Dir + "/idx"
		store := filepath.Join(base, "store")
		var idx bleve.Index
		vrt.Free(func() {
			var err error
			idx, err = bleve.NewUsing(base, bleve.NewIndexMapping(), scorch.Name, scorch.Name, map[string]interface{}{
				"numSnapshotsToKeep": k.keep, "unsafe_batch": true,
			})
			if err != nil {
				panic(err)
			}
			vrt.WaitIdle()
		})
		put := func(id string, j int) {
			b := idx.NewBatch()
			b.Index(id, map[string]interface{}{"seq": strconv.Itoa(j)})
			if err := idx.Batch(b); err != nil {
				c.Fail("error:batch", "Batch: %v", err)
			}
		}
		vrt.Free(func() {
			put("keep", 1)
			vrt.WaitIdle() // a segment file exists and is part of the state
		})
		start := make(chan int, 1)
		var wg vrt.WaitGroup
		wg.Add(1)
		vrt.Go(func() { // created last: in the default schedule the persister finishes first; a deviation lets the delete cut in
			defer wg.Done()
			vrt.Recv(start)
			b := idx.NewBatch()
			b.Delete("x") // delete-only: a handful of scheduling steps
			if err := idx.Batch(b); err != nil {
				c.Fail("error:batch", "Batch: %v", err)
			}
		})
		put("x", 2) // unsafe: returns once introduced; the persister starts writing its segment
		vrt.Send(start, 1)
		wg.Wait()
		vrt.WaitIdle()
		put("y", 3)
		vrt.WaitIdle()
		for round := 0; round < 2; round++ {
			idx.SetInternal([]byte("tick"), []byte(strconv.Itoa(round)))
			vrt.WaitIdle()
		}
		if st, err := bx.Scorch(idx).VerifFileState(); err == nil {
			var dl []string
			for f := range zapFiles(store) {
				dl = append(dl, f)
			}
			sort.Strings(dl)
			c.Observe(fmt.Sprintf("z%d", len(dl)))
			if strings.Join(dl, ",") != strings.Join(st.BoltFiles, ",") {
				c.Fail("stray-files-at-quiescence", "at quiescence the directory holds zap files %v, recorded snapshots name %v", dl, st.BoltFiles)
			}
		}
		vrt.Free(func() {
			if n, _ := idx.DocCount(); n != 2 {
				c.Fail("wrong-content", "DocCount %d, want 2 (keep, y)", n)
			}
			if err := idx.Close(); err != nil {
				c.Fail("error:close", "Close: %v", err)
			}
			if open := openFilesUnder(base); len(open) > 0 {
				c.Fail("fd-left-open-after-close", "files of the index still open / mapped after Close returned (a segment was emptied while it was being persisted): %v", open)
			}
		})
	}
}

// bodyCloseDuringPersist: Close arrives while the persister is in the middle of persisting a newer
// snapshot (unsafe batch: the call returned before anything was persisted). Whatever the persister
// had reached, after Close no file of the index may remain open, and the index reopens to a
// whole-batch state.
func bodyCloseDuringPersist(k cfg) func(c *drv.Ctx) {
	return func(c *drv.Ctx) {
		base := c.Dir + "/idx"
		var idx bleve.Index
		vrt.Free(func() {
			var err error
			idx, err = bleve.NewUsing(base, bleve.NewIndexMapping(), scorch.Name, scorch.Name, map[string]interface{}{
				"numSnapshotsToKeep": k.keep, "unsafe_batch": true,
				"scorchMergePlanOptions": bx.CopyConfig(bx.AggressiveMergePlan),
			})
			if err != nil {
				panic(err)
			}
			vrt.WaitIdle()
		})
		batch := func(j int) {
			b := idx.NewBatch()
			b.Index("a", map[string]interface{}{"seq": strconv.Itoa(j)})
			b.Index(fmt.Sprintf("d%d", j), map[string]interface{}{"seq": strconv.Itoa(j)})
			if err := idx.Batch(b); err != nil {
				c.Fail("error:batch", "Batch: %v", err)
			}
		}
		vrt.Free(func() {
			batch(1)
			vrt.WaitIdle() // a segment file exists and is part of the state
		})
		start := make(chan int, 1)
		var wg vrt.WaitGroup
		wg.Add(1)
		vrt.Go(func() { // created last: in the default schedule the persister finishes first; a deviation lets Close cut in
			defer wg.Done()
			vrt.Recv(start)
			if err := idx.Close(); err != nil {
				c.Fail("error:close", "Close: %v", err)
			}
		})
		batch(2)
		if k.batches > 2 {
			batch(3)
		}
		vrt.Send(start, 1)
		wg.Wait()
		vrt.WaitIdle()
		if open := openFilesUnder(base); len(open) > 0 {
			c.Fail("fd-left-open-after-close", "files of the index still open after Close returned (Close arrived during a persist): %v", open)
		}
		vrt.Free(func() {
			re, err := bleve.Open(base)
			if err != nil {
				c.Fail("reopen-fails", "the index does not open again after Close: %v", err)
				return
			}
			n, _ := re.DocCount()
			c.Observe(fmt.Sprintf("reopened=%d", n))
			if n != 2 && n != 3 && n != 4 {
				c.Fail("reopen-not-a-batch-prefix", "reopened index holds %d documents (whole batches give 2, 3 or 4)", n)
			}
			re.Close()
			if open := openFilesUnder(base); len(open) > 0 {
				c.Fail("fd-left-open-after-close", "files of the index still open after the reopened index was closed: %v", open)
			}
		})
	}
}

// gatedDir is a backup target whose first GetWriter parks the copying thread until released: a slow
// backup, expressed with scheduler primitives so that it is an ordinary, explorable wait.
type gatedDir struct {
	bleve.FileSystemDirectory
	parked  chan int
	release chan int
	n       int
	first   bool
}

func (g *gatedDir) GetWriter(p string) (io.WriteCloser, error) {
	if !g.first {
		g.first = true
		vrt.Send(g.parked, g.n)
		vrt.Recv(g.release)
	}
	return g.FileSystemDirectory.GetWriter(p)
}

// bodySlow: two overlapping backups taken on a root that is never persisted under its own epoch
// (unsafe batches), the second one slow: it still has to copy its files after the first backup has
// finished, the files were merged away in the live index, the newer root was persisted and the old
// epochs purged. Needed files "scheduled for an online copy" must still exist then.
func bodySlow(k cfg) func(c *drv.Ctx) {
	return func(c *drv.Ctx) {
		base := c.Dir + "/idx"
		var idx bleve.Index
		parked := make(chan int, 4)
		start := make(chan int, 4)
		rel := []chan int{make(chan int, 1), make(chan int, 1)}
		errs := make([]error, 2)
		var wg vrt.WaitGroup
		for n := 0; n < 2; n++ {
			n := n
			wg.Add(1)
			vrt.Go(func() {
				defer wg.Done()
				vrt.Recv(start)
				g := &gatedDir{FileSystemDirectory: bleve.FileSystemDirectory(fmt.Sprintf("%s/copy%d", c.Dir, n)), parked: parked, release: rel[n], n: n}
				errs[n] = idx.(bleve.IndexCopyable).CopyTo(g)
			})
		}
		vrt.Free(func() {
			var err error
			idx, err = bleve.NewUsing(base, bleve.NewIndexMapping(), scorch.Name, scorch.Name, map[string]interface{}{
				"numSnapshotsToKeep": k.keep, "unsafe_batch": true,
				"scorchMergePlanOptions": bx.CopyConfig(bx.AggressiveMergePlan),
			})
			if err != nil {
				panic(err)
			}
			vrt.WaitIdle()
		})
		batch := func(j int) {
			b := idx.NewBatch()
			b.Index("a", map[string]interface{}{"seq": strconv.Itoa(j)})
			b.Index(fmt.Sprintf("d%d", j), map[string]interface{}{"seq": strconv.Itoa(j)})
			if err := idx.Batch(b); err != nil {
				c.Fail("error:batch", "Batch: %v", err)
			}
		}
		// batch 1 persisted as a file; batches 2 and 3 back to back so that the root after batch 2 is
		// (by default) never persisted under its own epoch
		vrt.Free(func() {
			batch(1)
			vrt.WaitIdle()
		})
		batch(2)
		// the backup threads were created before the index, so in the default schedule they run before
		// scorch's own goroutines: both take their copy reader on the root of batch 2 before the
		// persister has seen it
		vrt.Send(start, 1)
		vrt.Send(start, 1)
		// both backups hold their copy reader and are parked before their first file
		vrt.Recv(parked)
		vrt.Recv(parked)
		if os.Getenv("VERIF_DEBUG") != "" {
			st, _ := bx.Scorch(idx).VerifFileState()
			fmt.Fprintf(os.Stderr, "DEBUG both parked: disk=%v state=%+v\n", zapFiles(store0(base)), st)
		}
		batch(3)
		vrt.WaitIdle()
		// the fast backup completes
		vrt.Send(rel[0], 1)
		vrt.WaitIdle()
		// the live index moves on: merges replace the files the slow backup still needs, newer roots are
		// persisted, old epochs purged
		for j := 4; j <= 3+k.batches; j++ {
			batch(j)
			vrt.WaitIdle()
		}
		store := filepath.Join(base, "store")
		c.Observe(fmt.Sprintf("z%d", len(zapFiles(store))))
		if os.Getenv("VERIF_DEBUG") != "" {
			st, _ := bx.Scorch(idx).VerifFileState()
			fmt.Fprintf(os.Stderr, "DEBUG before slow copy: disk=%v state=%+v\n", zapFiles(store), st)
		}
		// now the slow backup copies its files
		vrt.Send(rel[1], 1)
		wg.Wait()
		vrt.Free(func() {
			for n, err := range errs {
				if err != nil {
					c.Fail("copy-failed", "backup #%d (slow=%v) failed: %v — a file scheduled for an online copy was not there any more", n, n == 1, err)
					continue
				}
				ci, err := bleve.Open(fmt.Sprintf("%s/copy%d", c.Dir, n))
				if err != nil {
					c.Fail("copy-does-not-open", "backup #%d does not open: %v", n, err)
					continue
				}
				cnt, _ := ci.DocCount()
				c.Observe(fmt.Sprintf("copy%d=%d", n, cnt))
				if cnt != 2 && cnt != 3 && cnt != 4 {
					c.Fail("copy-wrong-content", "backup #%d holds %d documents (the copy reader was taken between batch 2 and batch 3: 3 or 4 expected)", n, cnt)
				}
				ci.Close()
			}
			if err := idx.Close(); err != nil {
				c.Fail("error:close", "Close: %v", err)
			}
		})
	}
}

func store0(base string) string { return filepath.Join(base, "store") }

func Scenarios() []drv.Scenario {
	mk := func(k cfg, quick, thorough []drv.Phase) drv.Scenario {
		return drv.Scenario{Name: k.name, Body: body(k), Quick: quick, Thorough: thorough, Class: "files", MaxSteps: 1500000}
	}
	d1r := []drv.Phase{{Bound: 1, Filter: "restricted"}}
	d1 := []drv.Phase{{Bound: 1}}
	d2 := []drv.Phase{{Bound: 1}, {Bound: 2, Filter: "restricted"}}
	d0 := []drv.Phase{{Bound: 0}}
	words := lww.PlainWords(mc.Tier())
	fam := func(name string, k cfg) drv.Scenario {
		k.name, k.family = name, words
		sc := mk(k, d0, d0)
		sc.Doc = "workload family: every word over the batch-shape alphabet {n u b d w x m} after a setup batch is the writer's workload (environment choice: all words); reader held from batch 1 to the end, a backup started after batch 2; file monitor at every effect boundary, quiescence and descriptor checks"
		return sc
	}
	gfam := func(name string, k cfg, quick bool) drv.Scenario {
		k.name, k.family = name, lww.GatedWords(mc.Tier())
		sc := drv.Scenario{Name: name, Body: bodyGatedFamily(k), Thorough: d0, Class: "files", MaxSteps: 1500000,
			Doc: "gated workload family: every word over the batch-shape alphabet (incl. a batch deleting every live document) x every member of the gate menu (none; merger parked before introducing a merge / before planning, persister parked after a round / before its purge; 1st or 2nd occurrence; reopened after 1 or 2 further batches); reader held from batch 1; file monitor at every effect boundary; quiescence and descriptor checks"}
		if quick {
			sc.Quick = d0
		}
		return sc
	}
	return []drv.Scenario{
		gfam("gated-family-aggressive-merges-keep1", cfg{keep: 1}, true),
		gfam("gated-family-unsafe-aggressive-merges-keep1", cfg{keep: 1, unsafe: true}, true),
		gfam("gated-family-partial-merges-keep2", cfg{keep: 2, plan: bx.PartialMergePlan}, false),
		gfam("gated-family-unsafe-default-plan-keep1", cfg{keep: 1, unsafe: true, plan: map[string]interface{}{}}, false),
		fam("family-writer+reader+copy-aggressive-merges-keep1", cfg{keep: 1, copy: true}),
		fam("family-writer+reader+copy-partial-merges-keep1", cfg{keep: 1, copy: true, plan: bx.PartialMergePlan}),
		fam("family-writer+reader+copy-default-plan-keep2", cfg{keep: 2, copy: true, plan: map[string]interface{}{}}),
		fam("family-unsafe-writer+reader+copy-aggressive-merges-keep1", cfg{keep: 1, copy: true, unsafe: true}),
		mk(cfg{name: "writer+reader-keep1", keep: 1, batches: 4}, d1r, d2),
		mk(cfg{name: "writer+reader+copy-keep1", keep: 1, batches: 4, copy: true}, d1r, d2),
		mk(cfg{name: "writer+reader+two-overlapping-copies-keep1", keep: 1, batches: 4, copy: true, copies: 2}, nil, d2),
		mk(cfg{name: "unsafe-writer+reader+two-overlapping-copies-keep1", keep: 1, batches: 4, copy: true, copies: 2, unsafe: true}, nil, d2),
		{Name: "slow-overlapping-backups-unsafe-keep1", Body: bodySlow(cfg{keep: 1, batches: 3}), Quick: d1r, Thorough: d2, Class: "files", MaxSteps: 1500000},
		{Name: "close-arrives-during-persist-unsafe", Body: bodyCloseDuringPersist(cfg{keep: 1, batches: 3}), Quick: d1r, Thorough: d2, Class: "files", MaxSteps: 1500000},
		{Name: "segment-emptied-while-being-persisted-unsafe", Doc: "an unsafe batch's only document is deleted by a low-priority delete-only batch while the persister is writing its segment file; at quiescence and after Close nothing of that file may remain (directory, descriptors, mappings)", Body: bodyEmptiedWhilePersisted(cfg{keep: 1}), Quick: d1r, Thorough: d2, Class: "files", MaxSteps: 1500000},
		{Name: "batch-introduced-between-merge-and-purge-keep1", Body: bodyPurgeGate(cfg{keep: 1}), Quick: d1r, Thorough: d2, Class: "files", MaxSteps: 1500000},
		mk(cfg{name: "writer+reader-keep3", keep: 3, batches: 4}, nil, d1),
		mk(cfg{name: "writer+reader-keep2-every-step", keep: 2, batches: 3, allStep: true}, nil, d1),
	}
}

func Describe(r *mc.Run) {
	r.Rule("E3: all schedules within the deviation bound of writer ∥ long-lived reader (∥ CopyTo) ∥ persister / merger / purger with a merge plan that forces a file merge after every batch; a monitor evaluated at every file-system effect boundary (one scenario: at every scheduling point) while all other threads are parked checks that every file named by a committed snapshot, by the current root or by a held reader exists; at quiescence disk = recorded snapshots, epochs ≤ keep+1, no growth over 8 idle rounds, no descriptor left after Close; an outcome is (files, epochs) at quiescence")
	r.Assume("the scorch-internal views (files named by root.bolt, current root files, ineligibleForRemoval, copyScheduled) are read through a build-time export file", "leak detection is 'no growth over 8 extra idle rounds', not hours")
}

var _ = mc.Root
