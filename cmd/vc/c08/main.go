package main

import (
	"verif/mc"
	"verif/props/c08"
)

func main() { mc.Main("C08", "model_checking", c08.Run) }
