//go:build verif

package scorch

import (
	"path/filepath"
	"sort"

	segment "github.com/blevesearch/scorch_segment_api/v2"
)

// VerifFileState is a read-only view used by the verification harness (added at build time
// through -overlay, never committed in the repository). It takes no locks: the harness calls it
// only while every other thread is parked by the cooperative scheduler.
type VerifFileState struct {
	BoltFiles  []string // files named by any snapshot committed in root.bolt
	RootFiles  []string // files of persisted segments of the current root
	Ineligible []string
	CopySched  []string
	Epochs     []uint64
	RootEpoch  uint64
	// in-memory (unpersisted) segments of the current root, and how many of them carry deletions
	MemSegments, MemSegmentsWithDeletions int
}

func (s *Scorch) VerifFileState() (*VerifFileState, error) {
	rv := &VerifFileState{}
	if s.rootBolt == nil {
		return rv, nil
	}
	names, err := s.loadZapFileNames()
	if err != nil {
		return nil, err
	}
	for n := range names {
		rv.BoltFiles = append(rv.BoltFiles, n)
	}
	sort.Strings(rv.BoltFiles)
	if s.root != nil {
		rv.RootEpoch = s.root.epoch
		for _, ss := range s.root.segment {
			if ps, ok := ss.segment.(segment.PersistedSegment); ok {
				rv.RootFiles = append(rv.RootFiles, filepath.Base(ps.Path()))
			} else {
				rv.MemSegments++
				if ss.deleted != nil && !ss.deleted.IsEmpty() {
					rv.MemSegmentsWithDeletions++
				}
			}
		}
	}
	for n := range s.ineligibleForRemoval {
		rv.Ineligible = append(rv.Ineligible, n)
	}
	sort.Strings(rv.Ineligible)
	for n, c := range s.copyScheduled {
		if c > 0 {
			rv.CopySched = append(rv.CopySched, n)
		}
	}
	sort.Strings(rv.CopySched)
	rv.Epochs, _ = s.RootBoltSnapshotEpochs()
	return rv, nil
}

// VerifSnapshotEpoch returns the epoch of an index snapshot (a reader).
func VerifSnapshotEpoch(is *IndexSnapshot) uint64 { return is.epoch }
