package ref

import (
	"fmt"
	"regexp"
	"sort"
	"strings"
	"time"

	"github.com/blevesearch/bleve/v2/document"
	"github.com/blevesearch/bleve/v2/mapping"
	index "github.com/blevesearch/bleve_index_api"
)

// Tok is one analysed token of a field value.
type Tok struct {
	Term string
	Pos  int
	Arr  string // array positions rendered
}

// RDoc is the reference view of a document: field -> tokens.
type RDoc struct {
	ID     string
	Fields map[string][]Tok
	Num    map[string][]float64
	Bool   map[string][]bool
	Date   map[string][]int64 // unix nanoseconds
}

func Analyse(m mapping.IndexMapping, id string, data interface{}) *RDoc {
	d := document.NewDocument(id)
	if err := m.MapDocument(d, data); err != nil {
		panic(err)
	}
	r := &RDoc{ID: id, Fields: map[string][]Tok{}, Num: map[string][]float64{}, Bool: map[string][]bool{}, Date: map[string][]int64{}}
	d.VisitFields(func(f index.Field) {
		if !f.Options().IsIndexed() {
			return
		}
		f.Analyze()
		switch ff := f.(type) {
		case *document.NumericField:
			v, _ := ff.Number()
			r.Num[f.Name()] = append(r.Num[f.Name()], v)
			return
		case *document.DateTimeField:
			v, _, _ := ff.DateTime()
			r.Date[f.Name()] = append(r.Date[f.Name()], v.UnixNano())
			return
		case *document.BooleanField:
			v, _ := ff.Boolean()
			r.Bool[f.Name()] = append(r.Bool[f.Name()], v)
			return
		}
		for _, tf := range f.AnalyzedTokenFrequencies() {
			for _, loc := range tf.Locations {
				r.Fields[f.Name()] = append(r.Fields[f.Name()], Tok{Term: string(tf.Term), Pos: loc.Position, Arr: fmt.Sprint(loc.ArrayPositions)})
			}
		}
	})
	return r
}

// Tri is a three-valued answer.
type Tri int

const (
	No Tri = iota
	Yes
	Either
)

// Q is the reference query AST.
type Q struct {
	Kind                          string // term match phrase prefix wildcard regexp fuzzy trange nrange bool docid all none conj disj boolean
	Field                         string
	Text                          string
	Terms                         []string
	And                           bool
	Fuzz                          int
	PLen                          int
	Min                           *float64
	Max                           *float64
	IncMin                        *bool
	IncMax                        *bool
	SMin                          string
	SMax                          string
	BVal                          bool
	Start, End                    time.Time // drange; zero = open
	IDs                           []string
	Subs                          []*Q // conj/disj
	DMin                          int
	Must, Should, MustNot, Filter []*Q
	ShouldMin                     int
}

func lev(a, b string, transp bool) int {
	ra, rb := []rune(a), []rune(b)
	d := make([][]int, len(ra)+1)
	for i := range d {
		d[i] = make([]int, len(rb)+1)
		d[i][0] = i
	}
	for j := range d[0] {
		d[0][j] = j
	}
	for i := 1; i <= len(ra); i++ {
		for j := 1; j <= len(rb); j++ {
			c := 1
			if ra[i-1] == rb[j-1] {
				c = 0
			}
			v := d[i-1][j] + 1
			if d[i][j-1]+1 < v {
				v = d[i][j-1] + 1
			}
			if d[i-1][j-1]+c < v {
				v = d[i-1][j-1] + c
			}
			if transp && i > 1 && j > 1 && ra[i-1] == rb[j-2] && ra[i-2] == rb[j-1] && d[i-2][j-2]+1 < v {
				v = d[i-2][j-2] + 1
			}
			d[i][j] = v
		}
	}
	return d[len(ra)][len(rb)]
}

func wildcardToRegexp(w string) string {
	var sb strings.Builder
	for _, r := range w {
		switch r {
		case '*':
			sb.WriteString(".*")
		case '?':
			sb.WriteString(".")
		default:
			sb.WriteString(regexp.QuoteMeta(string(r)))
		}
	}
	return sb.String()
}

func anyTerm(d *RDoc, field string, pred func(string) Tri) Tri {
	best := No
	for _, t := range d.Fields[field] {
		switch pred(t.Term) {
		case Yes:
			return Yes
		case Either:
			best = Either
		}
	}
	return best
}

func and3(a, b Tri) Tri {
	if a == No || b == No {
		return No
	}
	if a == Yes && b == Yes {
		return Yes
	}
	return Either
}
func or3(a, b Tri) Tri {
	if a == Yes || b == Yes {
		return Yes
	}
	if a == Either || b == Either {
		return Either
	}
	return No
}
func not3(a Tri) Tri {
	switch a {
	case Yes:
		return No
	case No:
		return Yes
	}
	return Either
}

// Eval evaluates q on d. analyse turns query text into terms for a field.
func Eval(q *Q, d *RDoc, analyse func(field, text string) []string) Tri {
	switch q.Kind {
	case "all":
		return Yes
	case "none":
		return No
	case "term":
		return anyTerm(d, q.Field, func(t string) Tri {
			if t == q.Text {
				return Yes
			}
			return No
		})
	case "match":
		terms := analyse(q.Field, q.Text)
		if len(terms) == 0 {
			return No
		}
		var res Tri
		if q.And {
			res = Yes
		} else {
			res = No
		}
		for _, term := range terms {
			sub := &Q{Kind: "term", Field: q.Field, Text: term}
			if q.Fuzz > 0 {
				sub = &Q{Kind: "fuzzy", Field: q.Field, Text: term, Fuzz: q.Fuzz, PLen: q.PLen}
			}
			r := Eval(sub, d, analyse)
			if q.And {
				res = and3(res, r)
			} else {
				res = or3(res, r)
			}
		}
		return res
	case "phrase":
		// consecutive positions inside one field value (same array positions)
		toks := d.Fields[q.Field]
		for _, t0 := range toks {
			if t0.Term != q.Terms[0] {
				continue
			}
			ok := true
			for k := 1; k < len(q.Terms); k++ {
				found := false
				for _, t := range toks {
					if t.Term == q.Terms[k] && t.Pos == t0.Pos+k && t.Arr == t0.Arr {
						found = true
						break
					}
				}
				if !found {
					ok = false
					break
				}
			}
			if ok {
				return Yes
			}
		}
		return No
	case "mphrase":
		terms := analyse(q.Field, q.Text)
		if len(terms) == 0 {
			return No
		}
		return Eval(&Q{Kind: "phrase", Field: q.Field, Terms: terms}, d, analyse)
	case "prefix":
		return anyTerm(d, q.Field, func(t string) Tri {
			if strings.HasPrefix(t, q.Text) {
				return Yes
			}
			return No
		})
	case "wildcard", "regexp":
		pat := q.Text
		if q.Kind == "wildcard" {
			pat = wildcardToRegexp(pat)
		}
		re := regexp.MustCompile("^(?:" + pat + ")$")
		return anyTerm(d, q.Field, func(t string) Tri {
			if re.MatchString(t) {
				return Yes
			}
			return No
		})
	case "fuzzy":
		return anyTerm(d, q.Field, func(t string) Tri {
			rt, rq := []rune(t), []rune(q.Text)
			pl := q.PLen
			if pl > len(rq) {
				pl = len(rq)
			}
			if len(rt) < pl || string(rt[:pl]) != string(rq[:pl]) {
				return No
			}
			l, dl := lev(q.Text, t, false), lev(q.Text, t, true)
			if l <= q.Fuzz {
				return Yes
			}
			if dl <= q.Fuzz {
				return Either
			}
			return No
		})
	case "trange":
		return anyTerm(d, q.Field, func(t string) Tri {
			if q.SMin != "" {
				if t < q.SMin || (t == q.SMin && q.IncMin != nil && !*q.IncMin) {
					return No
				}
			}
			if q.SMax != "" {
				incMax := q.IncMax != nil && *q.IncMax
				if t > q.SMax || (t == q.SMax && !incMax) {
					return No
				}
			}
			return Yes
		})
	case "nrange":
		for _, v := range d.Num[q.Field] {
			ok := true
			if q.Min != nil {
				incMin := q.IncMin == nil || *q.IncMin
				if v < *q.Min || (v == *q.Min && !incMin) {
					ok = false
				}
			}
			if q.Max != nil {
				incMax := q.IncMax != nil && *q.IncMax
				if v > *q.Max || (v == *q.Max && !incMax) {
					ok = false
				}
			}
			if ok {
				return Yes
			}
		}
		return No
	case "drange":
		for _, v := range d.Date[q.Field] {
			ok := true
			if !q.Start.IsZero() {
				incMin := q.IncMin == nil || *q.IncMin
				if v < q.Start.UnixNano() || (v == q.Start.UnixNano() && !incMin) {
					ok = false
				}
			}
			if !q.End.IsZero() {
				incMax := q.IncMax != nil && *q.IncMax
				if v > q.End.UnixNano() || (v == q.End.UnixNano() && !incMax) {
					ok = false
				}
			}
			if ok {
				return Yes
			}
		}
		return No
	case "bool":
		for _, v := range d.Bool[q.Field] {
			if v == q.BVal {
				return Yes
			}
		}
		return No
	case "docid":
		for _, id := range q.IDs {
			if id == d.ID {
				return Yes
			}
		}
		return No
	case "conj":
		res := Yes
		for _, s := range q.Subs {
			res = and3(res, Eval(s, d, analyse))
		}
		return res
	case "disj":
		return atLeast(q.Subs, q.DMin, d, analyse)
	case "boolean":
		res := Yes
		if len(q.Must) > 0 {
			for _, s := range q.Must {
				res = and3(res, Eval(s, d, analyse))
			}
		}
		if len(q.MustNot) > 0 {
			res = and3(res, not3(atLeast(q.MustNot, 1, d, analyse)))
		}
		if len(q.Filter) > 0 {
			for _, s := range q.Filter {
				res = and3(res, Eval(s, d, analyse))
			}
		}
		if len(q.Should) > 0 {
			if len(q.Must) > 0 {
				// should is optional unless a minimum is requested
				if q.ShouldMin >= 1 {
					res = and3(res, atLeast(q.Should, q.ShouldMin, d, analyse))
				}
			} else {
				// candidates come from the should clauses
				min := q.ShouldMin
				if min < 1 {
					min = 1
				}
				res = and3(res, atLeast(q.Should, min, d, analyse))
			}
		}
		return res
	}
	panic("unknown kind " + q.Kind)
}

func atLeast(subs []*Q, min int, d *RDoc, analyse func(field, text string) []string) Tri {
	if min <= 0 {
		min = 0
	}
	yes, either := 0, 0
	for _, s := range subs {
		switch Eval(s, d, analyse) {
		case Yes:
			yes++
		case Either:
			either++
		}
	}
	need := min
	if need == 0 {
		need = 1 // a disjunction always needs one matching clause to produce a hit
		if len(subs) == 0 {
			return No
		}
	}
	if yes >= need {
		return Yes
	}
	if yes+either >= need {
		return Either
	}
	return No
}

func keys(m map[string]bool) []string {
	var r []string
	for k := range m {
		r = append(r, k)
	}
	sort.Strings(r)
	return r
}
