package main

import (
	"verif/props/c12"
	"verif/sched/drv"
)

func main() { drv.Main("C12", "model_checking", c12.Scenarios(), c12.Describe) }
