// Package c09: searching an alias over shards equals searching one index with all documents.
//
// E2: every assignment of a small corpus to 3 shards × alias tree shapes × queries ×
// score-independent total sorts × every From/Size page × SearchAfter/SearchBefore from every
// hit, always with stored fields "*" and a bundle of facets whose size covers all buckets.
// Oracle: the same request on one in-memory index (same engine, same mapping) holding the
// whole corpus.
package c09

import (
	"fmt"
	"sort"
	"strings"
	"time"

	"github.com/blevesearch/bleve/v2"
	"github.com/blevesearch/bleve/v2/analysis/analyzer/keyword"
	"github.com/blevesearch/bleve/v2/mapping"
	"github.com/blevesearch/bleve/v2/search"

	"verif/bx"
	"verif/mc"
	"verif/ref"
)

const nShards = 3

var t0 = time.Date(2001, 2, 3, 4, 5, 6, 0, time.UTC)

type cdoc struct {
	id   string
	data map[string]interface{}
}

// corpus: ids, a keyword field k with duplicates (absent once), a numeric field n with
// duplicates (absent once), a date field d (absent once, duplicates), a multi-valued keyword
// field t (facets only; absent twice).
var corpusAll = []cdoc{
	{"a", map[string]interface{}{"k": "x", "n": 1.0, "d": t0, "t": []interface{}{"p", "q"}}},
	{"b", map[string]interface{}{"k": "y", "n": 2.0, "d": t0.Add(24 * time.Hour), "t": "p"}},
	{"c", map[string]interface{}{"k": "x", "n": 2.0, "d": t0}},
	{"d", map[string]interface{}{"t": []interface{}{"q", "r"}}},
	{"e", map[string]interface{}{"k": "z", "n": -1.0, "d": t0.Add(-time.Nanosecond), "t": "p"}},
	{"f", map[string]interface{}{"k": "y", "n": 1.0, "d": t0.Add(time.Hour), "t": []interface{}{"p", "r", "s"}}},
}

func newMapping() mapping.IndexMapping {
	m := bleve.NewIndexMapping()
	kf := bleve.NewTextFieldMapping()
	kf.Analyzer = keyword.Name
	m.DefaultMapping.AddFieldMappingsAt("k", kf)
	tf := bleve.NewTextFieldMapping()
	tf.Analyzer = keyword.Name
	m.DefaultMapping.AddFieldMappingsAt("t", tf)
	return m
}

func fp(f float64) *float64 { return &f }
func bp(b bool) *bool       { return &b }

// queries of the request family
func queries(full bool) []*ref.Q {
	qs := []*ref.Q{
		{Kind: "all"},
		{Kind: "term", Field: "k", Text: "x"},
		{Kind: "nrange", Field: "n", Min: fp(1)},
		{Kind: "disj", DMin: 1, Subs: []*ref.Q{{Kind: "term", Field: "k", Text: "y"}, {Kind: "term", Field: "t", Text: "q"}}},
		{Kind: "boolean", Must: []*ref.Q{{Kind: "all"}}, MustNot: []*ref.Q{{Kind: "term", Field: "k", Text: "x"}}},
	}
	if full {
		qs = append(qs,
			&ref.Q{Kind: "none"},
			&ref.Q{Kind: "docid", IDs: []string{"e", "zz", "a", "d"}},
			&ref.Q{Kind: "conj", Subs: []*ref.Q{{Kind: "term", Field: "t", Text: "p"}, {Kind: "nrange", Field: "n", Max: fp(2), IncMax: bp(true)}}},
		)
	}
	return qs
}

// sortSpec: a score-independent TOTAL order (every order ends in _id or is _id itself).
type sortSpec struct {
	name    string
	mk      func() search.SortOrder // fresh objects per request (SortField carries state)
	afterOK bool                    // keys for SearchAfter/Before can be taken from DecodedSort (typed fields)
}

func fld(name string, desc bool, typ search.SortFieldType, missFirst bool) *search.SortField {
	sf := &search.SortField{Field: name, Desc: desc, Type: typ}
	if missFirst {
		sf.Missing = search.SortFieldMissingFirst
	}
	return sf
}

func sorts(full bool) []sortSpec {
	id := func(desc bool) search.SearchSort { return &search.SortDocID{Desc: desc} }
	ss := []sortSpec{
		{"_id", func() search.SortOrder { return search.SortOrder{id(false)} }, true},
		{"-_id", func() search.SortOrder { return search.SortOrder{id(true)} }, true},
		{"k:string,_id", func() search.SortOrder {
			return search.SortOrder{fld("k", false, search.SortFieldAsString, false), id(false)}
		}, true},
		{"n:number,_id", func() search.SortOrder {
			return search.SortOrder{fld("n", false, search.SortFieldAsNumber, false), id(false)}
		}, true},
		{"-n:number,-_id", func() search.SortOrder {
			return search.SortOrder{fld("n", true, search.SortFieldAsNumber, false), id(true)}
		}, true},
	}
	if full {
		ss = append(ss,
			sortSpec{"-k:string,_id", func() search.SortOrder {
				return search.SortOrder{fld("k", true, search.SortFieldAsString, false), id(false)}
			}, true},
			sortSpec{"n:number:missing-first,k:string,_id", func() search.SortOrder {
				return search.SortOrder{fld("n", false, search.SortFieldAsNumber, true), fld("k", true, search.SortFieldAsString, true), id(false)}
			}, true},
			sortSpec{"d:date,_id", func() search.SortOrder {
				return search.SortOrder{fld("d", false, search.SortFieldAsDate, false), id(false)}
			}, true},
			sortSpec{"strings(-n,_id)", func() search.SortOrder { return search.ParseSortOrderStrings([]string{"-n", "_id"}) }, false},
		)
	}
	return ss
}

// addFacets attaches the facet bundle v to req. Every size covers all buckets (the
// property's precondition).
func addFacets(req *bleve.SearchRequest, v int) {
	req.AddFacet("kf", bleve.NewFacetRequest("k", 10))
	tf := bleve.NewFacetRequest("t", 4+v%2) // exactly the 4 distinct terms, or more
	req.AddFacet("tf", tf)
	nf := bleve.NewFacetRequest("n", 10)
	nf.AddNumericRange("low", fp(0), fp(2))
	nf.AddNumericRange("high", fp(2), nil)
	nf.AddNumericRange("neg", nil, fp(0))
	nf.AddNumericRange("wide", fp(-1), fp(2.5)) // overlaps the three others
	if v%2 == 1 {
		nf.AddNumericRange("nothing", fp(3), fp(3))
	}
	req.AddFacet("nf", nf)
	df := bleve.NewFacetRequest("d", 3)
	df.AddDateTimeRange("old", time.Time{}, t0)
	df.AddDateTimeRange("day0", t0, t0.Add(24*time.Hour))
	df.AddDateTimeRange("later", t0.Add(time.Hour), time.Time{})
	req.AddFacet("df", df)
	if v%2 == 1 {
		pf := bleve.NewFacetRequest("t", 10)
		pf.SetPrefixFilter("p")
		req.AddFacet("tf-prefix", pf)
		// two ranges with identical bounds under different names (legal: only names must differ)
		nt := bleve.NewFacetRequest("n", 10)
		nt.AddNumericRange("first", fp(0), fp(2.5))
		nt.AddNumericRange("second", fp(0), fp(2.5))
		req.AddFacet("nf-twins", nt)
		dt := bleve.NewFacetRequest("d", 10)
		dt.AddDateTimeRange("first", t0, time.Time{})
		dt.AddDateTimeRange("second", t0, time.Time{})
		req.AddFacet("df-twins", dt)
	}
}

// rendered is the comparable view of a search result: exactly what the property names.
type rendered struct {
	failed string
	total  uint64
	ids    []string
	keys   [][]string // DecodedSort per hit (not compared; source of SearchAfter keys)
	fields string
	facets map[string]facetR
}

type facetR struct {
	tmo      string // Total/Missing/Other
	ordered  string // terms in result order
	asSet    string // buckets sorted by name
	nBuckets int
}

func render(res *bleve.SearchResult) *rendered {
	rv := &rendered{total: res.Total, facets: map[string]facetR{}}
	if res.Status != nil && (res.Status.Failed > 0 || len(res.Status.Errors) > 0) {
		rv.failed = fmt.Sprintf("status failed=%d errors=%v", res.Status.Failed, res.Status.Errors)
	}
	var fb strings.Builder
	for _, h := range res.Hits {
		rv.ids = append(rv.ids, h.ID)
		rv.keys = append(rv.keys, append([]string{}, h.DecodedSort...))
		var fs []string
		for k, v := range h.Fields {
			fs = append(fs, fmt.Sprintf("%s=%v", k, v))
		}
		sort.Strings(fs)
		fmt.Fprintf(&fb, "%s{%s} ", h.ID, strings.Join(fs, ","))
	}
	rv.fields = fb.String()
	for name, f := range res.Facets {
		fr := facetR{tmo: fmt.Sprintf("total=%d missing=%d other=%d", f.Total, f.Missing, f.Other)}
		var l []string
		if f.Terms != nil {
			for _, t := range f.Terms.Terms() {
				l = append(l, fmt.Sprintf("%s=%d", t.Term, t.Count))
			}
		}
		for _, x := range f.NumericRanges {
			l = append(l, fmt.Sprintf("%s=%d", x.Name, x.Count))
		}
		for _, x := range f.DateRanges {
			l = append(l, fmt.Sprintf("%s=%d", x.Name, x.Count))
		}
		fr.ordered = strings.Join(l, " ")
		fr.nBuckets = len(l)
		sort.Strings(l)
		fr.asSet = strings.Join(l, " ")
		rv.facets[name] = fr
	}
	return rv
}

func (x *rendered) String() string {
	var fn []string
	for n := range x.facets {
		fn = append(fn, n)
	}
	sort.Strings(fn)
	s := fmt.Sprintf("total=%d ids=%v fields=%s", x.total, x.ids, x.fields)
	for _, n := range fn {
		s += fmt.Sprintf("| %s %s: %s ", n, x.facets[n].tmo, x.facets[n].ordered)
	}
	if x.failed != "" {
		s += "| " + x.failed
	}
	return s
}

const (
	modePage = iota
	modeAfter
	modeBefore
)

var modeName = []string{"page", "after", "before"}

type reqSpec struct {
	q, s       int
	mode       int
	from, size int
	keys       []string
}

func (c *ctx) build(sp reqSpec) *bleve.SearchRequest {
	req := bleve.NewSearchRequest(ref.ToBleve(c.qs[sp.q]))
	req.From, req.Size = sp.from, sp.size
	req.SortByCustom(c.ss[sp.s].mk())
	req.Fields = []string{"*"}
	addFacets(req, sp.q+sp.s)
	switch sp.mode {
	case modeAfter:
		req.SetSearchAfter(append([]string{}, sp.keys...))
	case modeBefore:
		req.SetSearchBefore(append([]string{}, sp.keys...))
	}
	return req
}

// run executes one request, converting panics and errors.
func run(idx bleve.Index, req *bleve.SearchRequest) (rv *rendered, problem string) {
	var res *bleve.SearchResult
	var err error
	pv, st := mc.Try(func() { res, err = idx.Search(req) })
	if pv != nil {
		return nil, fmt.Sprintf("panic %v @ %s", pv, mc.TrimStack(st))
	}
	if err != nil {
		return nil, "error " + err.Error()
	}
	return render(res), ""
}

// want holds the single-index answers for one (query, sort).
type want struct {
	listing *rendered     // From=0, Size=all
	pages   [][]*rendered // [from][sizeIdx]
	after   [][]*rendered // [hit][afterSizeIdx]
	before  [][]*rendered // [hit][afterSizeIdx]
	afterP  [][]string    // problems (single index rejected the request)
	beforeP [][]string
}

func (w *want) flat() string {
	var sb strings.Builder
	str := func(x *rendered) {
		if x == nil {
			sb.WriteString("<rejected>")
		} else {
			sb.WriteString(x.String())
			fmt.Fprint(&sb, x.keys)
		}
		sb.WriteString("\n")
	}
	str(w.listing)
	for _, l := range [][][]*rendered{w.pages, w.after, w.before} {
		for _, row := range l {
			for _, x := range row {
				str(x)
			}
		}
	}
	return sb.String()
}

func (w *want) same(o *want) bool { return w.flat() == o.flat() }

type ctx struct {
	r          *mc.Run
	docs       []cdoc
	qs         []*ref.Q
	ss         []sortSpec
	sizes      []int // page sizes
	froms      []int
	afterSizes []int
}

func (c *ctx) docData() map[string]any {
	m := map[string]any{}
	for _, d := range c.docs {
		m[d.id] = d.data
	}
	return m
}

type engineCfg struct {
	name   string
	n      int  // corpus size
	full   bool // full request family (thorough) or the quick one
	oracle bx.Engine
	shard  [nShards]bx.Engine
}

func put(idx bleve.Index, d cdoc) {
	if err := idx.Index(d.id, d.data); err != nil {
		panic(err)
	}
}

// oracle computes the expected answers of every request of the family on one index.
func (c *ctx) oracle(single bleve.Index) [][]*want {
	n := len(c.docs)
	ws := make([][]*want, len(c.qs))
	for q := range c.qs {
		ws[q] = make([]*want, len(c.ss))
	}
	c.r.ParFor(len(c.qs)*len(c.ss), 0, func(i int) {
		q, s := i/len(c.ss), i%len(c.ss)
		w := &want{}
		must := func(sp reqSpec) *rendered {
			rv, p := run(single, c.build(sp))
			c.r.Eval(1)
			if p != "" {
				panic(fmt.Sprintf("single index rejected a page request %+v: %s", sp, p))
			}
			return rv
		}
		w.listing = must(reqSpec{q: q, s: s, size: n + 1})
		for _, from := range c.froms {
			var row []*rendered
			for _, size := range c.sizes {
				row = append(row, must(reqSpec{q: q, s: s, from: from, size: size}))
			}
			w.pages = append(w.pages, row)
		}
		if c.ss[s].afterOK {
			for h := range w.listing.ids {
				var ra, rb []*rendered
				var pa, pb []string
				for _, size := range c.afterSizes {
					x, p := run(single, c.build(reqSpec{q: q, s: s, mode: modeAfter, size: size, keys: w.listing.keys[h]}))
					ra, pa = append(ra, x), append(pa, p)
					x, p = run(single, c.build(reqSpec{q: q, s: s, mode: modeBefore, size: size, keys: w.listing.keys[h]}))
					rb, pb = append(rb, x), append(pb, p)
					c.r.Eval(2)
				}
				w.after, w.afterP = append(w.after, ra), append(w.afterP, pa)
				w.before, w.beforeP = append(w.before, rb), append(w.beforeP, pb)
			}
		}
		ws[q][s] = w
	})
	return ws
}

type shapeSpec struct {
	name     string
	mk       func(s []bleve.Index, whole bleve.Index) bleve.Index
	when     func(counts [nShards]int) bool
	thorough bool // not on every assignment in the quick tier (quick: only when a shard is empty)
}

var shapes = []shapeSpec{
	{"flat(s0,s1,s2)", func(s []bleve.Index, _ bleve.Index) bleve.Index { return bleve.NewIndexAlias(s...) }, nil, false},
	{"alias(alias(s0,s1),s2)", func(s []bleve.Index, _ bleve.Index) bleve.Index {
		in := bleve.NewIndexAlias(s[0], s[1])
		in.SetName("inner01")
		return bleve.NewIndexAlias(in, s[2])
	}, nil, false},
	{"alias(alias(s0),alias(s1,s2))", func(s []bleve.Index, _ bleve.Index) bleve.Index {
		a := bleve.NewIndexAlias(s[0])
		a.SetName("inner0")
		b := bleve.NewIndexAlias(s[1], s[2])
		b.SetName("inner12")
		return bleve.NewIndexAlias(a, b)
	}, nil, true},
	// two members only: legal whenever the third shard holds nothing
	{"flat(s0,s1)", func(s []bleve.Index, _ bleve.Index) bleve.Index { return bleve.NewIndexAlias(s[0], s[1]) },
		func(c [nShards]int) bool { return c[2] == 0 }, false},
	// alias of one (and alias of alias of one): legal whenever one shard holds everything
	{"alias(alias(s0))", func(s []bleve.Index, _ bleve.Index) bleve.Index {
		in := bleve.NewIndexAlias(s[0])
		in.SetName("inner0")
		return bleve.NewIndexAlias(in)
	}, func(c [nShards]int) bool { return c[1] == 0 && c[2] == 0 }, false},
}

// pending collects the violations of one enumeration item so that they can be reported in
// enumeration order (deterministic first counterexample per class).
type pend struct {
	class, detail string
	replay        map[string]any
	count         int
}

type pending struct {
	order []string
	m     map[string]*pend
}

// bump counts one more counterexample of a class already recorded (and says whether it was).
func (p *pending) bump(class string) bool {
	if e, ok := p.m[class]; ok {
		e.count++
		return true
	}
	return false
}

func (p *pending) add(class, detail string, replay map[string]any) {
	if p.m == nil {
		p.m = map[string]*pend{}
	}
	if e, ok := p.m[class]; ok {
		e.count++
		return
	}
	p.m[class] = &pend{class, detail, replay, 1}
	p.order = append(p.order, class)
}

// compare reports every component of the property on which got differs from exp.
func compare(exp, got *rendered, sizeZero bool, mode string, add func(what, detail string)) {
	pm := mode
	if sizeZero {
		pm = mode + "(size=0)"
	}
	if got.failed != "" {
		add(mode+":member-search-failed", got.failed)
		return
	}
	if exp.total != got.total {
		add(pm+":total", fmt.Sprintf("Total %d, single index %d", got.total, exp.total))
	}
	if strings.Join(exp.ids, ",") != strings.Join(got.ids, ",") {
		add(pm+":hits", fmt.Sprintf("hits %v, single index %v", got.ids, exp.ids))
	} else if exp.fields != got.fields {
		add(pm+":stored-fields", fmt.Sprintf("fields %s, single index %s", got.fields, exp.fields))
	}
	for name, ef := range exp.facets {
		gf, ok := got.facets[name]
		kind := map[byte]string{'k': "terms", 't': "terms", 'n': "numeric", 'd': "date"}[name[0]]
		if strings.HasSuffix(name, "-twins") {
			kind += "(two ranges with identical bounds)"
		}
		if !ok {
			add("facet-"+kind+":absent", fmt.Sprintf("facet %s absent from the alias result; single index: %s %s", name, ef.tmo, ef.ordered))
			continue
		}
		if ef.asSet != gf.asSet {
			add("facet-"+kind+":counts", fmt.Sprintf("facet %s buckets {%s}, single index {%s}", name, gf.asSet, ef.asSet))
		} else if kind == "terms" && ef.ordered != gf.ordered {
			add("facet-"+kind+":order", fmt.Sprintf("facet %s terms [%s], single index [%s]", name, gf.ordered, ef.ordered))
		}
		if ef.tmo != gf.tmo {
			add("facet-"+kind+":total-missing-other", fmt.Sprintf("facet %s %s (buckets %s), single index %s (buckets %s)", name, gf.tmo, gf.ordered, ef.tmo, ef.ordered))
		}
	}
	for name := range got.facets {
		if _, ok := exp.facets[name]; !ok {
			add("facet:unrequested", "facet "+name+" only in the alias result")
		}
	}
}

func newCtx(r *mc.Run, n int, full bool) *ctx {
	c := &ctx{r: r, docs: corpusAll[:n], qs: queries(full), ss: sorts(full)}
	for i := 0; i <= n+1; i++ {
		if i <= n || full { // From = n+1 adds nothing over From = n except on the full family
			c.froms = append(c.froms, i)
		}
		c.sizes = append(c.sizes, i)
	}
	c.sizes = append(c.sizes, 11) // size+from > 10 switches the collector's store
	c.afterSizes = []int{1, 2, n + 1}
	return c
}

func Run(r *mc.Run) {
	sc, ud := bx.MemEngines[0], bx.MemEngines[1]
	// corpus size and request family are part of the configuration: the 6-document corpus with
	// the full family is run on scorch members, the other member engines on the 5-document corpus
	// with the quick family (3^6 × the full family × 3 engine configurations does not fit the time box)
	cfgs := []engineCfg{{"scorch", mc.Pick(r, 5, 6), !r.Quick(), sc, [nShards]bx.Engine{sc, sc, sc}}}
	if !r.Quick() {
		cfgs = append(cfgs,
			engineCfg{"upsidedown", 5, false, ud, [nShards]bx.Engine{ud, ud, ud}},
			engineCfg{"mixed(scorch,upsidedown,scorch)", 5, false, sc, [nShards]bx.Engine{sc, ud, sc}})
	}
	pow := func(n int) int {
		p := 1
		for i := 0; i < n; i++ {
			p *= nShards
		}
		return p
	}
	c0 := newCtx(r, cfgs[0].n, cfgs[0].full)
	n := cfgs[0].n
	var cfgNames []string
	for _, cfg := range cfgs {
		fam := "quick request family (5 queries × 5 sorts)"
		if cfg.full {
			fam = "full request family"
		}
		cfgNames = append(cfgNames, fmt.Sprintf("%s: %d documents, %d assignments, %s", cfg.name, cfg.n, pow(cfg.n), fam))
	}
	r.Rule(fmt.Sprintf("E2: every assignment of a corpus (ids; keyword k with duplicates/absent; numeric n with duplicates/absent; date d; multi-valued keyword t) to %d shards, empty and skewed shards included (member engines and corpus sizes: %v) × alias shapes {flat, alias(alias(s0,s1),s2), alias(alias(s0),alias(s1,s2)), two-member alias when s2 is empty, alias(alias(s0)) when s0 holds everything} × %d queries × %d score-independent total sorts × every From∈[0,%d] × Size∈[0,%d]∪{11} page (quick family: From ≤ corpus size) × SearchAfter and SearchBefore from every hit of the full listing (keys = the alias's own DecodedSort values, sizes %v), every request with Fields=* and 4–7 facets (terms with size ≥ buckets, prefix-filtered terms, overlapping/open/empty numeric ranges, date ranges, two equally-bounded ranges under different names); oracle = the same request on one in-memory index of the same engine holding the whole corpus: Total, ordered ids, stored fields, facet buckets and Total/Missing/Other; an outcome is (mode, query, Total, number of hits)",
		nShards, cfgNames, len(c0.qs), len(c0.ss), n+1, n+1, c0.afterSizes))
	r.Assume("only score-independent total sort orders are in the property; scores, MaxScore and Took are not compared",
		"facet sizes cover all buckets (property text); range facets are compared as name→count sets, terms facets also in order",
		"a SearchAfter/SearchBefore request that the single index itself rejects is outside the property (the alias must then not succeed silently either)",
		"all members share one mapping; members are in-memory indexes",
		"quick tier: the shape alias(alias(s0),alias(s1,s2)) is run only on assignments with an empty shard")
	r.Note("queries", func() []string {
		var l []string
		for _, q := range c0.qs {
			l = append(l, q.String())
		}
		return l
	}())
	r.Note("sorts", func() []string {
		var l []string
		for _, s := range c0.ss {
			l = append(l, s.name)
		}
		return l
	}())

	m := newMapping()
	for ci, cfg := range cfgs {
		if r.Expired() {
			r.Cap("deadline before engine configuration " + cfg.name)
			break
		}
		c := newCtx(r, cfg.n, cfg.full)
		nAssign := pow(cfg.n)
		single := cfg.oracle.Mk(m)
		for _, d := range c.docs {
			put(single, d)
		}
		ws := c.oracle(single)
		if ci == 0 {
			w := ws[0][2]
			r.Sample(map[string]any{"shards": "a,c | b,e | d", "alias": shapes[1].name, "query": c.qs[0].String(), "sort": c.ss[2].name, "from": 1, "size": 2, "single_index_answer": w.pages[1][2].String()})
			w = ws[2][4]
			if len(w.after) > 0 {
				r.Sample(map[string]any{"shards": "(none) | a,b,c,d,e | (none)", "alias": shapes[0].name, "query": c.qs[2].String(), "sort": c.ss[4].name, "search_after": w.listing.keys[0], "size": 2, "single_index_answer": w.after[0][1].String()})
			}
			w = ws[3][1]
			r.Sample(map[string]any{"query": c.qs[3].String(), "sort": c.ss[1].name, "from": 0, "size": 0, "single_index_answer": w.pages[0][0].String()})
		}
		if cfg.shard[1].Name != cfg.oracle.Name {
			// mixed member engines: the comparison is meaningful only where the two engines agree
			// as single indexes (anything else is not the alias's doing): such families are skipped
			other := cfg.shard[1].Mk(m)
			for _, d := range c.docs {
				put(other, d)
			}
			ws2 := c.oracle(other)
			other.Close()
			for q := range ws {
				for s := range ws[q] {
					if !ws[q][s].same(ws2[q][s]) {
						ws[q][s] = nil
						r.Count("mixed_engine_families_skipped_because_single_indexes_of_the_two_engines_differ", 1)
					}
				}
			}
		}
		pends := make([]pending, nAssign)
		r.ParFor(nAssign, 0, func(a int) {
			c.assignment(cfg, m, a, ws, &pends[a])
		})
		for a := range pends {
			for _, cl := range pends[a].order {
				e := pends[a].m[cl]
				for k := 0; k < e.count; k++ {
					r.Violation(e.class, e.detail, e.replay)
				}
			}
		}
		single.Close()
	}
}

func (c *ctx) assignment(cfg engineCfg, m mapping.IndexMapping, a int, ws [][]*want, pd *pending) {
	r := c.r
	shards := make([]bleve.Index, nShards)
	for s := range shards {
		shards[s] = cfg.shard[s].Mk(m)
		shards[s].SetName(fmt.Sprintf("s%d", s))
	}
	defer func() {
		for _, s := range shards {
			s.Close()
		}
	}()
	var counts [nShards]int
	where := map[string]int{}
	layout := make([][]string, nShards)
	for i := range layout {
		layout[i] = []string{}
	}
	x := a
	for _, d := range c.docs {
		s := x % nShards
		x /= nShards
		put(shards[s], d)
		counts[s]++
		where[d.id] = s
		layout[s] = append(layout[s], d.id)
	}
	empty := 0
	for _, k := range counts {
		if k == 0 {
			empty++
		}
	}
	r.Count(fmt.Sprintf("assignments_with_%d_empty_shards", empty), 1)
	for _, sh := range shapes {
		if sh.when != nil && !sh.when(counts) {
			continue
		}
		if sh.thorough && r.Quick() && empty == 0 {
			continue
		}
		if r.Expired() {
			return
		}
		al := sh.mk(shards, nil)
		r.Count("alias_instances:"+sh.name, 1)
		for q := range c.qs {
			for s := range c.ss {
				if ws[q][s] != nil {
					c.family(cfg, sh.name, al, layout, where, q, s, ws[q][s], pd)
				}
			}
		}
	}
}

// family runs every page and every SearchAfter/Before request of one (query, sort) on alias al.
func (c *ctx) family(cfg engineCfg, shape string, al bleve.Index, layout [][]string, where map[string]int, q, s int, w *want, pd *pending) {
	r := c.r
	one := func(sp reqSpec, exp *rendered, expProblem string) *rendered {
		got, problem := run(al, c.build(sp))
		r.Eval(1)
		mode := modeName[sp.mode]
		replay := func() map[string]any {
			rp := map[string]any{"engine": cfg.name, "shards": layout, "alias": shape, "query": c.qs[sp.q].String(), "sort": c.ss[sp.s].name,
				"from": sp.from, "size": sp.size, "facet_bundle": (sp.q + sp.s) % 2, "fields": "*", "documents": c.docData(),
				"mapping": "default mapping; k and t: text fields with the keyword analyzer", "facets": "see addFacets in props/c09/c09.go (bundle = facet_bundle)"}
			if sp.mode != modePage {
				rp["search_"+mode] = sp.keys
			}
			if exp != nil {
				rp["single_index"] = exp.String()
			}
			if got != nil {
				rp["alias"+"_result"] = got.String()
			}
			return rp
		}
		if expProblem != "" {
			// the single index itself rejects the request: outside the property, but the alias must not invent an answer
			r.Count("requests_rejected_by_single_index", 1)
			if problem == "" && got.failed == "" {
				pd.add(mode+":alias-answers-what-single-index-rejects", fmt.Sprintf("%s %s q=%s sort=%s keys=%q: single index: %s; alias returned %s", cfg.name, shape, c.qs[q], c.ss[s].name, sp.keys, expProblem, got), replay())
			}
			return nil
		}
		if problem != "" {
			kind := "error"
			if strings.HasPrefix(problem, "panic") {
				kind = "panic"
			}
			pd.add(mode+":"+kind, fmt.Sprintf("%s %s shards=%v q=%s sort=%s from=%d size=%d keys=%q: %s", cfg.name, shape, layout, c.qs[q], c.ss[s].name, sp.from, sp.size, sp.keys, problem), replay())
			return nil
		}
		r.Outcome(fmt.Sprintf("%s|q%d|total=%d|hits=%d", mode, sp.q, got.total, len(got.ids)))
		if sp.mode == modePage && len(got.ids) > 1 {
			first, multi := where[got.ids[0]], false
			for _, id := range got.ids {
				if where[id] != first {
					multi = true
				}
			}
			if multi {
				r.Count("pages_with_hits_from_several_shards", 1)
			}
		}
		compare(exp, got, sp.size == 0, mode, func(what, detail string) {
			if pd.bump(what) {
				return
			}
			pd.add(what, fmt.Sprintf("%s %s shards=%v q=%s sort=%s from=%d size=%d keys=%q: %s", cfg.name, shape, layout, c.qs[q], c.ss[s].name, sp.from, sp.size, sp.keys, detail), replay())
		})
		return got
	}
	n := len(c.docs)
	listing := one(reqSpec{q: q, s: s, size: n + 1}, w.listing, "")
	for fi, from := range c.froms {
		for si, size := range c.sizes {
			one(reqSpec{q: q, s: s, from: from, size: size}, w.pages[fi][si], "")
		}
	}
	if !c.ss[s].afterOK {
		return
	}
	if listing == nil || strings.Join(listing.ids, ",") != strings.Join(w.listing.ids, ",") {
		r.Count("after_before_skipped_because_listing_already_differs", 1)
		return
	}
	for h := range listing.ids {
		keys := listing.keys[h]
		if strings.Join(keys, "\x00") != strings.Join(w.listing.keys[h], "\x00") {
			r.Count("hits_whose_alias_sort_keys_differ_from_single_index_keys", 1)
		}
		for zi, size := range c.afterSizes {
			one(reqSpec{q: q, s: s, mode: modeAfter, size: size, keys: keys}, w.after[h][zi], w.afterP[h][zi])
			one(reqSpec{q: q, s: s, mode: modeBefore, size: size, keys: keys}, w.before[h][zi], w.beforeP[h][zi])
			r.Count("search_after_before_requests", 2)
		}
	}
}
