package main

import (
	"verif/props/c13/c13sched"
	"verif/sched/drv"
)

// Companion of the plain-flavour C13 check: schedule exploration of the scenarios in which a batch
// lands inside the persister's in-memory merge window; run with -summary and folded into C13's evidence.
func main() { drv.Main("C13", "model_checking", c13sched.Scenarios(), c13sched.Describe) }
