package main

import (
	"verif/mc"
	"verif/props/c18"
)

func main() { mc.Main("C18", "model_checking", c18.Run) }
