package c20

import (
	"fmt"
	"testing"
)

func TestSizes(t *testing.T) {
	for _, quick := range []bool{true, false} {
		f := families(quick)
		base := baseQueries(quick)
		wr := wrapped(quick)
		fmt.Println("quick", quick, "docs", len(f[0].docs), len(f[1].docs), len(f[2].docs), "base", len(base), "wrapped", len(wr))
	}
}
