package main

import (
	"verif/mc"
	"verif/props/c09"
)

func main() { mc.Main("C09", "model_checking", c09.Run) }
