// Package c02: a search returns exactly the matching live documents.
//
// E2: the cartesian product corpora × layouts × query trees × request options × engines
// (× searcher tuning knobs), every member evaluated on the real index and on the
// three-valued reference evaluator over the analysed tokens of the live documents.
package c02

import (
	"fmt"
	"strings"
	"time"

	"github.com/blevesearch/bleve/v2"
	"github.com/blevesearch/bleve/v2/index/scorch"
	"github.com/blevesearch/bleve/v2/search/searcher"

	"verif/bx"
	"verif/gen"
	"verif/mc"
	"verif/ref"
)

type opt struct {
	score     string
	locations bool
	explain   bool
}

func (o opt) String() string {
	return fmt.Sprintf("score=%q locations=%v explain=%v", o.score, o.locations, o.explain)
}

var allOpts = []opt{
	{"", false, false}, {"none", false, false}, {"", true, false}, {"none", true, false},
	{"", false, true}, {"none", false, true}, {"", true, true}, {"none", true, true},
}

// layouts of the same live corpus
const (
	layOneBatch = iota // one segment
	layPerDoc          // one segment per document
	layChurn           // per-document segments + a deleted extra doc + one doc deleted and re-indexed + one updated from other content
	nLayouts
	// layMergedDisk (scorch, full corpus only): on disk, merging suppressed; a ghost and the first two
	// thirds of the corpus in per-document batches, ghost deleted, ForceMerge (ONE MERGED segment: 1-hit
	// postings for fields without term vectors, compacted doc numbers), then the rest as single-document
	// segments, one of them deleted and re-indexed
	layMergedDisk = nLayouts
)

var diskCleanups []func()

var quickOpts = []opt{{"", false, false}, {"none", false, false}, {"", true, true}, {"none", true, false}}

var layoutName = []string{"one-batch", "per-doc", "churn", "disk:merged+singles"}

// build creates the index holding exactly the documents sel (indexes into the alphabet).
func build(eng bx.Engine, sel []int, layout int) bleve.Index {
	m := gen.TextMapping()
	chk := func(err error) {
		if err != nil {
			panic(err)
		}
	}
	if layout == layMergedDisk {
		idx, cleanup, err := bx.DiskScorch(m, map[string]interface{}{"scorchMergePlanOptions": bx.NoMergePlan})
		chk(err)
		diskCleanups = append(diskCleanups, cleanup)
		chk(idx.Index("ghost", map[string]interface{}{"t": "x y xy yx xyx", "u": "x y", "n": 1.0, "f": true, "d": gen.T0}))
		cut := len(sel) * 2 / 3
		for _, i := range sel[:cut] {
			chk(idx.Index(gen.DocID(i), gen.DocAlphabet[i]))
		}
		chk(idx.Delete("ghost"))
		chk(bx.ForceMergeNow(idx))
		for _, i := range sel[cut:] {
			chk(idx.Index(gen.DocID(i), gen.DocAlphabet[i]))
		}
		if len(sel) > 1 {
			i := sel[len(sel)-1]
			chk(idx.Delete(gen.DocID(i)))
			chk(idx.Index(gen.DocID(i), gen.DocAlphabet[i]))
		}
		bx.Quiesce(idx, 3*time.Second)
		return idx
	}
	idx := eng.Mk(m)
	switch layout {
	case layOneBatch:
		b := idx.NewBatch()
		for _, i := range sel {
			chk(b.Index(gen.DocID(i), gen.DocAlphabet[i]))
		}
		chk(idx.Batch(b))
	case layPerDoc:
		for _, i := range sel {
			chk(idx.Index(gen.DocID(i), gen.DocAlphabet[i]))
		}
	case layChurn:
		// a ghost document that matches a lot, deleted later
		chk(idx.Index("ghost", map[string]interface{}{"t": "x y xy yx xyx", "u": "x y", "n": 1.0, "f": true, "d": gen.T0}))
		for k, i := range sel {
			if k == 0 {
				// first indexed with other content, updated below
				chk(idx.Index(gen.DocID(i), map[string]interface{}{"t": "yx xy", "u": "y", "n": 2.0}))
				continue
			}
			chk(idx.Index(gen.DocID(i), gen.DocAlphabet[i]))
		}
		chk(idx.Delete("ghost"))
		chk(idx.Delete("absent"))
		if len(sel) > 1 {
			i := sel[len(sel)-1]
			chk(idx.Delete(gen.DocID(i)))
			chk(idx.Index(gen.DocID(i), gen.DocAlphabet[i]))
		}
		chk(idx.Index(gen.DocID(sel[0]), gen.DocAlphabet[sel[0]]))
	}
	return idx
}

type knob struct {
	name      string
	heap      int
	maxClause int
	minCard   uint64
}

var defaultKnob = knob{"default", 10, 0, 256}

func setKnob(k knob) {
	searcher.DisjunctionHeapTakeover = k.heap
	searcher.DisjunctionMaxClauseCount = k.maxClause
	scorch.OptimizeDisjunctionUnadornedMinChildCardinality = k.minCard
}

type corpus struct {
	sel   []int
	rdocs []*ref.RDoc
}

func mkCorpus(sel []int) corpus {
	m := gen.TextMapping()
	c := corpus{sel: sel}
	for _, i := range sel {
		c.rdocs = append(c.rdocs, ref.Analyse(m, gen.DocID(i), gen.DocAlphabet[i]))
	}
	return c
}

func classOf(eng string, q *ref.Q, kind string) string {
	sh := ref.ShapeAbs(q)
	if sh == "·" {
		sh = q.Kind
	}
	if q.Kind == "prefix" && q.Text == "" {
		sh = "prefix(empty)"
	}
	return fmt.Sprintf("%s:%s:%s", kind, eng, sh)
}

// evalOne runs q with every option on idx and compares with the reference.
func evalOne(r *mc.Run, kn knob, eng string, idx bleve.Index, c corpus, layout int, q *ref.Q, opts []opt, analyse func(string, string) []string) {
	must, may := ref.Expected(q, c.rdocs, analyse)
	bq := ref.ToBleve(q)
	var first []string
	for oi, o := range opts {
		req := bleve.NewSearchRequest(bq)
		req.Size = len(c.sel) + 3
		req.Score = o.score
		req.IncludeLocations = o.locations
		req.Explain = o.explain
		rep := map[string]any{"engine": eng, "knobs": kn, "layout": layoutName[layout], "corpus": c.sel, "query": q.String(), "options": o.String()}
		var res *bleve.SearchResult
		var err error
		pv, st := mc.Try(func() { res, err = idx.Search(req) })
		r.Eval(1)
		if pv != nil {
			r.Violation(classOf(eng, q, "panic"), fmt.Sprintf("%v: panic %v @ %s", rep, pv, mc.TrimStack(st)), rep)
			return
		}
		if err != nil {
			if kn.maxClause > 0 && strings.Contains(err.Error(), "TooManyClauses") {
				r.Count("too_many_clauses_errors(documented, knob)", 1)
				return
			}
			r.Violation(classOf(eng, q, "error"), fmt.Sprintf("%v: error %v", rep, err), rep)
			return
		}
		got := map[string]bool{}
		for _, h := range res.Hits {
			if got[h.ID] {
				r.Violation(classOf(eng, q, "duplicate"), fmt.Sprintf("%v: %s returned twice", rep, h.ID), rep)
			}
			got[h.ID] = true
		}
		var miss, extra []string
		for id := range must {
			if !got[id] {
				miss = append(miss, id)
			}
		}
		for id := range got {
			if !must[id] && !may[id] {
				extra = append(extra, id)
			}
		}
		if len(miss) > 0 {
			r.Violation(classOf(eng, q, "missing"), fmt.Sprintf("%v: missing %v (got %v)", rep, miss, bx.Keys(got)), rep)
		}
		if len(extra) > 0 {
			r.Violation(classOf(eng, q, "extra"), fmt.Sprintf("%v: extra %v (got %v)", rep, extra, bx.Keys(got)), rep)
		}
		if int(res.Total) != len(got) {
			r.Violation(classOf(eng, q, "total"), fmt.Sprintf("%v: Total=%d distinct hits=%d", rep, res.Total, len(got)), rep)
		}
		ids := bx.Keys(got)
		if oi == 0 {
			first = ids
			r.Outcome(fmt.Sprintf("%s|%d", q.Kind, len(ids)))
		} else if strings.Join(first, ",") != strings.Join(ids, ",") {
			r.Violation(classOf(eng, q, "option-dependent"), fmt.Sprintf("%v: hits %v differ from %v under %s", rep, ids, first, opts[0]), rep)
		}
	}
}

func Run(r *mc.Run) {
	defer setKnob(defaultKnob)
	analyse := ref.Analyser(gen.TextMapping())
	ls := gen.Leaves()
	full := append([]*ref.Q{}, ls...)
	full = append(full, gen.Depth2(gen.Reduced(ls, mc.Pick(r, 5, 3), "phrase", "fuzzy", "mphrase"))...)
	small := append([]*ref.Q{}, ls...)
	small = append(small, gen.Depth2(gen.Reduced(ls, mc.Pick(r, 14, 6), "phrase"))...)
	// depth 3 over a small leaf subset
	var d3 []*ref.Q
	red3 := gen.Reduced(ls, mc.Pick(r, 16, 11))
	for _, a := range red3 {
		for _, b := range red3 {
			inners := []*ref.Q{
				{Kind: "boolean", Must: []*ref.Q{a}, Should: []*ref.Q{b}, ShouldMin: 1},
				{Kind: "disj", Subs: []*ref.Q{a, b}, DMin: 1},
				{Kind: "conj", Subs: []*ref.Q{a, b}},
				{Kind: "boolean", Must: []*ref.Q{a}, MustNot: []*ref.Q{b}},
			}
			for _, c := range red3 {
				for _, in := range inners {
					d3 = append(d3,
						&ref.Q{Kind: "conj", Subs: []*ref.Q{in, c}},
						&ref.Q{Kind: "disj", Subs: []*ref.Q{c, in}, DMin: 1},
						&ref.Q{Kind: "boolean", Must: []*ref.Q{c}, MustNot: []*ref.Q{in}},
						&ref.Q{Kind: "boolean", Should: []*ref.Q{c, in}, ShouldMin: 2},
						&ref.Q{Kind: "boolean", Must: []*ref.Q{c}, Filter: []*ref.Q{in}})
				}
			}
		}
	}
	all12 := make([]int, len(gen.DocAlphabet))
	for i := range all12 {
		all12[i] = i
	}
	subsets := gen.Subsets(len(gen.DocAlphabet), mc.Pick(r, 2, 3))
	r.Rule("E2: corpora (all subsets of a 12-document alphabet up to the size bound + the full corpus) × 3 physical layouts × query trees (leaf family, all ordered pairs under 16 compound forms, depth-3 family) × 8 request option sets × {scorch, upsidedown} × searcher tuning knobs; oracle = three-valued reference evaluation over the analysed tokens of the live documents; an outcome is (root query kind, number of hits)")
	r.Assume("analysis itself is C19's business: the oracle uses the mapping's analysis output", "fuzzy matching is three-valued between Levenshtein and Damerau distance (engines differ; documentation says 'edit distance')")
	r.Note("queries_full_corpus", len(full)+len(d3))
	r.Note("queries_small_corpora", len(small))
	r.Note("small_corpora", len(subsets))
	r.Sample(map[string]any{"corpus": all12, "layout": "churn", "query": full[len(full)/2].String(), "options": allOpts[3].String()})
	r.Sample(map[string]any{"corpus": subsets[len(subsets)/2], "query": small[len(small)/3].String()})
	r.Sample(map[string]any{"depth3": d3[len(d3)/2].String()})

	fullC := mkCorpus(all12)
	// phase 1: full corpus, all layouts, all options, default knobs, both engines
	type job struct {
		eng    bx.Engine
		layout int
	}
	setKnob(defaultKnob)
	var idxs []bleve.Index
	var jobs []job
	for _, e := range bx.MemEngines {
		for l := 0; l < nLayouts; l++ {
			jobs = append(jobs, job{e, l})
			idxs = append(idxs, build(e, all12, l))
		}
		if e.Name == "scorch" {
			jobs = append(jobs, job{e, layMergedDisk})
			idxs = append(idxs, build(e, all12, layMergedDisk))
		}
	}
	qsFull := append(append([]*ref.Q{}, full...), d3...)
	r.ParFor(len(qsFull), 0, func(qi int) {
		for ji, j := range jobs {
			evalOne(r, defaultKnob, j.eng.Name, idxs[ji], fullC, j.layout, qsFull[qi], mc.Pick(r, quickOpts, allOpts), analyse)
		}
	})
	// phase 2: tuning knobs on the full corpus (globals: one phase per setting)
	knobs := []knob{{"heap2", 2, 0, 256}, {"maxclause2", 10, 2, 256}, {"maxclause3-heap2-card0", 2, 3, 0}, {"card0", 10, 0, 0}}
	for _, kn := range knobs {
		if r.Expired() {
			r.Cap("deadline before knob phase " + kn.name)
			break
		}
		setKnob(kn)
		r.ParFor(len(full), 0, func(qi int) {
			for ji, j := range jobs {
				if j.layout == layOneBatch {
					continue
				}
				evalOne(r, kn, j.eng.Name, idxs[ji], fullC, j.layout, full[qi], allOpts[:2], analyse)
			}
		})
	}
	setKnob(defaultKnob)
	for _, i := range idxs {
		i.Close()
	}
	for _, cl := range diskCleanups {
		cl()
	}
	// phase 3: all small corpora
	r.ParFor(len(subsets), 0, func(si int) {
		c := mkCorpus(subsets[si])
		for _, e := range bx.MemEngines {
			for l := 0; l < nLayouts; l++ {
				idx := build(e, c.sel, l)
				for qi, q := range small {
					evalOne(r, defaultKnob, e.Name, idx, c, l, q, mc.Pick(r, allOpts[1+qi%2:2+qi%2], allOpts[1:3]), analyse)
				}
				idx.Close()
			}
		}
	})
}
