package c20

// Raw-id model — NOT the oracle. It predicts what bleve answers when every operator that is
// not a ConjunctionQuery combines its clauses by raw index-internal document id (a parent and
// each of its elements are different internal documents), which is how the pinned tree's
// boolean and disjunction searchers work. It is used for one purpose only: a deviation from
// the reference evaluator on a query that contains a known defect shape is filed under that
// shape's class only if it is exactly the answer raw-id combination gives; any other wrong
// answer on such a query gets its own class and alarms.
//
// The model is set-level (it has no cursors), per parent (raw ids never relate two parents).
//
//	term            elements carrying the value
//	match-all       every internal document (root and elements)
//	conjunction     fields F of the whole sub-tree (+ "_id" for match-all); common = deepest
//	                nested prefix shared by all of F, max = deepest nested prefix of any;
//	                common == max: intersection of raw ids; else join on the ancestor at depth
//	                common: for every ancestor under which all conjuncts have a match, all
//	                those matches are emitted
//	disjunction     raw ids matched by >= max(min,1) clauses
//	boolean         must = conjunction of the must clauses, should = disjunction(min),
//	                must-not = disjunction; must ids that are not must-not ids and (min > 0)
//	                are should ids; no must: should ids minus must-not ids; only must-not:
//	                match-all minus must-not ids
//	collector       folds elements into their parent when some field of the query is nested
//	                or the query contains a match-all ("_id"); otherwise every raw id is a hit

type rawAnswer struct {
	ok          bool // the model covers this query
	parentHit   bool // the parent itself is among the hits
	elementHits bool // elements of the parent are returned as separate hits
}

type rawEval struct {
	t     *tree
	index map[*node]int
	ok    bool
}

func depthOfPath(p string) int { return len(chain(p)) - 1 }

// nestDepths: the common and max nesting depth of a field set, as registry.NestedFieldCache
// computes them.
func nestDepths(fields map[string]bool) (common, max int) {
	if len(fields) == 0 {
		return 0, 0
	}
	for _, prefix := range []string{"items", "items.subs", "tags"} {
		level := depthOfPath(prefix)
		all, any := true, false
		for f := range fields {
			if len(f) > len(prefix) && f[:len(prefix)+1] == prefix+"." {
				any = true
			} else {
				all = false
			}
		}
		if all && level > common {
			common = level
		}
		if any && level > max {
			max = level
		}
	}
	if fields["_id"] {
		common = 0
	}
	return
}

func (q *Q) fieldSet(into map[string]bool) map[string]bool {
	if into == nil {
		into = map[string]bool{}
	}
	switch q.Kind {
	case "term":
		into[q.Field] = true
	case "all":
		into["_id"] = true
	}
	for _, l := range [][]*Q{q.Subs, q.Must, q.Should, q.MustNot} {
		for _, s := range l {
			s.fieldSet(into)
		}
	}
	return into
}

func fieldSetOf(qs []*Q) map[string]bool {
	m := map[string]bool{}
	for _, q := range qs {
		q.fieldSet(m)
	}
	return m
}

func (e *rawEval) mask(ns []*node) uint32 {
	var m uint32
	for _, n := range ns {
		m |= 1 << e.index[n]
	}
	return m
}

func nodeDepth(n *node) int { return depthOfPath(n.path) }

func ancestorAtDepth(n *node, d int) *node {
	for nodeDepth(n) > d {
		n = n.parent
	}
	return n
}

// emitsEveryRoot: a must-not-only boolean whose fields are all nested cannot exclude a root
// document, so it emits the very first document of the index; a nested conjunction then
// lowers its join level to the root when it initialises.
func emitsEveryRoot(q *Q) bool {
	if q.Kind != "bool" || len(q.Must) > 0 || len(q.Should) > 0 || len(q.MustNot) == 0 {
		return false
	}
	for f := range fieldSetOf(q.MustNot) {
		if pathOf(f) == "" {
			return false
		}
	}
	return true
}

func (e *rawEval) conj(qs []*Q) uint32 {
	ms := make([]uint32, len(qs))
	for i, q := range qs {
		ms[i] = e.eval(q)
	}
	if len(qs) == 0 {
		return 0
	}
	common, max := nestDepths(fieldSetOf(qs))
	if common == max {
		m := ms[0]
		for _, x := range ms[1:] {
			m &= x
		}
		return m
	}
	for _, q := range qs {
		if emitsEveryRoot(q) {
			common = 0
		}
	}
	// every emitted document must be at least as deep as the join level
	for _, m := range ms {
		for i, n := range e.t.nodes {
			if m>>i&1 == 1 && nodeDepth(n) < common {
				e.ok = false
				return 0
			}
		}
	}
	var out uint32
	for ki, k := range e.t.nodes {
		if nodeDepth(k) != common {
			continue
		}
		_ = ki
		var group uint32
		for i, n := range e.t.nodes {
			if nodeDepth(n) >= common && ancestorAtDepth(n, common) == k {
				group |= 1 << i
			}
		}
		all := true
		var u uint32
		for _, m := range ms {
			if m&group == 0 {
				all = false
				break
			}
			u |= m & group
		}
		if all {
			out |= u
		}
	}
	return out
}

func (e *rawEval) disj(qs []*Q, min int) uint32 {
	if min < 1 {
		min = 1
	}
	ms := make([]uint32, len(qs))
	for i, q := range qs {
		ms[i] = e.eval(q)
	}
	var out uint32
	for i := range e.t.nodes {
		c := 0
		for _, m := range ms {
			if m>>i&1 == 1 {
				c++
			}
		}
		if c >= min {
			out |= 1 << i
		}
	}
	return out
}

func (e *rawEval) eval(q *Q) uint32 {
	switch q.Kind {
	case "term":
		return e.mask(e.t.byTerm[q.Field+":"+q.Val])
	case "all":
		return e.mask(e.t.nodes)
	case "conj":
		return e.conj(q.Subs)
	case "disj":
		return e.disj(q.Subs, q.Min)
	case "bool":
		var must, should, not uint32
		hasMust, hasShould := len(q.Must) > 0, len(q.Should) > 0
		if hasMust {
			must = e.conj(q.Must)
		}
		if hasShould {
			should = e.disj(q.Should, q.SMin)
		}
		if len(q.MustNot) > 0 {
			not = e.disj(q.MustNot, 0)
		}
		switch {
		case hasMust && hasShould && q.SMin >= 1:
			return must & should &^ not
		case hasMust:
			return must &^ not
		case hasShould:
			return should &^ not
		default:
			return e.mask(e.t.nodes) &^ not
		}
	}
	panic("kind " + q.Kind)
}

// rawPredict: what the raw-id model says about one parent.
func rawPredict(q *Q, t *tree) rawAnswer {
	e := &rawEval{t: t, index: map[*node]int{}, ok: true}
	for i, n := range t.nodes {
		e.index[n] = i
	}
	m := e.eval(q)
	if !e.ok {
		return rawAnswer{}
	}
	fold := false
	for f := range q.fieldSet(nil) {
		if f == "_id" || pathOf(f) != "" {
			fold = true
		}
	}
	if fold {
		return rawAnswer{ok: true, parentHit: m != 0}
	}
	return rawAnswer{ok: true, parentHit: m&1 == 1, elementHits: m&^1 != 0}
}
