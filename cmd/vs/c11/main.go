package main

import (
	"verif/props/c11"
	"verif/sched/drv"
)

func main() { drv.Main("C11", "model_checking", c11.Scenarios(), c11.Describe) }
