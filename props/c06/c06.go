// Package c06: hits are the requested slice of the fully sorted match list.
//
// E2, two parts.
//
// (a) Collector level: collector.TopNCollector is fed, through a stub searcher and a stub index
// reader (doc values, external ids), every match stream of bounded length over small alphabets of
// (score, sort key values) in every arrival order, for a table of sort specifications, the whole
// Size × From grid (slice store and heap store, several evictions) and, under total orders,
// NewTopNCollectorAfter from every hit with the keys the collector itself reported in
// DecodedSort. The whole enumeration is run twice: PreAllocSizeSkipCap 1000 and 3.
//
// (b) Index level: every corpus (sequence of document profiles, repeated profiles included so
// that whole sort keys and scores tie) on in-memory scorch and upsidedown, two queries, a table of
// sort specifications, every From/Size page, and SearchAfter / SearchBefore from every hit under
// total orders (keys from hit.DecodedSort with typed sort fields, scores formatted exactly).
//
// Oracle: a stable sort of the matches (given in natural index order) by the documented
// comparison; the answer must be positions [from, from+size) of it.
package c06

import (
	"context"
	"encoding/binary"
	"encoding/json"
	"fmt"
	"sort"
	"strconv"
	"strings"
	"time"

	"github.com/blevesearch/bleve/v2"
	"github.com/blevesearch/bleve/v2/analysis/analyzer/keyword"
	"github.com/blevesearch/bleve/v2/mapping"
	"github.com/blevesearch/bleve/v2/numeric"
	"github.com/blevesearch/bleve/v2/search"
	"github.com/blevesearch/bleve/v2/search/collector"
	"github.com/blevesearch/bleve/v2/search/query"
	index "github.com/blevesearch/bleve_index_api"

	"verif/bx"
	"verif/mc"
)

// ------------------------------------------------------------------------------------------
// reference model
// ------------------------------------------------------------------------------------------

// rdoc is one match as the reference model sees it.
type rdoc struct {
	id    string
	score float64
	k     []string  // values of the string field k
	n     []float64 // values of the numeric field n
	d     []int64   // values of the date field d (Unix ns)
	// collector level only: the doc-value terms the stub reader hands out
	nt, dt [][]byte
}

// rkey is one key of a sort specification.
type rkey struct {
	by     string // "score", "id", "k", "n", "d"
	desc   bool
	mfirst bool // missing first (fields only)
	mode   int  // 0 default (single-valued keys only), 1 min, 2 max
	auto   bool // SortFieldAuto instead of the explicit type
}

func (k rkey) String() string {
	s := "+"
	if k.desc {
		s = "-"
	}
	switch k.by {
	case "score":
		return s + "_score"
	case "id":
		return s + "_id"
	}
	s += k.by
	var o []string
	if k.mfirst {
		o = append(o, "missing-first")
	}
	if k.mode == 1 {
		o = append(o, "min")
	} else if k.mode == 2 {
		o = append(o, "max")
	}
	if k.auto {
		o = append(o, "auto")
	}
	if len(o) > 0 {
		s += "(" + strings.Join(o, ",") + ")"
	}
	return s
}

func specString(keys []rkey) string {
	var ss []string
	for _, k := range keys {
		ss = append(ss, k.String())
	}
	return "[" + strings.Join(ss, " ") + "]"
}

// specShape is the coarse form used in violation classes and outcome keys.
func specShape(keys []rkey) string {
	var ss []string
	for _, k := range keys {
		switch k.by {
		case "k":
			ss = append(ss, "str")
		case "n":
			ss = append(ss, "num")
		case "d":
			ss = append(ss, "date")
		default:
			ss = append(ss, k.by)
		}
	}
	return strings.Join(ss, "+")
}

// classShape is the still coarser form used in violation classes: the kind of the primary sort
// key (one root cause should not fan out over every field type and key combination; the full
// specification is in the detail and the replay).
func classShape(keys []rkey) string {
	switch keys[0].by {
	case "score", "id":
		return keys[0].by
	}
	return "field"
}

func specHasID(keys []rkey) bool {
	for _, k := range keys {
		if k.by == "id" {
			return true
		}
	}
	return false
}

// totalOrder: unique ids as the last key make the specification a total order.
func totalOrder(keys []rkey) bool { return keys[len(keys)-1].by == "id" }

func cmpF(a, b float64) int {
	if a < b {
		return -1
	} else if a > b {
		return 1
	}
	return 0
}

func cmpI(a, b int64) int {
	if a < b {
		return -1
	} else if a > b {
		return 1
	}
	return 0
}

// cmpKey compares two matches on one key as documented: values ascending (descending with
// desc); a match without a value goes to the very beginning (missing first) or the very end
// (missing last) of the final order whatever the direction; min/max pick the value of a
// multi-valued field.
func cmpKey(a, b *rdoc, k rkey) int {
	c := 0
	switch k.by {
	case "score":
		c = cmpF(a.score, b.score)
	case "id":
		c = strings.Compare(a.id, b.id)
	default:
		var la, lb int
		switch k.by {
		case "k":
			la, lb = len(a.k), len(b.k)
		case "n":
			la, lb = len(a.n), len(b.n)
		case "d":
			la, lb = len(a.d), len(b.d)
		}
		if la == 0 || lb == 0 {
			if la == 0 && lb == 0 {
				return 0
			}
			if (la == 0) == k.mfirst {
				return -1
			}
			return 1
		}
		switch k.by {
		case "k":
			c = strings.Compare(pickS(a.k, k.mode), pickS(b.k, k.mode))
		case "n":
			c = cmpF(pickF(a.n, k.mode), pickF(b.n, k.mode))
		case "d":
			c = cmpI(pickI(a.d, k.mode), pickI(b.d, k.mode))
		}
	}
	if k.desc {
		c = -c
	}
	return c
}

func pickS(v []string, mode int) string {
	r := v[0]
	for _, x := range v[1:] {
		if (mode == 1 && x < r) || (mode == 2 && x > r) {
			r = x
		}
	}
	return r
}

func pickF(v []float64, mode int) float64 {
	r := v[0]
	for _, x := range v[1:] {
		if (mode == 1 && x < r) || (mode == 2 && x > r) {
			r = x
		}
	}
	return r
}

func pickI(v []int64, mode int) int64 {
	r := v[0]
	for _, x := range v[1:] {
		if (mode == 1 && x < r) || (mode == 2 && x > r) {
			r = x
		}
	}
	return r
}

func cmpKeys(a, b *rdoc, keys []rkey) int {
	for _, k := range keys {
		if c := cmpKey(a, b, k); c != 0 {
			return c
		}
	}
	return 0
}

// refSort: natural holds the matches in natural index order (arrival order); the expected list is
// the stable sort by the specification.
func refSort(natural []*rdoc, keys []rkey) []*rdoc {
	out := append([]*rdoc(nil), natural...)
	sort.SliceStable(out, func(i, j int) bool { return cmpKeys(out[i], out[j], keys) < 0 })
	return out
}

func tiedCount(exp []*rdoc, keys []rkey) int {
	t := 0
	for i := 1; i < len(exp); i++ {
		if cmpKeys(exp[i-1], exp[i], keys) == 0 {
			t++
		}
	}
	return t
}

func idsOf(ds []*rdoc) []string {
	out := make([]string, len(ds))
	for i, d := range ds {
		out[i] = d.id
	}
	return out
}

func clip(n, from, size int) (int, int) {
	lo, hi := from, from+size
	if lo > n {
		lo = n
	}
	if hi > n {
		hi = n
	}
	return lo, hi
}

func eqS(a, b []string) bool {
	if len(a) != len(b) {
		return false
	}
	for i := range a {
		if a[i] != b[i] {
			return false
		}
	}
	return true
}

func maxScore(ds []*rdoc) float64 {
	m := 0.0
	for _, d := range ds {
		if d.score > m {
			m = d.score
		}
	}
	return m
}

// boundaryMissingNumeric: the hit the page boundary is taken from has no value for a sort field
// declared as number or date.
func boundaryMissingNumeric(h *rdoc, keys []rkey) bool {
	for _, k := range keys {
		if k.auto {
			continue
		}
		if (k.by == "n" && len(h.n) == 0) || (k.by == "d" && len(h.d) == 0) {
			return true
		}
	}
	return false
}

const knownAfterClass = "after:boundary-hit-missing-numeric-key"

// toSort builds a fresh bleve sort order (SortField carries per-search state: never shared).
func toSort(keys []rkey) search.SortOrder {
	var so search.SortOrder
	for _, k := range keys {
		switch k.by {
		case "score":
			so = append(so, &search.SortScore{Desc: k.desc})
		case "id":
			so = append(so, &search.SortDocID{Desc: k.desc})
		default:
			sf := &search.SortField{Field: k.by, Desc: k.desc}
			if !k.auto {
				switch k.by {
				case "k":
					sf.Type = search.SortFieldAsString
				case "n":
					sf.Type = search.SortFieldAsNumber
				case "d":
					sf.Type = search.SortFieldAsDate
				}
			}
			switch k.mode {
			case 1:
				sf.Mode = search.SortFieldMin
			case 2:
				sf.Mode = search.SortFieldMax
			}
			if k.mfirst {
				sf.Missing = search.SortFieldMissingFirst
			}
			so = append(so, sf)
		}
	}
	return so
}

func sortJSON(keys []rkey) string {
	b, err := json.Marshal(toSort(keys))
	if err != nil {
		return specString(keys)
	}
	return string(b)
}

// boundaryKeys builds the SearchAfter/SearchBefore value of a hit as docs/pagination.md
// prescribes: DecodedSort for field and id keys, the exact score for score keys.
func boundaryKeys(h *search.DocumentMatch, keys []rkey) ([]string, bool) {
	if len(h.DecodedSort) != len(keys) {
		return nil, false
	}
	out := make([]string, len(keys))
	for i, k := range keys {
		if k.by == "score" {
			out[i] = strconv.FormatFloat(h.Score, 'f', -1, 64)
		} else {
			out[i] = h.DecodedSort[i]
		}
	}
	return out, true
}

// ------------------------------------------------------------------------------------------
// part (a): stub searcher / reader feeding the real collector
// ------------------------------------------------------------------------------------------

type stubSearcher struct {
	docs []*rdoc
	pos  int
}

func (s *stubSearcher) emit(ctx *search.SearchContext) (*search.DocumentMatch, error) {
	if s.pos >= len(s.docs) {
		return nil, nil
	}
	rv := ctx.DocumentMatchPool.Get()
	rv.IndexInternalID = binary.BigEndian.AppendUint64(rv.IndexInternalID[:0], uint64(s.pos))
	rv.Score = s.docs[s.pos].score
	s.pos++
	return rv, nil
}

func (s *stubSearcher) Next(ctx *search.SearchContext) (*search.DocumentMatch, error) {
	return s.emit(ctx)
}

func (s *stubSearcher) Advance(ctx *search.SearchContext, id index.IndexInternalID) (*search.DocumentMatch, error) {
	if len(id) == 8 {
		if t := int(binary.BigEndian.Uint64(id)); t > s.pos {
			s.pos = t
		}
	}
	return s.emit(ctx)
}
func (s *stubSearcher) Close() error               { return nil }
func (s *stubSearcher) Weight() float64            { return 0 }
func (s *stubSearcher) SetQueryNorm(float64)       {}
func (s *stubSearcher) Count() uint64              { return uint64(len(s.docs)) }
func (s *stubSearcher) Min() int                   { return 0 }
func (s *stubSearcher) Size() int                  { return 0 }
func (s *stubSearcher) DocumentMatchPoolSize() int { return 0 }

type stubReader struct{ docs []*rdoc }

var errStub = fmt.Errorf("c06 stub reader: not supported")

func (sr *stubReader) TermFieldReader(ctx context.Context, term []byte, field string, includeFreq, includeNorm, includeTermVectors bool) (index.TermFieldReader, error) {
	return nil, errStub
}
func (sr *stubReader) DocIDReaderAll() (index.DocIDReader, error)              { return nil, errStub }
func (sr *stubReader) DocIDReaderOnly(ids []string) (index.DocIDReader, error) { return nil, errStub }
func (sr *stubReader) FieldDict(field string) (index.FieldDict, error)         { return nil, errStub }
func (sr *stubReader) FieldDictRange(field string, startTerm []byte, endTerm []byte) (index.FieldDict, error) {
	return nil, errStub
}
func (sr *stubReader) FieldDictPrefix(field string, termPrefix []byte) (index.FieldDict, error) {
	return nil, errStub
}
func (sr *stubReader) Document(id string) (index.Document, error) { return nil, errStub }
func (sr *stubReader) Fields() ([]string, error)                  { return []string{"k", "n", "d"}, nil }
func (sr *stubReader) GetInternal(key []byte) ([]byte, error)     { return nil, nil }
func (sr *stubReader) DocCount() (uint64, error)                  { return uint64(len(sr.docs)), nil }
func (sr *stubReader) Close() error                               { return nil }

func (sr *stubReader) num(id index.IndexInternalID) (int, error) {
	if len(id) != 8 {
		return 0, fmt.Errorf("c06 stub reader: bad internal id %x", []byte(id))
	}
	i := int(binary.BigEndian.Uint64(id))
	if i < 0 || i >= len(sr.docs) {
		return 0, fmt.Errorf("c06 stub reader: unknown internal id %d", i)
	}
	return i, nil
}

func (sr *stubReader) ExternalID(id index.IndexInternalID) (string, error) {
	i, err := sr.num(id)
	if err != nil {
		return "", err
	}
	return sr.docs[i].id, nil
}

func (sr *stubReader) InternalID(id string) (index.IndexInternalID, error) {
	for i, d := range sr.docs {
		if d.id == id {
			return binary.BigEndian.AppendUint64(nil, uint64(i)), nil
		}
	}
	return nil, nil
}

func (sr *stubReader) DocValueReader(fields []string) (index.DocValueReader, error) {
	return &stubDV{r: sr, fields: fields}, nil
}

type stubDV struct {
	r      *stubReader
	fields []string
}

func (dv *stubDV) BytesRead() uint64 { return 0 }

// VisitDocValues hands out, for every requested field, the terms an index holds for the
// document: the keyword terms of k; for n and d the prefix-coded terms of every value at shift 0
// and, as a real numeric field has, at coarser shifts too.
func (dv *stubDV) VisitDocValues(id index.IndexInternalID, visitor index.DocValueVisitor) error {
	i, err := dv.r.num(id)
	if err != nil {
		return err
	}
	d := dv.r.docs[i]
	for _, f := range dv.fields {
		switch f {
		case "k":
			for _, v := range d.k {
				visitor("k", []byte(v))
			}
		case "n":
			for _, t := range d.nt {
				visitor("n", t)
			}
		case "d":
			for _, t := range d.dt {
				visitor("d", t)
			}
		}
	}
	return nil
}

func numTerms(v int64) [][]byte {
	return [][]byte{
		numeric.MustNewPrefixCodedInt64(v, 4),
		numeric.MustNewPrefixCodedInt64(v, 0),
		numeric.MustNewPrefixCodedInt64(v, 8),
	}
}

// sym is one element of a stream alphabet.
type sym struct {
	name  string
	score float64
	k     []string
	n     []float64
	d     []int64
}

func (s sym) doc(id string) *rdoc {
	d := &rdoc{id: id, score: s.score, k: s.k, n: s.n, d: s.d}
	for _, v := range s.n {
		d.nt = append(d.nt, numTerms(numeric.Float64ToInt64(v))...)
	}
	for _, v := range s.d {
		d.dt = append(d.dt, numTerms(v)...)
	}
	return d
}

var (
	dateLo  = time.Date(1969, 12, 31, 23, 59, 59, 500000000, time.UTC)
	dateHi  = time.Date(2001, 2, 3, 4, 5, 6, 0, time.UTC)
	dateTop = time.Date(2020, 1, 1, 0, 0, 0, 1, time.UTC)
)

const (
	numLo  = -1.5
	numHi  = 2.0
	numTop = 5.0
)

// key symbols: the three fields k, n, d are tied (lo / hi / missing / multi-valued {top, lo}).
func keySym(name string) sym {
	switch name {
	case "a":
		return sym{name: "a", k: []string{"a"}, n: []float64{numLo}, d: []int64{dateLo.UnixNano()}}
	case "b":
		return sym{name: "b", k: []string{"b"}, n: []float64{numHi}, d: []int64{dateHi.UnixNano()}}
	case "ca":
		return sym{name: "ca", k: []string{"c", "a"}, n: []float64{numTop, numLo}, d: []int64{dateTop.UnixNano(), dateLo.UnixNano()}}
	}
	return sym{name: "_"}
}

func alphaScoreKey(keys ...string) []sym {
	var out []sym
	for _, sc := range []float64{1, 2} {
		for _, kn := range keys {
			s := keySym(kn)
			s.score = sc
			s.name = fmt.Sprintf("%g%s", sc, s.name)
			out = append(out, s)
		}
	}
	return out
}

// alphaKN: k and n vary independently, score fixed.
func alphaKN() []sym {
	var out []sym
	for _, kn := range []string{"a", "b", "_"} {
		for _, nn := range []string{"a", "b", "_"} {
			s := sym{name: kn + nn, score: 1, k: keySym(kn).k, n: keySym(nn).n, d: keySym(nn).d}
			out = append(out, s)
		}
	}
	return out
}

type family struct {
	name     string
	alpha    []sym
	minLen   int
	maxLen   int
	specs    [][]rkey
	allPerms int // streams up to this length get every id permutation (specs containing _id)
	// long streams in the quick tier: one non-monotone id assignment and two After sizes only
	lean bool
	// quick tier: streams of this length evaluate every second specification (rotated over the streams)
	rotateAt int
}

func sc(desc bool) rkey { return rkey{by: "score", desc: desc} }
func id(desc bool) rkey { return rkey{by: "id", desc: desc} }
func fk(by string, desc, mfirst bool) rkey {
	return rkey{by: by, desc: desc, mfirst: mfirst}
}
func fm(by string, desc, mfirst bool, mode int) rkey {
	return rkey{by: by, desc: desc, mfirst: mfirst, mode: mode}
}
func au(k rkey) rkey { k.auto = true; return k }

func specsSingle() [][]rkey {
	return [][]rkey{
		{sc(true)}, {sc(false)}, {id(false)}, {id(true)},
		{au(fk("k", false, false))}, {fk("k", false, true)}, {fk("k", true, false)}, {au(fk("k", true, true))},
		{fk("n", false, false)}, {fk("n", false, true)}, {fk("n", true, false)}, {fk("n", true, true)},
		{au(fk("n", false, false))}, {au(fk("n", true, true))},
		{fk("d", false, false)}, {fk("d", true, true)},
		{fk("k", false, false), id(false)}, {fk("k", true, true), id(true)},
		{sc(true), id(false)}, {sc(false), id(true)},
		{fk("n", false, true), id(true)}, {fk("n", true, false), id(false)},
		{fk("d", false, false), id(false)}, {fk("d", true, true), id(false)},
		{sc(false), fk("k", true, false)}, {fk("k", false, true), sc(true)},
		{fk("k", false, false), sc(true), id(false)}, {fk("n", true, true), sc(false), id(true)},
	}
}

func specsTwoField() [][]rkey {
	return [][]rkey{
		{fk("k", false, false), fk("n", true, true)},
		{fk("n", false, false), fk("k", true, false)},
		{fk("k", true, true), fk("n", false, false), id(false)},
		{fk("n", true, false), fk("k", false, true), id(true)},
		{fk("d", false, true), au(fk("k", true, true)), id(false)},
	}
}

func specsMulti() [][]rkey {
	return [][]rkey{
		{fm("k", false, false, 1)}, {fm("k", false, false, 2)}, {fm("k", true, true, 2)}, {fm("k", true, false, 1)},
		{fm("n", false, false, 1)}, {fm("n", true, false, 2)}, {fm("n", false, true, 2)}, {au(fm("n", true, true, 1))},
		{fm("d", false, false, 1)}, {fm("d", true, true, 2)},
		{fm("k", false, false, 1), id(false)}, {fm("n", true, true, 2), id(true)}, {fm("d", false, false, 2), id(false)},
		{sc(true), fm("k", false, true, 2), id(false)},
	}
}

func specsLong() [][]rkey {
	return [][]rkey{
		{sc(true)}, {sc(false)}, {fk("k", false, false)}, {fk("k", true, false)}, {fk("n", true, false)},
		{sc(true), id(true)}, {fk("k", false, false), id(true)}, {sc(false), fk("k", true, false)},
		{fk("n", false, false), id(false)},
	}
}

// families: the stream families of one phase. What PreAllocSizeSkipCap changes (initial store
// capacity, DocumentMatch pool size) does not depend on the kind of sort key, so the cap=3 phase is
// restricted to the single-key family (one step shorter) and the long streams.
func families(r *mc.Run, capv int) []family {
	long := family{name: "long-binary", alpha: alphaScoreKey("a", "b")[1:3], minLen: 12, maxLen: 12, specs: specsLong()}
	if r.Quick() {
		long.lean = true
		long.specs = [][]rkey{{sc(true)}, {sc(false)}, {fk("k", false, false)}, {sc(true), id(true)}, {sc(false), fk("k", true, false)}}
	} else {
		long.maxLen = 13
	}
	if capv < 1000 {
		return []family{
			{name: "score×key", alpha: alphaScoreKey("a", "b", "_"), maxLen: mc.Pick(r, 3, 4), specs: specsSingle(), allPerms: 3},
			long,
		}
	}
	return []family{
		{name: "score×key", alpha: alphaScoreKey("a", "b", "_"), maxLen: mc.Pick(r, 4, 5), specs: specsSingle(), allPerms: mc.Pick(r, 3, 4), rotateAt: mc.Pick(r, 4, 0)},
		{name: "k×n", alpha: alphaKN(), maxLen: mc.Pick(r, 3, 4), specs: specsTwoField(), allPerms: 3},
		{name: "score×multikey", alpha: alphaScoreKey("a", "b", "_", "ca"), maxLen: mc.Pick(r, 3, 4), specs: specsMulti(), allPerms: 3},
		long,
	}
}

var gridSizes = []int{0, 1, 2, 3, 5, 11}
var gridSkips = []int{0, 1, 2, 10}

// idSchemes: the ranks of the ids handed to the arrival positions 0..n-1.
func idSchemes(n int, all bool) [][]int {
	if n == 0 {
		return [][]int{{}}
	}
	if all {
		var out [][]int
		p := make([]int, n)
		used := make([]bool, n)
		var rec func(i int)
		rec = func(i int) {
			if i == n {
				out = append(out, append([]int(nil), p...))
				return
			}
			for v := 0; v < n; v++ {
				if !used[v] {
					used[v] = true
					p[i] = v
					rec(i + 1)
					used[v] = false
				}
			}
		}
		rec(0)
		return out
	}
	ident := make([]int, n)
	rev := make([]int, n)
	for i := range ident {
		ident[i] = i
		rev[i] = n - 1 - i
	}
	out := [][]int{ident}
	if n >= 2 {
		out = append(out, rev)
	}
	if n >= 3 {
		// odd positions ascending, then even positions descending
		var order []int
		for i := 1; i < n; i += 2 {
			order = append(order, i)
		}
		for i := (n - 1) / 2 * 2; i >= 0; i -= 2 {
			order = append(order, i)
		}
		il := make([]int, n)
		for rank, pos := range order {
			il[pos] = rank
		}
		out = append(out, il)
	}
	return out
}

func isIdentity(p []int) bool {
	for i, v := range p {
		if i != v {
			return false
		}
	}
	return true
}

type collResult struct {
	hits  search.DocumentMatchCollection
	total uint64
	max   float64
	err   error
}

func collect(docs []*rdoc, keys []rkey, size, skip int, after []string) collResult {
	so := toSort(keys)
	var c *collector.TopNCollector
	if after != nil {
		c = collector.NewTopNCollectorAfter(size, so, after)
	} else {
		c = collector.NewTopNCollector(size, skip, so)
	}
	err := c.Collect(context.Background(), &stubSearcher{docs: docs}, &stubReader{docs: docs})
	return collResult{hits: c.Results(), total: c.Total(), max: c.MaxScore(), err: err}
}

func hitIDs(h search.DocumentMatchCollection) []string {
	out := make([]string, len(h))
	for i, x := range h {
		out[i] = x.ID
	}
	return out
}

func kindOf(after []string) string {
	if after != nil {
		return "after"
	}
	return "page"
}

func storeName(sizePlusSkip int) string {
	if sizePlusSkip > 10 {
		return "heap"
	}
	return "slice"
}

type acc struct {
	evals int
	cnt   map[string]int64
}

func (a *acc) add(k string, d int64) { a.cnt[k] += d }
func (a *acc) flush(r *mc.Run) {
	r.Eval(a.evals)
	for k, v := range a.cnt {
		r.Count(k, v)
	}
}

func streamReplay(docs []*rdoc) []map[string]any {
	var out []map[string]any
	for _, d := range docs {
		m := map[string]any{"id": d.id, "score": d.score}
		if len(d.k) > 0 {
			m["k"] = d.k
		}
		if len(d.n) > 0 {
			m["n"] = d.n
		}
		if len(d.d) > 0 {
			var ts []string
			for _, v := range d.d {
				ts = append(ts, time.Unix(0, v).UTC().Format(time.RFC3339Nano))
			}
			m["d"] = ts
		}
		out = append(out, m)
	}
	return out
}

// evalStream runs every specification of the family on one stream (one id scheme).
func evalStream(r *mc.Run, fam *family, docs []*rdoc, si int, identity bool, capv int, a *acc) {
	n := len(docs)
	for ki, keys := range fam.specs {
		if !identity && !specHasID(keys) {
			continue
		}
		if fam.rotateAt > 0 && n == fam.rotateAt && (ki+si)%2 != 0 {
			continue
		}
		exp := refSort(docs, keys)
		expIDs := idsOf(exp)
		shape := specShape(keys)
		cshape := classShape(keys)
		tied := tiedCount(exp, keys)
		if tied > 0 {
			a.add("coll_stream_specs_with_tied_keys", 1)
		}
		wantMax := maxScore(docs)
		base := func(kind string, size, skip int, after []string) map[string]any {
			m := map[string]any{"level": "collector", "api": "collector.NewTopNCollector(size, skip, sort).Collect over a stub searcher yielding the stream in this order", "stream_in_arrival_order": streamReplay(docs),
				"sort": sortJSON(keys), "size": size, "skip": skip, "PreAllocSizeSkipCap": capv, "expected_full_order": expIDs, "kind": kind}
			if after != nil {
				m["api"] = "collector.NewTopNCollectorAfter(size, sort, after).Collect over a stub searcher yielding the stream in this order"
				m["after"] = after
			}
			return m
		}
		run := func(size, skip int, after []string) (collResult, bool) {
			var res collResult
			a.evals++
			pv, st := mc.Try(func() { res = collect(docs, keys, size, skip, after) })
			if pv != nil {
				rep := base("panic", size, skip, after)
				rep["panic"] = fmt.Sprint(pv)
				r.Violation("panic:"+kindOf(after)+":"+cshape, fmt.Sprintf("collector panicked: %v @ %s; stream=%v sort=%s size=%d skip=%d after=%q", pv, mc.TrimStack(st), streamString(docs), specString(keys), size, skip, after), rep)
				return res, false
			}
			if res.err != nil {
				rep := base("error", size, skip, after)
				rep["error"] = res.err.Error()
				r.Violation("error:"+kindOf(after)+":"+cshape, fmt.Sprintf("Collect returned %v; stream=%v sort=%s size=%d skip=%d after=%q", res.err, streamString(docs), specString(keys), size, skip, after), rep)
				return res, false
			}
			return res, true
		}
		for _, size := range gridSizes {
			for _, skip := range gridSkips {
				if capv < 1000 && size+skip <= capv {
					continue // identical code path to the default cap: covered in the other phase
				}
				res, ok := run(size, skip, nil)
				if !ok {
					continue
				}
				store := storeName(size + skip)
				a.add("coll_runs_"+store+"_store", 1)
				if n > size+skip {
					a.add("coll_runs_with_eviction", 1)
					if n >= size+skip+2 {
						a.add("coll_runs_with_2+_evictions", 1)
					}
				}
				lo, hi := clip(n, skip, size)
				got := hitIDs(res.hits)
				if !eqS(got, expIDs[lo:hi]) {
					rep := base("page", size, skip, nil)
					rep["got"], rep["want"] = got, expIDs[lo:hi]
					r.Violation("page:"+store+":"+cshape, fmt.Sprintf("collector level: stream=%v sort=%s size=%d skip=%d cap=%d: hits %v, want positions [%d,%d) of %v = %v", streamString(docs), specString(keys), size, skip, capv, got, lo, hi, expIDs, expIDs[lo:hi]), rep)
				}
				if int(res.total) != n {
					rep := base("total", size, skip, nil)
					rep["got_total"] = res.total
					r.Violation("total:page", fmt.Sprintf("stream=%v sort=%s size=%d skip=%d: Total %d, want %d", streamString(docs), specString(keys), size, skip, res.total, n), rep)
				}
				if res.max != wantMax {
					rep := base("maxscore", size, skip, nil)
					rep["got_max"] = res.max
					r.Violation("maxscore:page", fmt.Sprintf("stream=%v sort=%s size=%d skip=%d: MaxScore %v, want %v", streamString(docs), specString(keys), size, skip, res.max, wantMax), rep)
				}
			}
		}
		nAfter := 0
		if totalOrder(keys) && n > 0 {
			full, ok := run(n+1, 0, nil)
			if ok && eqS(hitIDs(full.hits), expIDs) {
				afterSizes := []int{1, 2, 11}
				if capv < 1000 {
					afterSizes = []int{5, 11}
				} else if fam.lean {
					afterSizes = []int{2, 11}
				}
				for h := range full.hits {
					bk, ok := boundaryKeys(full.hits[h], keys)
					if !ok {
						rep := base("decoded-sort", n+1, 0, nil)
						r.Violation("decoded-sort:"+cshape, fmt.Sprintf("stream=%v sort=%s: hit %s has DecodedSort %q for %d sort keys", streamString(docs), specString(keys), full.hits[h].ID, full.hits[h].DecodedSort, len(keys)), rep)
						continue
					}
					missNum := boundaryMissingNumeric(exp[h], keys)
					for _, size := range afterSizes {
						res, ok := run(size, 0, bk)
						if !ok {
							continue
						}
						nAfter++
						if missNum {
							a.add("after_runs_from_boundary_hit_missing_numeric_key", 1)
						}
						hi := h + 1 + size
						if hi > n {
							hi = n
						}
						want := expIDs[h+1 : hi]
						got := hitIDs(res.hits)
						if !eqS(got, want) {
							cls := "after:" + cshape
							if missNum {
								cls = knownAfterClass
							}
							rep := base("after", size, 0, bk)
							rep["boundary_hit"], rep["got"], rep["want"] = exp[h].id, got, want
							r.Violation(cls, fmt.Sprintf("collector level: stream=%v sort=%s SearchAfter=%q (keys of hit %s at position %d of %v) size=%d: hits %v, want %v", streamString(docs), specString(keys), bk, exp[h].id, h, expIDs, size, got, want), rep)
						}
						if int(res.total) != n {
							rep := base("total-after", size, 0, bk)
							rep["got_total"] = res.total
							r.Violation("total:after", fmt.Sprintf("stream=%v sort=%s after=%q: Total %d, want %d", streamString(docs), specString(keys), bk, res.total, n), rep)
						}
					}
				}
			} else if ok {
				rep := base("page", n+1, 0, nil)
				rep["got"], rep["want"] = hitIDs(full.hits), expIDs
				r.Violation("page:"+storeName(n+1)+":"+cshape, fmt.Sprintf("stream=%v sort=%s size=%d skip=0 cap=%d: hits %v, want %v", streamString(docs), specString(keys), n+1, capv, hitIDs(full.hits), expIDs), rep)
			}
		}
		a.add("coll_after_runs", int64(nAfter))
		tb := tied
		if tb > 3 {
			tb = 3
		}
		r.Outcome(fmt.Sprintf("coll|%s|len=%d|tied=%d|after=%v", shape, n, tb, nAfter > 0))
	}
}

func streamString(docs []*rdoc) string {
	var ss []string
	for _, d := range docs {
		s := fmt.Sprintf("%s:s%g", d.id, d.score)
		if len(d.k) > 0 {
			s += ",k=" + strings.Join(d.k, "/")
		}
		if len(d.n) > 0 {
			s += fmt.Sprintf(",n=%v", d.n)
		}
		ss = append(ss, s)
	}
	return "<" + strings.Join(ss, " ") + ">"
}

func pow(b, e int) int {
	p := 1
	for i := 0; i < e; i++ {
		p *= b
	}
	return p
}

type collJob struct {
	fam    *family
	length int
	lo, hi int
}

func partA(r *mc.Run, fams []family, capv int) {
	var jobs []collJob
	for fi := range fams {
		f := &fams[fi]
		for l := f.minLen; l <= f.maxLen; l++ {
			total := pow(len(f.alpha), l)
			chunk := 128
			if l >= 10 {
				chunk = 32
			}
			for lo := 0; lo < total; lo += chunk {
				hi := lo + chunk
				if hi > total {
					hi = total
				}
				jobs = append(jobs, collJob{f, l, lo, hi})
			}
		}
	}
	// the shortest streams first and in order, so that the counterexample kept for a class is a
	// smallest one and the same on every run; the rest in parallel
	nseq := 0
	for nseq < len(jobs) && jobs[nseq].fam == &fams[0] && jobs[nseq].length <= 2 {
		nseq++
	}
	runJob := func(ji int) {
		j := jobs[ji]
		a := &acc{cnt: map[string]int64{}}
		defer a.flush(r)
		schemes := idSchemes(j.length, j.length <= j.fam.allPerms)
		if j.fam.lean {
			schemes = [][]int{schemes[0], schemes[2]}
		}
		syms := make([]sym, j.length)
		for si := j.lo; si < j.hi; si++ {
			if r.Expired() {
				r.Cap("deadline inside collector-level stream enumeration")
				return
			}
			x := si
			for p := j.length - 1; p >= 0; p-- {
				syms[p] = j.fam.alpha[x%len(j.fam.alpha)]
				x /= len(j.fam.alpha)
			}
			a.add("coll_streams", 1)
			for _, perm := range schemes {
				docs := make([]*rdoc, j.length)
				for p := range syms {
					docs[p] = syms[p].doc(string(rune('a' + perm[p])))
				}
				evalStream(r, j.fam, docs, si, isIdentity(perm), capv, a)
			}
		}
	}
	for ji := 0; ji < nseq; ji++ {
		runJob(ji)
	}
	r.ParFor(len(jobs)-nseq, 0, func(i int) { runJob(nseq + i) })
}

// ------------------------------------------------------------------------------------------
// part (b): index level
// ------------------------------------------------------------------------------------------

type profile struct {
	name string
	k    []string
	n    []float64
	d    []time.Time
	t    string
	z    bool // matches the term query t:z
}

var profiles = []profile{
	{name: "x2Z", k: []string{"x"}, n: []float64{numHi}, d: []time.Time{dateHi}, t: "z", z: true},
	{name: "y1z", k: []string{"y"}, n: []float64{numLo}, d: []time.Time{dateLo}, t: "z w", z: true},
	{name: "_2z", n: []float64{numHi}, d: []time.Time{dateHi}, t: "z w", z: true},
	{name: "x_Z", k: []string{"x"}, t: "z", z: true},
	{name: "__q", t: "q"},
	{name: "yw15Z", k: []string{"y", "w"}, n: []float64{numLo, numTop}, d: []time.Time{dateLo, dateTop}, t: "z", z: true},
}

const multiProfile = 5

// ids by insertion position: deliberately not in id order, so that insertion order (scorch) and
// id order (upsidedown) differ.
var idByPos = []string{"c", "a", "e", "b", "f", "d", "g", "n", "h", "m", "i", "l", "j", "k"}

func idxMapping() mapping.IndexMapping {
	m := bleve.NewIndexMapping()
	kf := bleve.NewTextFieldMapping()
	kf.Analyzer = keyword.Name
	m.DefaultMapping.AddFieldMappingsAt("k", kf)
	m.DefaultMapping.AddFieldMappingsAt("n", bleve.NewNumericFieldMapping())
	m.DefaultMapping.AddFieldMappingsAt("d", bleve.NewDateTimeFieldMapping())
	m.DefaultMapping.AddFieldMappingsAt("t", bleve.NewTextFieldMapping())
	return m
}

func docData(p profile) map[string]interface{} {
	data := map[string]interface{}{"t": p.t}
	switch len(p.k) {
	case 0:
	case 1:
		data["k"] = p.k[0]
	default:
		var l []interface{}
		for _, v := range p.k {
			l = append(l, v)
		}
		data["k"] = l
	}
	switch len(p.n) {
	case 0:
	case 1:
		data["n"] = p.n[0]
	default:
		var l []interface{}
		for _, v := range p.n {
			l = append(l, v)
		}
		data["n"] = l
	}
	switch len(p.d) {
	case 0:
	case 1:
		data["d"] = p.d[0]
	default:
		var l []interface{}
		for _, v := range p.d {
			l = append(l, v)
		}
		data["d"] = l
	}
	return data
}

type idxQuery struct {
	name string
	mk   func() query.Query
	sel  func(p profile) bool
}

var idxQueries = []idxQuery{
	{"match_all", func() query.Query { return bleve.NewMatchAllQuery() }, func(p profile) bool { return true }},
	{"term t:z", func() query.Query { q := bleve.NewTermQuery("z"); q.SetField("t"); return q }, func(p profile) bool { return p.z }},
}

func idxSpecs() [][]rkey {
	var out [][]rkey
	for _, desc := range []bool{false, true} {
		out = append(out, []rkey{id(desc)}, []rkey{sc(desc)}, []rkey{sc(desc), id(!desc)})
		for _, mf := range []bool{false, true} {
			out = append(out,
				[]rkey{fk("k", desc, mf)}, []rkey{fk("n", desc, mf)}, []rkey{fk("d", desc, mf)},
				[]rkey{au(fk("k", desc, mf)), id(false)}, []rkey{fk("n", desc, mf), id(true)}, []rkey{fk("d", desc, mf), id(false)},
				[]rkey{fk("k", desc, mf), fk("n", !desc, mf), id(false)},
				[]rkey{fk("n", desc, mf), sc(true), id(desc)},
			)
			for _, mode := range []int{1, 2} {
				out = append(out,
					[]rkey{fm("k", desc, mf, mode)},
					[]rkey{fm("n", desc, mf, mode), id(false)},
					[]rkey{fm("d", desc, mf, mode), fm("k", !desc, !mf, 3-mode), id(true)})
			}
		}
	}
	out = append(out, []rkey{au(fk("n", false, false))}, []rkey{au(fk("n", true, true))}, []rkey{sc(true), fk("k", false, false)})
	return out
}

func specMinMax(keys []rkey) bool {
	for _, k := range keys {
		if k.mode != 0 {
			return true
		}
	}
	return false
}

type searchOut struct {
	res *bleve.SearchResult
	err error
}

func doSearch(idx bleve.Index, q idxQuery, keys []rkey, size, from int, after, before []string) (out searchOut, pv any, stack string) {
	pv, stack = mc.Try(func() {
		req := bleve.NewSearchRequestOptions(q.mk(), size, from, false)
		req.SortByCustom(toSort(keys))
		if after != nil {
			req.SetSearchAfter(after)
		}
		if before != nil {
			req.SetSearchBefore(before)
		}
		out.res, out.err = idx.Search(req)
	})
	return
}

func corpusReplay(corpus []int) []map[string]any {
	var out []map[string]any
	for pos, pi := range corpus {
		m := map[string]any{"id": idByPos[pos]}
		for k, v := range docData(profiles[pi]) {
			m[k] = v
		}
		out = append(out, m)
	}
	return out
}

func corpusString(corpus []int) string {
	var ss []string
	for pos, pi := range corpus {
		ss = append(ss, idByPos[pos]+"="+profiles[pi].name)
	}
	return "{" + strings.Join(ss, " ") + "}"
}

func evalCorpus(r *mc.Run, corpus []int, ci int, specs [][]rkey, capv int, a *acc) {
	N := len(corpus)
	rot := 1
	if r.Quick() && N == 3 {
		rot = 3 // quick tier: the sort specifications are rotated over the 216 three-document corpora
	}
	hasMulti := false
	for _, pi := range corpus {
		if pi == multiProfile {
			hasMulti = true
		}
	}
	for _, eng := range bx.MemEngines {
		idx := eng.Mk(idxMapping())
		for pos, pi := range corpus {
			if err := idx.Index(idByPos[pos], docData(profiles[pi])); err != nil {
				panic(err)
			}
		}
		// the documents in natural index order of this engine
		var natural []*rdoc
		var profOf = map[string]profile{}
		for pos, pi := range corpus {
			p := profiles[pi]
			d := &rdoc{id: idByPos[pos], k: p.k, n: p.n}
			for _, t := range p.d {
				d.d = append(d.d, t.UnixNano())
			}
			natural = append(natural, d)
			profOf[d.id] = p
		}
		if eng.Name != "scorch" {
			sort.SliceStable(natural, func(i, j int) bool { return natural[i].id < natural[j].id })
		}
		for _, q := range idxQueries {
			base := func(kind string, keys []rkey) map[string]any {
				return map[string]any{"level": "index", "engine": eng.Name, "documents_in_insertion_order_one_per_batch": corpusReplay(corpus), "mapping": "k: text/keyword analyzer, n: numeric, d: datetime, t: text",
					"query": q.name, "sort": sortJSON(keys), "PreAllocSizeSkipCap": capv, "kind": kind}
			}
			var matches []*rdoc
			for _, d := range natural {
				if q.sel(profOf[d.id]) {
					matches = append(matches, d)
				}
			}
			n := len(matches)
			// scores are an input of the property: read them once, from a listing by id
			bkeys := []rkey{id(false)}
			bo, pv, st := doSearch(idx, q, bkeys, N+1, 0, nil, nil)
			a.evals++
			if pv != nil || bo.err != nil {
				r.Violation("baseline:index:"+eng.Name, fmt.Sprintf("%s %s %s sorted by _id: panic=%v err=%v %s", eng.Name, corpusString(corpus), q.name, pv, bo.err, mc.TrimStack(st)), base("baseline", bkeys))
				continue
			}
			scoreOf := map[string]float64{}
			for _, h := range bo.res.Hits {
				scoreOf[h.ID] = h.Score
			}
			okSet := len(scoreOf) == n && len(bo.res.Hits) == n
			for _, d := range matches {
				s, ok := scoreOf[d.id]
				if !ok {
					okSet = false
				}
				d.score = s
			}
			if !okSet {
				rep := base("baseline", bkeys)
				rep["got"], rep["want_set"] = bx.HitIDs(bo.res), idsOf(matches)
				r.Violation("baseline:index:match-set", fmt.Sprintf("%s %s %s: hits %v are not the matching documents %v (C02's business; sort checks skipped)", eng.Name, corpusString(corpus), q.name, bx.HitIDs(bo.res), idsOf(matches)), rep)
				continue
			}
			wantMax := maxScore(matches)
			for si, keys := range specs {
				if (si+ci)%rot != 0 {
					continue
				}
				if r.Expired() {
					r.Cap("deadline inside index-level corpus evaluation")
					idx.Close()
					return
				}
				if specMinMax(keys) != hasMulti {
					// default mode on a multi-valued key: which value is "first" is an engine detail the
					// property does not fix; min/max on single-valued keys is the default-mode path again
					a.add("idx_specs_skipped_mode_vs_multivalued", 1)
					continue
				}
				shape := specShape(keys)
				cshape := classShape(keys)
				exp := refSort(matches, keys)
				expIDs := idsOf(exp)
				tied := tiedCount(exp, keys)
				doReq := func(kind string, size, from int, after, before []string) (*bleve.SearchResult, bool) {
					o, pv, st := doSearch(idx, q, keys, size, from, after, before)
					a.evals++
					if pv != nil {
						rep := base("panic", keys)
						rep["size"], rep["from"], rep["search_after"], rep["search_before"], rep["panic"] = size, from, after, before, fmt.Sprint(pv)
						r.Violation("panic:"+kind+":"+cshape, fmt.Sprintf("%s %s %s sort=%s size=%d from=%d after=%q before=%q: panic %v @ %s", eng.Name, corpusString(corpus), q.name, specString(keys), size, from, after, before, pv, mc.TrimStack(st)), rep)
						return nil, false
					}
					if o.err != nil {
						rep := base("error", keys)
						rep["size"], rep["from"], rep["search_after"], rep["search_before"], rep["error"] = size, from, after, before, o.err.Error()
						r.Violation("error:"+kind+":"+cshape, fmt.Sprintf("%s %s %s sort=%s size=%d from=%d after=%q before=%q: error %v", eng.Name, corpusString(corpus), q.name, specString(keys), size, from, after, before, o.err), rep)
						return nil, false
					}
					if int(o.res.Total) != n {
						rep := base("total", keys)
						rep["size"], rep["from"], rep["search_after"], rep["search_before"], rep["got_total"], rep["want_total"] = size, from, after, before, o.res.Total, n
						r.Violation("total:"+kind, fmt.Sprintf("%s %s %s sort=%s size=%d from=%d after=%q before=%q: Total %d, want %d", eng.Name, corpusString(corpus), q.name, specString(keys), size, from, after, before, o.res.Total, n), rep)
					}
					if o.res.MaxScore != wantMax {
						rep := base("maxscore", keys)
						rep["size"], rep["from"], rep["search_after"], rep["search_before"], rep["got_max"], rep["want_max"] = size, from, after, before, o.res.MaxScore, wantMax
						r.Violation("maxscore:"+kind, fmt.Sprintf("%s %s %s sort=%s size=%d from=%d after=%q before=%q: MaxScore %v, want %v", eng.Name, corpusString(corpus), q.name, specString(keys), size, from, after, before, o.res.MaxScore, wantMax), rep)
					}
					return o.res, true
				}
				// the whole list
				full, ok := doReq("page", N+1, 0, nil, nil)
				if !ok {
					continue
				}
				got := bx.HitIDs(full)
				if !eqS(got, expIDs) {
					onlyTies := len(got) == len(exp)
					if onlyTies {
						byID := map[string]*rdoc{}
						for _, d := range exp {
							byID[d.id] = d
						}
						for i := range got {
							g := byID[got[i]]
							if g == nil || cmpKeys(g, exp[i], keys) != 0 {
								onlyTies = false
								break
							}
						}
					}
					rep := base("order", keys)
					rep["size"], rep["from"], rep["got"], rep["want"] = N+1, 0, got, expIDs
					cls := "page:" + storeName(N+1) + ":" + cshape
					if onlyTies {
						cls = "tie-order:" + eng.Name
						rep["natural_order_assumed"] = idsOf(matches)
					}
					r.Violation(cls, fmt.Sprintf("index level: %s %s %s sort=%s: all hits %v, want %v (natural order %v)", eng.Name, corpusString(corpus), q.name, specString(keys), got, expIDs, idsOf(matches)), rep)
					r.Outcome(fmt.Sprintf("idx|%s|%s|n=%d|WRONG", eng.Name, shape, n))
					continue
				}
				// every page
				type pg struct{ size, from int }
				var pages []pg
				for size := 0; size <= N+1; size++ {
					for from := 0; from <= N+1; from++ {
						pages = append(pages, pg{size, from})
					}
				}
				pages = append(pages, pg{11, 0}, pg{9, 2}, pg{1, 10}, pg{12, 1})
				for _, p := range pages {
					if capv < 1000 && p.size+p.from <= capv {
						continue
					}
					res, ok := doReq("page", p.size, p.from, nil, nil)
					if !ok {
						continue
					}
					a.add("idx_pages_"+storeName(p.size+p.from)+"_store", 1)
					lo, hi := clip(n, p.from, p.size)
					if g := bx.HitIDs(res); !eqS(g, expIDs[lo:hi]) {
						rep := base("page", keys)
						rep["size"], rep["from"], rep["got"], rep["want"], rep["full_order"] = p.size, p.from, g, expIDs[lo:hi], expIDs
						r.Violation("page:"+storeName(p.size+p.from)+":"+cshape, fmt.Sprintf("index level: %s %s %s sort=%s size=%d from=%d: hits %v, want positions [%d,%d) of %v", eng.Name, corpusString(corpus), q.name, specString(keys), p.size, p.from, g, lo, hi, expIDs), rep)
					}
				}
				// SearchAfter / SearchBefore from every hit under a total order
				nAB := 0
				if totalOrder(keys) {
					sizes := []int{1, 2, 3, 11}
					if capv < 1000 {
						sizes = []int{4, 11}
					}
					for h, hit := range full.Hits {
						bk, ok := boundaryKeys(hit, keys)
						if !ok {
							rep := base("decoded-sort", keys)
							rep["hit"], rep["decoded_sort"] = hit.ID, hit.DecodedSort
							r.Violation("decoded-sort:"+cshape, fmt.Sprintf("%s %s %s sort=%s: hit %s has DecodedSort %q for %d sort keys", eng.Name, corpusString(corpus), q.name, specString(keys), hit.ID, hit.DecodedSort, len(keys)), rep)
							continue
						}
						missNum := boundaryMissingNumeric(exp[h], keys)
						for _, size := range sizes {
							for _, before := range []bool{false, true} {
								var res *bleve.SearchResult
								var want []string
								kind := "after"
								if before {
									kind = "before"
									lo := h - size
									if lo < 0 {
										lo = 0
									}
									want = expIDs[lo:h]
									res, ok = doReq(kind, size, 0, nil, bk)
								} else {
									hi := h + 1 + size
									if hi > n {
										hi = n
									}
									want = expIDs[h+1 : hi]
									res, ok = doReq(kind, size, 0, bk, nil)
								}
								if !ok {
									continue
								}
								nAB++
								if missNum {
									a.add("after_runs_from_boundary_hit_missing_numeric_key", 1)
								}
								if g := bx.HitIDs(res); !eqS(g, want) {
									cls := kind + ":" + cshape
									if missNum {
										cls = knownAfterClass
									}
									rep := base(kind, keys)
									rep["size"], rep["search_"+kind], rep["boundary_hit"], rep["got"], rep["want"], rep["full_order"] = size, bk, hit.ID, g, want, expIDs
									r.Violation(cls, fmt.Sprintf("index level: %s %s %s sort=%s Search%s=%q (keys of hit %s at position %d of %v) size=%d: hits %v, want %v", eng.Name, corpusString(corpus), q.name, specString(keys), map[string]string{"after": "After", "before": "Before"}[kind], bk, hit.ID, h, expIDs, size, g, want), rep)
								}
							}
						}
					}
				}
				a.add("idx_after_before_runs", int64(nAB))
				if tied > 0 {
					a.add("idx_specs_with_tied_keys", 1)
				}
				tb := tied
				if tb > 3 {
					tb = 3
				}
				r.Outcome(fmt.Sprintf("idx|%s|%s|n=%d|tied=%d|ab=%v", eng.Name, shape, n, tb, nAB > 0))
			}
		}
		idx.Close()
	}
	a.add("idx_corpora", 1)
}

func corpora(r *mc.Run, capv int) [][]int {
	var out [][]int
	maxLen := mc.Pick(r, 3, 4)
	if capv < 1000 {
		maxLen-- // the cap=3 phase repeats the enumeration one step shorter (plus the fixed corpora)
	}
	for l := 0; l <= maxLen; l++ {
		total := pow(len(profiles), l)
		for x := 0; x < total; x++ {
			c := make([]int, l)
			y := x
			for p := l - 1; p >= 0; p-- {
				c[p] = y % len(profiles)
				y /= len(profiles)
			}
			out = append(out, c)
		}
	}
	// larger fixed corpora: every profile, repeated profiles, enough matches to evict from the
	// slice store and (14 documents) from the heap store
	out = append(out,
		[]int{0, 1, 2, 3, 1, 4, 0},
		[]int{3, 3, 0, 0, 2, 2},
		[]int{5, 1, 0, 5, 3, 4},
		[]int{0, 1, 2, 3, 4, 0, 1, 2, 3, 4, 0, 1, 2, 3},
		[]int{5, 0, 1, 5, 2, 3, 4, 5, 1, 0, 3, 2, 5, 1},
	)
	if !r.Quick() {
		out = append(out,
			[]int{1, 1, 1, 1, 1, 1},
			[]int{4, 3, 2, 1, 0, 4, 3, 2, 1, 0, 4, 3},
			[]int{2, 0, 2, 0, 3, 1, 3, 1, 4, 4, 0, 0, 1, 2},
		)
	}
	return out
}

// partB: small = the corpora of at most one document, sequentially and in order (so that the
// counterexample kept for a class is a smallest one, reproducible with the public Index API);
// otherwise all the others in parallel.
func partB(r *mc.Run, cs [][]int, capv int, small bool) {
	specs := idxSpecs()
	var order []int
	for i := range cs {
		if (len(cs[i]) <= 1) == small {
			order = append(order, i)
		}
	}
	one := func(i int) {
		a := &acc{cnt: map[string]int64{}}
		defer a.flush(r)
		evalCorpus(r, cs[order[i]], order[i], specs, capv, a)
	}
	if small {
		for i := range order {
			one(i)
		}
		return
	}
	// largest first so that the long items do not end up last
	sort.SliceStable(order, func(i, j int) bool { return len(cs[order[i]]) > len(cs[order[j]]) })
	r.ParFor(len(order), 0, one)
}

// ------------------------------------------------------------------------------------------

func samples(r *mc.Run) {
	// collector level, page
	{
		al := alphaScoreKey("a", "b", "_")
		docs := []*rdoc{al[3].doc("a"), al[2].doc("b"), al[1].doc("c"), al[0].doc("d")}
		keys := []rkey{fk("k", true, true)}
		res := collect(docs, keys, 2, 1, nil)
		r.Sample(map[string]any{"level": "collector", "stream": streamString(docs), "sort": specString(keys), "size": 2, "skip": 1,
			"expected_full_order": idsOf(refSort(docs, keys)), "hits": hitIDs(res.hits), "total": res.total, "max_score": res.max})
	}
	// collector level, after
	{
		al := alphaScoreKey("a", "b", "_")
		docs := []*rdoc{al[1].doc("c"), al[0].doc("a"), al[4].doc("b")}
		keys := []rkey{fk("k", false, false), id(false)}
		full := collect(docs, keys, 4, 0, nil)
		if len(full.hits) == 3 {
			bk, _ := boundaryKeys(full.hits[0], keys)
			res := collect(docs, keys, 1, 0, bk)
			r.Sample(map[string]any{"level": "collector", "stream": streamString(docs), "sort": specString(keys), "search_after": bk, "size": 1,
				"expected_full_order": idsOf(refSort(docs, keys)), "hits": hitIDs(res.hits)})
		}
	}
	// index level
	{
		corpus := []int{0, 1, 0, 2}
		r.Sample(map[string]any{"level": "index", "corpus": corpusString(corpus), "engines": "scorch (natural order = insertion: c a e b), upsidedown (natural order = id: a b c e)",
			"sort": specString([]rkey{fk("n", false, false)}), "pages": "every (size, from) in 0..5 × 0..5 plus heap-store pages", "after_before": "from every hit under specs ending in _id, sizes 1,2,3,11"})
	}
}

func Run(r *mc.Run) {
	old := collector.PreAllocSizeSkipCap
	defer func() { collector.PreAllocSizeSkipCap = old }()

	nspecA := 0
	for _, f := range families(r, 1000) {
		nspecA += len(f.specs)
	}
	r.Rule("E2, two enumerations, each run with collector.PreAllocSizeSkipCap = 1000 and then = 3. " +
		"(a) collector level: the real TopNCollector over a stub searcher + stub doc-value reader, fed every stream up to the length bound (quick 4 / thorough 5 for the first alphabet, 3 / 4 for the others) over the alphabets {score 1,2}×{key a, b, missing} (the fields k/n/d tied), {k}×{n} independent, {score}×{a, b, missing, multi-valued {c,a}}, and all binary score/key streams of length 12 (thorough 12 and 13); ids are assigned to arrival positions by every permutation (streams ≤ 3, thorough ≤ 4) or by 3 fixed permutations; × the sort specifications (score, _id, string/number/date field asc/desc × missing first/last × default/min/max mode × typed/auto, two- and three-key) × Size {0,1,2,3,5,11} × From {0,1,2,10}; under specifications ending in _id additionally NewTopNCollectorAfter from every hit with the keys the collector itself reported (DecodedSort / exact score). " +
		"(b) index level: every sequence of ≤ 3 (thorough ≤ 4) document profiles out of 6 plus fixed corpora of 6–14 documents (repeated profiles: whole keys and scores tie), one document per batch, on in-memory scorch and upsidedown, queries {match_all, term}, the sort specifications, every From/Size page of (0..N+1)² plus heap-store pages, SearchAfter and SearchBefore from every hit under total orders. " +
		"The cap=3 repetition is one length step shorter, restricted to the first alphabet and the long streams, and to pages with Size+From > 3; the quick tier rotates the specifications over the longest streams / the three-document corpora. " +
		"Oracle: stable sort of the matches, taken in natural index order, by the documented comparison; hits must be exactly positions [From, From+Size), Total the number of matches, MaxScore their maximum; After/Before pages the following/preceding Size elements. An outcome is (level, engine, sort shape, number of matches, number of tied neighbours, after/before exercised).")
	r.Assume(
		"natural index order: arrival order of the stub searcher at collector level; insertion order for in-memory scorch with one document per batch (no merges); ascending id for upsidedown — stated exactly, so tie groups are compared as sequences",
		"scores are an input of the property: at index level the score of each match is read once from a listing sorted by _id and used by the oracle",
		"default mode on a multi-valued key is not compared (which value is first is doc-value order, an engine detail); multi-valued keys are checked with min/max",
		"SearchAfter/SearchBefore only under specifications whose last key is _id (total order), keys from DecodedSort with typed sort fields as docs/pagination.md prescribes",
		"geo-distance sort keys are not enumerated",
	)
	r.Note("collector_sort_specs", nspecA)
	r.Note("index_sort_specs", len(idxSpecs()))
	r.Note("index_corpora", len(corpora(r, 1000)))
	samples(r)

	for _, capv := range []int{1000, 3} {
		collector.PreAllocSizeSkipCap = capv
		if r.Expired() {
			r.Cap(fmt.Sprintf("deadline before PreAllocSizeSkipCap=%d phase", capv))
			return
		}
		cs := corpora(r, capv)
		partB(r, cs, capv, true)
		t0 := time.Now()
		partA(r, families(r, capv), capv)
		r.Note(fmt.Sprintf("wall_s_collector_level_cap_%d", capv), time.Since(t0).Seconds())
		t0 = time.Now()
		partB(r, cs, capv, false)
		r.Note(fmt.Sprintf("wall_s_index_level_cap_%d", capv), time.Since(t0).Seconds())
		r.Count(fmt.Sprintf("phase_cap_%d_done", capv), 1)
	}
}
