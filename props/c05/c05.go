// Package c05: merging and persisting never change what any search returns.
//
// E1/E2: every history up to the depth bound over a small id space and a document alphabet is
// laid out physically in every way the engine offers (one segment per operation = baseline;
// every partition into consecutive batches; one batch; file merges forced after every batch;
// ForceMerge; in-memory merges by two persister workers; close + reopen; older segment formats)
// and the complete result of every request of the request family is compared with the baseline.
package c05

import (
	"context"
	"fmt"
	"math"
	"os"
	"regexp"
	"sort"
	"strings"
	"sync/atomic"
	"time"

	"github.com/blevesearch/bleve/v2"
	"github.com/blevesearch/bleve/v2/index/scorch"
	"github.com/blevesearch/bleve/v2/search"
	"github.com/blevesearch/bleve/v2/search/query"

	"github.com/blevesearch/bleve/v2/mapping"

	"verif/bx"
	"verif/gen"
	"verif/mc"
)

// field k: keyword terms WITHOUT term vectors (a term that occurs once in one document of a merged
// segment is stored as a "1-hit" posting there; text fields with term vectors never are)
var versions = []map[string]interface{}{
	{"t": "x y x", "n": 1.0, "k": []interface{}{"a", "s"}},
	{"t": "y", "n": 2.0, "d": gen.T0, "k": []interface{}{"b", "s"}},
	{"t": []interface{}{"x", "y z"}, "n": []interface{}{1.0, 3.0}, "k": "a"},
	{"t": "z z z x", "d": gen.T0.Add(24 * time.Hour), "k": []interface{}{"b", "s"}},
}

func indexMapping() *mapping.IndexMappingImpl {
	im := bleve.NewIndexMapping()
	k := bleve.NewKeywordFieldMapping()
	k.IncludeTermVectors = false
	im.DefaultMapping.AddFieldMappingsAt("k", k)
	return im
}

var idSpace = []string{"p", "q", "r"}

type op struct {
	del bool
	id  string
	ver int
}

func (o op) String() string {
	if o.del {
		return "D(" + o.id + ")"
	}
	return fmt.Sprintf("I(%s,v%d)", o.id, o.ver)
}

func alphabet() []op {
	var a []op
	for _, id := range idSpace {
		for v := range versions {
			a = append(a, op{id: id, ver: v})
		}
		a = append(a, op{del: true, id: id})
	}
	return a
}

func tq(f, t string) query.Query { q := bleve.NewTermQuery(t); q.SetField(f); return q }

func queries() []query.Query {
	mq := bleve.NewMatchQuery("x y")
	mq.SetField("t")
	ph := bleve.NewPhraseQuery([]string{"y", "z"}, "t")
	one, three := 1.0, 3.0
	tr := true
	nr := bleve.NewNumericRangeInclusiveQuery(&one, &three, &tr, &tr)
	nr.SetField("n")
	dr := bleve.NewDateRangeQuery(gen.T0, gen.T0.Add(48*time.Hour))
	dr.SetField("d")
	pq := bleve.NewPrefixQuery("x")
	pq.SetField("t")
	fq := bleve.NewFuzzyQuery("zz")
	fq.SetField("t")
	fq.SetFuzziness(1)
	bq := bleve.NewBooleanQuery()
	bq.AddMust(tq("t", "x"))
	bq.AddMustNot(tq("t", "z"))
	bq2 := bleve.NewBooleanQuery()
	bq2.AddShould(tq("t", "y"), tq("t", "z"))
	bq2.SetMinShould(1)
	return []query.Query{
		bleve.NewMatchAllQuery(), tq("t", "x"), mq, ph,
		bleve.NewConjunctionQuery(tq("t", "x"), tq("t", "y")),
		bleve.NewDisjunctionQuery(tq("t", "z"), nr),
		bq, bq2, nr, dr, pq, fq,
		bleve.NewDocIDQuery([]string{"p", "r", "zz"}),
		// appended (the classifier of the known finding names queries by position)
		bleve.NewConjunctionQuery(tq("k", "a"), tq("k", "s")),
		bleve.NewDisjunctionQuery(tq("k", "a"), tq("k", "b")),
	}
}

var sorts = [][]string{{"-_score", "_id"}, {"_id"}, {"n", "_id"}, {"-n", "-_id"}, {"-_score"}}

func f64(f float64) string { return fmt.Sprintf("%x", math.Float64bits(f)) }

// render runs the whole request family and renders every result canonically. Hits whose
// complete sort key is equal are ordered by id: ties are broken by internal document number,
// which is layout dependent by design (C06), so C05 must not constrain it.
func render(idx bleve.Index) (string, error) {
	var sb strings.Builder
	for qi, q := range queries() {
		for si, s := range sorts {
			req := bleve.NewSearchRequest(q)
			req.Size = 20
			req.SortBy(s)
			req.Fields = []string{"*"}
			req.IncludeLocations = true
			req.Highlight = bleve.NewHighlight()
			req.AddFacet("terms", bleve.NewFacetRequest("t", 10))
			nf := bleve.NewFacetRequest("n", 10)
			lo, mid := 0.0, 2.0
			nf.AddNumericRange("low", &lo, &mid)
			nf.AddNumericRange("high", &mid, nil)
			req.AddFacet("nums", nf)
			res, err := idx.Search(req)
			if err != nil {
				return "", fmt.Errorf("query %d sort %v: %v", qi, s, err)
			}
			fmt.Fprintf(&sb, "q%d.s%d total=%d max=%s:", qi, si, res.Total, f64(res.MaxScore))
			hits := append(search.DocumentMatchCollection{}, res.Hits...)
			keyOf := func(h *search.DocumentMatch) string { return strings.Join(h.Sort, "\x00") }
			sort.SliceStable(hits, func(i, j int) bool {
				return keyOf(hits[i]) == keyOf(hits[j]) && hits[i].ID < hits[j].ID && adjacentGroup(hits, i, j)
			})
			// group-wise canonical order: walk groups of equal sort key
			for i := 0; i < len(hits); {
				j := i
				for j < len(hits) && keyOf(hits[j]) == keyOf(hits[i]) {
					j++
				}
				g := hits[i:j]
				sort.Slice(g, func(a, b int) bool { return g[a].ID < g[b].ID })
				i = j
			}
			for _, h := range hits {
				var fs []string
				for k, v := range h.Fields {
					fs = append(fs, fmt.Sprintf("%s=%v", k, v))
				}
				sort.Strings(fs)
				var locs []string
				for f, tl := range h.Locations {
					for term, ls := range tl {
						for _, l := range ls {
							locs = append(locs, fmt.Sprintf("%s/%s/%d/%d/%d/%v", f, term, l.Pos, l.Start, l.End, l.ArrayPositions))
						}
					}
				}
				sort.Strings(locs)
				var frs []string
				for f, fr := range h.Fragments {
					frs = append(frs, f+":"+strings.Join(fr, "¦"))
				}
				sort.Strings(frs)
				fmt.Fprintf(&sb, " %s=%s k%q{%s}[%s]<%s>", h.ID, f64(h.Score), h.Sort, strings.Join(fs, ","), strings.Join(locs, ","), strings.Join(frs, ","))
			}
			var fns []string
			for n := range res.Facets {
				fns = append(fns, n)
			}
			sort.Strings(fns)
			for _, n := range fns {
				f := res.Facets[n]
				fmt.Fprintf(&sb, " facet %s(%d,%d,%d", n, f.Total, f.Missing, f.Other)
				if f.Terms != nil {
					for _, t := range f.Terms.Terms() {
						fmt.Fprintf(&sb, " %s=%d", t.Term, t.Count)
					}
				}
				for _, nr := range f.NumericRanges {
					fmt.Fprintf(&sb, " %s=%d", nr.Name, nr.Count)
				}
				sb.WriteString(")")
			}
			sb.WriteString(";\n")
		}
	}
	// the unscored path (Score "none") takes different searchers (unadorned postings, bitmap algebra):
	// ids and Total must not depend on the layout either
	for qi, q := range queries() {
		req := bleve.NewSearchRequest(q)
		req.Size = 20
		req.Score = "none"
		req.SortBy([]string{"_id"})
		res, err := idx.Search(req)
		if err != nil {
			return "", fmt.Errorf("query %d score none: %v", qi, err)
		}
		fmt.Fprintf(&sb, "q%d.none total=%d max=0:", qi, res.Total)
		for _, h := range res.Hits {
			fmt.Fprintf(&sb, " %s=0", h.ID)
		}
		sb.WriteString(";\n")
	}
	cnt, err := idx.DocCount()
	if err != nil {
		return "", err
	}
	fmt.Fprintf(&sb, "count=%d", cnt)
	return sb.String(), nil
}

func adjacentGroup(search.DocumentMatchCollection, int, int) bool { return false }

type layout struct {
	pileUp bool // park the persister at its idle point (unsafe batches): every batch is still an in-memory segment when it resumes, so that one persister round merges them all in memory
	gated  bool // park the first merge task and let the remaining operations land while it is in flight
	name   string
	disk   bool
	cfg    map[string]interface{}
	// parts: partition of the history into consecutive batches (nil = one op per batch)
	parts func(n int) [][]int
	post  string // "" | forcemerge | reopen | forcemerge+reopen
}

func perOp(n int) [][]int {
	var p [][]int
	for i := 0; i < n; i++ {
		p = append(p, []int{i})
	}
	return p
}
func oneBatch(n int) [][]int {
	var b []int
	for i := 0; i < n; i++ {
		b = append(b, i)
	}
	return [][]int{b}
}

// allPartitions returns every partition of 0..n-1 into consecutive groups.
func allPartitions(n int) [][][]int {
	var out [][][]int
	for mask := 0; mask < 1<<(n-1); mask++ {
		var p [][]int
		cur := []int{0}
		for i := 1; i < n; i++ {
			if mask&(1<<(i-1)) != 0 {
				p = append(p, cur)
				cur = nil
			}
			cur = append(cur, i)
		}
		p = append(p, cur)
		out = append(out, p)
	}
	return out
}

func apply(idx bleve.Index, ops []op, parts [][]int) error {
	for _, grp := range parts {
		b := idx.NewBatch()
		for _, i := range grp {
			o := ops[i]
			if o.del {
				b.Delete(o.id)
			} else if err := b.Index(o.id, versions[o.ver]); err != nil {
				return err
			}
		}
		if err := idx.Batch(b); err != nil {
			return err
		}
	}
	return nil
}

var unsafe2 = map[string]interface{}{"unsafe_batch": true, "scorchPersisterOptions": map[string]interface{}{"NumPersisterWorkers": 2, "MaxSizeInMemoryMergePerWorker": 1}}

var unsafe1 = map[string]interface{}{"unsafe_batch": true}

func layouts(quick bool) []layout {
	ls := []layout{
		{name: "disk-aggressive-merge", disk: true, cfg: map[string]interface{}{"scorchMergePlanOptions": bx.AggressiveMergePlan}},
		{name: "disk-nomerge+forcemerge-before-last-operation", disk: true, cfg: map[string]interface{}{"scorchMergePlanOptions": bx.NoMergePlan}, post: "forcemerge-before-last"},
		{name: "disk-partial-merge", disk: true, cfg: map[string]interface{}{"scorchMergePlanOptions": bx.PartialMergePlan}},
		{name: "disk-operations-land-while-merge-in-flight", disk: true, gated: true, cfg: map[string]interface{}{"scorchMergePlanOptions": bx.AggressiveMergePlan}},
		{name: "disk-nomerge+reopen", disk: true, cfg: map[string]interface{}{"scorchMergePlanOptions": bx.NoMergePlan}, post: "reopen"},
		{name: "disk-nomerge+forcemerge+reopen", disk: true, cfg: map[string]interface{}{"scorchMergePlanOptions": bx.NoMergePlan}, post: "forcemerge+reopen"},
		{name: "disk-unsafe-2-persister-workers", disk: true, cfg: unsafe2},
		{name: "disk-unsafe-2-persister-workers-all-batches-merged-in-memory-in-one-round", disk: true, pileUp: true, cfg: unsafe2},
		{name: "disk-unsafe-1-persister-worker-all-batches-merged-in-memory-in-one-round", disk: true, pileUp: true, cfg: unsafe1},
		{name: "mem-zap15", cfg: map[string]interface{}{"forceSegmentType": "zap", "forceSegmentVersion": 15}},
	}
	if !quick {
		ls = append(ls,
			layout{name: "disk-default+reopen", disk: true, post: "reopen"},
			layout{name: "disk-zap16-aggressive", disk: true, cfg: map[string]interface{}{"forceSegmentType": "zap", "forceSegmentVersion": 16, "scorchMergePlanOptions": bx.AggressiveMergePlan}},
			layout{name: "mem-zap16", cfg: map[string]interface{}{"forceSegmentType": "zap", "forceSegmentVersion": 16}},
		)
	}
	return ls
}

var piledUp int64 // builds in which every batch was still its own in-memory segment when the persister resumed

func build(l layout, ops []op, parts [][]int, dir string) (bleve.Index, error) {
	p := ""
	if l.disk {
		p = dir + "/" + l.name
	}
	cfg := bx.CopyConfig(l.cfg)
	if l.pileUp {
		g := bx.AcquireGateFor(scorch.EventKindPurgerCheck)
		defer g.Free()
		cfg["eventCallbackName"] = g.Name()
		g.Arm()
		idx, err := bleve.NewUsing(p, indexMapping(), scorch.Name, scorch.Name, cfg)
		if err != nil {
			return nil, err
		}
		parked := g.WaitParked(3 * time.Second)
		if err := apply(idx, ops, parts); err != nil {
			g.Release()
			idx.Close()
			return nil, err
		}
		if parked && strings.Count(bx.ScorchLayout(idx), "|") == len(parts)-1 {
			atomic.AddInt64(&piledUp, 1)
		}
		g.Release()
		bx.Quiesce(idx, 3*time.Second)
		return idx, nil
	}
	if l.gated {
		g := bx.AcquireGate()
		defer g.Free()
		cfg["eventCallbackName"] = g.Name()
		idx, err := bleve.NewUsing(p, indexMapping(), scorch.Name, scorch.Name, cfg)
		if err != nil {
			return nil, err
		}
		g.Arm()
		for _, grp := range parts {
			if err := apply(idx, ops, [][]int{grp}); err != nil {
				g.Release()
				idx.Close()
				return nil, err
			}
			if g.IsParked() {
				bx.Persisted(idx, 3*time.Second)
			} else {
				g.WaitParkedOrQuiet(idx, 3*time.Second)
			}
		}
		g.Release()
		bx.Quiesce(idx, 3*time.Second)
		return idx, nil
	}
	idx, err := bleve.NewUsing(p, indexMapping(), scorch.Name, scorch.Name, cfg)
	if err != nil {
		return nil, err
	}
	if l.post == "forcemerge-before-last" && len(parts) >= 2 {
		// [merged segment, newer segment]: everything but the last batch is force-merged first
		if err := apply(idx, ops, parts[:len(parts)-1]); err != nil {
			idx.Close()
			return nil, err
		}
		bx.Quiesce(idx, 3*time.Second)
		if err := bx.Scorch(idx).ForceMerge(context.Background(), nil); err != nil {
			idx.Close()
			return nil, fmt.Errorf("ForceMerge: %v", err)
		}
		bx.Quiesce(idx, 3*time.Second)
		if err := apply(idx, ops, parts[len(parts)-1:]); err != nil {
			idx.Close()
			return nil, err
		}
		bx.Quiesce(idx, 3*time.Second)
		return idx, nil
	}
	if err := apply(idx, ops, parts); err != nil {
		idx.Close()
		return nil, err
	}
	if l.disk {
		bx.Quiesce(idx, 3*time.Second)
	}
	if strings.Contains(l.post, "forcemerge") {
		if err := bx.Scorch(idx).ForceMerge(context.Background(), nil); err != nil {
			idx.Close()
			return nil, fmt.Errorf("ForceMerge: %v", err)
		}
		bx.Quiesce(idx, 3*time.Second)
	}
	if strings.Contains(l.post, "reopen") {
		if err := idx.Close(); err != nil {
			return nil, fmt.Errorf("Close: %v", err)
		}
		idx, err = bleve.OpenUsing(p, bx.CopyConfig(l.cfg))
		if err != nil {
			return nil, fmt.Errorf("reopen: %v", err)
		}
	}
	return idx, nil
}

func firstDiff(a, b string) string {
	la, lb := strings.Split(a, "\n"), strings.Split(b, "\n")
	for i := 0; i < len(la) && i < len(lb); i++ {
		if la[i] != lb[i] {
			x, y := la[i], lb[i]
			k := 0
			for k < len(x) && k < len(y) && x[k] == y[k] {
				k++
			}
			s := k - 60
			if s < 0 {
				s = 0
			}
			e1, e2 := k+120, k+120
			if e1 > len(x) {
				e1 = len(x)
			}
			if e2 > len(y) {
				e2 = len(y)
			}
			return fmt.Sprintf("request %s…: baseline …%s… vs …%s…", x[:min(12, len(x))], x[s:e1], y[s:e2])
		}
	}
	return "different length"
}

// multiTerm: queries whose searcher expands to the dictionary terms of the field (numeric / date
// range, prefix, fuzzy): indexes into queries().
var multiTerm = map[int]bool{5: true, 8: true, 9: true, 10: true, 11: true}

// scoreless strips scores (hit scores, MaxScore, score sort keys) from a rendered request line.
var scoreRe = regexp.MustCompile(`(max=|=)[0-9a-f]{16}|k\[[^\]]*\]`)

func scoreless(l string) string { return scoreRe.ReplaceAllString(l, "$1S") }

// classify names the difference structurally.
func classify(want, got, baseLayout, lay string) string {
	la, lb := strings.Split(want, "\n"), strings.Split(got, "\n")
	if len(la) != len(lb) {
		return "shape"
	}
	onlyMultiTermScores := true
	kind := ""
	for i := range la {
		if la[i] == lb[i] {
			continue
		}
		var qi int
		fmt.Sscanf(la[i], "q%d.", &qi)
		if kind == "" {
			kind = diffKind(la[i], lb[i])
		}
		if !(multiTerm[qi] && scoreless(la[i]) == scoreless(lb[i])) {
			onlyMultiTermScores = false
		}
	}
	if onlyMultiTermScores && (strings.Contains(baseLayout, "!") != strings.Contains(lay, "!") || strings.Contains(lay, "!") || strings.Contains(baseLayout, "!")) {
		// only the scores of dictionary-expanded multi-term queries differ, and one of the layouts still
		// holds obsoleted documents whose terms the expansion sees
		return "score:multi-term-expansion-sees-terms-of-obsoleted-docs"
	}
	return kind
}

func diffKind(a, b string) string {
	la, lb := strings.Split(a, "\n"), strings.Split(b, "\n")
	for i := 0; i < len(la) && i < len(lb); i++ {
		if la[i] != lb[i] {
			ha, hb := strings.SplitN(la[i], ":", 2)[0], strings.SplitN(lb[i], ":", 2)[0]
			if ha != hb {
				if strings.Contains(ha, "total=") && strings.Fields(ha)[1] != strings.Fields(hb)[1] {
					return "total"
				}
				return "maxscore"
			}
			ia, ib := idsOf(la[i]), idsOf(lb[i])
			if ia != ib {
				return "hit-ids-or-order"
			}
			if strings.Contains(la[i], " facet ") && la[i][strings.Index(la[i], " facet "):] != lb[i][strings.Index(lb[i], " facet "):] {
				return "facets"
			}
			return "scores-fields-locations-or-fragments"
		}
	}
	return "doccount"
}

func idsOf(line string) string {
	var out []string
	for _, f := range strings.Fields(line) {
		if i := strings.Index(f, "="); i > 0 && len(f) > i+1 && !strings.Contains(f[:i], "/") && (f[0] == 'p' || f[0] == 'q' || f[0] == 'r') && i == 1 {
			out = append(out, f[:i])
		}
	}
	return strings.Join(out, ",")
}

func Run(r *mc.Run) {
	alpha := alphabet()
	depth := mc.Pick(r, 3, 3)
	var paths [][]int
	var rec func(p []int)
	rec = func(p []int) {
		if len(p) > 0 {
			paths = append(paths, append([]int{}, p...))
		}
		if len(p) == depth {
			return
		}
		for i := range alpha {
			// quick tier: at depth 3 keep only histories that touch an id twice (layout-relevant)
			rec(append(p, i))
		}
	}
	rec(nil)
	if r.Quick() {
		var keep [][]int
		for _, p := range paths {
			if len(p) < 3 {
				keep = append(keep, p)
				continue
			}
			// touch some id at least twice and use ≥ 2 ids
			cnt := map[string]int{}
			for _, i := range p {
				cnt[alpha[i].id]++
			}
			if len(cnt) == 2 && (p[0]+p[1]+p[2])%3 == 0 {
				keep = append(keep, p)
			}
		}
		paths = keep
	}
	if !r.Quick() {
		// depth 4 for a reduced alphabet (2 ids, 2 versions + delete)
		var red []int
		for i, o := range alpha {
			if (o.id == "p" || o.id == "q") && (o.del || o.ver == 0 || o.ver == 2) {
				red = append(red, i)
			}
		}
		var rec4 func(p []int)
		rec4 = func(p []int) {
			if len(p) == 4 {
				paths = append(paths, append([]int{}, p...))
				return
			}
			for _, i := range red {
				rec4(append(p, i))
			}
		}
		rec4(nil)
	}
	lays := layouts(r.Quick())
	r.Rule("E1/E2: every history up to the depth bound over 3 ids × (4 document versions + delete) is executed in the baseline layout (in-memory scorch, one segment per operation, never merged) and in every alternative layout: every partition of the history into consecutive batches, forced file merges after every batch, merges suppressed + ForceMerge + reopen, two persister workers with in-memory merges (unsafe batches), older segment formats; the complete SearchResult of 15 queries × 5 sorts (fields *, locations, highlight, terms and numeric-range facets) is compared — ids, Total, MaxScore and scores bit-for-bit, sort keys, stored fields, locations, fragments, facets; order modulo permutation inside groups of equal sort key; an outcome is (number of live documents, result digest class)")
	r.Assume("ties (equal complete sort key) are ordered by internal document number, which is layout dependent by design; they are compared as sets")
	r.Note("histories", len(paths))
	r.Note("layouts_per_history", "all batch partitions + "+fmt.Sprint(len(lays)))
	var nseg int64
	_ = nseg
	type variant struct {
		l     layout
		parts [][]int
		pname string
	}
	// compare runs one history in the baseline layout and in every given variant
	compare := func(ops []op, variants func(n int) []variant, sample bool) {
		var names []string
		for _, o := range ops {
			names = append(names, o.String())
		}
		hist := strings.Join(names, " ")
		dir := mc.ScratchDir("c05")
		defer os.RemoveAll(dir)
		base, err := build(layout{name: "baseline"}, ops, perOp(len(ops)), dir)
		if err != nil {
			r.Violation("baseline-error", hist+": "+err.Error(), map[string]any{"history": hist})
			return
		}
		want, err := render(base)
		baseLayout := bx.ScorchLayout(base)
		base.Close()
		if err != nil {
			r.Violation("baseline-search-error", hist+": "+err.Error(), map[string]any{"history": hist})
			return
		}
		r.Eval(1)
		r.Outcome(fmt.Sprintf("%s|%d", want[strings.LastIndex(want, "count="):], len(want)/400))
		for vi, v := range variants(len(ops)) {
			l := v.l
			vdir := fmt.Sprintf("%s/v%d", dir, vi) // one directory per variant: the same layout occurs with several batchings
			idx, err := build(l, ops, v.parts, vdir)
			rep := map[string]any{"history": hist, "layout": l.name, "batches": v.pname}
			if err != nil {
				r.Violation("layout-error:"+l.name, fmt.Sprintf("%v: %v", rep, err), rep)
				continue
			}
			got, err := render(idx)
			lay := bx.ScorchLayout(idx)
			idx.Close()
			os.RemoveAll(vdir)
			r.Eval(1)
			if err != nil {
				r.Violation("search-error:"+l.name, fmt.Sprintf("%v: %v", rep, err), rep)
				continue
			}
			if lay != baseLayout {
				r.Count("layout_pairs_physically_different", 1)
			}
			if strings.Contains(lay, ",") && strings.Contains(lay, "!") {
				r.Count("layouts_with_a_multi_document_segment_holding_an_obsoleted_document", 1)
			}
			if got != want {
				rep["baseline_layout"], rep["this_layout"] = baseLayout, lay
				cls := classify(want, got, baseLayout, lay)
				if !strings.HasPrefix(cls, "score:multi-term") {
					cls += ":" + l.name
				}
				r.Violation("differs:"+cls, fmt.Sprintf("%v: %s", rep, firstDiff(want, got)), rep)
			}
		}
		if sample {
			r.Sample(map[string]any{"history": hist, "baseline_layout": baseLayout, "requests": len(queries()) * len(sorts)})
		}
	}
	r.ParFor(len(paths), 0, func(pi int) {
		p := paths[pi]
		ops := make([]op, len(p))
		for i, a := range p {
			ops[i] = alpha[a]
		}
		compare(ops, func(n int) []variant {
			var vs []variant
			// every partition into consecutive batches (in memory)
			for _, parts := range allPartitions(n) {
				if len(parts) == n {
					continue // the baseline itself
				}
				vs = append(vs, variant{layout{name: "mem-batched"}, parts, fmt.Sprint(parts)})
			}
			for li, l := range lays {
				if r.Quick() && n == 3 && l.disk && (pi+li)%2 == 1 {
					continue // quick tier: alternate the on-disk layouts over the depth-3 histories
				}
				vs = append(vs, variant{l, perOp(n), "per-op"})
				if l.disk && n >= 2 && !r.Quick() {
					vs = append(vs, variant{l, allPartitions(n)[1], "first-two-together"})
				}
			}
			return vs
		}, pi == len(paths)/2)
	})
	// second family: multi-document segments. Histories of length 4 (thorough: also 5 over 4 ids) over a
	// small alphabet, batched so that the first segment holds 2–3 documents; on-disk layouts whose merges
	// are partial (a kept segment with obsoleted documents next to a merge) or are overtaken by later
	// operations (merge parked in flight).
	var multi []layout
	for _, l := range lays {
		if l.name == "disk-partial-merge" || l.name == "disk-nomerge+reopen" || l.gated || l.pileUp || l.name == "disk-aggressive-merge" || l.post == "forcemerge-before-last" {
			multi = append(multi, l)
		}
	}
	small := []op{{id: "p", ver: 0}, {id: "q", ver: 0}, {id: "r", ver: 0}, {id: "p", ver: 1}, {del: true, id: "p"}, {del: true, id: "q"}}
	var fam [][]op
	var recm func(cur []op, n int, al []op)
	recm = func(cur []op, n int, al []op) {
		if len(cur) == n {
			fam = append(fam, append([]op{}, cur...))
			return
		}
		for _, o := range al {
			recm(append(cur, o), n, al)
		}
	}
	recm(nil, 4, small)
	nfam4 := len(fam)
	if !r.Quick() {
		small5 := append(append([]op{}, small...), op{id: "s", ver: 0})
		recm(nil, 5, small5)
	}
	r.Note("multi_document_segment_histories", len(fam))
	r.ParFor(len(fam), 0, func(fi int) {
		ops := fam[fi]
		compare(ops, func(n int) []variant {
			var vs []variant
			var partsList [][][]int
			if n == 4 {
				partsList = [][][]int{{{0, 1}, {2}, {3}}, {{0, 1, 2}, {3}}}
			} else {
				partsList = [][][]int{{{0, 1, 2}, {3}, {4}}, {{0, 1}, {2, 3}, {4}}}
			}
			for li, l := range multi {
				for pi2, parts := range partsList {
					if r.Quick() && (fi+li+pi2)%2 == 1 {
						continue
					}
					vs = append(vs, variant{l, parts, fmt.Sprint(parts)})
				}
			}
			return vs
		}, fi == nfam4/2)
	})
	// third family (both tiers): a three-document first segment followed by two single-operation
	// segments — with the partial merge plan the big segment stays (two live documents, one obsoleted)
	// while the two small ones merge behind it: the layout [kept segment with a deletion, merged segment].
	var fam3 [][]op
	tail := []op{{id: "p", ver: 1}, {del: true, id: "p"}, {del: true, id: "q"}, {id: "s", ver: 0}, {id: "s", ver: 2}, {id: "r", ver: 3}}
	for _, a := range tail {
		for _, b := range tail {
			fam3 = append(fam3, []op{{id: "p", ver: 0}, {id: "q", ver: 0}, {id: "r", ver: 0}, a, b})
		}
	}
	var kept []layout
	for _, l := range lays {
		if l.name == "disk-partial-merge" || l.name == "disk-nomerge+reopen" {
			kept = append(kept, l)
		}
	}
	r.Note("kept_segment_histories", len(fam3))
	r.ParFor(len(fam3), 0, func(fi int) {
		compare(fam3[fi], func(n int) []variant {
			var vs []variant
			for _, l := range kept {
				vs = append(vs, variant{l, [][]int{{0, 1, 2}, {3}, {4}}, "[[0 1 2] [3] [4]]"})
			}
			return vs
		}, false)
	})
	r.Count("layouts_with_fewer_segments_than_baseline", nseg)
	r.Count("builds_where_all_batches_were_merged_in_memory_by_one_persister_round", atomic.LoadInt64(&piledUp))
	r.Sample(map[string]any{"history": "I(p,v0) I(q,v2) D(p)", "layouts": "baseline per-op | [[0 1] [2]] | [[0] [1 2]] | one batch | disk-aggressive-merge | disk-nomerge+forcemerge+reopen | disk-unsafe-2-persister-workers | mem-zap15"})
}
