// Package c14: an online backup is a consistent point-in-time copy.
//
// E3: writer ∥ CopyTo(dest) started at any moment ∥ persister / merger / purger (merge plan forcing
// file merges, numSnapshotsToKeep=1), all schedules within the deviation bound.
package c14

import (
	"fmt"
	"io"
	"os"
	"path/filepath"
	"sort"
	"strconv"
	"strings"

	"github.com/blevesearch/bleve/v2"
	"github.com/blevesearch/bleve/v2/index/scorch"

	"verif/bx"
	"verif/lww"
	"verif/mc"
	"verif/sched/drv"
	fgate "verif/sched/gate"
	"verif/sched/vrt"
)

func I(id string, v int) lww.Op { return lww.Op{Kind: "I", ID: id, V: v} }
func D(id string) lww.Op        { return lww.Op{Kind: "D", ID: id} }
func S(v int) lww.Op            { return lww.Op{Kind: "S", ID: "seq", V: v} }

var workload = []lww.Batch{
	{I("a", 1), I("b", 1), S(1)},
	{I("a", 2), D("b"), I("c", 1), S(2)},
	{I("b", 2), D("a"), I("c", 2), I("c", 3), S(3)},
	{I("a", 3), D("c"), S(4)},
}

// partial: every batch obsoletes only part of the previous batch's segment, so segments stay in
// the root with a deletion bitmap (in workload above every batch wipes its predecessor completely
// and the emptied segment is dropped from the root).
var partial = []lww.Batch{
	{I("a", 1), I("b", 1), S(1)},
	{I("a", 2), I("c", 1), I("d", 1), S(2)},
	{I("c", 2), D("d"), I("e", 1), I("e", 2), S(3)},
	{I("a", 3), D("b"), I("e", 3), S(4)},
}
var ids = append([]string{"d", "e"}, lww.FamilyIDs...)
var keys = []string{"seq"}

func modelAfter(q int) *lww.Model { return modelOf(workload, q) }

func modelOf(wl []lww.Batch, q int) *lww.Model {
	m := lww.New()
	for j := 0; j < q; j++ {
		m.Apply(wl[j])
	}
	return m
}

type cfg struct {
	name    string
	copies  int
	startAt int // the copy thread starts after this many acknowledged batches
	batches int
	conf    map[string]interface{}
	wl      []lww.Batch // nil = workload
	family  []string    // workload family: word and the moment the copy starts are environment choices
	fault   int         // >0: the destination refuses the n-th file
}

// faultyDir refuses the n-th file the backup wants to create.
type faultyDir struct {
	bleve.FileSystemDirectory
	failAt, n int
	tripped   bool
}

func (f *faultyDir) GetWriter(p string) (io.WriteCloser, error) {
	f.n++
	if f.n == f.failAt {
		f.tripped = true
		return nil, fmt.Errorf("injected fault: no space left on device")
	}
	return f.FileSystemDirectory.GetWriter(p)
}

func zapFiles(store string) []string {
	var rv []string
	ents, _ := os.ReadDir(store)
	for _, e := range ents {
		if strings.HasSuffix(e.Name(), ".zap") {
			rv = append(rv, e.Name())
		}
	}
	sort.Strings(rv)
	return rv
}

func body(k cfg) func(c *drv.Ctx) {
	wl := k.wl
	if wl == nil {
		wl = workload
	}
	return func(c *drv.Ctx) {
		k, wl := k, wl
		if k.family != nil {
			word := k.family[vrt.Choose(len(k.family), "workload")]
			wl = lww.BuildWord(word)
			k.batches = len(wl)
			k.startAt = vrt.Choose(len(wl), "copy-starts-after-batch")
			// destination fault: none, or the n-th file the backup wants to create is refused (full disk)
			k.fault = vrt.Choose(4, "destination-refuses-nth-file")
			c.Observe(fmt.Sprintf("wl=%s,start=%d,fault=%d", word, k.startAt, k.fault))
			c.Count("family_words_run", 1)
		}
		src := c.Dir + "/src"
		var idx bleve.Index
		vrt.Free(func() {
			var err error
			idx, err = bleve.NewUsing(src, bleve.NewIndexMapping(), scorch.Name, scorch.Name, bx.CopyConfig(k.conf))
			if err != nil {
				panic(err)
			}
		})
		acked, submitted := 0, 0
		tok := make(chan int, 8)
		var wg vrt.WaitGroup
		wg.Add(2)
		vrt.Go(func() {
			defer wg.Done()
			for j := 1; j <= k.batches; j++ {
				b := idx.NewBatch()
				lww.Fill(b, wl[j-1])
				submitted = j
				if err := idx.Batch(b); err != nil {
					c.Fail("error:batch", "Batch: %v", err)
					return
				}
				acked = j
				if j == k.startAt {
					vrt.Send(tok, j)
				}
			}
		})
		type cp struct {
			dst      string
			lo, hi   int
			err      error
			injected bool
		}
		var cps []cp
		vrt.Go(func() {
			defer wg.Done()
			ic, ok := idx.(bleve.IndexCopyable)
			if !ok {
				c.Fail("not-copyable", "index is not copyable")
				return
			}
			if k.startAt > 0 {
				vrt.Recv(tok)
			}
			for n := 0; n < k.copies; n++ {
				x := cp{dst: fmt.Sprintf("%s/dst%d", c.Dir, n), lo: acked}
				if k.fault > 0 {
					fd := &faultyDir{FileSystemDirectory: bleve.FileSystemDirectory(x.dst), failAt: k.fault}
					x.err = ic.CopyTo(fd)
					x.injected = fd.tripped
				} else {
					x.err = ic.CopyTo(bleve.FileSystemDirectory(x.dst))
				}
				x.hi = submitted
				cps = append(cps, x)
				vrt.Point("pt:between-copies")
			}
		})
		wg.Wait()
		vrt.Free(func() {
			for n, x := range cps {
				if x.injected {
					// the destination refused a file: CopyTo must say so; the source must be unaffected (checked below)
					if x.err == nil {
						c.Fail("copyto-swallows-destination-error", "CopyTo #%d returned nil although the destination refused a file", n)
					}
					c.Count("backups_that_failed_as_injected", 1)
					continue
				}
				if x.err != nil {
					c.Fail("copyto-error", "CopyTo #%d failed: %v", n, x.err)
					continue
				}
				ci, err := bleve.Open(x.dst)
				if err != nil {
					c.Fail("copy-does-not-open", "copy #%d does not open: %v", n, err)
					continue
				}
				v, _ := ci.GetInternal([]byte("seq"))
				q := 0
				if v != nil {
					q, _ = strconv.Atoi(string(v))
				}
				if bad := modelOf(wl, q).Check(ci, ids, keys); len(bad) > 0 {
					c.Fail("copy-not-a-whole-batch-state", "copy #%d claims batch %d but: %s", n, q, strings.Join(bad, "; "))
				}
				if q < x.lo {
					c.Fail("copy-older-than-acknowledged", "copy #%d is at batch %d but batches 1..%d had been acknowledged before the copy began", n, q, x.lo)
				}
				if q > x.hi {
					c.Fail("copy-from-the-future", "copy #%d is at batch %d > %d submitted when it ended", n, q, x.hi)
				}
				c.Observe(fmt.Sprintf("copy@%d", q))
				// the copy is a fully functional index: it accepts a write and survives a reopen
				if err := ci.Index("post", map[string]interface{}{"t": "x"}); err != nil {
					c.Fail("copy-not-writable", "copy #%d rejects a write: %v", n, err)
				}
				vrt.WaitIdle() // the copy inherits the source's configuration (possibly unsafe_batch): let the write persist
				ci.Close()
				if ci2, err := bleve.Open(x.dst); err != nil {
					c.Fail("copy-does-not-reopen", "copy #%d does not reopen after a write: %v", n, err)
				} else {
					if d, _ := ci2.Document("post"); d == nil {
						c.Fail("copy-lost-write", "copy #%d lost the write made after opening it", n)
					}
					ci2.Close()
				}
			}
			// the source is unaffected
			if bad := modelOf(wl, k.batches).Check(idx, ids, keys); len(bad) > 0 {
				c.Fail("source-affected", "source after the copy: %s", strings.Join(bad, "; "))
			}
			sc := bx.Scorch(idx)
			for round := 0; round < 3; round++ {
				idx.SetInternal([]byte("tick"), []byte(strconv.Itoa(round)))
				vrt.WaitIdle()
			}
			st, err := sc.VerifFileState()
			if err == nil {
				if len(st.CopySched) > 0 {
					c.Fail("copy-scheduled-left", "files still protected for a copy after all copies ended: %v", st.CopySched)
				}
				dl := zapFiles(filepath.Join(src, "store"))
				if strings.Join(dl, ",") != strings.Join(st.BoltFiles, ",") {
					c.Fail("source-stray-files", "source at quiescence holds zap files %v, recorded snapshots name %v (ineligible %v)", dl, st.BoltFiles, st.Ineligible)
				}
			}
			if err := idx.Close(); err != nil {
				c.Fail("error:close", "Close: %v", err)
			}
		})
	}
}

// ---- gated workload families: word x gate choice x the step after which the backup starts are
// environment choices of the explorer. Every batch in its own client thread, started when everything
// the previous one set in motion has settled; the backup runs in its own thread.
func bodyGatedFamily(k cfg) func(c *drv.Ctx) {
	menu := fgate.Menu() // single gates (thorough: closed for 1 or 2 steps); the product with start step and hold time is already large
	return func(c *drv.Ctx) {
		word := k.family[vrt.Choose(len(k.family), "workload")]
		wl := lww.BuildWord(word)
		spec := menu[vrt.Choose(len(menu), "gate")]
		startAt := 1 + vrt.Choose(len(wl), "copy-starts-after-step")
		// a slow backup: it takes its copy reader, then waits before its first file for this many further driver steps
		hold := vrt.Choose(3, "backup-waits-before-its-first-file-for-steps")
		src := c.Dir + "/src"
		var idx bleve.Index
		vrt.Free(func() {
			cf := bx.CopyConfig(k.conf)
			cf["eventCallbackName"] = fgate.Name
			var err error
			idx, err = bleve.NewUsing(src, bleve.NewIndexMapping(), scorch.Name, scorch.Name, cf)
			if err != nil {
				panic(err)
			}
			vrt.WaitIdle()
		})
		g := fgate.Arm(spec)
		defer g.Disarm()
		acked, submitted := 0, 0
		var wg vrt.WaitGroup
		dst := c.Dir + "/dst"
		lo, hi := 0, 0
		var cerr error
		copied := false
		hd := &gatedDir{FileSystemDirectory: bleve.FileSystemDirectory(dst), parked: make(chan int, 1), release: make(chan int, 1)}
		holding, released := false, false
		for j := 1; j <= len(wl); j++ {
			j := j
			wg.Add(1)
			vrt.Go(func() {
				defer wg.Done()
				if j > submitted {
					submitted = j
				}
				if err := lww.ExecBatch(idx, wl[j-1]); err != nil {
					c.Fail("error:batch", "Batch %d: %v", j, err)
					return
				}
				if j > acked {
					acked = j
				}
			})
			vrt.WaitIdle()
			if j == startAt {
				wg.Add(1)
				vrt.Go(func() {
					defer wg.Done()
					lo = acked
					if hold > 0 {
						cerr = idx.(bleve.IndexCopyable).CopyTo(hd)
					} else {
						cerr = idx.(bleve.IndexCopyable).CopyTo(bleve.FileSystemDirectory(dst))
					}
					hi = submitted
					copied = true
				})
				vrt.WaitIdle()
				holding = hold > 0
			} else if holding && !released {
				hold--
				if hold == 0 {
					released = true
					vrt.Send(hd.release, 1)
					vrt.WaitIdle()
				}
			}
			if g.Step() {
				vrt.WaitIdle()
			}
		}
		parked := g.Was()
		g.Open()
		vrt.WaitIdle()
		if holding && !released {
			// the workload is over: a few idle rounds (persist, merge, purge) pass before the slow backup goes on
			for round := 0; round < 2; round++ {
				idx.SetInternal([]byte("tick"), []byte("w"))
				vrt.WaitIdle()
			}
			released = true
			vrt.Send(hd.release, 1)
			vrt.WaitIdle()
		}
		wg.Wait()
		vrt.WaitIdle()
		if parked > 0 {
			c.Count("executions_in_which_a_gate_parked_a_background_thread", 1)
		}
		c.Observe(fmt.Sprintf("wl=%s gate=%s start=%d hold=%v", word, spec.Label, startAt, holding))
		c.Count("family_words_x_gates_x_starts_run", 1)
		vrt.Free(func() {
			if !copied {
				c.Fail("copy-did-not-end", "CopyTo had not returned when everything had settled")
			} else if cerr != nil {
				c.Fail("copyto-error", "CopyTo failed: %v", cerr)
			} else if ci, err := bleve.Open(dst); err != nil {
				c.Fail("copy-does-not-open", "the backup does not open: %v", err)
			} else {
				v, _ := ci.GetInternal([]byte("seq"))
				q := 0
				if v != nil {
					q, _ = strconv.Atoi(string(v))
				}
				if bad := modelOf(wl, q).Check(ci, ids, keys); len(bad) > 0 {
					c.Fail("copy-not-a-whole-batch-state", "backup claims batch %d but: %s", q, strings.Join(bad, "; "))
				}
				if q < lo {
					c.Fail("copy-older-than-acknowledged", "backup is at batch %d but batches 1..%d had been acknowledged before it began", q, lo)
				}
				if q > hi {
					c.Fail("copy-from-the-future", "backup is at batch %d > %d submitted when it ended", q, hi)
				}
				ci.Close()
			}
			if bad := modelOf(wl, len(wl)).Check(idx, ids, keys); len(bad) > 0 {
				c.Fail("source-affected", "source after the backup: %s", strings.Join(bad, "; "))
			}
			sc := bx.Scorch(idx)
			for round := 0; round < 3; round++ {
				idx.SetInternal([]byte("tick"), []byte(strconv.Itoa(round)))
				vrt.WaitIdle()
			}
			if st, err := sc.VerifFileState(); err == nil {
				if len(st.CopySched) > 0 {
					c.Fail("copy-scheduled-left", "files still protected for a copy after the backup ended: %v", st.CopySched)
				}
				dl := zapFiles(filepath.Join(src, "store"))
				if strings.Join(dl, ",") != strings.Join(st.BoltFiles, ",") {
					c.Fail("source-stray-files", "source at quiescence holds zap files %v, recorded snapshots name %v (ineligible %v)", dl, st.BoltFiles, st.Ineligible)
				}
			}
			if err := idx.Close(); err != nil {
				c.Fail("error:close", "Close: %v", err)
			}
			if re, err := bleve.Open(src); err != nil {
				c.Fail("source-does-not-reopen", "source after Close: %v", err)
			} else {
				if bad := modelOf(wl, len(wl)).Check(re, ids, keys); len(bad) > 0 {
					c.Fail("source-affected", "source reopened after the backup: %s", strings.Join(bad, "; "))
				}
				re.Close()
			}
		})
	}
}

// ---- slow backup of an index that was created by the offline Builder (its first segment's file
// name is not derived from its segment id), taken on a root that is never persisted under its own
// epoch (unsafe batches), while merges retire the segments it still has to copy and old epochs are purged.

type gatedDir struct {
	bleve.FileSystemDirectory
	parked  chan int
	release chan int
	first   bool
}

func (g *gatedDir) GetWriter(p string) (io.WriteCloser, error) {
	if !g.first {
		g.first = true
		vrt.Send(g.parked, 1)
		vrt.Recv(g.release)
	}
	return g.FileSystemDirectory.GetWriter(p)
}

var builderDocs = lww.Batch{I("x0", 1), I("x1", 2)}

func modelBuilder(q int) *lww.Model {
	m := lww.New()
	m.Apply(builderDocs)
	for j := 0; j < q; j++ {
		m.Apply(workload[j])
	}
	return m
}

func bodySlowBuilder(useBuilder bool) func(c *drv.Ctx) {
	return func(c *drv.Ctx) {
		src := c.Dir + "/src"
		conf := map[string]interface{}{"scorchMergePlanOptions": bx.CopyConfig(bx.AggressiveMergePlan), "numSnapshotsToKeep": 1, "unsafe_batch": true}
		parked := make(chan int, 1)
		release := make(chan int, 1)
		start := make(chan int, 1)
		var idx bleve.Index
		var cerr error
		lo, hi := 0, 0
		acked, submitted := 0, 0
		var wg vrt.WaitGroup
		wg.Add(1)
		vrt.Go(func() { // created before the index: outruns scorch's own goroutines in the default schedule
			defer wg.Done()
			vrt.Recv(start)
			lo = acked
			g := &gatedDir{FileSystemDirectory: bleve.FileSystemDirectory(c.Dir + "/dst"), parked: parked, release: release}
			cerr = idx.(bleve.IndexCopyable).CopyTo(g)
			hi = submitted
		})
		vrt.Free(func() {
			var err error
			if useBuilder {
				os.MkdirAll(c.Dir+"/build", 0o755)
				b, err := bleve.NewBuilder(src, bleve.NewIndexMapping(), map[string]interface{}{"buildPathPrefix": c.Dir + "/build"})
				if err != nil {
					panic(err)
				}
				for _, o := range builderDocs {
					if err := b.Index(o.ID, lww.Body(o.V)); err != nil {
						panic(err)
					}
				}
				if err := b.Close(); err != nil {
					panic(err)
				}
				idx, err = bleve.OpenUsing(src, conf)
				if err != nil {
					panic(err)
				}
			} else {
				idx, err = bleve.NewUsing(src, bleve.NewIndexMapping(), scorch.Name, scorch.Name, conf)
				if err != nil {
					panic(err)
				}
				if err := lww.ExecBatch(idx, builderDocs); err != nil {
					panic(err)
				}
			}
			vrt.WaitIdle()
		})
		do := func(j int) {
			b := idx.NewBatch()
			lww.Fill(b, workload[j-1])
			b.SetPersistedCallback(func(err error) {
				if err == nil && j > acked {
					acked = j
				}
			})
			submitted = j
			if err := idx.Batch(b); err != nil {
				c.Fail("error:batch", "Batch: %v", err)
			}
		}
		do(1)
		vrt.Send(start, 1)
		vrt.Recv(parked) // the backup holds its copy reader and is parked before its first file
		do(2)
		vrt.WaitIdle()
		do(3)
		vrt.WaitIdle()
		do(4)
		vrt.WaitIdle()
		for round := 0; round < 2; round++ {
			idx.SetInternal([]byte("tick"), []byte(strconv.Itoa(round)))
			vrt.WaitIdle()
		}
		c.Observe(fmt.Sprintf("files=%d", len(zapFiles(filepath.Join(src, "store")))))
		vrt.Send(release, 1)
		wg.Wait()
		vrt.Free(func() {
			if cerr != nil {
				c.Fail("copyto-error", "the slow backup failed: %v — a segment file needed by the copy was removed before the copy ended", cerr)
			} else if ci, err := bleve.Open(c.Dir + "/dst"); err != nil {
				c.Fail("copy-does-not-open", "the backup does not open: %v", err)
			} else {
				v, _ := ci.GetInternal([]byte("seq"))
				q := 0
				if v != nil {
					q, _ = strconv.Atoi(string(v))
				}
				if bad := modelBuilder(q).Check(ci, append([]string{"x0", "x1"}, ids...), keys); len(bad) > 0 {
					c.Fail("copy-not-a-whole-batch-state", "backup claims batch %d but: %s", q, strings.Join(bad, "; "))
				}
				if q < lo || q > hi {
					c.Fail("copy-outside-window", "backup is at batch %d, outside [%d acknowledged before it began, %d submitted when it ended]", q, lo, hi)
				}
				c.Observe(fmt.Sprintf("copy@%d", q))
				ci.Close()
			}
			if bad := modelBuilder(4).Check(idx, append([]string{"x0", "x1"}, ids...), keys); len(bad) > 0 {
				c.Fail("source-affected", "source after the backup: %s", strings.Join(bad, "; "))
			}
			if err := idx.Close(); err != nil {
				c.Fail("error:close", "Close: %v", err)
			}
		})
	}
}

// ---- two overlapping backups, the second one slow: both take their copy reader on the same
// never-persisted root; the fast one finishes (its CloseCopyReader must only decrement the
// protection the slow one still needs); the live index merges the shared files away, persists
// newer roots and purges; then the slow backup copies its files.
func bodyTwoOverlapping(c *drv.Ctx) {
	src := c.Dir + "/src"
	conf := map[string]interface{}{"scorchMergePlanOptions": bx.CopyConfig(bx.AggressiveMergePlan), "numSnapshotsToKeep": 1, "unsafe_batch": true}
	parked := make(chan int, 4)
	start := make(chan int, 4)
	rel := []chan int{make(chan int, 1), make(chan int, 1)}
	errs := make([]error, 2)
	los, his := make([]int, 2), make([]int, 2)
	acked, submitted := 0, 0
	var idx bleve.Index
	var wg vrt.WaitGroup
	for n := 0; n < 2; n++ {
		n := n
		wg.Add(1)
		vrt.Go(func() { // created before the index: outrun scorch's own goroutines in the default schedule
			defer wg.Done()
			vrt.Recv(start)
			los[n] = acked
			g := &gatedDir{FileSystemDirectory: bleve.FileSystemDirectory(fmt.Sprintf("%s/dst%d", c.Dir, n)), parked: parked, release: rel[n]}
			errs[n] = idx.(bleve.IndexCopyable).CopyTo(g)
			his[n] = submitted
		})
	}
	do := func(j int) {
		b := idx.NewBatch()
		lww.Fill(b, partial[j-1])
		submitted = j
		if err := idx.Batch(b); err != nil {
			c.Fail("error:batch", "Batch: %v", err)
		}
		acked = j
	}
	vrt.Free(func() {
		var err error
		idx, err = bleve.NewUsing(src, bleve.NewIndexMapping(), scorch.Name, scorch.Name, conf)
		if err != nil {
			panic(err)
		}
		vrt.WaitIdle()
		do(1)
		vrt.WaitIdle()
	})
	do(2)
	vrt.Send(start, 1)
	vrt.Send(start, 1)
	vrt.Recv(parked) // both backups hold their copy reader and are parked before their first file
	vrt.Recv(parked)
	do(3)
	vrt.WaitIdle()
	vrt.Send(rel[0], 1) // the fast backup completes
	vrt.WaitIdle()
	do(4)
	vrt.WaitIdle()
	for round := 0; round < 3; round++ {
		idx.SetInternal([]byte("tick"), []byte(strconv.Itoa(round)))
		vrt.WaitIdle()
	}
	c.Observe(fmt.Sprintf("files=%d", len(zapFiles(filepath.Join(src, "store")))))
	vrt.Send(rel[1], 1) // now the slow backup copies its files
	wg.Wait()
	vrt.Free(func() {
		for n, err := range errs {
			if err != nil {
				c.Fail("copyto-error", "backup #%d (slow=%v) failed: %v — a segment file needed by the copy was removed before the copy ended", n, n == 1, err)
				continue
			}
			ci, err := bleve.Open(fmt.Sprintf("%s/dst%d", c.Dir, n))
			if err != nil {
				c.Fail("copy-does-not-open", "backup #%d does not open: %v", n, err)
				continue
			}
			v, _ := ci.GetInternal([]byte("seq"))
			q := 0
			if v != nil {
				q, _ = strconv.Atoi(string(v))
			}
			if bad := modelOf(partial, q).Check(ci, ids, keys); len(bad) > 0 {
				c.Fail("copy-not-a-whole-batch-state", "backup #%d claims batch %d but: %s", n, q, strings.Join(bad, "; "))
			}
			if q < los[n] || q > his[n] {
				c.Fail("copy-outside-window", "backup #%d is at batch %d, outside [%d acknowledged before it began, %d submitted when it ended]", n, q, los[n], his[n])
			}
			c.Observe(fmt.Sprintf("copy%d@%d", n, q))
			ci.Close()
		}
		if bad := modelOf(partial, 4).Check(idx, ids, keys); len(bad) > 0 {
			c.Fail("source-affected", "source after the backups: %s", strings.Join(bad, "; "))
		}
		if st, err := bx.Scorch(idx).VerifFileState(); err == nil && len(st.CopySched) > 0 {
			c.Fail("copy-scheduled-left", "files still protected for a copy after all copies ended: %v", st.CopySched)
		}
		if err := idx.Close(); err != nil {
			c.Fail("error:close", "Close: %v", err)
		}
	})
}

// ---- backup of a root that still holds unpersisted segments whose documents were already
// obsoleted by later acknowledged batches: the persister is parked at its idle point (public event
// callback, EventKindPurgerCheck) after batch 1; batches 2 and 3 (unsafe: acknowledged once
// introduced) land in memory, batch 3 obsoleting documents of batch 2's segment; then the copy is
// taken while a fourth batch arrives and the persister resumes, in every order.

type idleGateT struct {
	armed   bool
	parked  chan int
	release chan int
}

var idleGate *idleGateT

func init() {
	scorch.RegistryEventCallbacks["verif-c14-persister-idle-gate"] = func(e scorch.Event) bool {
		if g := idleGate; g != nil && g.armed && e.Kind == scorch.EventKindPurgerCheck {
			g.armed = false
			vrt.Send(g.parked, 1)
			vrt.Recv(g.release)
		}
		return true
	}
}

func bodyUnpersisted(workers int, single bool) func(c *drv.Ctx) {
	return func(c *drv.Ctx) {
		src := c.Dir + "/src"
		g := &idleGateT{parked: make(chan int, 1), release: make(chan int, 1)}
		idleGate = g
		defer func() { idleGate = nil }()
		conf := map[string]interface{}{"unsafe_batch": true, "eventCallbackName": "verif-c14-persister-idle-gate"}
		if workers > 1 {
			conf["scorchPersisterOptions"] = map[string]interface{}{"NumPersisterWorkers": workers, "MaxSizeInMemoryMergePerWorker": 1}
		}
		var idx bleve.Index
		vrt.Free(func() {
			var err error
			idx, err = bleve.NewUsing(src, bleve.NewIndexMapping(), scorch.Name, scorch.Name, conf)
			if err != nil {
				panic(err)
			}
			vrt.WaitIdle()
		})
		acked, submitted := 0, 0
		do := func(j int) {
			b := idx.NewBatch()
			lww.Fill(b, partial[j-1])
			submitted = j
			if err := idx.Batch(b); err != nil {
				c.Fail("error:batch", "Batch: %v", err)
			}
			acked = j
		}
		g.armed = true
		do(1)
		vrt.Recv(g.parked) // batch 1 persisted; the persister is parked at its idle point
		do(2)
		if !single {
			do(3)
		}
		vrt.WaitIdle()
		if st, err := bx.Scorch(idx).VerifFileState(); err == nil {
			c.Observe(fmt.Sprintf("root-before-copy:mem=%d,with-deletions=%d", st.MemSegments, st.MemSegmentsWithDeletions))
			if st.MemSegmentsWithDeletions == 0 && !single {
				c.Count("scenario_precondition_missed", 1)
			}
		}
		lo, hi := 0, 0
		var cerr error
		var wg vrt.WaitGroup
		wg.Add(3)
		if single {
			// one unpersisted segment: the persister writes it directly under the name the backup
			// expects; it is released first so that (by default) it writes while the backup waits
			vrt.Go(func() {
				defer wg.Done()
				vrt.Send(g.release, 1)
			})
		}
		vrt.Go(func() {
			defer wg.Done()
			if single {
				do(3)
			} else {
				do(4)
			}
		})
		vrt.Go(func() {
			defer wg.Done()
			lo = acked
			cerr = idx.(bleve.IndexCopyable).CopyTo(bleve.FileSystemDirectory(c.Dir + "/dst"))
			hi = submitted
		})
		if !single {
			vrt.Go(func() {
				defer wg.Done()
				vrt.Send(g.release, 1)
			})
		}
		wg.Wait()
		vrt.WaitIdle()
		last := 4
		if single {
			last = 3
		}
		vrt.Free(func() {
			if cerr != nil {
				c.Fail("copyto-error", "the backup failed: %v", cerr)
			} else if ci, err := bleve.Open(c.Dir + "/dst"); err != nil {
				c.Fail("copy-does-not-open", "the backup does not open: %v", err)
			} else {
				v, _ := ci.GetInternal([]byte("seq"))
				q := 0
				if v != nil {
					q, _ = strconv.Atoi(string(v))
				}
				if bad := modelOf(partial, q).Check(ci, ids, keys); len(bad) > 0 {
					c.Fail("copy-not-a-whole-batch-state", "backup claims batch %d but: %s", q, strings.Join(bad, "; "))
				}
				if q < lo || q > hi {
					c.Fail("copy-outside-window", "backup is at batch %d, outside [%d acknowledged before it began, %d submitted when it ended]", q, lo, hi)
				}
				c.Observe(fmt.Sprintf("copy@%d", q))
				ci.Close()
			}
			if bad := modelOf(partial, last).Check(idx, ids, keys); len(bad) > 0 {
				c.Fail("source-affected", "source after the backup: %s", strings.Join(bad, "; "))
			}
			if err := idx.Close(); err != nil {
				c.Fail("error:close", "Close: %v", err)
			}
			// the source reopens with everything that was persisted before Close
			if re, err := bleve.Open(src); err != nil {
				c.Fail("source-does-not-reopen", "source after Close: %v", err)
			} else {
				if bad := modelOf(partial, last).Check(re, ids, keys); len(bad) > 0 {
					c.Fail("source-affected", "source reopened after the backup: %s", strings.Join(bad, "; "))
				}
				re.Close()
			}
		})
	}
}

var aggressive1 = map[string]interface{}{"scorchMergePlanOptions": bx.AggressiveMergePlan, "numSnapshotsToKeep": 1}
var unsafeAgg = map[string]interface{}{"scorchMergePlanOptions": bx.AggressiveMergePlan, "numSnapshotsToKeep": 1, "unsafe_batch": true}

func Scenarios() []drv.Scenario {
	mk := func(k cfg, quick, thorough []drv.Phase) drv.Scenario {
		return drv.Scenario{Name: k.name, Body: body(k), Quick: quick, Thorough: thorough, Class: "backup", MaxSteps: 1500000}
	}
	d1r := []drv.Phase{{Bound: 1, Filter: "restricted"}}
	d1 := []drv.Phase{{Bound: 1}}
	d2 := []drv.Phase{{Bound: 1}, {Bound: 2, Filter: "restricted"}}
	d0 := []drv.Phase{{Bound: 0}}
	words := lww.PlainWords(mc.Tier())
	fam := func(name string, conf map[string]interface{}, copies int) drv.Scenario {
		sc := mk(cfg{name: name, copies: copies, conf: conf, family: words}, d0, d0)
		sc.Doc = "workload family: every word over the batch-shape alphabet {n u b d w x m} after a setup batch is the writer's workload and the backup starts after every possible acknowledgement (environment choices: all words x all start moments)"
		return sc
	}
	gfam := func(name string, conf map[string]interface{}, quick bool) drv.Scenario {
		gw := lww.Words("ubdxz", 2) // thorough: x 49 gates x 3 start steps x 3 hold times
		if mc.Tier() != "thorough" {
			gw = lww.Words("bdz", 2) // x 25 gates x 3 start steps x 3 hold times
		}
		sc := drv.Scenario{Name: name, Body: bodyGatedFamily(cfg{name: name, conf: conf, family: gw}), Thorough: d0, Class: "backup", MaxSteps: 1500000,
			Doc: "gated workload family: every word over the batch-shape alphabet x every member of the gate menu (none, single gates, persister+merger pairs) x the step after which the backup starts x how many further steps a slow backup waits between taking its copy reader and its first file (environment choices); the backup must return nil, open, be a whole-batch state inside [acknowledged before it began, submitted when it ended]; source unaffected, tidy at quiescence, reopens"}
		if quick {
			sc.Quick = d0
		}
		return sc
	}
	return []drv.Scenario{
		gfam("gated-family-copy-aggressive-merges", aggressive1, true),
		gfam("gated-family-copy-unsafe-aggressive-merges", unsafeAgg, true),
		gfam("gated-family-copy-unsafe-2-persister-workers", map[string]interface{}{"unsafe_batch": true, "numSnapshotsToKeep": 1, "scorchPersisterOptions": map[string]interface{}{"NumPersisterWorkers": 2, "MaxSizeInMemoryMergePerWorker": 1}}, false),
		fam("family-copy-aggressive-merges", aggressive1, 1),
		fam("family-copy-unsafe-aggressive-merges", unsafeAgg, 1),
		fam("family-two-copies-partial-merges", map[string]interface{}{"scorchMergePlanOptions": bx.PartialMergePlan, "numSnapshotsToKeep": 1}, 2),
		fam("family-copy-unsafe-2-persister-workers", map[string]interface{}{"unsafe_batch": true, "numSnapshotsToKeep": 1, "scorchPersisterOptions": map[string]interface{}{"NumPersisterWorkers": 2, "MaxSizeInMemoryMergePerWorker": 1}}, 1),
		mk(cfg{name: "copy-after-batch1", copies: 1, startAt: 1, batches: 3, conf: aggressive1}, d1r, d2),
		mk(cfg{name: "copy-after-batch1-segments-keep-live-documents", copies: 1, startAt: 1, batches: 4, conf: aggressive1, wl: partial}, nil, d2),
		mk(cfg{name: "copy-from-start-unsafe-segments-keep-live-documents", copies: 1, startAt: 0, batches: 4, conf: unsafeAgg, wl: partial}, nil, d2),
		mk(cfg{name: "copy-from-start-unsafe", copies: 1, startAt: 0, batches: 3, conf: unsafeAgg}, d1r, d2),
		{Name: "slow-backup-of-builder-made-index", Body: bodySlowBuilder(true), Quick: d1r, Thorough: d2, Class: "backup", MaxSteps: 1500000},
		{Name: "two-overlapping-backups-second-slow-unsafe", Doc: "two backups take their copy reader on the same never-persisted root; the fast one ends; merges, persists and purges; then the slow one copies", Body: bodyTwoOverlapping, Quick: d1r, Thorough: d2, Class: "backup", MaxSteps: 1500000},
		{Name: "slow-backup-unsafe", Body: bodySlowBuilder(false), Quick: nil, Thorough: d2, Class: "backup", MaxSteps: 1500000},
		{Name: "backup-of-unpersisted-segments-with-obsoleted-documents-unsafe", Doc: "persister parked idle after batch 1; batches 2,3 in memory (3 obsoletes documents of 2); then CopyTo ∥ batch 4 ∥ persister resumes", Body: bodyUnpersisted(1, false), Quick: d1r, Thorough: d2, Class: "backup", MaxSteps: 1500000},
		{Name: "backup-while-the-persister-writes-the-same-segment-unsafe", Doc: "persister parked idle after batch 1; batch 2 in memory; the persister is released and writes that one segment directly (zapx creates the file and fills it in place: a scheduling point in between) while CopyTo and batch 3 run", Body: bodyUnpersisted(1, true), Quick: d1r, Thorough: d2, Class: "backup", MaxSteps: 1500000},
		{Name: "backup-of-unpersisted-segments-2-persister-workers-unsafe", Doc: "same with two persister workers merging in memory", Body: bodyUnpersisted(2, false), Quick: nil, Thorough: d1, Class: "backup", MaxSteps: 1500000},
		mk(cfg{name: "two-copies-after-batch1", copies: 2, startAt: 1, batches: 4, conf: aggressive1}, nil, d1),
		mk(cfg{name: "copy-after-batch2", copies: 1, startAt: 2, batches: 4, conf: aggressive1}, nil, d1),
	}
}

func Describe(r *mc.Run) {
	r.Rule("E3: all schedules within the deviation bound of writer (3–4 batches with updates, deletes, a same-id double operation) ∥ CopyTo started after a chosen acknowledgement (or from the start, unpersisted segments included) ∥ persister / merger / purger with forced file merges and numSnapshotsToKeep=1; oracle: CopyTo returns nil, the copy opens, equals model state S_q on every C01 observation with acked-before-copy ≤ q ≤ submitted-at-end, accepts a write and reopens; the source equals the full history, nothing stays scheduled for copy and the source directory is tidy at quiescence; an outcome is the batch the copy captured")
	r.Assume("sequentially consistent interleavings at synchronisation granularity")
}

var _ = mc.Root
