package c20

import (
	"fmt"
	"strings"

	"github.com/blevesearch/bleve/v2"
	"github.com/blevesearch/bleve/v2/mapping"
	"github.com/blevesearch/bleve/v2/search/query"
)

// ---------------------------------------------------------------------------------------------
// documents
//
//	parent ── name
//	       ├─ items[] (nested) ── k, v
//	       │                  └─ subs[] (nested) ── a, b
//	       └─ tags[]  (nested) ── t

type Sub struct{ A, B string }

type Item struct {
	K, V string
	Subs []Sub
}

type Tag struct{ T string }

type Doc struct {
	Name  string
	Items []Item
	Tags  []Tag
	// TagsFirst: the source object lists tags before items. bleve creates the nested
	// documents in the order it walks the object, so this decides whether a parent's tag
	// elements get smaller index-internal ids than its item elements.
	TagsFirst bool
}

// The values handed to Index() are structs, not maps: bleve walks a map in Go's random map
// order, which would make the internal order of a parent's elements differ from run to run.
type subData struct {
	A string `json:"a"`
	B string `json:"b"`
}

type itemData struct {
	K    string    `json:"k"`
	V    string    `json:"v"`
	Subs []subData `json:"subs"`
}

type tagData struct {
	T string `json:"t"`
}

type docItemsFirst struct {
	Name  string     `json:"name"`
	Items []itemData `json:"items"`
	Tags  []tagData  `json:"tags,omitempty"`
}

type docTagsFirst struct {
	Name  string     `json:"name"`
	Tags  []tagData  `json:"tags,omitempty"`
	Items []itemData `json:"items"`
}

// Data is the value handed to Index(); marshalled to JSON it is the document of the replay
// (field order as written). Zero-length items/subs arrays are empty arrays, a zero-length
// tags array is left out.
func (d Doc) Data() interface{} {
	items := []itemData{}
	for _, it := range d.Items {
		subs := []subData{}
		for _, s := range it.Subs {
			subs = append(subs, subData{s.A, s.B})
		}
		items = append(items, itemData{it.K, it.V, subs})
	}
	var tags []tagData
	for _, t := range d.Tags {
		tags = append(tags, tagData{t.T})
	}
	if d.TagsFirst {
		return docTagsFirst{Name: d.Name, Tags: tags, Items: items}
	}
	return docItemsFirst{Name: d.Name, Items: items, Tags: tags}
}

func (d Doc) String() string {
	var sb strings.Builder
	fmt.Fprintf(&sb, "{name:%s", d.Name)
	tags := func() {
		if len(d.Tags) == 0 {
			return
		}
		sb.WriteString(" tags:[")
		for i, t := range d.Tags {
			if i > 0 {
				sb.WriteString(" ")
			}
			fmt.Fprintf(&sb, "{t:%s}", t.T)
		}
		sb.WriteString("]")
	}
	if d.TagsFirst {
		tags()
	}
	sb.WriteString(" items:[")
	for i, it := range d.Items {
		if i > 0 {
			sb.WriteString(" ")
		}
		fmt.Fprintf(&sb, "{k:%s v:%s", it.K, it.V)
		if len(it.Subs) > 0 {
			sb.WriteString(" subs:[")
			for j, s := range it.Subs {
				if j > 0 {
					sb.WriteString(" ")
				}
				fmt.Fprintf(&sb, "{a:%s b:%s}", s.A, s.B)
			}
			sb.WriteString("]")
		}
		sb.WriteString("}")
	}
	sb.WriteString("]")
	if !d.TagsFirst {
		tags()
	}
	sb.WriteString("}")
	return sb.String()
}

// size = number of index-internal documents the parent occupies under the nested mapping.
func (d Doc) size() int {
	n := 1 + len(d.Items) + len(d.Tags)
	for _, it := range d.Items {
		n += len(it.Subs)
	}
	return n
}

// Fields of the schema and the nesting path each one lives on.
var Fields = []string{"name", "items.k", "items.v", "items.subs.a", "items.subs.b", "tags.t"}

func pathOf(field string) string {
	switch {
	case strings.HasPrefix(field, "items.subs."):
		return "items.subs"
	case strings.HasPrefix(field, "items."):
		return "items"
	case strings.HasPrefix(field, "tags."):
		return "tags"
	}
	return ""
}

// chain of nesting paths from the root to p
func chain(p string) []string {
	switch p {
	case "items":
		return []string{"", "items"}
	case "items.subs":
		return []string{"", "items", "items.subs"}
	case "tags":
		return []string{"", "tags"}
	}
	return []string{""}
}

// commonPath is the deepest nesting path that is an ancestor-or-self of every path in ps
// (the root for an empty set).
func commonPath(ps map[string]bool) string {
	var common []string
	first := true
	for p := range ps {
		c := chain(p)
		if first {
			common, first = c, false
			continue
		}
		n := 0
		for n < len(common) && n < len(c) && common[n] == c[n] {
			n++
		}
		common = common[:n]
	}
	if len(common) == 0 {
		return ""
	}
	return common[len(common)-1]
}

func keywordField() *mapping.FieldMapping {
	f := bleve.NewTextFieldMapping()
	f.Analyzer = "keyword"
	f.Store = false
	f.IncludeInAll = false
	return f
}

// Mapping builds the index mapping; nested=false maps the same structure as plain
// sub-documents (arrays flattened into the parent).
func Mapping(nested bool) mapping.IndexMapping {
	mk := func() *mapping.DocumentMapping {
		if nested {
			return bleve.NewNestedDocumentMapping()
		}
		return bleve.NewDocumentMapping()
	}
	subs := mk()
	subs.AddFieldMappingsAt("a", keywordField())
	subs.AddFieldMappingsAt("b", keywordField())
	items := mk()
	items.AddFieldMappingsAt("k", keywordField())
	items.AddFieldMappingsAt("v", keywordField())
	items.AddSubDocumentMapping("subs", subs)
	tags := mk()
	tags.AddFieldMappingsAt("t", keywordField())
	m := bleve.NewIndexMapping()
	m.DefaultMapping.AddFieldMappingsAt("name", keywordField())
	m.DefaultMapping.AddSubDocumentMapping("items", items)
	m.DefaultMapping.AddSubDocumentMapping("tags", tags)
	return m
}

func mappingName(nested bool) string {
	if nested {
		return "nested"
	}
	return "flat"
}

// ---------------------------------------------------------------------------------------------
// reference tree of one parent

type node struct {
	path   string
	fields map[string]string
	parent *node
	kids   []*node
}

type tree struct {
	root   *node
	nodes  []*node // preorder
	byPath map[string][]*node
	byTerm map[string][]*node // "field:value" -> elements carrying it
}

func (d Doc) tree() *tree {
	t := &tree{}
	add := func(parent *node, path string, f map[string]string) *node {
		n := &node{path: path, fields: f, parent: parent}
		if parent != nil {
			parent.kids = append(parent.kids, n)
		}
		t.nodes = append(t.nodes, n)
		return n
	}
	t.root = add(nil, "", map[string]string{"name": d.Name})
	for _, it := range d.Items {
		e := add(t.root, "items", map[string]string{"items.k": it.K, "items.v": it.V})
		for _, s := range it.Subs {
			add(e, "items.subs", map[string]string{"items.subs.a": s.A, "items.subs.b": s.B})
		}
	}
	for _, tg := range d.Tags {
		add(t.root, "tags", map[string]string{"tags.t": tg.T})
	}
	t.byPath = map[string][]*node{}
	t.byTerm = map[string][]*node{}
	for _, n := range t.nodes {
		t.byPath[n.path] = append(t.byPath[n.path], n)
		for f, v := range n.fields {
			t.byTerm[f+":"+v] = append(t.byTerm[f+":"+v], n)
		}
	}
	return t
}

func isAncestor(a, n *node) bool {
	for p := n.parent; p != nil; p = p.parent {
		if p == a {
			return true
		}
	}
	return false
}

// related: same node, or one lies on the other's path to the root.
func related(a, b *node) bool { return a == b || isAncestor(a, b) || isAncestor(b, a) }

// ---------------------------------------------------------------------------------------------
// queries

type Q struct {
	Kind                  string // term all conj disj bool
	Field, Val            string
	Subs                  []*Q
	Min                   int
	Must, Should, MustNot []*Q
	SMin                  int

	// cached by prep(): the join levels of this operator
	prepared                        bool
	str                             string
	lvl, lvlMust, lvlShould, lvlNot string
}

// prep caches the nesting level each operator joins at (a pure function of the tree).
// Queries shared between goroutines must be prepared before the parallel phase.
func (q *Q) prep() {
	if q.prepared {
		return
	}
	for _, l := range [][]*Q{q.Subs, q.Must, q.Should, q.MustNot} {
		for _, s := range l {
			s.prep()
		}
	}
	switch q.Kind {
	case "conj", "disj":
		q.lvl = commonPath(q.leafPaths(nil))
	case "bool":
		q.lvlMust = commonPath(pathsOf(q.Must))
		q.lvlShould = commonPath(pathsOf(q.Should))
		q.lvlNot = commonPath(pathsOf(q.MustNot))
	}
	q.str = q.String()
	q.prepared = true
}

// effMin is the number of should clauses a boolean needs: the stated minimum, at least one
// when there is no must clause, none when there is no should clause.
func (q *Q) effMin() int {
	min := q.SMin
	if len(q.Must) == 0 && len(q.Should) > 0 && min < 1 {
		min = 1
	}
	if len(q.Should) == 0 {
		min = 0
	}
	return min
}

func T(f, v string) *Q { return &Q{Kind: "term", Field: f, Val: v} }

func (q *Q) String() string {
	if q.str != "" {
		return q.str
	}
	l := func(qs []*Q) string {
		var s []string
		for _, x := range qs {
			s = append(s, x.String())
		}
		return strings.Join(s, ", ")
	}
	switch q.Kind {
	case "term":
		return q.Field + ":" + q.Val
	case "all":
		return "*"
	case "conj":
		return "conj(" + l(q.Subs) + ")"
	case "disj":
		return fmt.Sprintf("disj[min %d](%s)", q.Min, l(q.Subs))
	case "bool":
		var p []string
		if len(q.Must) > 0 {
			p = append(p, "must{"+l(q.Must)+"}")
		}
		if len(q.Should) > 0 {
			p = append(p, fmt.Sprintf("should[min %d]{%s}", q.SMin, l(q.Should)))
		}
		if len(q.MustNot) > 0 {
			p = append(p, "must_not{"+l(q.MustNot)+"}")
		}
		return "bool(" + strings.Join(p, " ") + ")"
	}
	return "?"
}

func (q *Q) nodes() int {
	n := 1
	for _, l := range [][]*Q{q.Subs, q.Must, q.Should, q.MustNot} {
		for _, s := range l {
			n += s.nodes()
		}
	}
	return n
}

func (q *Q) leafPaths(into map[string]bool) map[string]bool {
	if into == nil {
		into = map[string]bool{}
	}
	if q.Kind == "term" {
		into[pathOf(q.Field)] = true
	}
	for _, l := range [][]*Q{q.Subs, q.Must, q.Should, q.MustNot} {
		for _, s := range l {
			s.leafPaths(into)
		}
	}
	return into
}

func pathsOf(qs ...[]*Q) map[string]bool {
	m := map[string]bool{}
	for _, l := range qs {
		for _, q := range l {
			q.leafPaths(m)
		}
	}
	return m
}

// ToBleve builds the real query through the public constructors.
func (q *Q) ToBleve() query.Query {
	conv := func(qs []*Q) []query.Query {
		var out []query.Query
		for _, s := range qs {
			out = append(out, s.ToBleve())
		}
		return out
	}
	switch q.Kind {
	case "term":
		t := bleve.NewTermQuery(q.Val)
		t.SetField(q.Field)
		return t
	case "all":
		return bleve.NewMatchAllQuery()
	case "conj":
		return bleve.NewConjunctionQuery(conv(q.Subs)...)
	case "disj":
		d := bleve.NewDisjunctionQuery(conv(q.Subs)...)
		d.SetMin(float64(q.Min))
		return d
	case "bool":
		b := bleve.NewBooleanQuery()
		if len(q.Must) > 0 {
			b.AddMust(conv(q.Must)...)
		}
		if len(q.Should) > 0 {
			b.AddShould(conv(q.Should)...)
			b.SetMinShould(float64(q.SMin))
		}
		if len(q.MustNot) > 0 {
			b.AddMustNot(conv(q.MustNot)...)
		}
		return b
	}
	panic("kind " + q.Kind)
}

// ---------------------------------------------------------------------------------------------
// reference evaluation
//
// Every query evaluates to the set of tree nodes it matches *at*; a parent is a hit when the
// set is non-empty. A term matches at the elements carrying the value. A conjunction joins
// its conjuncts at the deepest nesting level all its fields share (J): an element at level J
// matches when every conjunct matches at it, below it or above it. That is the part the
// statement fixes. For the counting operators (disjunction with min >= 2, the parts of a
// boolean) the statement fixes the meaning only when the clauses involved address different
// paths ("combined per parent"); when they all live on one array (J != root) both an
// element-level and a parent-level reading are accepted: each such operator is a binary
// choice, the query is evaluated under every combination of choices, and the answer is
// three-valued. A boolean is combined in three steps whose levels can only move towards the
// root: its must clauses, then must + counted should, then the exclusion by must-not.

type Tri int

const (
	No Tri = iota
	Yes
	Either
)

func (t Tri) String() string { return [...]string{"no", "yes", "either"}[t] }

type evaluator struct {
	t    *tree
	flat bool
	// the reading: choices[i] = true takes the parent-level reading at the i-th ambiguous
	// operator met; used = how many were met in this evaluation
	choices [16]bool
	used    int
}

// pick: the level an ambiguous counting operator works at — j, or the root when j is the
// root already / the mapping is flat / this reading says parent-level.
func (e *evaluator) pick(j string) string {
	if e.flat || j == "" {
		return ""
	}
	c := e.choices[e.used]
	e.used++
	if c {
		return ""
	}
	return j
}

func (e *evaluator) level(j string) []*node {
	if e.flat {
		j = ""
	}
	return e.t.byPath[j]
}

func hit(m []*node, a *node) bool {
	for _, n := range m {
		if related(n, a) {
			return true
		}
	}
	return false
}

func (e *evaluator) evalAll(qs []*Q, buf *[3][]*node) [][]*node {
	var out [][]*node
	if len(qs) <= len(buf) {
		out = buf[:len(qs)]
	} else {
		out = make([][]*node, len(qs))
	}
	for i, q := range qs {
		out[i] = e.eval(q)
	}
	return out
}

func allHit(ms [][]*node, a *node) bool {
	for _, m := range ms {
		if !hit(m, a) {
			return false
		}
	}
	return true
}

func countHit(ms [][]*node, a *node) int {
	c := 0
	for _, m := range ms {
		if hit(m, a) {
			c++
		}
	}
	return c
}

// meet of two nesting paths: the deepest level that is an ancestor-or-self of both
func meet(a, b string) string {
	switch {
	case a == b:
		return a
	case a == "" || b == "" || a == "tags" || b == "tags":
		return ""
	}
	return "items" // items vs items.subs
}

func (e *evaluator) eval(q *Q) []*node {
	if !q.prepared {
		q.prep()
	}
	switch q.Kind {
	case "term":
		return e.t.byTerm[q.str] // String() of a term is field:value
	case "all":
		return e.t.nodes
	case "conj":
		var b [3][]*node
		ms := e.evalAll(q.Subs, &b)
		var out []*node
		for _, a := range e.level(q.lvl) {
			if allHit(ms, a) {
				out = append(out, a)
			}
		}
		return out
	case "disj":
		var b [3][]*node
		ms := e.evalAll(q.Subs, &b)
		if q.Min <= 1 {
			return union(ms)
		}
		var out []*node
		for _, a := range e.level(e.pick(q.lvl)) {
			if countHit(ms, a) >= q.Min {
				out = append(out, a)
			}
		}
		return out
	case "bool":
		var b1, b2, b3 [3][]*node
		must := e.evalAll(q.Must, &b1)
		should := e.evalAll(q.Should, &b2)
		not := e.evalAll(q.MustNot, &b3)
		hasMust := len(must) > 0
		min := q.effMin()
		// step 1: the must clauses (a conjunction built by the boolean query)
		var pos []*node
		lv := ""
		switch {
		case len(must) == 1:
			pos, lv = must[0], q.lvlMust
		case len(must) > 1:
			lv = e.pick(q.lvlMust)
			for _, a := range e.level(lv) {
				if allHit(must, a) {
					pos = append(pos, a)
				}
			}
		}
		// step 2: counted should clauses
		switch {
		case !hasMust && min == 0: // only must-not: taken from all parents
			pos, lv = e.level(""), ""
		case !hasMust && min == 1:
			pos, lv = union(should), q.lvlShould
		case min > 0:
			if hasMust {
				lv = meet(lv, q.lvlShould)
			} else {
				lv = q.lvlShould
			}
			lv = e.pick(lv)
			var out []*node
			for _, a := range e.level(lv) {
				if hasMust && !hit(pos, a) {
					continue
				}
				if countHit(should, a) >= min {
					out = append(out, a)
				}
			}
			pos = out
		}
		if len(not) == 0 {
			return pos
		}
		// step 3: exclusion
		lv = e.pick(meet(lv, q.lvlNot))
		var out []*node
		for _, a := range e.level(lv) {
			if hit(pos, a) && countHit(not, a) == 0 {
				out = append(out, a)
			}
		}
		return out
	}
	panic("kind " + q.Kind)
}

func pathsInto(m map[string]bool, qs []*Q) {
	for _, q := range qs {
		q.leafPaths(m)
	}
}

func union(ms [][]*node) []*node {
	if len(ms) == 1 {
		return ms[0]
	}
	var out []*node
	for _, m := range ms {
	next:
		for _, n := range m {
			for _, o := range out {
				if o == n {
					continue next
				}
			}
			out = append(out, n)
		}
	}
	return out
}

// Expect is the three-valued reference answer for one parent: the query is evaluated under
// every reading (the decision tree of the choices is walked depth first).
func Expect(q *Q, t *tree, nested bool) Tri {
	e := &evaluator{t: t, flat: !nested}
	first := len(e.eval(q)) > 0
	for {
		// next reading: flip the last choice that was still "element-level", drop what follows
		i := e.used - 1
		for i >= 0 && e.choices[i] {
			e.choices[i] = false
			i--
		}
		if i < 0 {
			break
		}
		e.choices[i] = true
		e.used = 0
		if (len(e.eval(q)) > 0) != first {
			return Either
		}
	}
	if first {
		return Yes
	}
	return No
}

// ---------------------------------------------------------------------------------------------
// classifier: which known defect shapes does a query tree contain, and in which direction
// can each of them change the answer. Pure function of the tree.
//
// A "cross-path" operator is one whose clauses address more than one nesting path (the root
// counts as a path). The searchers behind boolean and min-counted disjunction compare raw
// index-internal ids, and a parent and its elements have different ids, so:
//   - a must-not clause never excludes a match found on another path        -> extra hits
//   - a counted should (min >= 1 next to a must) is never found on the same id -> missing hits
//   - a disjunction / should-only boolean with min >= 2 never counts two     -> missing hits
// Under an odd number of enclosing must-not clauses the direction flips.

const (
	classMustNot   = "bool:must-not@different-nesting-path"
	classShouldMin = "bool:must+should-min@different-nesting-path"
	classDisjMin   = "disj:min>=2@different-nesting-paths"
	// not a nesting matter (both mappings): with score "none" a should disjunction of >= 2 term
	// clauses and min 1 is replaced by an optimised searcher that reports Min() = 0, and the
	// boolean searcher then treats the should part as optional
	classShouldOpt = "bool:must+should-min1(>=2 term clauses)@score=none"
	// a must-not-only boolean takes its candidates from match-all, which enumerates elements
	// as well; when no field of the query is nested the collector does not fold them
	classElemHits = "bool:must-not-only@top-level-fields-only:elements-returned-as-hits"
)

type shapeHit struct {
	class string
	extra bool // direction of the deviation at the root: true = extra hits, false = missing hits
}

func allTerms(qs []*Q) bool {
	for _, q := range qs {
		if q.Kind != "term" {
			return false
		}
	}
	return true
}

func knownShapes(q *Q, nested bool, score string) []shapeHit {
	var out []shapeHit
	var walk func(q *Q, neg bool)
	walk = func(q *Q, neg bool) {
		switch q.Kind {
		case "conj":
			for _, s := range q.Subs {
				walk(s, neg)
			}
		case "disj":
			if nested && q.Min >= 2 && len(q.leafPaths(nil)) >= 2 {
				out = append(out, shapeHit{classDisjMin, neg})
			}
			for _, s := range q.Subs {
				walk(s, neg)
			}
		case "bool":
			hasMust := len(q.Must) > 0
			if nested && len(q.MustNot) > 0 {
				ps := pathsOf(q.Must, q.MustNot)
				if !hasMust || q.SMin >= 1 {
					pathsInto(ps, q.Should) // shoulds that decide the match
				}
				// must-not alone is taken from match-all, which spans every path
				if len(ps) >= 2 || (!hasMust && len(q.Should) == 0) {
					out = append(out, shapeHit{classMustNot, !neg})
				}
			}
			if nested && hasMust && len(q.Should) > 0 && q.SMin >= 1 && len(pathsOf(q.Must, q.Should)) >= 2 {
				out = append(out, shapeHit{classShouldMin, neg})
			}
			if nested && !hasMust && q.SMin >= 2 && len(pathsOf(q.Should)) >= 2 {
				// a should-only boolean is executed as its should disjunction
				out = append(out, shapeHit{classDisjMin, neg})
			}
			if score == "none" && hasMust && len(q.Should) >= 2 && q.SMin == 1 && allTerms(q.Should) {
				out = append(out, shapeHit{classShouldOpt, !neg})
			}
			for _, s := range q.Must {
				walk(s, neg)
			}
			for _, s := range q.Should {
				walk(s, neg)
			}
			for _, s := range q.MustNot {
				walk(s, !neg)
			}
		}
	}
	walk(q, false)
	return out
}

// elementHitsShape: the query contains a must-not-only boolean and addresses no nested field.
func elementHitsShape(q *Q) bool {
	for p := range q.leafPaths(nil) {
		if p != "" {
			return false
		}
	}
	found := false
	var walk func(q *Q)
	walk = func(q *Q) {
		if q.Kind == "bool" && len(q.MustNot) > 0 && len(q.Must) == 0 && len(q.Should) == 0 {
			found = true
		}
		for _, l := range [][]*Q{q.Subs, q.Must, q.Should, q.MustNot} {
			for _, s := range l {
				walk(s)
			}
		}
	}
	walk(q)
	return found
}

// pathRel summarises which nesting paths a query addresses.
func pathRel(q *Q) string {
	ps := q.leafPaths(nil)
	switch {
	case len(ps) == 0:
		return "no-field"
	case len(ps) == 1 && ps[""]:
		return "top-level"
	case len(ps) == 1:
		return "one-array"
	case len(ps) == 2 && ps["items"] && ps["items.subs"]:
		return "array+its-sub-array"
	}
	return "different-paths"
}

// classify names a per-parent mismatch: a known shape whose direction fits, else a class
// built from the mapping, the direction, the root operator, the relation of the nesting paths
// addressed and the index layout.
func classify(q *Q, nested bool, score string, extra bool, layout string) string {
	for _, h := range knownShapes(q, nested, score) {
		if h.extra == extra {
			return h.class
		}
	}
	dir := "missing"
	if extra {
		dir = "extra"
	}
	return fmt.Sprintf("%s:%s:%s@%s:%s", mappingName(nested), dir, q.Kind, pathRel(q), layout)
}

func isShapeClass(c string) bool {
	return c == classMustNot || c == classShouldMin || c == classDisjMin
}

// classAdvance: a boolean with a must clause hands the raw id of the must match (an element)
// to Advance of its should / must-not searcher; when that clause contains a conjunction over
// different nesting paths (NestedConjunctionSearcher), Advance moves the conjuncts on sibling
// arrays to the element's own id and skips their matches inside the same parent.
const classAdvance = "bool:cross-path-conjunction-inside-should/must-not-clause@advanced-to-element-id"

// crossPathConj: q contains a conjunction (explicit, or the must part of a boolean) whose
// fields do not share one nesting depth.
func crossPathConj(q *Q) bool {
	found := false
	var walk func(q *Q)
	walk = func(q *Q) {
		var cl []*Q
		switch q.Kind {
		case "conj":
			cl = q.Subs
		case "bool":
			cl = q.Must
		}
		if len(cl) > 0 {
			if c, m := nestDepths(fieldSetOf(cl)); c < m {
				found = true
			}
		}
		for _, l := range [][]*Q{q.Subs, q.Must, q.Should, q.MustNot} {
			for _, s := range l {
				walk(s)
			}
		}
	}
	walk(q)
	return found
}

func advanceShape(q *Q) bool {
	found := false
	var walk func(q *Q)
	walk = func(q *Q) {
		if q.Kind == "bool" && len(q.Must) > 0 {
			for _, c := range q.MustNot {
				if crossPathConj(c) {
					found = true
				}
			}
			if q.SMin >= 1 {
				for _, c := range q.Should {
					if crossPathConj(c) {
						found = true
					}
				}
			}
		}
		for _, l := range [][]*Q{q.Subs, q.Must, q.Should, q.MustNot} {
			for _, s := range l {
				walk(s)
			}
		}
	}
	walk(q)
	return found
}

// unexplainedClass: the query contains a known defect shape, but the observed answer is
// neither the reference answer nor what raw-id combination yields.
func unexplainedClass(q *Q, extra bool, layout string) string {
	if advanceShape(q) {
		return classAdvance
	}
	dir := "missing"
	if extra {
		dir = "extra"
	}
	return fmt.Sprintf("nested:%s(not-the-raw-id-answer):%s@%s:%s", dir, q.Kind, pathRel(q), layout)
}
