// Package c10: facet counts describe all matching documents, not only the returned page.
//
// E2: corpora (subsets of an 8-document alphabet whose facet fields are absent / single /
// multi-valued) × index variants (engine, doc values on/off, physical layout) × queries ×
// facet bundles (terms facets of every size with prefix/regexp filters; numeric and date
// range facets with partitioning, overlapping, open-ended, empty and inverted ranges) ×
// page settings (Size, From, sort). Oracle: a reference tally over the analysed terms /
// values of ALL documents the reference query evaluator says match.
package c10

import (
	"fmt"
	"regexp"
	"sort"
	"strings"
	"time"

	"github.com/blevesearch/bleve/v2"
	"github.com/blevesearch/bleve/v2/analysis/analyzer/keyword"
	"github.com/blevesearch/bleve/v2/analysis/analyzer/simple"
	"github.com/blevesearch/bleve/v2/mapping"
	"github.com/blevesearch/bleve/v2/search"

	"verif/bx"
	"verif/mc"
	"verif/ref"
)

var t0 = time.Date(2001, 2, 3, 4, 5, 6, 0, time.UTC)

const day = 24 * time.Hour

// document alphabet: tags (analysed text; absent, single, multi-valued, one value analysed
// into two terms; terms are distinct within a document), nums (numeric; absent, single,
// multi-valued; values on range boundaries), when (date; absent, single, multi-valued),
// grp (keyword; always present; used by queries and sorts).
var alphabet = []map[string]interface{}{
	{"grp": "g1"},
	{"grp": "g1", "tags": "red", "nums": 1.0, "when": t0},
	{"grp": "g2", "tags": []interface{}{"red", "blue"}, "nums": []interface{}{2.0, 5.0}, "when": []interface{}{t0, t0.Add(day)}},
	{"grp": "g2", "tags": "blue", "nums": 5.0, "when": t0.Add(day)},
	{"grp": "g1", "tags": []interface{}{"green", "red", "blue"}, "nums": 0.0, "when": t0.Add(-time.Nanosecond)},
	{"grp": "g2", "tags": "abc", "nums": []interface{}{-1.0, 10.0}},
	{"grp": "g1", "tags": "Bred, rex", "nums": 2.0, "when": t0.Add(time.Hour)},
	{"grp": "g2", "tags": "blue", "when": t0.Add(2 * day)},
}

func docID(i int) string { return fmt.Sprintf("d%d", i) }

func newMapping(docValues bool) *mapping.IndexMappingImpl {
	m := bleve.NewIndexMapping()
	tf := bleve.NewTextFieldMapping()
	tf.Analyzer = simple.Name
	tf.DocValues = docValues
	m.DefaultMapping.AddFieldMappingsAt("tags", tf)
	gf := bleve.NewTextFieldMapping()
	gf.Analyzer = keyword.Name
	m.DefaultMapping.AddFieldMappingsAt("grp", gf)
	nf := bleve.NewNumericFieldMapping()
	nf.DocValues = docValues
	m.DefaultMapping.AddFieldMappingsAt("nums", nf)
	df := bleve.NewDateTimeFieldMapping()
	df.DocValues = docValues
	m.DefaultMapping.AddFieldMappingsAt("when", df)
	return m
}

func fp(f float64) *float64 { return &f }

// ---------------------------------------------------------------------------------------
// facet request family

const (
	kTerms = iota
	kNumeric
	kDate
)

var kindName = []string{"terms", "numeric", "date"}

type nrange struct {
	name     string
	min, max *float64
}

type drange struct {
	name       string
	start, end time.Time // zero = open
}

type facetSpec struct {
	kind   int
	field  string
	size   int
	prefix string
	regex  string
	set    string // name of the range set
	nr     []nrange
	dr     []drange
}

func (f facetSpec) filterKind() string {
	switch {
	case f.prefix != "" && f.regex != "":
		return "prefix+regexp"
	case f.prefix != "":
		return "prefix"
	case f.regex != "":
		return "regexp"
	}
	return "nofilter"
}

func (f facetSpec) String() string {
	switch f.kind {
	case kTerms:
		return fmt.Sprintf("terms(%s size=%d prefix=%q regexp=%q)", f.field, f.size, f.prefix, f.regex)
	case kNumeric:
		var l []string
		for _, x := range f.nr {
			s := x.name + "["
			if x.min != nil {
				s += fmt.Sprint(*x.min)
			}
			s += ","
			if x.max != nil {
				s += fmt.Sprint(*x.max)
			}
			l = append(l, s+")")
		}
		return fmt.Sprintf("numeric(%s size=%d %s)", f.field, f.size, strings.Join(l, " "))
	}
	var l []string
	for _, x := range f.dr {
		s := x.name + "["
		if !x.start.IsZero() {
			s += x.start.Format(time.RFC3339Nano)
		}
		s += ","
		if !x.end.IsZero() {
			s += x.end.Format(time.RFC3339Nano)
		}
		l = append(l, s+")")
	}
	return fmt.Sprintf("date(%s size=%d %s)", f.field, f.size, strings.Join(l, " "))
}

func (f facetSpec) request() *bleve.FacetRequest {
	fr := bleve.NewFacetRequest(f.field, f.size)
	if f.prefix != "" {
		fr.SetPrefixFilter(f.prefix)
	}
	if f.regex != "" {
		fr.SetRegexFilter(f.regex)
	}
	for _, x := range f.nr {
		fr.AddNumericRange(x.name, x.min, x.max)
	}
	for _, x := range f.dr {
		fr.AddDateTimeRange(x.name, x.start, x.end)
	}
	return fr
}

type filter struct{ prefix, regex string }

// regular expressions are written fully anchored so that they mean the same whether the
// filter is read as "matches somewhere" or "matches the whole term".
var filters = []filter{
	{"", ""}, {"b", ""}, {"zz", ""}, {"", "^r.*$"}, {"", "^.*e$"}, {"b", "^.*e.*$"},
}

var termSizes = []int{1, 2, 3, 10}

var numSets = map[string][]nrange{
	"partition": {{"low", fp(0), fp(2)}, {"mid", fp(2), fp(5)}, {"high", fp(5), nil}, {"neg", nil, fp(0)}},
	"overlap":   {{"a", fp(0), fp(5)}, {"b", fp(2), fp(10)}, {"c", fp(-1), nil}, {"d", nil, fp(5)}},
	"odd":       {{"empty", fp(3), fp(3)}, {"inverted", fp(5), fp(2)}, {"sliver", fp(5), fp(5.0000001)}, {"top", fp(10), nil}, {"below", nil, fp(-1)}},
}
var numSetOrder = []string{"partition", "overlap", "odd"}
var rangeSizes = []int{1, 2, 10}

var dateSets = map[string][]drange{
	"partition": {{"old", time.Time{}, t0}, {"day0", t0, t0.Add(day)}, {"later", t0.Add(day), time.Time{}}},
	"overlap":   {{"w1", t0.Add(-time.Nanosecond), t0.Add(time.Hour)}, {"w2", t0, time.Time{}}, {"w3", time.Time{}, t0.Add(2 * day)}, {"empty", t0.Add(time.Hour), t0.Add(time.Hour)}, {"inverted", t0.Add(day), t0}},
}
var dateSetOrder = []string{"partition", "overlap"}

// bundles: every terms variant, every numeric variant and every date variant occurs in at
// least one bundle; the three kinds are independent builders, so they are paired round-robin
// rather than multiplied. Some bundles carry a second builder on the same field.
func bundles() []map[string]facetSpec {
	var terms, nums, dates []facetSpec
	for _, f := range filters {
		for _, s := range termSizes {
			terms = append(terms, facetSpec{kind: kTerms, field: "tags", size: s, prefix: f.prefix, regex: f.regex})
		}
	}
	for _, sn := range numSetOrder {
		for _, s := range rangeSizes {
			nums = append(nums, facetSpec{kind: kNumeric, field: "nums", size: s, set: sn, nr: numSets[sn]})
		}
	}
	for _, sn := range dateSetOrder {
		for _, s := range rangeSizes {
			dates = append(dates, facetSpec{kind: kDate, field: "when", size: s, set: sn, dr: dateSets[sn]})
		}
	}
	var bs []map[string]facetSpec
	for i, t := range terms {
		b := map[string]facetSpec{"T": t, "N": nums[i%len(nums)], "D": dates[i%len(dates)]}
		if i%4 == 1 {
			// a second terms builder on the same field and one on the single-valued field
			b["T2"] = terms[(i+7)%len(terms)]
			b["G"] = facetSpec{kind: kTerms, field: "grp", size: 1 + i%3}
		}
		if i%4 == 2 {
			b["N2"] = nums[(i+4)%len(nums)]
		}
		bs = append(bs, b)
	}
	return bs
}

// ---------------------------------------------------------------------------------------
// reference tally

type bucket struct {
	name  string
	count int
}

type expect struct {
	listed    []bucket       // terms: exact expected list
	counts    map[string]int // ranges: name -> count (all ranges)
	total     int
	missing   [2]int // acceptable values (equal unless a term filter is set)
	nonEmpty  int
	sumCounts int
}

func distinctTerms(d *ref.RDoc, field string) []string {
	seen := map[string]bool{}
	var l []string
	for _, t := range d.Fields[field] {
		if !seen[t.Term] {
			seen[t.Term] = true
			l = append(l, t.Term)
		}
	}
	return l
}

func tally(f facetSpec, docs []*ref.RDoc) expect {
	e := expect{counts: map[string]int{}}
	switch f.kind {
	case kTerms:
		var re *regexp.Regexp
		if f.regex != "" {
			re = regexp.MustCompile(f.regex)
		}
		for _, d := range docs {
			ts := distinctTerms(d, f.field)
			pass := 0
			for _, t := range ts {
				e.total++ // Total counts every term occurrence, listed or not
				if f.prefix != "" && !strings.HasPrefix(t, f.prefix) {
					continue
				}
				if re != nil && !re.MatchString(t) {
					continue
				}
				e.counts[t]++
				pass++
			}
			if len(ts) == 0 {
				e.missing[0]++
			}
			if pass == 0 {
				e.missing[1]++
			}
		}
		for t, c := range e.counts {
			e.listed = append(e.listed, bucket{t, c})
		}
		sort.Slice(e.listed, func(i, j int) bool {
			if e.listed[i].count != e.listed[j].count {
				return e.listed[i].count > e.listed[j].count
			}
			return e.listed[i].name < e.listed[j].name
		})
		if len(e.listed) > f.size {
			e.listed = e.listed[:f.size]
		}
	case kNumeric:
		for _, x := range f.nr {
			e.counts[x.name] = 0
		}
		for _, d := range docs {
			vs := d.Num[f.field]
			if len(vs) == 0 {
				e.missing[0]++
			}
			for _, v := range vs {
				for _, x := range f.nr {
					if (x.min == nil || v >= *x.min) && (x.max == nil || v < *x.max) {
						e.counts[x.name]++
						e.total++
					}
				}
			}
		}
		e.missing[1] = e.missing[0]
	case kDate:
		for _, x := range f.dr {
			e.counts[x.name] = 0
		}
		for _, d := range docs {
			vs := d.Date[f.field]
			if len(vs) == 0 {
				e.missing[0]++
			}
			for _, v := range vs {
				for _, x := range f.dr {
					if (x.start.IsZero() || v >= x.start.UnixNano()) && (x.end.IsZero() || v < x.end.UnixNano()) {
						e.counts[x.name]++
						e.total++
					}
				}
			}
		}
		e.missing[1] = e.missing[0]
	}
	for _, c := range e.counts {
		if c > 0 {
			e.nonEmpty++
		}
	}
	return e
}

func observed(f facetSpec, fr *search.FacetResult) []bucket {
	var l []bucket
	switch f.kind {
	case kTerms:
		if fr.Terms != nil {
			for _, t := range fr.Terms.Terms() {
				l = append(l, bucket{t.Term, t.Count})
			}
		}
	case kNumeric:
		for _, x := range fr.NumericRanges {
			l = append(l, bucket{x.Name, x.Count})
		}
	case kDate:
		for _, x := range fr.DateRanges {
			l = append(l, bucket{x.Name, x.Count})
		}
	}
	return l
}

func renderBuckets(l []bucket) string {
	var s []string
	for _, b := range l {
		s = append(s, fmt.Sprintf("%s=%d", b.name, b.count))
	}
	return "[" + strings.Join(s, " ") + "]"
}

func renderFacet(f facetSpec, fr *search.FacetResult) string {
	return fmt.Sprintf("total=%d missing=%d other=%d %s", fr.Total, fr.Missing, fr.Other, renderBuckets(observed(f, fr)))
}

// check compares one facet result with the tally; report(what, detail).
func check(f facetSpec, fr *search.FacetResult, e expect, report func(what, detail string)) {
	got := observed(f, fr)
	if fr.Field != f.field {
		report("field", fmt.Sprintf("result names field %q", fr.Field))
	}
	listedSum := 0
	for _, b := range got {
		listedSum += b.count
	}
	switch f.kind {
	case kTerms:
		if renderBuckets(got) != renderBuckets(e.listed) {
			what := "counts"
			if sameSet(got, e.listed) {
				what = "order"
			} else if sameNames(got, e.listed) {
				what = "counts"
			} else {
				what = "listed-terms"
			}
			report(what, fmt.Sprintf("terms %s, tally of all matches gives %s", renderBuckets(got), renderBuckets(e.listed)))
		}
	default:
		seen := map[string]bool{}
		minListed := -1
		for _, b := range got {
			c, ok := e.counts[b.name]
			if !ok || seen[b.name] {
				report("listed-ranges", fmt.Sprintf("range %q unknown or listed twice in %s", b.name, renderBuckets(got)))
				continue
			}
			seen[b.name] = true
			if c != b.count {
				report("count", fmt.Sprintf("range %s=%d, values of all matches in [min,max): %d (all ranges: %v)", b.name, b.count, c, e.counts))
			}
			if minListed < 0 || c < minListed {
				minListed = c
			}
		}
		if len(got) > f.size {
			report("listed-ranges", fmt.Sprintf("%d ranges listed with size %d", len(got), f.size))
		}
		for name, c := range e.counts {
			if seen[name] || c == 0 {
				continue
			}
			// a non-empty range may be left out only if the list is full of ranges at least as large
			if len(got) < f.size || c > minListed {
				report("listed-ranges", fmt.Sprintf("range %s (count %d) is not listed in %s with size %d (all ranges: %v)", name, c, renderBuckets(got), f.size, e.counts))
			}
		}
	}
	if fr.Total != e.total {
		report("total", fmt.Sprintf("Total=%d, tally %d; %s", fr.Total, e.total, renderBuckets(got)))
	}
	if fr.Missing != e.missing[0] && fr.Missing != e.missing[1] {
		report("missing", fmt.Sprintf("Missing=%d, matching documents without a value: %d (without a value passing the filter: %d)", fr.Missing, e.missing[0], e.missing[1]))
	}
	if fr.Other != fr.Total-listedSum {
		report("other", fmt.Sprintf("Other=%d but Total=%d − listed %d = %d", fr.Other, fr.Total, listedSum, fr.Total-listedSum))
	}
}

func sameSet(a, b []bucket) bool {
	if len(a) != len(b) {
		return false
	}
	m := map[bucket]int{}
	for _, x := range a {
		m[x]++
	}
	for _, x := range b {
		m[x]--
	}
	for _, v := range m {
		if v != 0 {
			return false
		}
	}
	return true
}

func sameNames(a, b []bucket) bool {
	if len(a) != len(b) {
		return false
	}
	m := map[string]int{}
	for _, x := range a {
		m[x.name]++
	}
	for _, x := range b {
		m[x.name]--
	}
	for _, v := range m {
		if v != 0 {
			return false
		}
	}
	return true
}

// ---------------------------------------------------------------------------------------
// index variants

const (
	layOneBatch = iota
	layPerDoc
	layChurn
)

var layoutName = []string{"one-batch", "per-doc", "churn(ghost deleted, first doc updated, last doc deleted+reindexed)"}

type variant struct {
	eng    bx.Engine
	dv     bool
	layout int
}

func (v variant) engName() string {
	if !v.dv {
		return v.eng.Name + "-nodocvalues"
	}
	return v.eng.Name
}

func (v variant) String() string { return v.engName() + "/" + layoutName[v.layout] }

func variants() []variant {
	sc, ud := bx.MemEngines[0], bx.MemEngines[1]
	return []variant{
		{sc, true, layOneBatch}, {sc, true, layPerDoc}, {sc, true, layChurn},
		{sc, false, layPerDoc}, {sc, false, layChurn},
		{ud, true, layOneBatch}, {ud, true, layChurn},
	}
}

func build(v variant, sel []int) bleve.Index {
	idx := v.eng.Mk(newMapping(v.dv))
	chk := func(err error) {
		if err != nil {
			panic(err)
		}
	}
	switch v.layout {
	case layOneBatch:
		b := idx.NewBatch()
		for _, i := range sel {
			chk(b.Index(docID(i), alphabet[i]))
		}
		chk(idx.Batch(b))
	case layPerDoc:
		for _, i := range sel {
			chk(idx.Index(docID(i), alphabet[i]))
		}
	case layChurn:
		// a ghost that matches every query and would add to every bucket, deleted later
		chk(idx.Index("ghost", map[string]interface{}{"grp": "g1", "tags": []interface{}{"red", "blue", "zebra"}, "nums": []interface{}{1.0, 5.0}, "when": t0}))
		for k, i := range sel {
			if k == 0 {
				chk(idx.Index(docID(i), map[string]interface{}{"grp": "g1", "tags": "blue ghost", "nums": 3.0, "when": t0.Add(day)}))
				continue
			}
			chk(idx.Index(docID(i), alphabet[i]))
		}
		chk(idx.Delete("ghost"))
		if len(sel) > 1 {
			i := sel[len(sel)-1]
			chk(idx.Delete(docID(i)))
			chk(idx.Index(docID(i), alphabet[i]))
		}
		if len(sel) > 0 {
			chk(idx.Index(docID(sel[0]), alphabet[sel[0]]))
		}
	}
	return idx
}

// ---------------------------------------------------------------------------------------

type page struct {
	size, from int
	sort       []string
}

func (p page) String() string { return fmt.Sprintf("size=%d from=%d sort=%v", p.size, p.from, p.sort) }

type ctx struct {
	r       *mc.Run
	qs      []*ref.Q
	bs      []map[string]facetSpec
	sorts   [][]string
	analyse func(string, string) []string
}

func subsetsUpTo(n, lo, hi int) [][]int {
	var out [][]int
	for mask := 0; mask < 1<<n; mask++ {
		var s []int
		for i := 0; i < n; i++ {
			if mask&(1<<i) != 0 {
				s = append(s, i)
			}
		}
		if len(s) >= lo && len(s) <= hi {
			out = append(out, s)
		}
	}
	sort.SliceStable(out, func(i, j int) bool { return len(out[i]) < len(out[j]) })
	return out
}

func Run(r *mc.Run) {
	c := &ctx{r: r, bs: bundles(), analyse: ref.Analyser(newMapping(true))}
	c.qs = []*ref.Q{
		{Kind: "all"},
		{Kind: "term", Field: "grp", Text: "g1"},
		{Kind: "term", Field: "tags", Text: "blue"},
		{Kind: "boolean", Must: []*ref.Q{{Kind: "all"}}, MustNot: []*ref.Q{{Kind: "term", Field: "tags", Text: "red"}}},
	}
	c.sorts = [][]string{{"-_score"}, {"_id"}, {"-tags", "_id"}}
	if !r.Quick() {
		c.qs = append(c.qs,
			&ref.Q{Kind: "boolean", Should: []*ref.Q{{Kind: "term", Field: "tags", Text: "blue"}, {Kind: "term", Field: "grp", Text: "g2"}}, ShouldMin: 1},
			&ref.Q{Kind: "nrange", Field: "nums", Min: fp(2), Max: fp(5), IncMax: bp(true)},
			&ref.Q{Kind: "none"})
		c.sorts = append(c.sorts, []string{"-grp", "nums", "_id"})
	}
	// corpora: quick = every corpus of ≤ 2 documents and every corpus of exactly 6; thorough = every corpus of ≤ 6
	var corpora [][]int
	if r.Quick() {
		corpora = append(subsetsUpTo(len(alphabet), 0, 2), subsetsUpTo(len(alphabet), 6, 6)...)
	} else {
		corpora = subsetsUpTo(len(alphabet), 0, 6)
	}
	vs := variants()
	r.Rule(fmt.Sprintf("E2: %d corpora (subsets of an 8-document alphabet, ≤ 6 documents; facet fields absent / single / multi-valued / analysed into several terms) × %d index variants (scorch with doc values, scorch without doc values = uninverted cache, upsidedown; one batch / one segment per document / churn with a deleted all-matching ghost and updated documents) × %d queries × %d facet bundles (terms facets: sizes %v × filters %v, also two builders on one field; numeric range sets %v and date range sets %v with sizes %v: partitioning, overlapping, open-ended, empty, inverted ranges, values on boundaries) × Size∈{0,1,all} × From∈{0,2} × %d sorts; oracle = tally over the analysed terms / values of ALL documents matched according to the reference evaluator: per-term document counts in (count desc, term asc) order cut at size, Total = all term occurrences, Missing, Other = Total − Σ listed; ranges count values in [min,max); additionally the facet results of one (index, query, bundle) must be identical for every page setting; an outcome is (query, matches, rendered terms facet)",
		len(corpora), len(vs), len(c.qs), len(c.bs), termSizes, filters, numSetOrder, dateSetOrder, rangeSizes, len(c.sorts)))
	r.Assume("which documents match is C02's business: the match set comes from the shared reference evaluator and Total is cross-checked against it",
		"terms are distinct within a document (the statement counts documents containing a term)",
		"with a term filter, Missing may be read as 'no value' or as 'no value passing the filter' (statement silent): both accepted; Total counts every term occurrence (needed for Other to account for unlisted terms)",
		"the order of range buckets is not stated: a range list is accepted if it is a correct top-`size` selection with exact counts; for ranges Total = Σ of all range counts",
		"regular expressions are written fully anchored, so anchored and unanchored readings coincide")
	r.Note("corpora", len(corpora))
	r.Note("bundles", len(c.bs))
	r.Sample(map[string]any{"corpus": []int{1, 2, 3, 4, 5, 6}, "variant": vs[3].String(), "query": c.qs[2].String(), "facet": c.bs[5]["T"].String(), "page": "size=1 from=2 sort=[-tags _id]"})
	r.Sample(map[string]any{"corpus": []int{0, 2, 5}, "variant": vs[6].String(), "query": c.qs[0].String(), "facet": c.bs[4]["N"].String(), "page": "size=0 from=0 sort=[-_score]"})
	r.Sample(map[string]any{"corpus": []int{}, "variant": vs[0].String(), "query": c.qs[0].String(), "facet": c.bs[0]["D"].String(), "page": "size=0 from=2 sort=[_id]"})

	type item struct {
		ci int
		v  variant
	}
	var items []item
	for ci := range corpora {
		for _, v := range vs {
			items = append(items, item{ci, v})
		}
	}
	rdocs := make([][]*ref.RDoc, len(corpora))
	m := newMapping(true)
	for ci, sel := range corpora {
		for _, i := range sel {
			rdocs[ci] = append(rdocs[ci], ref.Analyse(m, docID(i), alphabet[i]))
		}
	}
	pends := make([]pending, len(items))
	r.ParFor(len(items), 0, func(k int) {
		it := items[k]
		c.index(it.v, corpora[it.ci], rdocs[it.ci], &pends[k])
	})
	engs := map[string]bool{}
	for _, v := range vs {
		engs[v.engName()] = true
	}
	report(r, pends, len(engs))
}

func bp(b bool) *bool { return &b }

type pend struct {
	eng, class, detail string // class without the engine variant
	replay             map[string]any
	count              int
}

// pending keeps the violations of one enumeration item so that they are reported in
// enumeration order (deterministic first counterexample per class).
type pending struct {
	order []string
	m     map[string]*pend
}

// bump counts one more counterexample of a class already recorded (and says whether it was).
func (p *pending) bump(class string) bool {
	if e, ok := p.m[class]; ok {
		e.count++
		return true
	}
	return false
}

func (p *pending) add(eng, class, detail string, replay map[string]any) {
	if p.m == nil {
		p.m = map[string]*pend{}
	}
	if e, ok := p.m[class]; ok {
		e.count++
		return
	}
	p.m[class] = &pend{eng, class, detail, replay, 1}
	p.order = append(p.order, class)
}

// report turns the collected counterexamples into violations, in enumeration order. A class
// names the facet kind and the failing component; the engine variant is part of the class
// only when the other variants do not show the same failure (a defect above the index layer
// shows on all of them and is one root cause).
func report(r *mc.Run, pends []pending, nVariants int) {
	type agg struct {
		engOrder []string
		first    map[string]*pend
		count    map[string]int
	}
	var order []string
	m := map[string]*agg{}
	for k := range pends {
		for _, cl := range pends[k].order {
			e := pends[k].m[cl]
			a := m[cl]
			if a == nil {
				a = &agg{first: map[string]*pend{}, count: map[string]int{}}
				m[cl] = a
				order = append(order, cl)
			}
			if a.first[e.eng] == nil {
				a.first[e.eng] = e
				a.engOrder = append(a.engOrder, e.eng)
			}
			a.count[e.eng] += e.count
		}
	}
	for _, cl := range order {
		a := m[cl]
		if len(a.engOrder) == nVariants {
			f := a.first[a.engOrder[0]]
			n := 0
			for _, c := range a.count {
				n += c
			}
			for j := 0; j < n; j++ {
				r.Violation(cl, f.detail, f.replay)
			}
			continue
		}
		for _, eng := range a.engOrder {
			f := a.first[eng]
			for j := 0; j < a.count[eng]; j++ {
				r.Violation(eng+":"+cl, f.detail, f.replay)
			}
		}
	}
}

// index runs the whole request family on one index variant of one corpus.
func (c *ctx) index(v variant, sel []int, docs []*ref.RDoc, pd *pending) {
	r := c.r
	idx := build(v, sel)
	defer idx.Close()
	all := len(sel) + 1
	var pages []page
	for _, size := range []int{0, 1, all} {
		for _, from := range []int{0, 2} {
			for _, so := range c.sorts {
				pages = append(pages, page{size, from, so})
			}
		}
	}
	for qi, q := range c.qs {
		var matched []*ref.RDoc
		for _, d := range docs {
			switch ref.Eval(q, d, c.analyse) {
			case ref.Yes:
				matched = append(matched, d)
			case ref.Either:
				panic("query family must be two-valued")
			}
		}
		if len(matched) > 3 {
			r.Count("queries_with_more_matches_than_any_partial_page_retains", 1)
		}
		for bi, b := range c.bs {
			if r.Expired() {
				return
			}
			exp := map[string]expect{}
			names := make([]string, 0, len(b))
			for name, f := range b {
				exp[name] = tally(f, matched)
				names = append(names, name)
			}
			sort.Strings(names)
			var first map[string]string
			var firstPage page
			for _, pg := range pages {
				req := bleve.NewSearchRequest(ref.ToBleve(q))
				req.Size, req.From = pg.size, pg.from
				req.SortBy(pg.sort)
				for name, f := range b {
					req.AddFacet(name, f.request())
				}
				replay := func(name string) map[string]any {
					rp := map[string]any{"engine": v.engName(), "layout": layoutName[v.layout], "corpus": sel, "query": q.String(), "size": pg.size, "from": pg.from, "sort": pg.sort, "matching_documents": ids(matched), "documents": docData(sel),
						"mapping": "tags: text/simple analyzer; grp: text/keyword analyzer; nums: numeric; when: datetime; doc values of tags, nums, when off for the -nodocvalues variant"}
					fs := map[string]string{}
					for n, f := range b {
						fs[n] = f.String()
					}
					rp["facets"] = fs
					if name != "" {
						rp["failing_facet"] = name
					}
					return rp
				}
				var res *bleve.SearchResult
				var err error
				pv, st := mc.Try(func() { res, err = idx.Search(req) })
				r.Eval(1)
				where := fmt.Sprintf("%s corpus=%v q=%s %s", v, sel, q, pg)
				if pv != nil {
					pd.add(v.engName(), "panic", fmt.Sprintf("%s bundle=%d: panic %v @ %s", where, bi, pv, mc.TrimStack(st)), replay(""))
					continue
				}
				if err != nil {
					pd.add(v.engName(), "error", fmt.Sprintf("%s bundle=%d: error %v", where, bi, err), replay(""))
					continue
				}
				if int(res.Total) != len(matched) {
					pd.add(v.engName(), "precondition:match-count", fmt.Sprintf("%s: Total=%d, reference evaluator matches %v", where, res.Total, ids(matched)), replay(""))
					continue
				}
				cur := map[string]string{}
				for _, name := range names {
					f := b[name]
					fr, ok := res.Facets[name]
					if !ok || fr == nil {
						pd.add(v.engName(), kindName[f.kind]+":absent", fmt.Sprintf("%s: facet %s = %s absent from the result", where, name, f), replay(name))
						continue
					}
					cur[name] = renderFacet(f, fr)
					check(f, fr, exp[name], func(what, detail string) {
						cl := kindName[f.kind] + ":" + what
						if f.kind == kTerms && f.filterKind() != "nofilter" {
							cl = "terms+filter:" + what
						}
						if pd.bump(cl) {
							return
						}
						pd.add(v.engName(), cl, fmt.Sprintf("%s facet %s: %s", where, f, detail), replay(name))
					})
					if e := exp[name]; f.kind == kTerms && e.missing[0] != e.missing[1] {
						r.Count("terms_facets_where_the_two_readings_of_Missing_differ", 1)
					}
				}
				if len(res.Facets) != len(b) {
					pd.add(v.engName(), "unrequested-facet", fmt.Sprintf("%s: %d facets returned, %d requested", where, len(res.Facets), len(b)), replay(""))
				}
				if first == nil {
					first, firstPage = cur, pg
					r.Outcome(fmt.Sprintf("q%d|m%d|%s", qi, len(matched), cur["T"]))
					if pg.size+pg.from < len(matched) {
						r.Count("searches_whose_page_retains_fewer_hits_than_match", 1)
					}
				} else {
					if pg.size+pg.from < len(matched) {
						r.Count("searches_whose_page_retains_fewer_hits_than_match", 1)
					}
					for _, name := range names {
						if cur[name] != first[name] {
							f := b[name]
							if pd.bump(kindName[f.kind] + ":depends-on-page-settings") {
								continue
							}
							pd.add(v.engName(), kindName[f.kind]+":depends-on-page-settings",
								fmt.Sprintf("%s facet %s: %s, but with %s: %s", where, f, cur[name], firstPage, first[name]), replay(name))
						}
					}
				}
			}
		}
	}
}

func docData(sel []int) map[string]any {
	m := map[string]any{}
	for _, i := range sel {
		m[docID(i)] = alphabet[i]
	}
	return m
}

func ids(docs []*ref.RDoc) []string {
	l := []string{}
	for _, d := range docs {
		l = append(l, d.ID)
	}
	return l
}
