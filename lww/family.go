package lww

import (
	"fmt"
	"os"
	"sort"
	"strings"
)

// Workload families: instead of a handful of hand-written workloads, the E3 checks enumerate EVERY
// word of length L over an alphabet of batch shapes (an environment choice of the explorer,
// vrt.Choose). A word is turned into batches by BuildWord; batch j also sets the internal key
// "seq" to j, so that any observed state names the prefix it claims to be.
//
// The shapes are chosen so that the physical situations the segment bookkeeping distinguishes all
// occur in short words: a segment that keeps live documents next to obsoleted ones (u, x), a
// segment that is emptied completely (b after b, w), delete-only batches that need no analysis
// and introduce no segment (d, w), a pure append (n), two operations on one id in one batch (m).
//
//	s  setup (always first):  I(a) I(b) I(k0)
//	n  I(n<j>)                      pure append
//	u  I(a) I(k<j>)                 update a, plus a document that is never touched again
//	b  I(b)                         update b alone (a second b empties the first b's segment)
//	d  D(a)                         delete-only
//	w  D(a) D(b)                    delete-only, two ids
//	x  I(a) D(b)                    update + delete
//	m  I(c,v) I(c,v')               same id twice in one batch
//	z  D(every live id)             delete-only, empties every segment (not in the default alphabet)
const FamilyAlphabet = "nubdwxm"

// FamilyIDs lists every document id a family workload of length <= 6 can touch (plus one never used).
var FamilyIDs = []string{"a", "b", "c", "k0", "k1", "k2", "k3", "k4", "k5", "k6", "k7", "n1", "n2", "n3", "n4", "n5", "n6", "n7", "zz"}

// Words returns every word of length L over alphabet, in lexicographic order of the alphabet given
// (simplest shapes first).
func Words(alphabet string, L int) []string {
	out := []string{""}
	for i := 0; i < L; i++ {
		var nx []string
		for _, w := range out {
			for _, c := range alphabet {
				nx = append(nx, w+string(c))
			}
		}
		out = nx
	}
	return out
}

// BuildWord returns the batches of a word: the setup batch followed by one batch per letter.
func BuildWord(word string) []Batch {
	wl := []Batch{{{Kind: "I", ID: "a", V: 1}, {Kind: "I", ID: "b", V: 1}, {Kind: "I", ID: "k0", V: 3}, {Kind: "S", ID: "seq", V: 1}}}
	live := New()
	live.Apply(wl[0])
	for i, c := range word {
		j := i + 2 // batch number
		v := 1 + j%3
		var b Batch
		switch c {
		case 'n':
			b = Batch{{Kind: "I", ID: fmt.Sprintf("n%d", j), V: v}}
		case 'u':
			b = Batch{{Kind: "I", ID: "a", V: v}, {Kind: "I", ID: fmt.Sprintf("k%d", j), V: 1 + (j+1)%3}}
		case 'b':
			b = Batch{{Kind: "I", ID: "b", V: v}}
		case 'd':
			b = Batch{{Kind: "D", ID: "a"}}
		case 'w':
			b = Batch{{Kind: "D", ID: "a"}, {Kind: "D", ID: "b"}}
		case 'x':
			b = Batch{{Kind: "I", ID: "a", V: v}, {Kind: "D", ID: "b"}}
		case 'm':
			b = Batch{{Kind: "I", ID: "c", V: v}, {Kind: "I", ID: "c", V: 1 + (j+1)%3}}
		case 'z':
			var all []string
			for id := range live.Docs {
				all = append(all, id)
			}
			sort.Strings(all)
			for _, id := range all {
				b = append(b, Op{Kind: "D", ID: id})
			}
		default:
			panic("lww: unknown workload letter " + string(c))
		}
		live.Apply(b)
		b = append(b, Op{Kind: "S", ID: "seq", V: j})
		wl = append(wl, b)
	}
	return wl
}

// GatedWords is the word set of the gated family scenarios (word x gate menu): quick = every word of
// length 2 over {b d x u z}; thorough = every word of length 2 over the whole alphabet plus z and of
// length 3 over {u b d x z}.
func GatedWords(tier string) []string {
	if w := os.Getenv("VERIF_WORDS"); w != "" { // debugging aid
		return strings.Split(w, ",")
	}
	if tier == "thorough" {
		return append(Words(FamilyAlphabet+"z", 2), Words("ubdxz", 3)...)
	}
	return Words("bdxuz", 2)
}

// PlainWords is the word set of the un-gated family scenarios: quick = length 2 over the whole
// alphabet; thorough = length 3 over the whole alphabet and length 4 over {u b d w x}.
func PlainWords(tier string) []string {
	if tier == "thorough" {
		return append(Words(FamilyAlphabet, 3), Words("ubdwx", 4)...)
	}
	return Words(FamilyAlphabet, 2)
}
