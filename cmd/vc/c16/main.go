package main

import (
	"verif/mc"
	"verif/props/c16"
)

func main() { mc.Main("C16", "model_checking", c16.Run) }
