package drv

import (
	"crypto/sha1"
	"fmt"
	"os"
	"path/filepath"
	"sort"
	"strings"

	"github.com/blevesearch/bleve/v2"
	"github.com/blevesearch/bleve/v2/util"
	bolt "go.etcd.io/bbolt"

	"verif/mc"
	"verif/sched/vrt"
)

// Image is an exact copy of an index directory taken while every other thread is parked:
// the state a process kill at that point leaves behind.
type Image struct {
	Files map[string][]byte
	Sums  map[string]string // per-file content hash
	Label string
	Hash  string
	Tag   map[string]int // driver bookkeeping at capture time (acked, submitted, ...)
}

// CaptureDir reads the whole directory tree.
func CaptureDir(dir, label string) *Image {
	img := &Image{Files: map[string][]byte{}, Sums: map[string]string{}, Label: label, Tag: map[string]int{}}
	h := sha1.New()
	var names []string
	filepath.Walk(dir, func(p string, fi os.FileInfo, err error) error {
		if err == nil && !fi.IsDir() {
			names = append(names, p)
		}
		return nil
	})
	sort.Strings(names)
	for _, p := range names {
		b, err := os.ReadFile(p)
		if err != nil {
			continue
		}
		rel, _ := filepath.Rel(dir, p)
		img.Files[rel] = b
		fh := sha1.Sum(b)
		img.Sums[rel] = fmt.Sprintf("%x", fh[:8])
		fmt.Fprintf(h, "%s:%d:", rel, len(b))
		h.Write(b)
	}
	img.Hash = fmt.Sprintf("%x", h.Sum(nil))
	return img
}

// Write materialises the image (with per-file overrides: nil value = file absent).
func (im *Image) Write(dir string, override map[string][]byte, drop map[string]bool) {
	os.RemoveAll(dir)
	for rel, b := range im.Files {
		if drop[rel] {
			continue
		}
		if ob, ok := override[rel]; ok {
			b = ob
		}
		p := filepath.Join(dir, rel)
		os.MkdirAll(filepath.Dir(p), 0o755)
		os.WriteFile(p, b, 0o600)
	}
}

// Referenced returns the zap file names named by any snapshot committed in the image's root.bolt
// (read with bbolt directly, read-only, on a scratch copy).
func (im *Image) Referenced() map[string]bool {
	rv := map[string]bool{}
	b, ok := im.Files["store/root.bolt"]
	if !ok {
		return rv
	}
	tmp, _ := os.MkdirTemp(mc.ShmBase(), "verif-ref")
	defer os.RemoveAll(tmp)
	os.WriteFile(tmp+"/root.bolt", b, 0o600)
	db, err := bolt.Open(tmp+"/root.bolt", 0o600, &bolt.Options{ReadOnly: true})
	if err != nil {
		return rv
	}
	defer db.Close()
	db.View(func(tx *bolt.Tx) error {
		snaps := tx.Bucket(util.BoltSnapshotsBucket)
		if snaps == nil {
			return nil
		}
		return snaps.ForEach(func(k, v []byte) error {
			sb := snaps.Bucket(k)
			if sb == nil {
				return nil
			}
			return sb.ForEach(func(k2, v2 []byte) error {
				seg := sb.Bucket(k2)
				if seg == nil {
					return nil
				}
				if p := seg.Get(util.BoltPathKey); p != nil {
					rv[string(p)] = true
				}
				return nil
			})
		})
	})
	return rv
}

// ZapFiles lists the *.zap names present in the image.
func (im *Image) ZapFiles() []string {
	var out []string
	for rel := range im.Files {
		if strings.HasSuffix(rel, ".zap") {
			out = append(out, rel)
		}
	}
	sort.Strings(out)
	return out
}

// InWorld runs f as the main thread of a fresh controlled execution with the default schedule
// (no branching): used for recovery of crash images and other work outside the explored window.
// It returns a description of a scheduler-level failure ("" = none).
func InWorld(f func()) string {
	_, v := vrt.Run(nil, 2000000, nil, func() {
		bleve.Config.SetAnalysisQueueSize(1)
		defer bleve.Config.SetAnalysisQueueSize(0)
		f()
	})
	switch {
	case v.Panic != nil:
		return fmt.Sprintf("panic: %v @ %s", v.Panic, firstRepoFrame(v.PanicStk))
	case v.Deadlock:
		return fmt.Sprintf("deadlock: blocked %v", v.Blocked)
	case v.Aborted:
		return "step budget exhausted"
	}
	return ""
}

func firstRepoFrame(stk string) string {
	for _, l := range strings.Split(stk, "\n") {
		l = strings.TrimSpace(l)
		if strings.HasPrefix(l, "/repo/") {
			return l
		}
	}
	return "?"
}

// KeyWithout is a content key of the image that ignores the listed files (used to share the
// recovery result of damaged variants: once a file is absent / empty / garbage its original content
// is irrelevant).
func (im *Image) KeyWithout(ignore map[string]bool) string {
	var parts []string
	for rel, h := range im.Sums {
		if !ignore[rel] {
			parts = append(parts, rel+":"+h)
		}
	}
	sort.Strings(parts)
	h := sha1.Sum([]byte(strings.Join(parts, ";")))
	return fmt.Sprintf("%x", h[:10])
}
