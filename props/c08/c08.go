// Package c08: searchers yield ascending ids; Advance lands on the first match at/after target.
//
// E2: index shapes × query trees × searcher options × every Next/Advance program up to a
// length bound whose Advance targets range over all internal ids above the last returned one.
package c08

import (
	"context"
	"fmt"
	"sort"
	"strings"

	"github.com/blevesearch/bleve/v2"
	"github.com/blevesearch/bleve/v2/search"
	"github.com/blevesearch/bleve/v2/search/searcher"
	index "github.com/blevesearch/bleve_index_api"

	"verif/bx"
	"verif/gen"
	"verif/mc"
	"verif/ref"
)

// shape describes how the corpus is laid out: batches of alphabet indexes, then deletions,
// then re-indexed documents.
type shape struct {
	mergeAfter   int // > 0: on-disk scorch, merging suppressed, ForceMerge after this many batches (a MERGED segment: 1-hit postings, compacted doc numbers), later batches stay separate
	name         string
	batches      [][]int
	deletes      []int
	reindex      []int
	mergeDeletes []int // deleted BEFORE the forced merge (compacted away by it)
}

func shapes(quick bool) []shape {
	all := []int{0, 1, 2, 3, 4, 5, 6, 7, 8, 9, 10, 11}
	var per [][]int
	for _, i := range all {
		per = append(per, []int{i})
	}
	s := []shape{
		{name: "empty"},
		{name: "one-batch", batches: [][]int{all}},
		{name: "per-doc+del3+re3+del6", batches: per, deletes: []int{3, 6}, reindex: []int{3}},
		{name: "3x4+middle-segment-deleted", batches: [][]int{{0, 1, 2, 3}, {4, 5, 6, 7}, {8, 9, 10, 11}}, deletes: []int{4, 5, 6, 7}},
		{name: "4x3+del-first-of-each", batches: [][]int{{0, 1, 2}, {3, 4, 5}, {6, 7, 8}, {9, 10, 11}}, deletes: []int{0, 3, 6, 9}},
	}
	s = append(s, shape{name: "disk:merged(8 docs, 2 deleted)+4 single-doc segments+del", mergeAfter: 8, batches: per, deletes: []int{9}, mergeDeletes: []int{1, 6}})
	if !quick {
		s = append(s,
			shape{name: "disk:merged(all)", mergeAfter: 12, batches: per},
			shape{name: "2+1", batches: [][]int{{2, 7}, {4}}},
			shape{name: "all-deleted", batches: [][]int{{0, 2}, {7}}, deletes: []int{0, 2, 7}},
			shape{name: "4x3+del-last-of-each+re", batches: [][]int{{0, 1, 2}, {3, 4, 5}, {6, 7, 8}, {9, 10, 11}}, deletes: []int{2, 5, 8, 11}, reindex: []int{5, 11}},
			shape{name: "1+11", batches: [][]int{{7}, {0, 1, 2, 3, 4, 5, 6, 8, 9, 10, 11}}, deletes: []int{7}},
		)
	}
	return s
}

func buildShape(eng bx.Engine, sh shape) (bleve.Index, []*ref.RDoc, int) {
	m := gen.TextMapping()
	var idx bleve.Index
	if sh.mergeAfter > 0 && eng.Name == "scorch" {
		var cleanup func()
		var err error
		idx, cleanup, err = bx.DiskScorch(m, map[string]interface{}{"scorchMergePlanOptions": bx.NoMergePlan})
		if err != nil {
			panic(err)
		}
		cleanups = append(cleanups, cleanup)
	} else {
		idx = eng.Mk(m)
	}
	live := map[int]bool{}
	total := 0
	chk := func(err error) {
		if err != nil {
			panic(err)
		}
	}
	for bi, b := range sh.batches {
		if sh.mergeAfter > 0 && bi == sh.mergeAfter {
			for _, i := range sh.mergeDeletes {
				chk(idx.Delete(gen.DocID(i)))
				delete(live, i)
			}
			chk(bx.ForceMergeNow(idx))
		}
		bt := idx.NewBatch()
		for _, i := range b {
			chk(bt.Index(gen.DocID(i), gen.DocAlphabet[i]))
			live[i] = true
			total++
		}
		chk(idx.Batch(bt))
	}
	if sh.mergeAfter >= len(sh.batches) && sh.mergeAfter > 0 {
		chk(bx.ForceMergeNow(idx))
	}
	for _, i := range sh.deletes {
		chk(idx.Delete(gen.DocID(i)))
		delete(live, i)
	}
	for _, i := range sh.reindex {
		chk(idx.Index(gen.DocID(i), gen.DocAlphabet[i]))
		live[i] = true
		total++
	}
	var rdocs []*ref.RDoc
	for i := range gen.DocAlphabet {
		if live[i] {
			rdocs = append(rdocs, ref.Analyse(m, gen.DocID(i), gen.DocAlphabet[i]))
		}
	}
	return idx, rdocs, total
}

var cleanups []func()

type step struct {
	adv bool
	t   index.IndexInternalID
}

func (s step) String() string {
	if !s.adv {
		return "Next"
	}
	return fmt.Sprintf("Advance(%x)", []byte(s.t))
}

func progString(p []step) string {
	var ss []string
	for _, s := range p {
		ss = append(ss, s.String())
	}
	return strings.Join(ss, ";")
}

type target struct {
	r       index.IndexReader
	eng     string
	shape   string
	targets []index.IndexInternalID
	rdocs   []*ref.RDoc
}

var sopts = []search.SearcherOptions{{}, {Score: "none"}, {IncludeTermVectors: true, Explain: true}}

func idList(m []index.IndexInternalID) string {
	var ss []string
	for _, i := range m {
		ss = append(ss, fmt.Sprintf("%x", []byte(i)))
	}
	return "[" + strings.Join(ss, " ") + "]"
}

// checkQuery enumerates all programs for one (target, query, options).
func checkQuery(r *mc.Run, tg *target, q *ref.Q, opt search.SearcherOptions, maxLen int, analyse func(string, string) []string) {
	m := gen.TextMapping()
	bq := ref.ToBleve(q)
	rep := func(prog []step, extra string) map[string]any {
		return map[string]any{"engine": tg.eng, "index_shape": tg.shape, "query": q.String(), "options": fmt.Sprintf("%+v", opt), "program": progString(prog), "detail": extra}
	}
	cls := func(kind string, prog []step) string {
		first := ""
		if len(prog) > 0 && prog[0].adv {
			first = ":advance-first"
		}
		z := ""
		if tg.shape == "empty" {
			z = ":zero-segments"
		}
		if z != "" && kind == "panic" {
			return fmt.Sprintf("panic:%s%s%s", tg.eng, first, z)
		}
		sh := ref.ShapeAbs(q)
		if sh == "·" {
			sh = q.Kind
		}
		return fmt.Sprintf("%s:%s:%s%s%s", kind, tg.eng, sh, first, z)
	}
	mk := func() (search.Searcher, error) {
		return bq.Searcher(context.Background(), tg.r, m, opt)
	}
	newCtx := func(s search.Searcher) *search.SearchContext {
		return &search.SearchContext{DocumentMatchPool: search.NewDocumentMatchPool(s.DocumentMatchPoolSize()+8, 0)}
	}
	// reference enumeration by Next only
	var M []index.IndexInternalID
	var s0 search.Searcher
	pv, st := mc.Try(func() {
		var err error
		s0, err = mk()
		if err != nil {
			panic("searcher construction: " + err.Error())
		}
		ctx0 := newCtx(s0)
		for {
			dm, err := s0.Next(ctx0)
			if err != nil {
				panic("Next: " + err.Error())
			}
			if dm == nil {
				break
			}
			M = append(M, append(index.IndexInternalID(nil), dm.IndexInternalID...))
			ctx0.DocumentMatchPool.Put(dm)
		}
		s0.Close()
	})
	r.Eval(1)
	if pv != nil {
		r.Violation(cls("next-panic", nil), fmt.Sprintf("%v: %v @ %s", rep(nil, ""), pv, mc.TrimStack(st)), rep(nil, fmt.Sprint(pv)))
		return
	}
	for k := 1; k < len(M); k++ {
		if M[k-1].Compare(M[k]) >= 0 {
			r.Violation(cls("not-ascending", nil), fmt.Sprintf("%v: Next-only enumeration %s not strictly ascending", rep(nil, ""), idList(M)), rep(nil, idList(M)))
			return
		}
	}
	// the Next-only enumeration must be the expected live match set
	must, may := ref.Expected(q, tg.rdocs, analyse)
	got := map[string]bool{}
	for _, id := range M {
		ext, err := tg.r.ExternalID(id)
		if err != nil {
			r.Violation(cls("external-id", nil), fmt.Sprintf("%v: ExternalID(%x): %v", rep(nil, ""), []byte(id), err), rep(nil, ""))
			return
		}
		got[ext] = true
	}
	for id := range must {
		if !got[id] {
			r.Violation(cls("enumeration-missing", nil), fmt.Sprintf("%v: %s not enumerated (got %v)", rep(nil, ""), id, bx.Keys(got)), rep(nil, ""))
		}
	}
	for id := range got {
		if !must[id] && !may[id] {
			r.Violation(cls("enumeration-extra", nil), fmt.Sprintf("%v: %s enumerated but not a live match", rep(nil, ""), id), rep(nil, ""))
		}
	}
	r.Outcome(fmt.Sprintf("%s|matches=%d", q.Kind, len(M)))

	run := func(prog []step) {
		r.Eval(1)
		var fail string
		pv, st := mc.Try(func() {
			s, err := mk()
			if err != nil {
				panic("searcher construction: " + err.Error())
			}
			defer s.Close()
			ctx := newCtx(s)
			pos := 0
			for si, stp := range prog {
				var dm *search.DocumentMatch
				var want index.IndexInternalID
				if stp.adv {
					k := pos
					for k < len(M) && M[k].Compare(stp.t) < 0 {
						k++
					}
					if k < len(M) {
						want = M[k]
					}
					pos = k + 1
					dm, err = s.Advance(ctx, stp.t)
				} else {
					if pos < len(M) {
						want = M[pos]
					}
					pos++
					dm, err = s.Next(ctx)
				}
				if err != nil {
					fail = fmt.Sprintf("step %d %s: error %v", si, stp, err)
					return
				}
				var g index.IndexInternalID
				if dm != nil {
					g = append(index.IndexInternalID(nil), dm.IndexInternalID...)
					ctx.DocumentMatchPool.Put(dm)
				}
				if (g == nil) != (want == nil) || (g != nil && g.Compare(want) != 0) {
					fail = fmt.Sprintf("step %d %s returned %x, want %x (Next-only enumeration %s)", si, stp, []byte(g), []byte(want), idList(M))
					return
				}
				if g == nil {
					return
				}
			}
		})
		if pv != nil {
			r.Violation(cls("panic", prog), fmt.Sprintf("%v: %v @ %s", rep(prog, ""), pv, mc.TrimStack(st)), rep(prog, fmt.Sprint(pv)))
			return
		}
		if fail != "" {
			r.Violation(cls("contract", prog), fmt.Sprintf("%v: %s", rep(prog, ""), fail), rep(prog, fail))
		}
	}
	var rec func(prog []step, pos int, last index.IndexInternalID)
	rec = func(prog []step, pos int, last index.IndexInternalID) {
		if len(prog) > 0 {
			run(prog)
		}
		if len(prog) == maxLen || pos > len(M) {
			return
		}
		// Next
		{
			np := pos + 1
			var nl index.IndexInternalID
			if pos < len(M) {
				nl = M[pos]
			} else {
				np = len(M) + 1 // ended
			}
			p2 := append(append([]step{}, prog...), step{})
			if pos < len(M) {
				rec(p2, np, nl)
			} else {
				run(p2) // Next after exhaustion must keep returning nil
			}
		}
		for _, t := range tg.targets {
			if last != nil && t.Compare(last) <= 0 {
				continue
			}
			k := pos
			for k < len(M) && M[k].Compare(t) < 0 {
				k++
			}
			p2 := append(append([]step{}, prog...), step{adv: true, t: t})
			if k < len(M) {
				rec(p2, k+1, M[k])
			} else {
				run(p2)
			}
		}
	}
	rec(nil, 0, nil)
}

func Run(r *mc.Run) {
	old := searcher.DisjunctionHeapTakeover
	defer func() { searcher.DisjunctionHeapTakeover = old }()
	analyse := ref.Analyser(gen.TextMapping())
	ls := gen.Leaves()
	qs := append([]*ref.Q{}, ls...)
	red := gen.Reduced(ls, mc.Pick(r, 11, 5), "phrase")
	for _, a := range red {
		for _, b := range red {
			qs = append(qs,
				&ref.Q{Kind: "conj", Subs: []*ref.Q{a, b}},
				&ref.Q{Kind: "disj", Subs: []*ref.Q{a, b}, DMin: 1},
				&ref.Q{Kind: "disj", Subs: []*ref.Q{a, b, a}, DMin: 2},
				&ref.Q{Kind: "boolean", Must: []*ref.Q{a}, MustNot: []*ref.Q{b}},
				&ref.Q{Kind: "boolean", Must: []*ref.Q{a}, Should: []*ref.Q{b}, ShouldMin: 1},
				&ref.Q{Kind: "boolean", Must: []*ref.Q{a}, Should: []*ref.Q{b}},
				&ref.Q{Kind: "boolean", Should: []*ref.Q{a, b}, ShouldMin: 1},
				&ref.Q{Kind: "boolean", Should: []*ref.Q{a}, Filter: []*ref.Q{b}},
				&ref.Q{Kind: "boolean", MustNot: []*ref.Q{a}})
		}
	}
	// depth 3: a compound nested as a clause of another compound
	red3 := gen.Reduced(ls, mc.Pick(r, 22, 13))
	for _, a := range red3 {
		for _, b := range red3 {
			for _, c := range red3 {
				in := &ref.Q{Kind: "boolean", Must: []*ref.Q{a}, Should: []*ref.Q{b}, ShouldMin: 1}
				dj := &ref.Q{Kind: "disj", Subs: []*ref.Q{a, b}, DMin: 1}
				qs = append(qs,
					&ref.Q{Kind: "conj", Subs: []*ref.Q{c, in}},
					&ref.Q{Kind: "conj", Subs: []*ref.Q{dj, c}},
					&ref.Q{Kind: "boolean", Must: []*ref.Q{c}, MustNot: []*ref.Q{dj}},
					&ref.Q{Kind: "disj", Subs: []*ref.Q{c, in}, DMin: 1})
			}
		}
	}
	maxLen := mc.Pick(r, 2, 3)
	r.Rule("E2: index shapes (segment layouts with deletions, incl. zero segments and a fully deleted segment) × query trees × 3 searcher option sets × {scorch, upsidedown} × heap/slice disjunction × every program of Next/Advance(t) calls up to the length bound, t ranging over all internal ids above the last returned id; oracle = the searcher's own Next-only enumeration, itself required ascending and equal to the reference evaluator's match set; an outcome is (root kind, number of matches)")
	r.Assume("backward or repeated Advance targets are outside the contract")
	r.Note("queries", len(qs))
	r.Note("max_program_length", maxLen)
	r.Sample(map[string]any{"shape": "per-doc+del3+re3+del6", "query": qs[len(qs)/2].String(), "program": "Advance(t);Next", "targets": "all doc numbers 0..N"})

	for _, heap := range []int{10, 2} {
		searcher.DisjunctionHeapTakeover = heap
		for _, eng := range bx.MemEngines {
			for _, sh := range shapes(r.Quick()) {
				if r.Expired() {
					r.Cap("deadline before shape " + sh.name)
					return
				}
				if heap == 2 && (sh.name == "empty" || sh.name == "one-batch" || (r.Quick() && sh.name != "per-doc+del3+re3+del6")) {
					continue
				}
				if sh.mergeAfter > 0 && eng.Name != "scorch" {
					continue
				}
				idx, rdocs, total := buildShape(eng, sh)
				adv, _ := idx.Advanced()
				rd, err := adv.Reader()
				if err != nil {
					panic(err)
				}
				tg := &target{r: rd, eng: eng.Name, shape: sh.name, rdocs: rdocs}
				if eng.Name == "scorch" {
					for n := uint64(0); n <= uint64(total)+1; n++ {
						tg.targets = append(tg.targets, index.NewIndexInternalID(nil, n))
					}
				} else {
					ids := []string{"a", "d0", "d00", "d1", "d10", "d11", "d2", "d3", "d4", "d5", "d6", "d7", "d8", "d9", "e"}
					sort.Strings(ids)
					for _, id := range ids {
						tg.targets = append(tg.targets, index.IndexInternalID(id))
					}
				}
				r.ParFor(len(qs), 0, func(qi int) {
					for oi, o := range sopts {
						if heap == 2 && oi == 2 {
							continue
						}
						if r.Quick() && oi != (qi+len(sh.name))%3 && !(oi == 1 && qi%2 == 0) {
							continue // quick tier: rotate the option sets over the queries
						}
						checkQuery(r, tg, qs[qi], o, maxLen, analyse)
					}
				})
				rd.Close()
				idx.Close()
				for _, cl := range cleanups {
					cl()
				}
				cleanups = nil
				r.Count("index_shapes_done", 1)
			}
		}
	}
}
