module verif

go 1.25.0

require (
	github.com/blevesearch/bleve/v2 v2.0.0
	github.com/blevesearch/bleve_index_api v1.4.0
	github.com/blevesearch/scorch_segment_api/v2 v2.4.8
	github.com/blevesearch/upsidedown_store_api v1.0.2
	github.com/couchbase/moss v0.2.0
	go.etcd.io/bbolt v1.4.0
)

require (
	github.com/RoaringBitmap/roaring/v2 v2.14.5 // indirect
	github.com/bits-and-blooms/bitset v1.24.2 // indirect
	github.com/blevesearch/geo v0.2.5 // indirect
	github.com/blevesearch/go-metrics v0.0.0-20201227073835-cf1acfcdf475 // indirect
	github.com/blevesearch/go-porterstemmer v1.0.3 // indirect
	github.com/blevesearch/goleveldb v1.0.1 // indirect
	github.com/blevesearch/gtreap v0.1.1 // indirect
	github.com/blevesearch/mmap-go v1.2.0 // indirect
	github.com/blevesearch/segment v0.9.1 // indirect
	github.com/blevesearch/snowball v0.6.1 // indirect
	github.com/blevesearch/snowballstem v0.9.0 // indirect
	github.com/blevesearch/stempel v0.2.0 // indirect
	github.com/blevesearch/vellum v1.2.0 // indirect
	github.com/blevesearch/zapx/v11 v11.4.3 // indirect
	github.com/blevesearch/zapx/v12 v12.4.3 // indirect
	github.com/blevesearch/zapx/v13 v13.4.3 // indirect
	github.com/blevesearch/zapx/v14 v14.4.3 // indirect
	github.com/blevesearch/zapx/v15 v15.4.3 // indirect
	github.com/blevesearch/zapx/v16 v16.3.4 // indirect
	github.com/blevesearch/zapx/v17 v17.2.0 // indirect
	github.com/couchbase/ghistogram v0.1.0 // indirect
	github.com/golang/snappy v1.0.0 // indirect
	github.com/json-iterator/go v0.0.0-20171115153421-f7279a603ede // indirect
	github.com/mschoch/smat v0.2.0 // indirect
	golang.org/x/sys v0.45.0 // indirect
	golang.org/x/text v0.37.0 // indirect
	google.golang.org/protobuf v1.36.6 // indirect
)

replace github.com/blevesearch/bleve/v2 => /repo

replace github.com/blevesearch/bleve_index_api => ./.build/deps/bleve_index_api

replace go.etcd.io/bbolt => ./.build/deps/bbolt

replace github.com/blevesearch/zapx/v17 => ./.build/deps/zapx17
