// Package c11: the index API is safe under arbitrary concurrent use and Close always completes.
//
// E3: a family of closed drivers — 2–3 client threads, one operation each from the public API
// table, with and without a concurrent Close / context cancellation — each explored over all
// schedules within the deviation bound. Oracle: no panic, no deadlock, no livelock (scheduler
// verdicts); Close returns and afterwards no scorch goroutine is alive; every call that starts
// after Close returned reports the closed-index error (a second Close included); calls that
// overlap Close either complete normally or report closed; a cancelled search returns the
// context error or a complete result and leaves the index usable.
package c11

import (
	"context"
	"errors"
	"fmt"
	"os"
	"strings"
	"sync/atomic"

	"github.com/blevesearch/bleve/v2"
	"github.com/blevesearch/bleve/v2/index/scorch"
	"github.com/blevesearch/bleve/v2/mapping"
	"github.com/blevesearch/bleve/v2/search"
	"github.com/blevesearch/bleve/v2/search/collector"

	"verif/bx"
	"verif/mc"
	"verif/sched/drv"
	"verif/sched/vrt"
)

// merger hold: scorch's public event callback parks the merger at its pre-merge check (a merger that
// lags behind), so that the persister sits in its wait-for-the-merger pause when Close arrives.
type mergeHoldT struct {
	armed   atomic.Bool
	release chan int
}

var mergeHold atomic.Pointer[mergeHoldT]

func init() {
	scorch.RegistryEventCallbacks["verif-c11-merge-hold"] = func(e scorch.Event) bool {
		if g := mergeHold.Load(); g != nil && e.Kind == scorch.EventKindPreMergeCheck && g.armed.CompareAndSwap(true, false) {
			vrt.Recv(g.release)
		}
		return true
	}
}

type env struct {
	copies  atomic.Int32 // one destination directory per backup
	release func()       // lets a held merger go on (must happen before Close is asked to wait for it)
	c       *drv.Ctx
	engine  string
	kids    []bleve.Index // alias engine: the children (kids[2] is a spare, not a member at the start)
	idx     bleve.Index
	closed  *atomic.Bool // Close has returned
	cancel  context.CancelFunc
	ctx     context.Context
}

// an operation returns a short outcome token; it reports contract breaks through e.c.Fail.
type op struct {
	name string
	run  func(e *env) string
}

func isClosedErr(err error) bool {
	return err != nil && (errors.Is(err, bleve.ErrorIndexClosed) || strings.Contains(err.Error(), "closed"))
}

// judge applies the closed-index rule to one call.
func judge(e *env, what string, startedAfterClose bool, err error) string {
	switch {
	case err == nil && startedAfterClose:
		e.c.Fail("after-close:"+what, "%s succeeded although Close had already returned when it started", what)
		return what + ":ok!"
	case err == nil:
		return what + ":ok"
	case isClosedErr(err):
		return what + ":closed"
	}
	e.c.Fail("error:"+what, "%s returned an unexpected error: %v", what, err)
	return what + ":err"
}

var ops = []op{
	{"index", func(e *env) string {
		was := e.closed.Load()
		return judge(e, "Index", was, e.idx.Index("a", map[string]interface{}{"t": "hello world"}))
	}},
	{"delete", func(e *env) string {
		was := e.closed.Load()
		return judge(e, "Delete", was, e.idx.Delete("seed"))
	}},
	{"delete-missing", func(e *env) string {
		was := e.closed.Load()
		return judge(e, "Delete", was, e.idx.Delete("never-indexed"))
	}},
	{"batch", func(e *env) string {
		was := e.closed.Load()
		b := e.idx.NewBatch()
		b.Index("b1", map[string]interface{}{"t": "hello"})
		b.Delete("seed2")
		b.SetInternal([]byte("k"), []byte("v"))
		return judge(e, "Batch", was, e.idx.Batch(b))
	}},
	{"search", func(e *env) string {
		was := e.closed.Load()
		res, err := e.idx.Search(bleve.NewSearchRequest(bleve.NewMatchQuery("hello")))
		if err == nil && res.Total < 1 && !was {
			// seed documents contain "hello" unless deleted by a concurrent op; at least seed2/seed remain
		}
		return judge(e, "Search", was, err)
	}},
	{"search-cancel", func(e *env) string {
		was := e.closed.Load()
		req := bleve.NewSearchRequest(bleve.NewMatchQuery("hello"))
		_, err := e.idx.SearchInContext(e.ctx, req)
		if err != nil && (errors.Is(err, context.Canceled) || strings.Contains(err.Error(), "context canceled")) {
			// the index must remain usable
			if !e.closed.Load() {
				was2 := e.closed.Load()
				_, err2 := e.idx.Search(bleve.NewSearchRequest(bleve.NewMatchQuery("hello")))
				judge(e, "Search-after-cancel", was2, err2)
			}
			return "SearchCtx:cancelled"
		}
		return judge(e, "SearchCtx", was, err)
	}},
	{"cancel", func(e *env) string {
		e.cancel()
		return "cancel"
	}},
	{"document", func(e *env) string {
		was := e.closed.Load()
		_, err := e.idx.Document("seed")
		return judge(e, "Document", was, err)
	}},
	{"doccount", func(e *env) string {
		was := e.closed.Load()
		_, err := e.idx.DocCount()
		return judge(e, "DocCount", was, err)
	}},
	{"fielddict", func(e *env) string {
		was := e.closed.Load()
		fd, err := e.idx.FieldDict("t")
		if err == nil {
			n := 0
			for {
				de, err := fd.Next()
				if err != nil || de == nil {
					break
				}
				n++
			}
			if cerr := fd.Close(); cerr != nil {
				e.c.Fail("error:FieldDict.Close", "FieldDict.Close: %v", cerr)
			}
		}
		return judge(e, "FieldDict", was, err)
	}},
	{"stats", func(e *env) string {
		_ = e.idx.StatsMap()
		_ = e.idx.Stats()
		return "Stats"
	}},
	{"forcemerge", func(e *env) string {
		s := bx.Scorch(e.idx)
		if s == nil {
			return "ForceMerge:n/a"
		}
		err := s.ForceMerge(context.Background(), nil)
		if err != nil && !isClosedErr(err) {
			e.c.Fail("error:ForceMerge", "ForceMerge: %v", err)
		}
		if err != nil {
			return "ForceMerge:closed"
		}
		return "ForceMerge:ok"
	}},
	{"copyto", func(e *env) string {
		was := e.closed.Load()
		ic, ok := e.idx.(bleve.IndexCopyable)
		if !ok {
			return "CopyTo:n/a"
		}
		err := ic.CopyTo(bleve.FileSystemDirectory(fmt.Sprintf("%s/copy%d", e.c.Dir, e.copies.Add(1))))
		if err != nil && strings.Contains(err.Error(), "unsupported") {
			return "CopyTo:n/a"
		}
		return judge(e, "CopyTo", was, err)
	}},
	{"alias-swap", func(e *env) string {
		e.idx.(bleve.IndexAlias).Swap([]bleve.Index{e.kids[2]}, []bleve.Index{e.kids[0]})
		return "Swap"
	}},
	{"alias-add-remove", func(e *env) string {
		a := e.idx.(bleve.IndexAlias)
		a.Add(e.kids[2])
		a.Remove(e.kids[1])
		return "AddRemove"
	}},
	{"child-close", func(e *env) string {
		if err := e.kids[1].Close(); err != nil {
			e.c.Fail("error:child.Close", "closing a member index: %v", err)
		}
		return "ChildClose"
	}},
	{"close", func(e *env) string {
		was := e.closed.Load()
		if e.release != nil {
			e.release()
		}
		err := e.idx.Close()
		if was {
			if err == nil || !isClosedErr(err) {
				e.c.Fail("after-close:Close", "a second Close, started after the first had returned, returned %v instead of the closed-index error", err)
			}
			return "Close:again"
		}
		if err != nil && !isClosedErr(err) {
			e.c.Fail("error:Close", "Close: %v", err)
		}
		e.closed.Store(true)
		// Close has returned: let everything that can still run finish (helper goroutines that were
		// spawned but never scheduled exit on their own), then nothing of the index may be left
		// alive — a background loop still blocked or running here was not stopped by Close.
		vrt.WaitIdle()
		if e.engine == "alias" {
			return "Close:ok" // the members stay open (closed by the epilogue)
		}
		for _, t := range vrt.Alive() {
			if strings.HasPrefix(t, "scorch.go:") || strings.HasPrefix(t, "persister.go:") || strings.HasPrefix(t, "merge.go:") || strings.HasPrefix(t, "introducer.go:") {
				e.c.Fail("close:background-alive", "Close returned but a scorch goroutine started at %s is still alive", t)
			}
		}
		return "Close:ok"
	}},
}

func opByName(n string) op {
	for _, o := range ops {
		if o.name == n {
			return o
		}
	}
	panic(n)
}

func body(engine string, names []string) func(c *drv.Ctx) {
	return func(c *drv.Ctx) {
		var idx bleve.Index
		var kids []bleve.Index
		vrt.Free(func() {
			var err error
			m := bleve.NewIndexMapping()
			if engine == "alias" {
				// an alias over an in-memory scorch index and an upsidedown index; a third index is the spare for Swap / Add
				for k, typ := range [][2]string{{scorch.Name, scorch.Name}, {"upside_down", "gtreap"}, {"upside_down", "gtreap"}} {
					kid, err := bleve.NewUsing("", m, typ[0], typ[1], nil)
					if err != nil {
						panic(err)
					}
					kid.Index(fmt.Sprintf("seed-%d", k), map[string]interface{}{"t": "hello"})
					kid.Index(fmt.Sprintf("seed2-%d", k), map[string]interface{}{"t": "hello there"})
					kids = append(kids, kid)
				}
				idx = bleve.NewIndexAlias(kids[0], kids[1])
				return
			}
			if engine == "upsidedown" {
				idx, err = bleve.NewUsing("", m, "upside_down", "gtreap", nil)
			} else if engine == "scorch-persister-waits-for-merger" || engine == "scorch-persister-waits-for-held-merger" {
				// the persister pauses after every round until the merger has caught up (2 files = root.bolt + one segment)
				cf := map[string]interface{}{"scorchPersisterOptions": map[string]interface{}{"PersisterNapUnderNumFiles": 2}}
				if engine == "scorch-persister-waits-for-held-merger" {
					cf["eventCallbackName"] = "verif-c11-merge-hold"
				}
				idx, err = bleve.NewUsing(c.Dir+"/idx", m, scorch.Name, scorch.Name, cf)
			} else if engine == "scorch-unsafe" {
				// unsafe batches return once introduced: only then can Close overlap the persister's work on them
				idx, err = bleve.NewUsing(c.Dir+"/idx", m, scorch.Name, scorch.Name, map[string]interface{}{"unsafe_batch": true})
			} else if engine == "upsidedown-boltdb" {
				idx, err = bleve.NewUsing(c.Dir+"/idx", m, "upside_down", "boltdb", nil)
			} else {
				idx, err = bleve.NewUsing(c.Dir+"/idx", m, scorch.Name, scorch.Name, nil)
			}
			if err != nil {
				panic(err)
			}
			idx.Index("seed", map[string]interface{}{"t": "hello"})
			idx.Index("seed2", map[string]interface{}{"t": "hello there"})
		})
		var closed atomic.Bool
		ctx, cancel := context.WithCancel(context.Background())
		e := &env{c: c, engine: engine, kids: kids, idx: idx, closed: &closed, ctx: ctx, cancel: cancel}
		if engine == "scorch-persister-waits-for-held-merger" {
			vrt.WaitIdle()
			g := &mergeHoldT{release: make(chan int, 1)}
			g.armed.Store(true)
			mergeHold.Store(g)
			defer mergeHold.Store(nil)
			released := false
			e.release = func() {
				if !released {
					released = true
					g.armed.Store(false)
					vrt.Send(g.release, 1)
				}
			}
		}
		var wg vrt.WaitGroup
		res := make([]string, len(names))
		for i, n := range names {
			i, o := i, opByName(n)
			wg.Add(1)
			vrt.Go(func() {
				defer wg.Done()
				res[i] = o.run(e)
			})
		}
		wg.Wait()
		c.Observe(strings.Join(res, " "))
		vrt.Free(func() {
			cancel()
			if e.release != nil {
				e.release()
			}
			if !closed.Load() {
				// index still open: it must be usable, then close cleanly
				if _, err := idx.DocCount(); err != nil {
					c.Fail("unusable-after-ops", "DocCount after the operations: %v", err)
				}
				if err := idx.Close(); err != nil {
					c.Fail("error:Close", "final Close: %v", err)
				}
				closed.Store(true)
			}
			// everything after Close reports closed
			if _, err := idx.DocCount(); !isClosedErr(err) {
				c.Fail("after-close:DocCount", "DocCount after Close returned %v", err)
			}
			if err := idx.Index("z", map[string]interface{}{"t": "x"}); !isClosedErr(err) {
				c.Fail("after-close:Index", "Index after Close returned %v", err)
			}
			if _, err := idx.Search(bleve.NewSearchRequest(bleve.NewMatchAllQuery())); !isClosedErr(err) {
				c.Fail("after-close:Search", "Search after Close returned %v", err)
			}
			for k, kid := range kids {
				if err := kid.Close(); err != nil && !(isClosedErr(err) && k == 1) {
					c.Fail("error:child.Close", "closing member %d after the alias: %v", k, err)
				}
			}
			// nothing of the index may remain open once Close has returned (whatever was in flight)
			if fds, _ := os.ReadDir("/proc/self/fd"); len(fds) > 0 {
				for _, fd := range fds {
					if t, e := os.Readlink("/proc/self/fd/" + fd.Name()); e == nil && strings.HasPrefix(t, c.Dir+"/idx") {
						c.Fail("close:file-left-open", "a file of the index is still open after Close returned: %s", strings.TrimPrefix(t, c.Dir))
					}
				}
			}
			var err error
			pv, st := mc.Try(func() { err = idx.Close() })
			if pv != nil {
				c.Fail("after-close:Close:panic", "a second Close panicked: %v @ %s", pv, mc.TrimStack(st))
			} else if !isClosedErr(err) {
				c.Fail("after-close:Close", "a second Close returned %v instead of the closed-index error", err)
			}
		})
	}
}

// Scenarios: every unordered pair of operations with a concurrent Close, plus triples without Close.
// ---- cancellation inside a search. The context is cancelled from within the result stream (the
// public search.MakeDocumentMatchHandlerKey hook: when the k-th hit is handed to the collector), with
// more than two polling intervals (collector.CheckDoneEvery documents each) of matching documents
// still to come: the search must return the context's error, and the index stays usable. Enumerated:
// corpus shape (flat documents / parents with nested elements, where many matching documents fold
// into few hits) x request form (score order, field sort, with a facet) x k.
type cancelDoc struct {
	Title string        `json:"title"`
	N     float64       `json:"n"`
	Items []cancelChild `json:"items,omitempty"`
}
type cancelChild struct {
	Name string `json:"name"`
}

func bodyCancelInside(c *drv.Ctx) {
	shape := []string{"flat", "nested"}[vrt.Choose(2, "corpus-shape")]
	form := []string{"score", "sort-by-field", "facet"}[vrt.Choose(3, "request-form")]
	k := 1 + vrt.Choose(3, "cancel-at-hit")
	every := int(collector.CheckDoneEvery)
	im := bleve.NewIndexMapping()
	field, roots, kids := "title", 3*every+50, 0
	if shape == "nested" {
		items := mapping.NewNestedDocumentMapping()
		items.AddFieldMappingsAt("name", mapping.NewTextFieldMapping())
		im.DefaultMapping.AddSubDocumentMapping("items", items)
		field, roots, kids = "items.name", 40, (3*every)/40+2
	}
	var idx bleve.Index
	vrt.Free(func() {
		var err error
		idx, err = bleve.NewUsing(c.Dir+"/idx", im, scorch.Name, scorch.Name, nil)
		if err != nil {
			panic(err)
		}
		for r := 0; r < roots; {
			b := idx.NewBatch()
			for n := 0; n < 500 && r < roots; n, r = n+1, r+1 {
				d := cancelDoc{Title: "widget", N: float64(r % 7)}
				for j := 0; j < kids; j++ {
					d.Items = append(d.Items, cancelChild{Name: "widget"})
				}
				if err := b.Index(fmt.Sprintf("d%05d", r), d); err != nil {
					panic(err)
				}
			}
			if err := idx.Batch(b); err != nil {
				panic(err)
			}
		}
		vrt.WaitIdle()
	})
	newReq := func() *bleve.SearchRequest {
		q := bleve.NewMatchQuery("widget")
		q.SetField(field)
		req := bleve.NewSearchRequest(q)
		req.Size = 5
		switch form {
		case "sort-by-field":
			req.SortBy([]string{"n", "_id"})
		case "facet":
			req.AddFacet("byn", bleve.NewFacetRequest("n", 3))
		}
		return req
	}
	res, err := idx.Search(newReq())
	if err != nil || int(res.Total) != roots {
		c.Fail("cancel-inside:sanity", "undisturbed search: %v, total %v want %d", err, res, roots)
		idx.Close()
		return
	}
	ctx, cancel := context.WithCancel(context.Background())
	defer cancel()
	seen, after := 0, 0
	ctx = context.WithValue(ctx, search.MakeDocumentMatchHandlerKey,
		search.MakeDocumentMatchHandler(func(sc *search.SearchContext) (search.DocumentMatchHandler, bool, error) {
			inner, loadID, err := collector.MakeTopNDocumentMatchHandler(sc)
			if err != nil {
				return nil, false, err
			}
			return func(d *search.DocumentMatch) error {
				if d != nil {
					seen++
					if seen == k {
						cancel()
					} else if seen > k {
						after++
					}
				}
				return inner(d)
			}, loadID, nil
		}))
	_, err = idx.SearchInContext(ctx, newReq())
	per := 1
	if kids > 0 {
		per = kids + 1
	}
	c.Observe(fmt.Sprintf("%s/%s/k=%d:err=%v,hits-after-cancel=%d", shape, form, k, err != nil, after))
	if !errors.Is(err, context.Canceled) {
		c.Fail("cancelled-search-returned-no-error:"+shape, "%s corpus, request %s: the context was cancelled when hit %d of %d was collected (%d matching documents still to come, polling interval %d) but the search returned err=%v after collecting %d more hits", shape, form, k, roots, (roots-k)*per, every, err, after)
	} else if after*per > 2*every {
		c.Fail("cancelled-search-not-prompt:"+shape, "%s corpus, request %s: cancellation noticed only after %d more documents (polling interval %d)", shape, form, after*per, every)
	}
	if res, err := idx.Search(newReq()); err != nil || int(res.Total) != roots {
		c.Fail("index-unusable-after-cancelled-search", "search after the cancelled one: %v", err)
	}
	vrt.Free(func() {
		if err := idx.Close(); err != nil {
			c.Fail("error:close", "Close: %v", err)
		}
	})
}

func Scenarios() []drv.Scenario {
	var out []drv.Scenario
	out = append(out, drv.Scenario{Name: "scorch:cancel-inside-search", Class: "scorch", Workers: 2,
		Doc:  "sequential: the context is cancelled from inside the result stream (public document-match-handler hook) at hit 1..3, with more than two polling intervals of matching documents still to come; corpus shape (flat / nested elements folding into few parents) x request form x k are environment choices; the search must return the context error and leave the index usable",
		Body: bodyCancelInside, Quick: []drv.Phase{{Bound: 0}}, Thorough: []drv.Phase{{Bound: 0}}})
	add := func(engine string, quick bool, names ...string) {
		sc := drv.Scenario{
			Name: engine + ":" + strings.Join(names, "+"), Doc: "client threads: " + strings.Join(names, " ∥ ") + " on " + engine,
			Body: body(engine, names), Workers: 2, Class: engine,
			Thorough: []drv.Phase{{Bound: 1}, {Bound: 2, Filter: "restricted"}},
		}
		if quick {
			sc.Quick = []drv.Phase{{Bound: 1}}
		}
		out = append(out, sc)
	}
	quickSet := map[string]bool{
		"index+search+close": true, "batch+forcemerge+close": true, "search-cancel+cancel+close": true,
		"fielddict+delete+close": true, "copyto+batch+close": true, "index+close+close": true,
		"search-cancel+cancel+index": true, "document+doccount+close": true,
		"copyto+copyto+close": true, // two backups at once (they share scorch's copy bookkeeping)
	}
	base := []string{"index", "delete", "batch", "search", "document", "doccount", "fielddict", "stats", "forcemerge", "copyto"}
	seen := map[string]bool{}
	mk := func(engine string, names ...string) {
		k := strings.Join(names, "+")
		if seen[engine+k] {
			return
		}
		seen[engine+k] = true
		add(engine, engine == "scorch" && quickSet[k], names...)
	}
	for k := range quickSet { // quick ones first (stable order below)
		_ = k
	}
	for _, k := range []string{"index+search+close", "batch+forcemerge+close", "search-cancel+cancel+close", "fielddict+delete+close", "copyto+batch+close", "index+close+close", "search-cancel+cancel+index", "document+doccount+close", "copyto+copyto+close"} {
		mk("scorch", strings.Split(k, "+")...)
	}
	mk("upsidedown", "index", "search", "close")
	out[len(out)-1].Quick = []drv.Phase{{Bound: 1}}
	mk("upsidedown", "batch", "fielddict", "close")
	out[len(out)-1].Quick = []drv.Phase{{Bound: 1}}
	// upsidedown over its default store: bbolt is instrumented too (a read transaction keeps bbolt's
	// mmap lock across calls, so a reader that is not closed blocks Close for ever)
	mk("upsidedown-boltdb", "delete-missing", "search", "close")
	out[len(out)-1].Quick = []drv.Phase{{Bound: 1}}
	mk("upsidedown-boltdb", "batch", "document", "close")
	out[len(out)-1].Quick = []drv.Phase{{Bound: 1}}
	for i, a := range base {
		for _, b := range base[i:] {
			mk("scorch", a, b, "close")
		}
	}
	for _, t := range [][]string{{"index", "batch", "forcemerge"}, {"search-cancel", "cancel", "batch"}, {"copyto", "forcemerge", "index"}, {"delete", "fielddict", "search"}} {
		mk("scorch", t...)
	}
	for _, t := range [][]string{{"search-cancel", "cancel", "close"}, {"delete", "document", "close"}, {"index", "index", "close"}, {"delete-missing", "batch", "close"}} {
		mk("upsidedown", t...)
	}
	for _, t := range [][]string{{"index", "search", "close"}, {"delete", "fielddict", "close"}, {"delete-missing", "batch", "close"}, {"index", "doccount", "delete-missing"}, {"search-cancel", "cancel", "close"}} {
		mk("upsidedown-boltdb", t...)
	}
	mk("scorch", "delete-missing", "batch", "close")
	// the persister's wait-for-the-merger pause (entered when the directory holds PersisterNapUnderNumFiles files)
	mk("scorch-persister-waits-for-held-merger", "index", "close")
	out[len(out)-1].Quick = []drv.Phase{{Bound: 1}}
	mk("scorch-persister-waits-for-merger", "index", "batch", "close")
	mk("scorch-persister-waits-for-held-merger", "index", "search", "close")
	mk("scorch-persister-waits-for-merger", "forcemerge", "index", "close")
	// unsafe batches: Close overlaps persisting (and merging) of batches whose calls have already returned
	mk("scorch-unsafe", "index", "close")
	out[len(out)-1].Quick = []drv.Phase{{Bound: 1}}
	mk("scorch-unsafe", "index", "batch", "close")
	mk("scorch-unsafe", "index", "search", "close")
	mk("scorch-unsafe", "batch", "forcemerge", "close")
	mk("scorch-unsafe", "delete", "copyto", "close")
	// an index alias (index_alias_impl.go): searches fan out to the members on their own goroutines while
	// the member set is swapped, a member is closed, or the alias itself is closed
	mk("alias", "search", "alias-swap", "close")
	out[len(out)-1].Quick = []drv.Phase{{Bound: 1}}
	for _, t := range [][]string{{"search", "child-close", "close"}, {"search-cancel", "cancel", "alias-swap"}, {"doccount", "alias-add-remove", "close"}, {"fielddict", "alias-swap", "close"}, {"document", "search", "alias-add-remove"}, {"search", "close", "close"}} {
		mk("alias", t...)
	}
	return out
}

func Describe(r *mc.Run) {
	r.Rule(fmt.Sprintf("E3: %d closed drivers (every unordered pair of public operations ∥ Close, selected triples, context cancellation, both engines), each explored over ALL schedules within the deviation bound; scheduler verdicts (panic in any thread, deadlock = no enabled thread, livelock = step budget) and the closed-index contract are evaluated in every execution; an outcome is the vector of per-operation results (ok / closed / cancelled)", len(Scenarios())))
	r.Assume("the data-race clause is outside what a scheduler switching at synchronisation operations can see; it is covered only by a separate free-running -race pass (supplementary, sampling)", "sequentially consistent interleavings at synchronisation granularity")
}
