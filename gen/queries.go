// Package gen holds the bounded generators shared by the property packages.
package gen

import (
	"fmt"
	"time"

	"github.com/blevesearch/bleve/v2"
	"github.com/blevesearch/bleve/v2/analysis/analyzer/simple"
	"github.com/blevesearch/bleve/v2/mapping"

	"verif/ref"
)

func fp(f float64) *float64 { return &f }
func bp(b bool) *bool       { return &b }

// TextMapping is the mapping used by the query-family checks: simple analyzer everywhere.
func TextMapping() *mapping.IndexMappingImpl {
	m := bleve.NewIndexMapping()
	m.DefaultAnalyzer = simple.Name
	return m
}

var T0 = time.Date(2001, 2, 3, 4, 5, 6, 0, time.UTC)

// DocAlphabet: 12 documents over fields t,u (text; vocabulary x,y,xy,yx,xyx), n (numeric),
// d (date), f (bool). Terms collide heavily on purpose.
var DocAlphabet = []map[string]interface{}{
	{"t": "x"},
	{"t": "y", "d": T0},
	{"t": "x y"},
	{"t": "y x"},
	{"t": "xy x", "u": "x"},
	{"t": "yx", "u": "y", "n": 1.0},
	{"t": []interface{}{"x", "y"}, "n": 2.0},
	{"t": "xyx x y", "f": true, "d": T0.Add(24 * time.Hour)},
	{"u": "x y", "n": -1.0, "f": false},
	{"t": "x x", "n": []interface{}{1.0, 3.0}},
	{"n": 2.5, "d": T0.Add(-time.Nanosecond)},
	{"t": "y xy yx"},
}

func DocID(i int) string { return fmt.Sprintf("d%d", i) }

// Leaves returns the leaf query family.
func Leaves() []*ref.Q {
	var l []*ref.Q
	Q := func(q ref.Q) { l = append(l, &q) }
	Q(ref.Q{Kind: "all"})
	Q(ref.Q{Kind: "none"})
	for _, f := range []string{"t", "u"} {
		for _, t := range []string{"x", "y", "xy", "zz"} {
			Q(ref.Q{Kind: "term", Field: f, Text: t})
		}
	}
	for _, txt := range []string{"x y", "xy", "X zz", ""} {
		Q(ref.Q{Kind: "match", Field: "t", Text: txt})
		Q(ref.Q{Kind: "match", Field: "t", Text: txt, And: true})
	}
	Q(ref.Q{Kind: "match", Field: "t", Text: "xz yx", Fuzz: 1})
	Q(ref.Q{Kind: "match", Field: "t", Text: "xz", Fuzz: 1, PLen: 1, And: true})
	Q(ref.Q{Kind: "phrase", Field: "t", Terms: []string{"x", "y"}})
	Q(ref.Q{Kind: "phrase", Field: "t", Terms: []string{"y", "x"}})
	Q(ref.Q{Kind: "phrase", Field: "t", Terms: []string{"x", "x"}})
	Q(ref.Q{Kind: "phrase", Field: "t", Terms: []string{"xyx", "x", "y"}})
	Q(ref.Q{Kind: "mphrase", Field: "t", Text: "X y"})
	Q(ref.Q{Kind: "mphrase", Field: "u", Text: "x y"})
	Q(ref.Q{Kind: "mphrase", Field: "t", Text: "y xy yx"})
	Q(ref.Q{Kind: "prefix", Field: "t", Text: "x"})
	Q(ref.Q{Kind: "prefix", Field: "t", Text: "xy"})
	Q(ref.Q{Kind: "prefix", Field: "u", Text: ""})
	Q(ref.Q{Kind: "wildcard", Field: "t", Text: "x*"})
	Q(ref.Q{Kind: "wildcard", Field: "t", Text: "?y"})
	Q(ref.Q{Kind: "wildcard", Field: "t", Text: "*"})
	Q(ref.Q{Kind: "wildcard", Field: "t", Text: "x?x"})
	Q(ref.Q{Kind: "regexp", Field: "t", Text: "x.*"})
	Q(ref.Q{Kind: "regexp", Field: "t", Text: "(x|y)"})
	Q(ref.Q{Kind: "regexp", Field: "t", Text: "y"})
	Q(ref.Q{Kind: "fuzzy", Field: "t", Text: "xy", Fuzz: 1})
	Q(ref.Q{Kind: "fuzzy", Field: "t", Text: "xy", Fuzz: 2})
	Q(ref.Q{Kind: "fuzzy", Field: "t", Text: "xyx", Fuzz: 1, PLen: 1})
	Q(ref.Q{Kind: "fuzzy", Field: "t", Text: "yx", Fuzz: 1, PLen: 2})
	Q(ref.Q{Kind: "trange", Field: "t", SMin: "x", SMax: "xy"})
	Q(ref.Q{Kind: "trange", Field: "t", SMin: "x", SMax: "xy", IncMin: bp(false), IncMax: bp(true)})
	Q(ref.Q{Kind: "trange", Field: "t", SMin: "xy"})
	Q(ref.Q{Kind: "trange", Field: "t", SMax: "xy"})
	for _, r := range [][2]*float64{{fp(1), fp(2)}, {fp(1), nil}, {nil, fp(2)}, {fp(2), fp(1)}, {fp(-1), fp(3)}, {fp(2.5), fp(2.5)}} {
		for _, inc := range [][2]*bool{{nil, nil}, {bp(true), bp(true)}, {bp(false), bp(false)}, {bp(false), bp(true)}} {
			Q(ref.Q{Kind: "nrange", Field: "n", Min: r[0], Max: r[1], IncMin: inc[0], IncMax: inc[1]})
		}
	}
	Q(ref.Q{Kind: "drange", Field: "d", Start: T0, End: T0.Add(24 * time.Hour)})
	Q(ref.Q{Kind: "drange", Field: "d", Start: T0, End: T0.Add(24 * time.Hour), IncMin: bp(false), IncMax: bp(true)})
	Q(ref.Q{Kind: "drange", Field: "d", End: T0})
	Q(ref.Q{Kind: "drange", Field: "d", Start: T0.Add(-time.Nanosecond), End: T0, IncMin: bp(true), IncMax: bp(false)})
	Q(ref.Q{Kind: "bool", Field: "f", BVal: true})
	Q(ref.Q{Kind: "bool", Field: "f", BVal: false})
	Q(ref.Q{Kind: "docid", IDs: []string{"d0"}})
	Q(ref.Q{Kind: "docid", IDs: []string{"d1", "zz", "d5"}})
	Q(ref.Q{Kind: "docid", IDs: nil})
	return l
}

// Reduced picks every k-th leaf plus all leaves of the listed kinds.
func Reduced(ls []*ref.Q, k int, kinds ...string) []*ref.Q {
	keep := map[string]bool{}
	for _, kd := range kinds {
		keep[kd] = true
	}
	var red []*ref.Q
	for i, l := range ls {
		if i%k == 0 || keep[l.Kind] {
			red = append(red, l)
		}
	}
	return red
}

// Depth2 composes every ordered pair of red under the compound family.
func Depth2(red []*ref.Q) []*ref.Q {
	var qs []*ref.Q
	for _, a := range red {
		for _, b := range red {
			qs = append(qs, Compose2(a, b)...)
		}
	}
	return qs
}

// Compose2 is the compound family over two sub-queries.
func Compose2(a, b *ref.Q) []*ref.Q {
	return []*ref.Q{
		{Kind: "conj", Subs: []*ref.Q{a, b}},
		{Kind: "disj", Subs: []*ref.Q{a, b}, DMin: 0},
		{Kind: "disj", Subs: []*ref.Q{a, b}, DMin: 1},
		{Kind: "disj", Subs: []*ref.Q{a, b}, DMin: 2},
		{Kind: "disj", Subs: []*ref.Q{a, b, a}, DMin: 2},
		{Kind: "boolean", Must: []*ref.Q{a}, MustNot: []*ref.Q{b}},
		{Kind: "boolean", Must: []*ref.Q{a}, Should: []*ref.Q{b}},
		{Kind: "boolean", Must: []*ref.Q{a}, Should: []*ref.Q{b}, ShouldMin: 1},
		{Kind: "boolean", Should: []*ref.Q{a}, MustNot: []*ref.Q{b}},
		{Kind: "boolean", Should: []*ref.Q{a, b}, ShouldMin: 2},
		{Kind: "boolean", Should: []*ref.Q{a, b, a}, ShouldMin: 2},
		{Kind: "boolean", MustNot: []*ref.Q{a}, Filter: []*ref.Q{b}},
		{Kind: "boolean", Must: []*ref.Q{a}, Filter: []*ref.Q{b}},
		{Kind: "boolean", Should: []*ref.Q{a}, Filter: []*ref.Q{b}},
		{Kind: "boolean", Must: []*ref.Q{a}, Should: []*ref.Q{b}, MustNot: []*ref.Q{a}},
		{Kind: "boolean", MustNot: []*ref.Q{b}},
		{Kind: "boolean", Must: []*ref.Q{a}, Should: []*ref.Q{b, b}, ShouldMin: 1},
		{Kind: "boolean", Must: []*ref.Q{a}, Should: []*ref.Q{b, a}, ShouldMin: 2},
	}
}

// Subsets returns all index subsets of {0..n-1} with size in [1,k].
func Subsets(n, k int) [][]int {
	var out [][]int
	var rec func(start int, cur []int)
	rec = func(start int, cur []int) {
		if len(cur) > 0 {
			out = append(out, append([]int{}, cur...))
		}
		if len(cur) == k {
			return
		}
		for i := start; i < n; i++ {
			rec(i+1, append(cur, i))
		}
	}
	rec(0, nil)
	return out
}
