// Package c03: acknowledged batches survive a crash; every batch is all-or-nothing.
//
// E3 + E4: the workload runs under the cooperative scheduler; at EVERY file-system / durability
// effect boundary of the write path (every occurrence) the whole index directory is captured
// while all other threads are parked — exactly the image a process kill at that instant leaves.
// After the execution every distinct image is recovered with the real bleve.Open (in a fresh
// controlled world) and compared with the prefix model; then every damage pattern of the zap
// files that no committed bolt snapshot names is applied and recovery must be unchanged.
package c03

import (
	"crypto/sha1"
	"fmt"
	"sort"
	"strconv"
	"strings"

	"github.com/blevesearch/bleve/v2"
	"github.com/blevesearch/bleve/v2/index/scorch"

	"verif/bx"
	"verif/lww"
	"verif/mc"
	"verif/sched/drv"
	"verif/sched/gate"
	"verif/sched/vrt"
)

func I(id string, v int) lww.Op { return lww.Op{Kind: "I", ID: id, V: v} }
func D(id string) lww.Op        { return lww.Op{Kind: "D", ID: id} }
func S(v int) lww.Op            { return lww.Op{Kind: "S", ID: "seq", V: v} }

// the workload: updates, deletes, a same-id double operation, seq=j in an internal key
var workload = []lww.Batch{
	{I("a", 1), I("b", 1), S(1)},
	{I("a", 2), D("b"), S(2)},
	{I("c", 1), I("b", 2), S(3)},
	{D("a"), I("c", 2), I("c", 3), S(4)},
	{I("a", 3), D("c"), S(5)},
}
var extra = []lww.Batch{
	{I("b", 3), D("a"), S(6)},
	{I("d", 1), S(7)},
}
var ids = append([]string{"d", "e", "f", "x"}, lww.FamilyIDs...)
var keys = []string{"seq", "w2"}

func modelAfter(wl []lww.Batch, q int, withExtra int) *lww.Model {
	if wl == nil {
		wl = workload
	}
	m := lww.New()
	for j := 0; j < q && j < len(wl); j++ {
		m.Apply(wl[j])
	}
	for j := 0; j < withExtra; j++ {
		m.Apply(extra[j])
	}
	return m
}

type cfg struct {
	second  lww.Batch   // two-writer scenario: the batch of the second writer (deletes document "x" of the setup batch, sets internal key "w2")
	wl      []lww.Batch // workload (default: workload)
	name    string
	conf    map[string]interface{}
	unsafe  bool
	nBatch  int
	window  string   // "workload" | "creation"
	family  []string // workload family: the execution asks the explorer which word to run (vrt.Choose)
	word    string   // the word chosen (set per execution)
	stepImg bool     // capture at every scheduling point, not only fs points
}

type execData struct {
	images []*drv.Image
	k      cfg
}

func body(k cfg) func(c *drv.Ctx) {
	wl := k.wl
	if wl == nil {
		wl = workload
	}
	return func(c *drv.Ctx) {
		k, wl := k, wl
		if k.family != nil {
			// environment choice: every word of the family is explored (no deviation cost)
			k.word = k.family[vrt.Choose(len(k.family), "workload")]
			wl = lww.BuildWord(k.word)
			k.wl, k.nBatch = wl, len(wl)
			c.Observe("wl=" + k.word)
			c.Count("family_words_run", 1)
		}
		ed := &execData{k: k}
		c.Data = ed
		dir := c.Dir + "/idx"
		acked, submitted := 0, 0
		capture := false
		seen := map[string]bool{}
		hook := func(label string) {
			if !capture {
				return
			}
			img := drv.CaptureDir(dir, label)
			if seen[img.Hash+fmt.Sprint(acked, submitted)] {
				return
			}
			seen[img.Hash+fmt.Sprint(acked, submitted)] = true
			img.Tag["acked"], img.Tag["submitted"] = acked, submitted
			ed.images = append(ed.images, img)
		}
		vrt.Hook = func(label string) {
			if strings.HasPrefix(label, "fs:") {
				hook(label)
			}
		}
		if k.stepImg {
			vrt.StepHook = func(label string) {
				if label == "send" || label == "recv" || label == "select" || strings.Contains(label, "Lock@scorch.go") || strings.Contains(label, "Lock@introducer.go") || strings.Contains(label, "Lock@persister.go") {
					hook("step:" + label)
				}
			}
		}
		defer func() { vrt.Hook, vrt.StepHook = nil, nil }()
		var idx bleve.Index
		if k.window == "creation" {
			// the crash window is the creation itself: from New returning until the index has settled
			vrt.Free(func() {
				var err error
				idx, err = bleve.NewUsing(dir, bleve.NewIndexMapping(), scorch.Name, scorch.Name, bx.CopyConfig(k.conf))
				if err != nil {
					panic(err)
				}
			})
			capture = true
			vrt.Point("fs:after-New-returned")
			vrt.WaitIdle()
			vrt.Point("fs:creation-settled")
			capture = false
			vrt.Free(func() { idx.Close() })
			return
		}
		vrt.Free(func() {
			var err error
			idx, err = bleve.NewUsing(dir, bleve.NewIndexMapping(), scorch.Name, scorch.Name, bx.CopyConfig(k.conf))
			if err != nil {
				panic(err)
			}
			vrt.WaitIdle() // creation has settled (see the separate creation-window scenario)
		})
		capture = true
		for j := 0; j < k.nBatch; j++ {
			b := idx.NewBatch()
			if err := lww.Fill(b, wl[j]); err != nil {
				panic(err)
			}
			jj := j + 1
			if k.unsafe {
				b.SetPersistedCallback(func(err error) {
					if err == nil && jj > acked {
						acked = jj
					}
				})
			}
			submitted = jj
			if err := idx.Batch(b); err != nil {
				c.Fail("error:batch", "Batch %d: %v", jj, err)
				break
			}
			if !k.unsafe {
				acked = jj
			}
		}
		vrt.Point("fs:end-of-workload")
		vrt.WaitIdle() // let persister / merger / purger finish their rounds: more crash points
		vrt.Point("fs:quiescent")
		capture = false
		c.Observe(fmt.Sprintf("images=%d", bucket(len(ed.images))))
		vrt.Free(func() {
			if err := idx.Close(); err != nil {
				c.Fail("error:close", "Close: %v", err)
			}
		})
		// clean-Close clause: the closed directory is one more image; everything submitted was acknowledged
		if !c.Failed() {
			img := drv.CaptureDir(dir, "after-clean-Close")
			img.Tag["acked"], img.Tag["submitted"] = acked, submitted
			if !k.unsafe {
				img.Tag["acked"] = submitted
			}
			ed.images = append(ed.images, img)
		}
	}
}

// ---- gated workload families: word x gate are environment choices. Every batch runs in its own
// client thread, started when everything the previous one set in motion has settled (WaitIdle), so
// batches are introduced in order even while an earlier one still waits for a parked persister;
// a batch is acknowledged when its call has returned (safe) / its persisted callback has fired (unsafe).
func bodyGatedFamily(k cfg) func(c *drv.Ctx) {
	menu := gate.Menu()
	return func(c *drv.Ctx) {
		k := k
		k.word = k.family[vrt.Choose(len(k.family), "workload")]
		spec := menu[vrt.Choose(len(menu), "gate")]
		wl := lww.BuildWord(k.word)
		k.wl, k.nBatch = wl, len(wl)
		ed := &execData{k: k}
		c.Data = ed
		dir := c.Dir + "/idx"
		acked, submitted := 0, 0
		capture := false
		seen := map[string]bool{}
		vrt.Hook = func(label string) {
			if !capture || !strings.HasPrefix(label, "fs:") {
				return
			}
			img := drv.CaptureDir(dir, label)
			key := img.Hash + fmt.Sprint(acked, submitted)
			if seen[key] {
				return
			}
			seen[key] = true
			img.Tag["acked"], img.Tag["submitted"] = acked, submitted
			ed.images = append(ed.images, img)
		}
		defer func() { vrt.Hook = nil }()
		var idx bleve.Index
		cf := bx.CopyConfig(k.conf)
		if cf == nil {
			cf = map[string]interface{}{}
		}
		cf["eventCallbackName"] = gate.Name
		vrt.Free(func() {
			var err error
			idx, err = bleve.NewUsing(dir, bleve.NewIndexMapping(), scorch.Name, scorch.Name, cf)
			if err != nil {
				panic(err)
			}
			vrt.WaitIdle()
		})
		g := gate.Arm(spec)
		defer g.Disarm()
		capture = true
		var wg vrt.WaitGroup
		for j := 1; j <= len(wl); j++ {
			j := j
			wg.Add(1)
			vrt.Go(func() {
				defer wg.Done()
				b := idx.NewBatch()
				if err := lww.Fill(b, wl[j-1]); err != nil {
					panic(err)
				}
				if k.unsafe {
					b.SetPersistedCallback(func(err error) {
						if err == nil && j > acked {
							acked = j
						}
					})
				}
				if j > submitted {
					submitted = j
				}
				if err := idx.Batch(b); err != nil {
					c.Fail("error:batch", "Batch %d: %v", j, err)
					return
				}
				if !k.unsafe && j > acked {
					acked = j
				}
			})
			vrt.WaitIdle()
			if g.Step() {
				vrt.WaitIdle()
			}
		}
		parked := g.Was()
		g.Open()
		wg.Wait()
		vrt.Point("fs:end-of-workload")
		vrt.WaitIdle()
		vrt.Point("fs:quiescent")
		capture = false
		if parked > 0 {
			c.Count("executions_in_which_a_gate_parked_a_background_thread", 1)
		}
		if parked > 1 {
			c.Count("executions_in_which_persister_and_merger_were_both_parked", 1)
		}
		c.Observe(fmt.Sprintf("wl=%s gate=%s parked=%v images=%d", k.word, spec.Label, parked, bucket(len(ed.images))))
		c.Count("family_words_x_gates_run", 1)
		vrt.Free(func() {
			if err := idx.Close(); err != nil {
				c.Fail("error:close", "Close: %v", err)
			}
		})
	}
}

// ---- in-memory merge window: the persister is parked (public event callback) after the creation
// round so that two unsafe batches pile up unpersisted; it is released together with a low-priority
// client thread issuing a delete-only batch (no analysis: a handful of scheduling steps), so that
// one deviation inside the persister's merge-and-flush window lands that batch between "persister
// took its snapshot" and "merged segment introduced / equivalent snapshot persisted".

type persisterGate struct {
	armed   bool
	parked  chan int
	release chan int
}

var pgate *persisterGate

func init() {
	scorch.RegistryEventCallbacks["verif-c03-persister-gate"] = func(e scorch.Event) bool {
		if g := pgate; g != nil && g.armed && e.Kind == scorch.EventKindPersisterProgress {
			g.armed = false
			vrt.Send(g.parked, 1)
			vrt.Recv(g.release)
		}
		return true
	}
}

var windowWorkload = []lww.Batch{
	{I("a", 1), I("b", 1), S(1)},
	{I("c", 1), I("d", 1), S(2)},
	{D("a"), D("c"), S(3)}, // delete-only: obsoletes one document of each unpersisted segment
	{I("a", 2), S(4)},
}

// groupWorkload: four unsafe batches pile up (two flush groups of two segments each for two
// persister workers); the delete-only batch obsoletes EVERY document of the first flush group, so
// that its merged segment is not introduced at all.
var groupWorkload = []lww.Batch{
	{I("a", 1), I("b", 1), S(1)},
	{I("c", 1), S(2)},
	{I("d", 1), I("e", 1), S(3)},
	{I("f", 1), S(4)},
	{D("a"), D("b"), D("c"), S(5)},
	{I("a", 2), S(6)},
}

func bodyWindow(k cfg) func(c *drv.Ctx) {
	wl := k.wl
	pile := len(wl) - 2 // all but the delete-only batch and the closing batch pile up behind the parked persister
	return func(c *drv.Ctx) {
		ed := &execData{k: k}
		c.Data = ed
		dir := c.Dir + "/idx"
		acked, submitted := 0, 0
		capture := false
		seen := map[string]bool{}
		vrt.Hook = func(label string) {
			if !capture || !strings.HasPrefix(label, "fs:") {
				return
			}
			img := drv.CaptureDir(dir, label)
			key := img.Hash + fmt.Sprint(acked, submitted)
			if seen[key] {
				return
			}
			seen[key] = true
			img.Tag["acked"], img.Tag["submitted"] = acked, submitted
			ed.images = append(ed.images, img)
		}
		defer func() { vrt.Hook = nil }()
		g := &persisterGate{armed: true, parked: make(chan int, 1), release: make(chan int, 1)}
		pgate = g
		defer func() { pgate = nil }()
		var idx bleve.Index
		cf := bx.CopyConfig(k.conf)
		cf["eventCallbackName"] = "verif-c03-persister-gate"
		vrt.Free(func() {
			var err error
			idx, err = bleve.NewUsing(dir, bleve.NewIndexMapping(), scorch.Name, scorch.Name, cf)
			if err != nil {
				panic(err)
			}
		})
		vrt.Recv(g.parked) // the creation round is persisted; the persister is parked
		do := func(j int) {
			b := idx.NewBatch()
			if err := lww.Fill(b, wl[j-1]); err != nil {
				panic(err)
			}
			b.SetPersistedCallback(func(err error) {
				if err == nil && j > acked {
					acked = j
				}
			})
			submitted = j
			if err := idx.Batch(b); err != nil {
				c.Fail("error:batch", "Batch %d: %v", j, err)
			}
		}
		capture = true
		for j := 1; j <= pile; j++ {
			do(j) // unpersisted segments pile up
		}
		start := make(chan int, 1)
		var wg vrt.WaitGroup
		wg.Add(1)
		vrt.Go(func() { // created last: lowest priority in the default schedule
			defer wg.Done()
			vrt.Recv(start)
			do(pile + 1)
		})
		vrt.Send(start, 1)
		vrt.Send(g.release, 1)
		wg.Wait()
		vrt.WaitIdle()
		do(pile + 2)
		vrt.WaitIdle()
		vrt.Point("fs:quiescent")
		capture = false
		c.Observe(fmt.Sprintf("images=%d", bucket(len(ed.images))))
		vrt.Free(func() {
			if err := idx.Close(); err != nil {
				c.Fail("error:close", "Close: %v", err)
			}
		})
	}
}

// ---- purge gate: the persister is parked right before its purge (EventKindPurgerCheck); a file
// merge is introduced meanwhile (its file is named by no committed snapshot yet), a safe batch is
// introduced on top, then the purge and the next persist run. Crash images at every effect boundary.

type purgeGateT struct {
	armed   bool
	parked  chan int
	release chan int
}

var purgeGate *purgeGateT

func init() {
	scorch.RegistryEventCallbacks["verif-c03-purge-gate"] = func(e scorch.Event) bool {
		if g := purgeGate; g != nil && g.armed && e.Kind == scorch.EventKindPurgerCheck {
			g.armed = false
			vrt.Send(g.parked, 1)
			vrt.Recv(g.release)
		}
		return true
	}
}

var purgeWorkload = []lww.Batch{
	{I("a", 1), I("b", 1), S(1)},
	{I("a", 2), I("c", 1), S(2)},
	{I("b", 2), I("d", 1), S(3)},
	{I("c", 2), D("a"), S(4)},
}

func bodyPurgeGate(k cfg) func(c *drv.Ctx) {
	return func(c *drv.Ctx) {
		ed := &execData{k: k}
		c.Data = ed
		dir := c.Dir + "/idx"
		acked, submitted := 0, 0
		capture := false
		seen := map[string]bool{}
		vrt.Hook = func(label string) {
			if !capture || !(strings.HasPrefix(label, "fs:") || strings.HasPrefix(label, "pt:")) {
				return
			}
			img := drv.CaptureDir(dir, label)
			key := img.Hash + fmt.Sprint(acked, submitted)
			if seen[key] {
				return
			}
			seen[key] = true
			img.Tag["acked"], img.Tag["submitted"] = acked, submitted
			ed.images = append(ed.images, img)
		}
		defer func() { vrt.Hook = nil }()
		g := &purgeGateT{parked: make(chan int, 1), release: make(chan int, 1)}
		purgeGate = g
		defer func() { purgeGate = nil }()
		var idx bleve.Index
		cf := bx.CopyConfig(k.conf)
		if cf == nil {
			cf = map[string]interface{}{}
		}
		cf["eventCallbackName"] = "verif-c03-purge-gate"
		vrt.Free(func() {
			var err error
			idx, err = bleve.NewUsing(dir, bleve.NewIndexMapping(), scorch.Name, scorch.Name, cf)
			if err != nil {
				panic(err)
			}
			vrt.WaitIdle()
		})
		do := func(j int) {
			submitted = j
			if err := lww.ExecBatch(idx, purgeWorkload[j-1]); err != nil {
				c.Fail("error:batch", "Batch %d: %v", j, err)
				return
			}
			if j > acked {
				acked = j
			}
		}
		capture = true
		do(1)
		do(2)
		vrt.WaitIdle()
		g.armed = true
		do(3)
		vrt.Recv(g.parked) // persister parked before its purge
		vrt.WaitIdle()     // merge introduced, not persisted
		vrt.Point("pt:merge-introduced-persister-parked")
		var wg vrt.WaitGroup
		wg.Add(1)
		vrt.Go(func() {
			defer wg.Done()
			do(4)
		})
		vrt.WaitIdle() // batch 4 introduced (its call is waiting for persistence)
		vrt.Send(g.release, 1)
		wg.Wait()
		vrt.Point("pt:batch-4-acknowledged")
		vrt.WaitIdle()
		vrt.Point("fs:quiescent")
		capture = false
		c.Observe(fmt.Sprintf("images=%d", bucket(len(ed.images))))
		vrt.Free(func() {
			if err := idx.Close(); err != nil {
				c.Fail("error:close", "Close: %v", err)
			}
		})
		if !c.Failed() {
			img := drv.CaptureDir(dir, "after-clean-Close")
			img.Tag["acked"], img.Tag["submitted"] = submitted, submitted
			ed.images = append(ed.images, img)
		}
	}
}

func bucket(n int) int {
	b := 1
	for b < n {
		b *= 2
	}
	return b
}

// recovery result cache of this worker process: image hash -> result
var recCache = map[string]string{}
var fullDone = map[string]bool{}
var dmgCache = map[string]string{}
var recN int

// recoverImage opens the image with the real code in a fresh controlled world and renders the
// outcome: "q=<n> ok" when the content equals model state S_q on every observation, the index
// accepts two more batches and survives a clean close + reopen; otherwise a description.
func recoverImage(im *drv.Image, override map[string][]byte, drop map[string]bool, k cfg, full bool) string {
	conf := k.conf
	recN++
	dir := fmt.Sprintf("%s/verif-e3-%d/rec%d", mc.ShmBase(), pid(), recN)
	im.Write(dir, override, drop)
	defer removeAll(dir)
	res := ""
	werr := drv.InWorld(func() {
		idx, err := bleve.OpenUsing(dir, bx.CopyConfig(conf))
		if err != nil {
			res = "OPEN-ERROR: " + err.Error()
			return
		}
		v, _ := idx.GetInternal([]byte("seq"))
		q := 0
		if v != nil {
			q, _ = strconv.Atoi(string(v))
		}
		w2 := ""
		model := func(nExtra int) *lww.Model { return modelAfter(k.wl, q, nExtra) }
		if k.second != nil {
			// the second writer's batch is all-or-nothing too: document x gone <=> internal key w2 set
			d, _ := idx.Document("x")
			v2, _ := idx.GetInternal([]byte("w2"))
			applied := d == nil
			if applied != (v2 != nil) {
				res = fmt.Sprintf("q=%d MISMATCH: the second writer's batch is half applied (document x present=%v, internal key w2 set=%v)", q, d != nil, v2 != nil)
				idx.Close()
				return
			}
			w2 = " w2=0"
			if applied {
				w2 = " w2=1"
			}
			model = func(nExtra int) *lww.Model {
				m := lww.New()
				m.Apply(twoSetup)
				for j := 0; j < q; j++ {
					m.Apply(k.wl[j])
				}
				if applied {
					m.Apply(k.second)
				}
				for j := 0; j < nExtra; j++ {
					m.Apply(extra[j])
				}
				return m
			}
		}
		if bad := model(0).Check(idx, ids, keys); len(bad) > 0 {
			res = fmt.Sprintf("q=%d MISMATCH: %s", q, strings.Join(bad, "; "))
			idx.Close()
			return
		}
		if !full {
			if err := idx.Close(); err != nil {
				res = fmt.Sprintf("q=%d CLOSE-ERROR: %v", q, err)
			} else {
				res = fmt.Sprintf("q=%d%s ok", q, w2)
			}
			return
		}
		// the recovered index accepts further writes correctly and survives a clean close
		for j := range extra {
			if err := lww.ExecBatch(idx, extra[j]); err != nil {
				res = fmt.Sprintf("q=%d WRITE-AFTER-RECOVERY-ERROR: %v", q, err)
				idx.Close()
				return
			}
		}
		want := model(len(extra))
		if bad := want.Check(idx, ids, keys); len(bad) > 0 {
			res = fmt.Sprintf("q=%d MISMATCH-AFTER-WRITES: %s", q, strings.Join(bad, "; "))
			idx.Close()
			return
		}
		if err := idx.Close(); err != nil {
			res = fmt.Sprintf("q=%d CLOSE-ERROR: %v", q, err)
			return
		}
		idx2, err := bleve.OpenUsing(dir, bx.CopyConfig(conf))
		if err != nil {
			res = fmt.Sprintf("q=%d REOPEN-ERROR: %v", q, err)
			return
		}
		if bad := want.Check(idx2, ids, keys); len(bad) > 0 {
			res = fmt.Sprintf("q=%d MISMATCH-AFTER-REOPEN: %s", q, strings.Join(bad, "; "))
		}
		idx2.Close()
		if res == "" {
			res = fmt.Sprintf("q=%d%s ok", q, w2)
		}
	})
	if werr != "" {
		return "RECOVERY-" + werr
	}
	return res
}

func after(c *drv.Ctx) {
	ed := c.Data.(*execData)
	k := ed.k
	for _, im := range ed.images {
		key := im.Hash
		res, seen := recCache[key]
		if !seen {
			// the "accepts further writes, closes cleanly, reopens" continuation is run for the first image of
			// every (crash point, number of zap files, scenario) class; every image is opened and compared
			fk := fmt.Sprintf("%s|%s|%s|%d", k.name, k.word, im.Label, len(im.ZapFiles()))
			full := !fullDone[fk]
			res = recoverImage(im, nil, nil, k, full)
			if full && strings.HasSuffix(res, " ok") {
				fullDone[fk] = true
				c.Count("images_with_write_close_reopen_continuation", 1)
			}
			recCache[key] = res
			c.Count("distinct_images_recovered", 1)
			// damage patterns on files no committed snapshot names
			ref := im.Referenced()
			var unref []string
			for _, rel := range im.ZapFiles() {
				if !ref[rel[strings.LastIndex(rel, "/")+1:]] {
					unref = append(unref, rel)
				}
			}
			if len(unref) > 0 {
				c.Count("images_with_unreferenced_zap_files", 1)
			}
			for _, dmg := range damagePatterns(im, unref) {
				c.Count("damaged_variants_recovered", 1)
				dk := im.KeyWithout(dmg.touched) + "|" + dmg.key
				dres, hit := dmgCache[dk]
				if !hit {
					dres = recoverImage(im, dmg.override, dmg.drop, k, false)
					dmgCache[dk] = dres
					c.Count("damaged_variants_distinct", 1)
				}
				if dres != res {
					c.Fail("damage-unreferenced-file-changes-recovery", "at crash point %s: damaging zap files that no committed snapshot names (%s) changes recovery from %q to %q", im.Label, dmg.desc, res, dres)
					return
				}
			}
		}
		c.Count("images", 1)
		acked, submitted := im.Tag["acked"], im.Tag["submitted"]
		if !strings.HasSuffix(res, " ok") {
			cls := "recovery:" + firstWord(res)
			if k.window == "creation" {
				cls = "crash-before-first-persist-after-create"
			}
			c.Fail(cls, "crash at %s (acked=%d submitted=%d): recovery gives %s", im.Label, acked, submitted, res)
			return
		}
		var q int
		fmt.Sscanf(res, "q=%d", &q)
		c.Count(fmt.Sprintf("recovered_prefix_q=%d", q), 1)
		if q < acked {
			c.Fail("acked-batch-lost", "crash at %s: batches 1..%d were acknowledged, recovered index is at batch %d", im.Label, acked, q)
			return
		}
		if q > submitted {
			c.Fail("future-batch", "crash at %s: recovered batch %d > submitted %d", im.Label, q, submitted)
			return
		}
		if k.second != nil {
			applied := strings.Contains(res, "w2=1")
			if im.Tag["acked2"] == 1 && !applied {
				c.Fail("acked-batch-lost", "crash at %s: the second writer's batch had been acknowledged (its call had returned), the recovered index (first writer at batch %d) does not contain it", im.Label, q)
				return
			}
			if im.Tag["submitted2"] == 0 && applied {
				c.Fail("future-batch", "crash at %s: the second writer's batch is in the recovered index before it was submitted", im.Label)
				return
			}
		}
	}
}

// ---- two concurrent writers in safe mode: the first writer's batches are persisted one by one; a
// second, low-priority writer submits one delete-only batch (a handful of scheduling steps) at an
// arbitrary moment. Whoever's call has returned must be in every later crash image, and each
// batch is all-or-nothing.

// twoSegWorkload: merging suppressed; one delete-only batch obsoletes a document in each of two file
// segments, so the snapshot committed for it carries two non-empty deletion bitmaps.
var twoSegWorkload = []lww.Batch{
	{I("a", 1), I("b", 1), I("c", 1), S(1)},
	{I("d", 1), I("e", 1), I("f", 1), S(2)},
	{D("a"), D("f"), S(3)},
	{I("b", 2), D("e"), S(4)},
}

var twoSetup = lww.Batch{I("x", 1), I("a", 1), S(0)}
var twoWorkload = []lww.Batch{
	{I("b", 1), S(1)},
	{I("a", 2), I("c", 1), S(2)},
	{D("b"), S(3)},
}
var twoSecond = lww.Batch{D("x"), lww.Op{Kind: "S", ID: "w2", V: 1}}

func bodyTwoWriters(k cfg) func(c *drv.Ctx) {
	return func(c *drv.Ctx) {
		ed := &execData{k: k}
		c.Data = ed
		dir := c.Dir + "/idx"
		acked, submitted, acked2, submitted2 := 0, 0, 0, 0
		capture := false
		seen := map[string]bool{}
		vrt.Hook = func(label string) {
			if !capture || !strings.HasPrefix(label, "fs:") {
				return
			}
			img := drv.CaptureDir(dir, label)
			key := img.Hash + fmt.Sprint(acked, submitted, acked2, submitted2)
			if seen[key] {
				return
			}
			seen[key] = true
			img.Tag["acked"], img.Tag["submitted"], img.Tag["acked2"], img.Tag["submitted2"] = acked, submitted, acked2, submitted2
			ed.images = append(ed.images, img)
		}
		defer func() { vrt.Hook = nil }()
		var idx bleve.Index
		vrt.Free(func() {
			var err error
			idx, err = bleve.NewUsing(dir, bleve.NewIndexMapping(), scorch.Name, scorch.Name, bx.CopyConfig(k.conf))
			if err != nil {
				panic(err)
			}
			if err := lww.ExecBatch(idx, twoSetup); err != nil {
				panic(err)
			}
			vrt.WaitIdle()
		})
		start := make(chan int, 1)
		var wg vrt.WaitGroup
		wg.Add(1)
		vrt.Go(func() { // created last: lowest priority in the default schedule
			defer wg.Done()
			vrt.Recv(start)
			submitted2 = 1
			if err := lww.ExecBatch(idx, k.second); err != nil {
				c.Fail("error:batch", "second writer: %v", err)
				return
			}
			acked2 = 1
		})
		capture = true
		vrt.Send(start, 1)
		for j := 1; j <= len(k.wl); j++ {
			submitted = j
			if err := lww.ExecBatch(idx, k.wl[j-1]); err != nil {
				c.Fail("error:batch", "Batch %d: %v", j, err)
				break
			}
			acked = j
		}
		wg.Wait()
		vrt.Point("fs:end-of-workload")
		vrt.WaitIdle()
		vrt.Point("fs:quiescent")
		capture = false
		c.Observe(fmt.Sprintf("images=%d", bucket(len(ed.images))))
		vrt.Free(func() {
			if err := idx.Close(); err != nil {
				c.Fail("error:close", "Close: %v", err)
			}
		})
	}
}

type damage struct {
	override map[string][]byte
	drop     map[string]bool
	desc     string
	touched  map[string]bool // files whose original content no longer matters
	key      string          // what the damaged files look like now
}

// damagePatterns: every combination over the unreferenced files of {intact, absent, empty, half,
// garbage} when there are at most 2 such files, single-file patterns otherwise.
func damagePatterns(im *drv.Image, unref []string) []damage {
	var out []damage
	kinds := []string{"intact", "absent", "empty", "half", "garbage"}
	apply := func(d *damage, rel, kind string) {
		b := im.Files[rel]
		if d.touched == nil {
			d.touched = map[string]bool{}
		}
		d.touched[rel] = true
		d.key += rel + "=" + kind
		switch kind {
		case "absent":
			d.drop[rel] = true
		case "empty":
			d.override[rel] = []byte{}
		case "half":
			d.override[rel] = append([]byte{}, b[:len(b)/2]...)
			hh := sha1.Sum(d.override[rel])
			d.key += fmt.Sprintf("(%x)", hh[:6])
		case "garbage":
			d.key += fmt.Sprintf("(%d)", len(b))
			g := make([]byte, len(b))
			for i := range g {
				g[i] = byte(i*31 + 7)
			}
			d.override[rel] = g
		}
	}
	sort.Strings(unref)
	if len(unref) == 0 {
		return nil
	}
	if len(unref) <= 2 {
		var rec func(i int, cur []string)
		rec = func(i int, cur []string) {
			if i == len(unref) {
				allIntact := true
				d := damage{override: map[string][]byte{}, drop: map[string]bool{}}
				var ds []string
				for j, kd := range cur {
					if kd != "intact" {
						allIntact = false
						apply(&d, unref[j], kd)
						ds = append(ds, unref[j]+"="+kd)
					}
				}
				if !allIntact {
					d.desc = strings.Join(ds, ",")
					out = append(out, d)
				}
				return
			}
			for _, kd := range kinds {
				rec(i+1, append(cur, kd))
			}
		}
		rec(0, nil)
		return out
	}
	for _, rel := range unref {
		for _, kd := range kinds[1:] {
			d := damage{override: map[string][]byte{}, drop: map[string]bool{}, desc: rel + "=" + kd}
			apply(&d, rel, kd)
			out = append(out, d)
		}
	}
	return out
}

func firstWord(s string) string {
	f := strings.Fields(s)
	for _, w := range f {
		if !strings.HasPrefix(w, "q=") {
			return strings.TrimSuffix(w, ":")
		}
	}
	return "?"
}

var unsafe2 = map[string]interface{}{"unsafe_batch": true, "scorchPersisterOptions": map[string]interface{}{"NumPersisterWorkers": 2, "MaxSizeInMemoryMergePerWorker": 1}}
var aggressive = map[string]interface{}{"scorchMergePlanOptions": bx.AggressiveMergePlan, "numSnapshotsToKeep": 1}
var unsafeOnly = map[string]interface{}{"unsafe_batch": true}

func Scenarios() []drv.Scenario {
	mk := func(k cfg, quick, thorough []drv.Phase) drv.Scenario {
		return drv.Scenario{Name: k.name, Body: body(k), After: after, Quick: quick, Thorough: thorough, Class: classOf(k)}
	}
	d0 := []drv.Phase{{Bound: 0}}
	d1 := []drv.Phase{{Bound: 1}}
	_ = d1
	d1r := []drv.Phase{{Bound: 1, Filter: "restricted"}}
	d2r := []drv.Phase{{Bound: 1}, {Bound: 2, Filter: "restricted"}}
	return []drv.Scenario{
		// quick: the 3-batch workload with every single deviation of the restricted class, the 5-batch
		// workload on the default schedule; thorough: the 5-batch workload with every single deviation,
		// then two deviations of the restricted class
		mk(cfg{name: "safe-default-3", nBatch: 3, window: "workload"}, d1r, nil),
		mk(cfg{name: "safe-aggressive-merge-3", conf: aggressive, nBatch: 3, window: "workload"}, nil, d1r),
		mk(cfg{name: "unsafe-2-persister-workers-3", conf: unsafe2, unsafe: true, nBatch: 3, window: "workload"}, nil, d1r),
		{Name: "unsafe-inmemory-merge-window", Body: bodyWindow(cfg{name: "unsafe-inmemory-merge-window", conf: unsafe2, unsafe: true, wl: windowWorkload}), After: after, Quick: d1r, Thorough: d2r, Class: "unsafe"},
		{Name: "unsafe-flush-group-emptied-during-inmemory-merge", Doc: "four unsafe batches pile up behind the parked persister (two flush groups for two workers); a low-priority delete-only batch obsoletes every document of the first group inside the merge window; crash images at every effect boundary", Body: bodyWindow(cfg{name: "unsafe-flush-group-emptied-during-inmemory-merge", conf: unsafe2, unsafe: true, wl: groupWorkload}), After: after, Quick: d1r, Thorough: d2r, Class: "unsafe"},
		mk(cfg{name: "safe-nomerge-deletions-in-two-segments", conf: map[string]interface{}{"scorchMergePlanOptions": bx.NoMergePlan}, wl: twoSegWorkload, nBatch: 4, window: "workload"}, d0, d1r),
		{Name: "safe-two-writers", Doc: "safe mode, two concurrent writers: three batches of the first, one delete-only batch of a low-priority second writer landing anywhere; crash images at every effect boundary; an acknowledged batch of either writer must be in the recovered state, each batch all-or-nothing", Body: bodyTwoWriters(cfg{name: "safe-two-writers", wl: twoWorkload, second: twoSecond}), After: after, Quick: []drv.Phase{{Bound: 1, Filter: "restricted+"}}, Thorough: d2r, Class: "safe"},
		{Name: "safe-batch-between-merge-and-purge", Body: bodyPurgeGate(cfg{name: "safe-batch-between-merge-and-purge", conf: aggressive, wl: purgeWorkload}), After: after, Quick: d0, Thorough: d1r, Class: "safe"},
		mk(cfg{name: "safe-default", nBatch: 5, window: "workload"}, d0, d2r),
		mk(cfg{name: "safe-aggressive-merge", conf: aggressive, nBatch: 5, window: "workload"}, d0, d2r),
		mk(cfg{name: "unsafe-2-persister-workers", conf: unsafe2, unsafe: true, nBatch: 5, window: "workload"}, d0, d2r),
		mk(cfg{name: "safe-default-every-step", nBatch: 3, window: "workload", stepImg: true}, d0, d1),
		// workload families: EVERY word over the batch-shape alphabet (lww.FamilyAlphabet) is a workload;
		// default schedule for each, crash image at every effect boundary
		fam("family-safe-nomerge", nomerge, false),
		fam("family-safe-default-merges", nil, false),
		fam("family-safe-partial-merges", partial, false),
		fam("family-unsafe-2-persister-workers", unsafe2, true),
		gfam("gated-family-safe-default-merges", nil, false, true),
		gfam("gated-family-safe-partial-merges", partial, false, false),
		gfam("gated-family-unsafe-2-persister-workers", unsafe2, true, true),
		gfam("gated-family-unsafe-nomerge", map[string]interface{}{"unsafe_batch": true, "scorchMergePlanOptions": bx.NoMergePlan}, true, false),
		mk(cfg{name: "unsafe-creation-window", conf: unsafeOnly, unsafe: true, window: "creation"}, d0, d1),
		mk(cfg{name: "safe-creation-window", window: "creation"}, d0, d1),
	}
}

var nomerge = map[string]interface{}{"scorchMergePlanOptions": bx.NoMergePlan}
var partial = map[string]interface{}{"scorchMergePlanOptions": bx.PartialMergePlan}

// fam: a workload-family scenario. quick = every word of length lq on the default schedule; thorough =
// every word of length lt on the default schedule, then every word of length lt over the reduced alphabet
// with every single deviation of the restricted class... (kept as separate scenarios so that each bound is reported)
func fam(name string, conf map[string]interface{}, unsafe bool) drv.Scenario {
	words := lww.PlainWords(mc.Tier())
	k := cfg{name: name, conf: conf, unsafe: unsafe, window: "workload", family: words}
	return drv.Scenario{Name: name, Doc: "workload family: every word over the batch-shape alphabet {n u b d w x m} (append, update+keeper, update alone, delete-only, delete-only two ids, update+delete, same id twice) after a setup batch is run as the workload (an environment choice of the explorer: all words, no deviation cost); crash image at every effect boundary, recovered and compared with the prefix model of that word",
		Body: body(k), After: after, Quick: []drv.Phase{{Bound: 0}}, Thorough: []drv.Phase{{Bound: 0}}, Class: classOf(k)}
}

// gfam: gated workload family (word x gate menu), default schedule.
func gfam(name string, conf map[string]interface{}, unsafe bool, quick bool) drv.Scenario {
	words := lww.Words(lww.FamilyAlphabet+"z", 2)
	if mc.Tier() != "thorough" {
		words = lww.Words("bdz", 2) // every execution recovers dozens of crash images: keep quick small
	}
	k := cfg{name: name, conf: conf, unsafe: unsafe, window: "workload", family: words}
	gdoc := "gated workload family: every word over the batch-shape alphabet x every member of the gate menu (none; merger parked before introducing a merge / before planning, persister parked after a round / before its purge; 1st or 2nd occurrence; reopened after 1 or 2 further batches) — both environment choices of the explorer; each batch in its own client thread; crash image at every effect boundary"
	sc := drv.Scenario{Name: name, Doc: gdoc, Body: bodyGatedFamily(k), After: after, Thorough: []drv.Phase{{Bound: 0}}, Class: classOf(k)}
	if quick {
		sc.Quick = []drv.Phase{{Bound: 0}}
	}
	return sc
}

func classOf(k cfg) string {
	if k.unsafe {
		return "unsafe"
	}
	return "safe"
}

func Describe(r *mc.Run) {
	r.Rule("E3+E4: for every schedule of the workload driver within the deviation bound, the index directory is captured at EVERY file-system / durability effect boundary of the write path (segment persist, merge write, segment open, bolt commit / sync / rollback, file removal — every occurrence; one scenario captures at every rendezvous and root-lock point as well) while all other threads are parked; every distinct image, and every damage pattern {absent, empty, half, garbage}^files over the zap files that no committed bolt snapshot names, is recovered with the real bleve.Open and compared with the prefix model S_q, acked ≤ q ≤ submitted, followed by two more batches, a clean close and a reopen; an outcome is the recovered prefix q per image")
	r.Assume("bbolt's commit is atomic (trusted)", "process-kill model: effects inside one zapx/bbolt call are not split; their partial states are covered by the damage patterns on unreferenced files", "power loss with lost un-synced writes to files a committed snapshot names is not modelled")
}

func init() { _ = mc.Root }
