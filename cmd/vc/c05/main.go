package main

import (
	"verif/mc"
	"verif/props/c05"
)

func main() { mc.Main("C05", "model_checking", c05.Run) }
