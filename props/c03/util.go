package c03

import "os"

func pid() int           { return os.Getpid() }
func removeAll(d string) { os.RemoveAll(d) }
