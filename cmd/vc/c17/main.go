package main

import (
	"verif/mc"
	"verif/props/c17"
)

func main() { mc.Main("C17", "model_checking", c17.Run) }
