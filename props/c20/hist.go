package c20

import (
	"context"
	"fmt"
	"sort"
	"strings"
	"sync"
	"time"

	"github.com/blevesearch/bleve/v2"
	"github.com/blevesearch/bleve/v2/index/scorch"

	"verif/mc"
)

// ---------------------------------------------------------------------------------------------
// Part H

var versions = []Doc{
	{Name: "x", Items: []Item{{K: "x", V: "x"}}},
	{Name: "y", Items: []Item{{K: "x", V: "y"}, {K: "y", V: "x"}}, Tags: []Tag{{"x"}}},
	{Name: "x", Items: []Item{{K: "y", V: "y"}, {K: "x", V: "y", Subs: []Sub{{"x", "y"}, {"y", "x"}}}, {K: "y", V: "x"}}, Tags: []Tag{{"y"}}, TagsFirst: true},
}

type op struct {
	del bool
	id  string
	ver int
}

func (o op) String() string {
	if o.del {
		return "delete(" + o.id + ")"
	}
	return fmt.Sprintf("index(%s,v%d)", o.id, o.ver)
}

func alphabet(ids []string) []op {
	var a []op
	for _, id := range ids {
		for v := range versions {
			a = append(a, op{id: id, ver: v})
		}
		a = append(a, op{del: true, id: id})
	}
	return a
}

// observations made after every history
var histQueries = []*Q{
	{Kind: "all"},
	T("items.k", "x"),
	T("tags.t", "x"),
	T("items.subs.a", "x"),
	{Kind: "conj", Subs: []*Q{T("items.k", "x"), T("items.v", "x")}},
	{Kind: "conj", Subs: []*Q{T("name", "x"), T("items.k", "y")}},
	{Kind: "conj", Subs: []*Q{T("items.k", "y"), T("items.subs.a", "x")}},
	{Kind: "conj", Subs: []*Q{T("items.subs.a", "x"), T("items.subs.b", "x")}},
	{Kind: "disj", Subs: []*Q{T("name", "y"), T("items.subs.b", "x")}, Min: 1},
}

var versionTrees = func() []*tree {
	for _, q := range histQueries {
		q.prep()
	}
	var t []*tree
	for _, v := range versions {
		t = append(t, v.tree())
	}
	return t
}()

func modelKey(m map[string]int) string {
	var ks []string
	for id, v := range m {
		ks = append(ks, fmt.Sprintf("%s=v%d", id, v))
	}
	sort.Strings(ks)
	return "{" + strings.Join(ks, " ") + "}"
}

func histString(path []op) string {
	var s []string
	for _, o := range path {
		s = append(s, o.String())
	}
	return strings.Join(s, " ")
}

// histClass names what went wrong structurally: the observation kind and the last
// operation kind on the affected parent.
func lastOpOn(path []op, id string) string {
	var kinds []string
	for _, o := range path {
		if o.id != id {
			continue
		}
		if o.del {
			kinds = append(kinds, "delete")
		} else {
			kinds = append(kinds, "index")
		}
	}
	if len(kinds) == 0 {
		return "never-touched"
	}
	if len(kinds) == 1 {
		return "after-first-" + kinds[0]
	}
	return "after-" + kinds[len(kinds)-2] + "-then-" + kinds[len(kinds)-1]
}

// observe compares every observation on idx with the model; stage names the physical
// state ("mem", "disk:held", "disk:merged", "disk:reopened").
func (ck *checker) observe(idx bleve.Index, model map[string]int, path []op, stage string) string {
	r := ck.r
	var sig strings.Builder
	rep := func() map[string]any {
		var ops []string
		for _, o := range path {
			ops = append(ops, o.String())
		}
		vs := map[string]any{}
		for i, v := range versions {
			vs[fmt.Sprintf("v%d", i)] = v.Data()
		}
		return map[string]any{"mapping": "nested", "history": ops, "versions": vs, "stage": stage, "model": modelKey(model),
			"how": "apply the history one call per operation on a scorch index with the nested mapping, then observe"}
	}
	cost := [3]int{len(path), 0, 0}
	n, err := idx.DocCount()
	r.Eval(1)
	if err != nil || int(n) != len(model) {
		ck.bk.add("history:"+stage+":doccount", &example{cost: cost, key: histString(path),
			detail: fmt.Sprintf("[%s] after %s: DocCount=%d err=%v, model has %d parents %s", stage, histString(path), n, err, len(model), modelKey(model)), replay: rep()})
	}
	fmt.Fprintf(&sig, "n=%d", n)
	for _, q := range histQueries {
		where := func() map[string]any { m := rep(); m["query"] = queryJSON(q); m["query_text"] = q.String(); return m }
		got, _, ok := ck.search(idx, true, "history:"+stage, histString(path), q, 40, "", where)
		if !ok {
			sig.WriteString("|failed")
			continue
		}
		fmt.Fprintf(&sig, "|%d", len(got))
		// the same request paged with SearchAfter / SearchBefore (sorted by _id) or From must return
		// the same parents: the collector folds nested documents into their parent on every paging path
		for _, mode := range []string{"search-after", "search-before", "from"} {
			req := bleve.NewSearchRequest(q.ToBleve())
			req.Size = 40
			req.SortBy([]string{"_id"})
			switch mode {
			case "search-after":
				req.SetSearchAfter([]string{""})
			case "search-before":
				req.SetSearchBefore([]string{"\U0010ffff"})
			case "from":
				req.Size, req.From = 39, 0
			}
			var res *bleve.SearchResult
			var err error
			pv, st := mc.Try(func() { res, err = idx.Search(req) })
			r.Eval(1)
			if pv != nil || err != nil {
				ck.bk.add("history:"+stage+":paging:"+mode+":error", &example{cost: cost, key: histString(path) + q.String(),
					detail: fmt.Sprintf("[%s] after %s: %s with %s: err=%v panic=%v %s", stage, histString(path), q, mode, err, pv, mc.TrimStack(st)), replay: where()})
				continue
			}
			ids := map[string]bool{}
			for _, h := range res.Hits {
				ids[h.ID] = true
			}
			same := len(ids) == len(got) && len(res.Hits) == len(ids) && int(res.Total) == len(got)
			for id := range got {
				if !ids[id] {
					same = false
				}
			}
			if !same {
				var l []string
				for _, h := range res.Hits {
					l = append(l, h.ID)
				}
				ck.bk.add("history:"+stage+":paging:"+mode+":differs-from-plain-search", &example{cost: cost, key: histString(path) + q.String(),
					detail: fmt.Sprintf("[%s] after %s: %s sorted by _id with %s returns %v (Total %d), the plain search %d parents", stage, histString(path), q, mode, l, res.Total, len(got)), replay: where()})
			}
		}
		for id := range got {
			if _, live := model[id]; !live {
				ck.bk.add("history:"+stage+":dead-parent-returned:"+lastOpOn(path, id), &example{cost: cost, key: histString(path) + q.String(),
					detail: fmt.Sprintf("[%s] after %s: %s returns %q which is not live (model %s)", stage, histString(path), q, id, modelKey(model)), replay: where()})
			}
		}
		for id, v := range model {
			want := Expect(q, versionTrees[v], true)
			if want == Either || got[id] == (want == Yes) {
				continue
			}
			kind := "live-parent-missing"
			if got[id] {
				kind = "stale-or-foreign-element-matched"
			}
			ck.bk.add("history:"+stage+":"+kind+":"+lastOpOn(path, id), &example{cost: cost, key: histString(path) + q.String(),
				detail: fmt.Sprintf("[%s] after %s: %s: parent %s (now v%d = %s) hit=%v, reference %v", stage, histString(path), q, id, v, versions[v], got[id], want), replay: where()})
		}
	}
	return sig.String()
}

func apply(idx bleve.Index, model map[string]int, o op) error {
	if o.del {
		delete(model, o.id)
		return idx.Delete(o.id)
	}
	model[o.id] = o.ver
	return idx.Index(o.id, versions[o.ver].Data())
}

func enumerate(alpha []op, depth int) [][]op {
	var out [][]op
	var rec func(cur []op)
	rec = func(cur []op) {
		if len(cur) > 0 {
			out = append(out, append([]op{}, cur...))
		}
		if len(cur) == depth {
			return
		}
		for _, o := range alpha {
			rec(append(cur, o))
		}
	}
	rec(nil)
	sort.SliceStable(out, func(i, j int) bool { return len(out[i]) < len(out[j]) })
	return out
}

type stateSet struct {
	mu sync.Mutex
	m  map[string]bool
}

func (s *stateSet) visit(r *mc.Run, k string) {
	s.mu.Lock()
	if !s.m[k] {
		s.m[k] = true
		r.State(1)
	}
	s.mu.Unlock()
}

func partHMem(r *mc.Run, ck *checker, states *stateSet) {
	type cfg struct {
		ids   []string
		depth int
	}
	cfgs := mc.Pick(r, []cfg{{[]string{"p", "q"}, 3}, {[]string{"p", "q", "r"}, 3}}, []cfg{{[]string{"p", "q"}, 4}, {[]string{"p", "q", "r"}, 4}})
	done := map[string]bool{}
	var hs [][]op
	for _, c := range cfgs {
		for _, h := range enumerate(alphabet(c.ids), c.depth) {
			k := histString(h)
			if !done[k] {
				done[k] = true
				hs = append(hs, h)
			}
		}
	}
	r.Note("H_mem_histories", len(hs))
	r.Sample(map[string]any{"part": "H", "history": histString(hs[len(hs)/2]), "observations": len(histQueries) + 1})
	r.ParFor(len(hs), 0, func(i int) {
		h := hs[i]
		idx := newMem(true)
		defer idx.Close()
		model := map[string]int{}
		for _, o := range h {
			if err := apply(idx, model, o); err != nil {
				ck.bk.add("history:mem:operation-error", &example{cost: [3]int{len(h)}, key: histString(h),
					detail: fmt.Sprintf("%s failed in %s: %v", o, histString(h), err), replay: map[string]any{"history": histString(h)}})
			}
		}
		r.Transition(1)
		states.visit(r, modelKey(model))
		sig := ck.observe(idx, model, h, "mem")
		ck.outcome("H|mem|" + sig)
		countHist(r, h)
	})
}

// partHBatched: the parents start out TOGETHER in one segment (one batch indexes all of them), so
// that deletes and updates hit a segment that already carries deletions of other parents (with
// one call per operation every parent has a segment of its own and each segment sees at most one
// obsoletion).
func partHBatched(r *mc.Run, ck *checker, states *stateSet) {
	ids := []string{"p", "q", "r"}
	var inits [][]op
	if r.Quick() {
		inits = [][]op{{{id: "p", ver: 1}, {id: "q", ver: 1}, {id: "r", ver: 1}}, {{id: "p", ver: 2}, {id: "q", ver: 1}, {id: "r", ver: 2}}}
	} else {
		for m := 0; m < 8; m++ {
			inits = append(inits, []op{{id: "p", ver: 1 + m&1}, {id: "q", ver: 1 + (m>>1)&1}, {id: "r", ver: 1 + (m>>2)&1}})
		}
	}
	hs := enumerate(alphabet(ids), mc.Pick(r, 2, 3))
	r.Note("H_batched_histories", len(hs)*len(inits))
	r.ParFor(len(hs)*len(inits), 0, func(i int) {
		init, h := inits[i%len(inits)], hs[i/len(inits)]
		idx := newMem(true)
		defer idx.Close()
		model := map[string]int{}
		b := idx.NewBatch()
		for _, o := range init {
			chk(b.Index(o.id, versions[o.ver].Data()))
			model[o.id] = o.ver
		}
		chk(idx.Batch(b))
		for _, o := range h {
			if err := apply(idx, model, o); err != nil {
				ck.bk.add("history:mem:operation-error", &example{cost: [3]int{len(h)}, key: histString(h),
					detail: fmt.Sprintf("%s failed in %s: %v", o, histString(h), err), replay: map[string]any{"history": histString(h)}})
			}
		}
		r.Transition(1)
		states.visit(r, modelKey(model))
		path := append(append([]op{}, init...), h...)
		sig := ck.observe(idx, model, path, "mem:parents-share-a-segment")
		ck.outcome("H|batched|" + sig)
		touched := map[string]bool{}
		for _, o := range h {
			touched[o.id] = true
		}
		if len(touched) >= 2 {
			r.Count("H:histories_obsoleting_two_parents_of_one_segment", 1)
		}
	})
}

func countHist(r *mc.Run, h []op) {
	seen := map[string]int{} // 1 = live, 2 = deleted
	reidx, delLive, recreate := false, false, false
	for _, o := range h {
		switch {
		case o.del && seen[o.id] == 1:
			delLive = true
			seen[o.id] = 2
		case o.del:
		case seen[o.id] == 1:
			reidx = true
		case seen[o.id] == 2:
			recreate = true
			seen[o.id] = 1
		default:
			seen[o.id] = 1
		}
	}
	if reidx {
		r.Count("H:histories_updating_a_live_parent_across_segments", 1)
	}
	if delLive {
		r.Count("H:histories_deleting_a_live_parent", 1)
	}
	if recreate {
		r.Count("H:histories_recreating_a_deleted_parent", 1)
	}
}

// merge gates: one registered callback per worker slot (the registry is a package-level map,
// written only here, before any index exists).
type gate struct {
	mu   sync.Mutex
	cond *sync.Cond
	hold bool
}

const nGates = 8

var gates [nGates]*gate

func init() {
	for i := range gates {
		g := &gate{}
		g.cond = sync.NewCond(&g.mu)
		gates[i] = g
		scorch.RegistryEventCallbacks[fmt.Sprintf("c20gate%d", i)] = func(e scorch.Event) bool {
			if e.Kind == scorch.EventKindPreMergeCheck {
				g.mu.Lock()
				for g.hold {
					g.cond.Wait()
				}
				g.mu.Unlock()
			}
			return true
		}
	}
}

func (g *gate) set(h bool) {
	g.mu.Lock()
	g.hold = h
	g.cond.Broadcast()
	g.mu.Unlock()
}

func quiesce(idx bleve.Index, needMerge bool) bool {
	deadline := time.Now().Add(20 * time.Second)
	for time.Now().Before(deadline) {
		m, _ := idx.StatsMap()["index"].(map[string]interface{})
		if m != nil && m["CurRootEpoch"] == m["LastPersistedEpoch"] && (!needMerge || m["CurRootEpoch"] == m["LastMergedEpoch"]) {
			return true
		}
		time.Sleep(100 * time.Microsecond)
	}
	return false
}

func nSegments(idx bleve.Index) int {
	adv, err := idx.Advanced()
	if err != nil {
		return -1
	}
	rd, err := adv.Reader()
	if err != nil {
		return -1
	}
	defer rd.Close()
	if s, ok := rd.(*scorch.IndexSnapshot); ok {
		return len(s.Segments())
	}
	return -1
}

func partHDisk(r *mc.Run, ck *checker, states *stateSet) {
	type cfg struct {
		ids   []string
		depth int
	}
	c := mc.Pick(r, cfg{[]string{"p", "q"}, 3}, cfg{[]string{"p", "q", "r"}, 3})
	hs := enumerate(alphabet(c.ids), c.depth)
	if r.Quick() {
		// quick: two versions per parent only (v1 with two elements + a tag, v2 with two levels)
		var keep [][]op
		for _, h := range hs {
			ok := true
			for _, o := range h {
				if !o.del && o.ver == 0 {
					ok = false
				}
			}
			if ok {
				keep = append(keep, h)
			}
		}
		hs = keep
	}
	if !r.Quick() {
		for _, h := range enumerate(alphabet([]string{"p", "q"}), 4) {
			if len(h) == 4 {
				hs = append(hs, h)
			}
		}
	}
	r.Note("H_disk_histories", len(hs))
	base := mc.ScratchDir("c20")
	defer bxRemove(base)
	slots := make(chan int, nGates)
	for i := 0; i < nGates; i++ {
		slots <- i
	}
	r.ParFor(len(hs), nGates, func(i int) {
		h := hs[i]
		gi := <-slots
		defer func() { slots <- gi }()
		g := gates[gi]
		dir := fmt.Sprintf("%s/h%d", base, i)
		defer bxRemove(dir)
		cfgm := map[string]interface{}{"eventCallbackName": fmt.Sprintf("c20gate%d", gi)}
		g.set(true)
		idx, err := bleve.NewUsing(dir, Mapping(true), scorch.Name, scorch.Name, cfgm)
		if err != nil {
			g.set(false)
			panic(err)
		}
		model := map[string]int{}
		for _, o := range h {
			if err := apply(idx, model, o); err != nil {
				ck.bk.add("history:disk:operation-error", &example{cost: [3]int{len(h)}, key: histString(h),
					detail: fmt.Sprintf("%s failed in %s: %v", o, histString(h), err), replay: map[string]any{"history": histString(h)}})
			}
		}
		r.Transition(1)
		states.visit(r, modelKey(model))
		if !quiesce(idx, false) {
			r.Cap("a disk history did not become persisted within 20 s (inconclusive, skipped)")
			g.set(false)
			idx.Close()
			return
		}
		seg0 := nSegments(idx)
		s0 := ck.observe(idx, model, h, "disk:merges-held")
		g.set(false)
		adv, _ := idx.Advanced()
		if sc, ok := adv.(*scorch.Scorch); ok {
			ok2, pv, _ := mc.WithTimeout(30*time.Second, func() {
				if err := sc.ForceMerge(context.Background(), nil); err != nil {
					ck.bk.add("history:disk:forcemerge-error", &example{cost: [3]int{len(h)}, key: histString(h),
						detail: fmt.Sprintf("ForceMerge after %s: %v", histString(h), err), replay: map[string]any{"history": histString(h)}})
				}
			})
			if !ok2 || pv != nil {
				ck.bk.add("history:disk:forcemerge-hang-or-panic", &example{cost: [3]int{len(h)}, key: histString(h),
					detail: fmt.Sprintf("ForceMerge after %s: returned=%v panic=%v", histString(h), ok2, pv), replay: map[string]any{"history": histString(h)}})
				if !ok2 {
					r.Cap("ForceMerge did not return")
					return
				}
			}
		}
		if !quiesce(idx, true) {
			r.Cap("a disk history did not settle after ForceMerge within 20 s (inconclusive, skipped)")
			idx.Close()
			return
		}
		seg1 := nSegments(idx)
		s1 := ck.observe(idx, model, h, "disk:force-merged")
		chk(idx.Close())
		idx, err = bleve.OpenUsing(dir, cfgm)
		if err != nil {
			ck.bk.add("history:disk:reopen-error", &example{cost: [3]int{len(h)}, key: histString(h),
				detail: fmt.Sprintf("reopen after %s: %v", histString(h), err), replay: map[string]any{"history": histString(h)}})
			return
		}
		s2 := ck.observe(idx, model, h, "disk:reopened")
		idx.Close()
		if seg0 > 1 && seg1 < seg0 {
			r.Count("H:disk_histories_where_force-merge_reduced_the_segment_count", 1)
		}
		if seg0 > 1 {
			r.Count("H:disk_histories_observed_with_several_segments", 1)
		}
		ck.outcome(fmt.Sprintf("H|disk|%s|%s|%s", s0, s1, s2))
	})
}
