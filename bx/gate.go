package bx

import (
	"fmt"
	"sync"
	"sync/atomic"
	"time"

	"github.com/blevesearch/bleve/v2"
	"github.com/blevesearch/bleve/v2/index/scorch"
)

// MergeGate parks scorch's merger, through the PUBLIC event-callback mechanism, between "merged
// segment built" (EventKindMergeTaskIntroductionStart) and its introduction, so that a plain
// (free-running) check can let operations land while a merge is in flight — deterministically,
// without sleeping. scorch.RegistryEventCallbacks must not be written after init, so a fixed pool
// of callback names is registered at init and a gate borrows one slot.
type MergeGate struct {
	kind    scorch.EventKind
	slot    int
	armed   atomic.Bool
	parked  chan struct{}
	release chan struct{}
	once    sync.Once
}

const gateSlots = 64

var (
	gatePool  [gateSlots]atomic.Pointer[MergeGate]
	gateFree  = make(chan int, gateSlots)
	gateNames [gateSlots]string
)

func init() {
	for i := 0; i < gateSlots; i++ {
		i := i
		gateNames[i] = fmt.Sprintf("verif-merge-gate-%d", i)
		gateFree <- i
		scorch.RegistryEventCallbacks[gateNames[i]] = func(e scorch.Event) bool {
			if g := gatePool[i].Load(); g != nil && e.Kind == g.kind && g.armed.CompareAndSwap(true, false) {
				close(g.parked)
				<-g.release
			}
			return true
		}
	}
}

// AcquireGate borrows a gate (blocks while all slots are in use).
func AcquireGate() *MergeGate { return AcquireGateFor(scorch.EventKindMergeTaskIntroductionStart) }

// AcquireGateFor borrows a gate that parks the goroutine firing the given event kind instead:
// EventKindPurgerCheck parks the persister at its idle point (nothing is persisted while it is
// parked: only usable with unsafe_batch, where Batch does not wait for the persister).
func AcquireGateFor(kind scorch.EventKind) *MergeGate {
	g := &MergeGate{kind: kind, slot: <-gateFree, parked: make(chan struct{}), release: make(chan struct{})}
	gatePool[g.slot].Store(g)
	return g
}

// WaitParked waits until the gate has parked its goroutine (or max elapsed) and reports whether it has.
func (g *MergeGate) WaitParked(max time.Duration) bool {
	select {
	case <-g.parked:
		return true
	case <-time.After(max):
		return false
	}
}

// Name is the value for the index config key "eventCallbackName".
func (g *MergeGate) Name() string { return gateNames[g.slot] }

// Arm makes the next merge task park.
func (g *MergeGate) Arm() { g.armed.Store(true) }

// IsParked reports whether a merge is parked right now (or was released already).
func (g *MergeGate) IsParked() bool {
	select {
	case <-g.parked:
		return true
	default:
		return false
	}
}

// Release lets the parked merge (if any) go on; idempotent. Must be called before Close.
func (g *MergeGate) Release() {
	g.armed.Store(false)
	g.once.Do(func() { close(g.release) })
}

// Free returns the slot (after the index is closed).
func (g *MergeGate) Free() {
	g.Release()
	gatePool[g.slot].Store(nil)
	gateFree <- g.slot
}

// WaitParkedOrQuiet waits until the armed gate has parked a merge or the index is quiescent
// (nothing left to persist or merge); it reports whether a merge is parked. Polls statistics; the
// answer only steers the driver, it is never an oracle.
func (g *MergeGate) WaitParkedOrQuiet(idx bleve.Index, max time.Duration) bool {
	deadline := time.Now().Add(max)
	stable := 0
	for {
		if g.IsParked() {
			return true
		}
		m, _ := idx.StatsMap()["index"].(map[string]interface{})
		if m != nil && m["CurRootEpoch"] == m["LastPersistedEpoch"] && m["CurRootEpoch"] == m["LastMergedEpoch"] {
			stable++
			if stable >= 5 {
				return g.IsParked()
			}
		} else {
			stable = 0
		}
		if time.Now().After(deadline) {
			return g.IsParked()
		}
		time.Sleep(100 * time.Microsecond)
	}
}
