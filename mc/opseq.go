package mc

import (
	"fmt"
	"sort"
	"sync"
)

// Seq describes an explicit-state search over operation sequences (engine E1).
// A state is the operation path reaching it; Exec replays the path on a FRESH real
// instance, checks every observation after the last operation (reporting violations
// itself) and returns the canonical key of the state reached. ok=false prunes the path
// (operation not applicable / execution failed and was reported).
type Seq struct {
	N     int // alphabet size
	Depth int
	Exec  func(path []int) (key string, ok bool)
	// Workers: 0 = NumCPU
	Workers int
	// OpName renders an operation for samples / replays (optional).
	OpName func(op int) string
}

// BFS explores breadth-first with dedup by canonical key: only the first path (in
// deterministic order) reaching a key is expanded further. Every explored path is
// representative+1 operation, so every prefix of an explored path was itself explored.
func (r *Run) BFS(s Seq) (states, transitions int) {
	seen := map[string]bool{}
	frontier := [][]int{{}}
	if k, ok := s.Exec(nil); ok {
		seen[k] = true
		states++
		r.State(1)
	}
	for depth := 1; depth <= s.Depth && len(frontier) > 0; depth++ {
		type res struct {
			key string
			ok  bool
		}
		n := len(frontier) * s.N
		out := make([]res, n)
		done := make([]bool, n)
		var mu sync.Mutex
		r.ParFor(n, s.Workers, func(i int) {
			p := append(append([]int{}, frontier[i/s.N]...), i%s.N)
			k, ok := s.Exec(p)
			mu.Lock()
			out[i] = res{k, ok}
			done[i] = true
			mu.Unlock()
			r.Transition(1)
		})
		var next [][]int
		complete := true
		for i := 0; i < n; i++ {
			if !done[i] {
				complete = false
				continue
			}
			transitions++
			if !out[i].ok || seen[out[i].key] {
				continue
			}
			seen[out[i].key] = true
			states++
			r.State(1)
			next = append(next, append(append([]int{}, frontier[i/s.N]...), i%s.N))
		}
		if !complete {
			r.Cap(fmt.Sprintf("BFS stopped inside depth %d (depths below it are complete)", depth))
			r.Note("bfs_depth_completed", depth-1)
			return
		}
		r.Note("bfs_depth_completed", depth)
		frontier = next
	}
	return
}

// PathString renders a path with OpName.
func (s Seq) PathString(p []int) string {
	out := ""
	for i, o := range p {
		if i > 0 {
			out += " "
		}
		if s.OpName != nil {
			out += s.OpName(o)
		} else {
			out += fmt.Sprint(o)
		}
	}
	return out
}

// SortedKeys is a small helper for canonical renderings.
func SortedKeys[V any](m map[string]V) []string {
	ks := make([]string, 0, len(m))
	for k := range m {
		ks = append(ks, k)
	}
	sort.Strings(ks)
	return ks
}
