package vrt

import (
	"fmt"
	"testing"
	"time"
)

func TestLostUpdate(t *testing.T) {
	outcomes := map[int]int{}
	final := 0
	body := func() {
		x := 0
		var mu Mutex
		var wg WaitGroup
		for i := 0; i < 2; i++ {
			wg.Add(1)
			Go(func() {
				defer wg.Done()
				mu.Lock()
				v := x
				mu.Unlock()
				mu.Lock()
				x = v + 1
				mu.Unlock()
			})
		}
		wg.Wait()
		final = x
	}
	for b := 0; b <= 2; b++ {
		r := Explore(b, 10000, 0, 1, time.Time{}, body, func(_ []int, tr []Choice, v Verdict) bool {
			if v.Deadlock || v.Panic != nil {
				t.Fatalf("unexpected verdict %+v", v)
			}
			outcomes[final]++
			return true
		})
		fmt.Printf("bound %d: execs=%d points=%d outcomes=%v\n", b, r.Execs, r.Points, outcomes)
	}
	if outcomes[1] == 0 {
		t.Fatal("lost update not found")
	}
}

func TestDeadlockABBA(t *testing.T) {
	found := false
	body := func() {
		var a, b Mutex
		var wg WaitGroup
		wg.Add(2)
		Go(func() { defer wg.Done(); a.Lock(); b.Lock(); b.Unlock(); a.Unlock() })
		Go(func() { defer wg.Done(); b.Lock(); a.Lock(); a.Unlock(); b.Unlock() })
		wg.Wait()
	}
	r := Explore(2, 10000, 0, 1, time.Time{}, body, func(_ []int, tr []Choice, v Verdict) bool {
		if v.Deadlock {
			found = true
			fmt.Println("deadlock:", v.Blocked)
			return false
		}
		return true
	})
	fmt.Printf("execs=%d stopped=%v prefix=%v\n", r.Execs, r.Stopped, r.FailPrefix)
	if !found {
		t.Fatal("ABBA deadlock not found")
	}
}

func TestSelectAndChannels(t *testing.T) {
	seen := map[string]int{}
	var out string
	body := func() {
		a := make(chan int)
		b := make(chan string, 1)
		done := make(chan struct{})
		Go(func() { Send(a, 1) })
		Go(func() { Send(b, "x") })
		Go(func() {
			for i := 0; i < 2; i++ {
				c0, c1 := RecvCase(a), RecvCase(b)
				switch Select(false, c0, c1) {
				case 0:
					out += fmt.Sprint("a", c0.Val)
				case 1:
					out += fmt.Sprint("b", c1.Val)
				}
			}
			Close(done)
		})
		_, ok := Recv2(done)
		if ok {
			panic("expected closed")
		}
	}
	r := Explore(2, 10000, 0, 1, time.Time{}, body, func(_ []int, tr []Choice, v Verdict) bool {
		if v.Deadlock || v.Panic != nil {
			t.Fatalf("verdict %+v", v)
		}
		seen[out]++
		out = ""
		return true
	})
	fmt.Printf("execs=%d outcomes=%v\n", r.Execs, seen)
	if len(seen) != 2 {
		t.Fatalf("expected both orders, got %v", seen)
	}
}

func TestRWWriterPreferenceDeadlock(t *testing.T) {
	// recursive RLock with a writer arriving in between deadlocks in Go
	found := false
	body := func() {
		var rw RWMutex
		var wg WaitGroup
		wg.Add(2)
		Go(func() { defer wg.Done(); rw.RLock(); rw.RLock(); rw.RUnlock(); rw.RUnlock() })
		Go(func() { defer wg.Done(); rw.Lock(); rw.Unlock() })
		wg.Wait()
	}
	r := Explore(2, 10000, 0, 1, time.Time{}, body, func(_ []int, tr []Choice, v Verdict) bool {
		if v.Deadlock {
			found = true
			return false
		}
		return true
	})
	fmt.Printf("execs=%d found=%v prefix=%v\n", r.Execs, found, r.FailPrefix)
	if !found {
		t.Fatal("recursive RLock deadlock not found")
	}
}

func TestPanicCaught(t *testing.T) {
	body := func() {
		done := make(chan struct{})
		Go(func() { var m map[string]int; m["x"] = 1; Close(done) })
		Recv(done)
	}
	_, v := Run(nil, 1000, nil, body)
	if v.Panic == nil {
		t.Fatal("panic not caught")
	}
	fmt.Println("panic caught in", v.PanicThr, ":", v.Panic)
}
