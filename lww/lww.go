// Package lww is the last-write-wins reference model of an index and the observation
// comparison shared by C01, C03, C04, C13, C14.
package lww

import (
	"context"
	"fmt"
	"sort"
	"strings"

	"github.com/blevesearch/bleve/v2"
	"github.com/blevesearch/bleve/v2/document"
	index "github.com/blevesearch/bleve_index_api"
)

// Versions are the document bodies of the alphabet; version 0 means "absent".
var Versions = []map[string]interface{}{
	nil,
	{"t": "x", "a": []string{"p"}},
	{"t": "y", "n": 2.0},
	{"t": "x y", "u": "z", "a": []string{"p", "q", "r"}},
}

// body is the struct form of a version: bleve walks map documents in Go's random map order, which
// changes the order of field-level work (and, under the scheduler, of synchronisation points) from
// run to run; struct fields are walked in declaration order.
type body struct {
	T *string  `json:"t,omitempty"`
	N *float64 `json:"n,omitempty"`
	U *string  `json:"u,omitempty"`
	A []string `json:"a,omitempty"` // array-valued stored field: v3 -> v1 shrinks it, v3 -> v2 drops it
}

// Body returns the document to index for version v (deterministic field order).
func Body(v int) interface{} {
	b := body{}
	m := Versions[v]
	if s, ok := m["t"].(string); ok {
		b.T = &s
	}
	if f, ok := m["n"].(float64); ok {
		b.N = &f
	}
	if s, ok := m["u"].(string); ok {
		b.U = &s
	}
	if a, ok := m["a"].([]string); ok {
		b.A = a
	}
	return b
}

// Op is one operation inside a batch.
type Op struct {
	Kind string // I D S X  (index, delete, set-internal, delete-internal)
	ID   string // doc id or internal key
	V    int    // version index (I) or internal value (S)
}

func (o Op) String() string {
	switch o.Kind {
	case "I":
		return fmt.Sprintf("I(%s,v%d)", o.ID, o.V)
	case "D":
		return fmt.Sprintf("D(%s)", o.ID)
	case "S":
		return fmt.Sprintf("S(%s=%d)", o.ID, o.V)
	case "X":
		return fmt.Sprintf("X(%s)", o.ID)
	}
	return "?"
}

type Batch []Op

func (b Batch) String() string {
	var s []string
	for _, o := range b {
		s = append(s, o.String())
	}
	return "[" + strings.Join(s, " ") + "]"
}

// Model is the reference state.
type Model struct {
	Docs     map[string]int
	Internal map[string]int
}

func New() *Model { return &Model{Docs: map[string]int{}, Internal: map[string]int{}} }

func (m *Model) Clone() *Model {
	c := New()
	for k, v := range m.Docs {
		c.Docs[k] = v
	}
	for k, v := range m.Internal {
		c.Internal[k] = v
	}
	return c
}

// Apply applies the operations of one batch in order (last operation per id wins).
func (m *Model) Apply(b Batch) {
	for _, o := range b {
		switch o.Kind {
		case "I":
			m.Docs[o.ID] = o.V
		case "D":
			delete(m.Docs, o.ID)
		case "S":
			m.Internal[o.ID] = o.V
		case "X":
			delete(m.Internal, o.ID)
		}
	}
}

// Key is the canonical rendering of the model state.
func (m *Model) Key() string {
	var ks []string
	for k, v := range m.Docs {
		ks = append(ks, fmt.Sprintf("%s=v%d", k, v))
	}
	sort.Strings(ks)
	var is []string
	for k, v := range m.Internal {
		is = append(is, fmt.Sprintf("%s=%d", k, v))
	}
	sort.Strings(is)
	return strings.Join(ks, ",") + "|" + strings.Join(is, ",")
}

// Fill puts the batch's operations into a real bleve batch.
func Fill(bb *bleve.Batch, b Batch) error {
	for _, o := range b {
		switch o.Kind {
		case "I":
			if err := bb.Index(o.ID, Body(o.V)); err != nil {
				return err
			}
		case "D":
			bb.Delete(o.ID)
		case "S":
			bb.SetInternal([]byte(o.ID), []byte(fmt.Sprint(o.V)))
		case "X":
			bb.DeleteInternal([]byte(o.ID))
		}
	}
	return nil
}

// ExecBatch applies b to idx through one Batch call.
func ExecBatch(idx bleve.Index, b Batch) error {
	bb := idx.NewBatch()
	if err := Fill(bb, b); err != nil {
		return err
	}
	return idx.Batch(bb)
}

// renderDoc renders the stored fields of a document canonically.
func renderDoc(d index.Document) string {
	if d == nil {
		return "<nil>"
	}
	var fs []string
	d.VisitFields(func(f index.Field) {
		switch ff := f.(type) {
		case *document.NumericField:
			v, _ := ff.Number()
			fs = append(fs, fmt.Sprintf("%s:num=%v", f.Name(), v))
		case *document.TextField:
			if ap := f.ArrayPositions(); len(ap) > 0 {
				fs = append(fs, fmt.Sprintf("%s%v:text=%s", f.Name(), ap, string(f.Value())))
			} else {
				fs = append(fs, fmt.Sprintf("%s:text=%s", f.Name(), string(f.Value())))
			}
		default:
			fs = append(fs, fmt.Sprintf("%s:%T=%x", f.Name(), f, f.Value()))
		}
	})
	sort.Strings(fs)
	return strings.Join(fs, ";")
}

func renderVersion(v int) string {
	if v == 0 {
		return "<nil>"
	}
	var fs []string
	for k, val := range Versions[v] {
		switch x := val.(type) {
		case string:
			fs = append(fs, fmt.Sprintf("%s:text=%s", k, x))
		case float64:
			fs = append(fs, fmt.Sprintf("%s:num=%v", k, x))
		case []string:
			for i, e := range x {
				fs = append(fs, fmt.Sprintf("%s[%d]:text=%s", k, i, e))
			}
		}
	}
	sort.Strings(fs)
	return strings.Join(fs, ";")
}

// Observer is what the comparison needs from an index (bleve.Index satisfies it).
type Observer interface {
	DocCount() (uint64, error)
	Document(id string) (index.Document, error)
	Search(req *bleve.SearchRequest) (*bleve.SearchResult, error)
	GetInternal(key []byte) ([]byte, error)
}

// Check compares every observation the property names with the model; it returns the
// discrepancies (empty = agrees). ids is the id space (an id never used should be included),
// keys the internal key space.
func (m *Model) Check(idx Observer, ids, keys []string) []string {
	var bad []string
	cnt, err := idx.DocCount()
	if err != nil {
		bad = append(bad, "DocCount error: "+err.Error())
	} else if int(cnt) != len(m.Docs) {
		bad = append(bad, fmt.Sprintf("DocCount=%d want %d", cnt, len(m.Docs)))
	}
	for _, id := range ids {
		d, err := idx.Document(id)
		if err != nil {
			bad = append(bad, fmt.Sprintf("Document(%s) error: %v", id, err))
			continue
		}
		if got, want := renderDoc(d), renderVersion(m.Docs[id]); got != want {
			bad = append(bad, fmt.Sprintf("Document(%s)={%s} want {%s}", id, got, want))
		}
	}
	var live []string
	for id := range m.Docs {
		live = append(live, id)
	}
	sort.Strings(live)
	cmp := func(what string, req *bleve.SearchRequest, want []string) {
		req.Size = len(ids) + 5
		res, err := idx.Search(req)
		if err != nil {
			bad = append(bad, what+" error: "+err.Error())
			return
		}
		var got []string
		for _, h := range res.Hits {
			got = append(got, h.ID)
		}
		sort.Strings(got)
		if strings.Join(got, ",") != strings.Join(want, ",") || int(res.Total) != len(want) {
			bad = append(bad, fmt.Sprintf("%s hits=%v total=%d want %v", what, got, res.Total, want))
		}
	}
	cmp("match-all", bleve.NewSearchRequest(bleve.NewMatchAllQuery()), live)
	cmp("doc-id", bleve.NewSearchRequest(bleve.NewDocIDQuery(ids)), live)
	// a term search per version-distinguishing term
	for _, term := range []string{"x", "y"} {
		var want []string
		for _, id := range live {
			if s, _ := Versions[m.Docs[id]]["t"].(string); containsWord(s, term) {
				want = append(want, id)
			}
		}
		tq := bleve.NewTermQuery(term)
		tq.SetField("t")
		cmp("term t:"+term, bleve.NewSearchRequest(tq), want)
	}
	for _, k := range keys {
		v, err := idx.GetInternal([]byte(k))
		if err != nil {
			bad = append(bad, fmt.Sprintf("GetInternal(%s) error: %v", k, err))
			continue
		}
		want := ""
		if mv, ok := m.Internal[k]; ok {
			want = fmt.Sprint(mv)
		}
		if string(v) != want {
			bad = append(bad, fmt.Sprintf("GetInternal(%s)=%q want %q", k, v, want))
		}
	}
	return bad
}

func containsWord(s, w string) bool {
	for _, f := range strings.Fields(s) {
		if f == w {
			return true
		}
	}
	return false
}

// Reader is what CheckReader needs from an index reader (index.IndexReader satisfies it).
type Reader interface {
	DocCount() (uint64, error)
	Document(id string) (index.Document, error)
	GetInternal(key []byte) ([]byte, error)
	TermFieldReader(ctx context.Context, term []byte, field string, includeFreq, includeNorm, includeTermVectors bool) (index.TermFieldReader, error)
}

// CheckReader is Check for a single index reader (one point-in-time view): DocCount, Document(id)
// for every id, the postings of the version-distinguishing terms and the internal keys must all
// describe the model state.
func (m *Model) CheckReader(r Reader, ids, keys []string) []string {
	var bad []string
	cnt, err := r.DocCount()
	if err != nil {
		bad = append(bad, "DocCount error: "+err.Error())
	} else if int(cnt) != len(m.Docs) {
		bad = append(bad, fmt.Sprintf("DocCount=%d want %d", cnt, len(m.Docs)))
	}
	for _, id := range ids {
		d, err := r.Document(id)
		if err != nil {
			bad = append(bad, fmt.Sprintf("Document(%s) error: %v", id, err))
			continue
		}
		if got, want := renderDoc(d), renderVersion(m.Docs[id]); got != want {
			bad = append(bad, fmt.Sprintf("Document(%s)={%s} want {%s}", id, got, want))
		}
	}
	for _, term := range []string{"x", "y"} {
		want := 0
		for _, v := range m.Docs {
			if s, _ := Versions[v]["t"].(string); containsWord(s, term) {
				want++
			}
		}
		tfr, err := r.TermFieldReader(context.Background(), []byte(term), "t", false, false, false)
		if err != nil {
			bad = append(bad, "TermFieldReader error: "+err.Error())
			continue
		}
		n := 0
		for {
			td, err := tfr.Next(nil)
			if err != nil || td == nil {
				break
			}
			n++
		}
		tfr.Close()
		if n != want {
			bad = append(bad, fmt.Sprintf("postings of t:%s = %d want %d", term, n, want))
		}
	}
	for _, k := range keys {
		v, err := r.GetInternal([]byte(k))
		if err != nil {
			bad = append(bad, fmt.Sprintf("GetInternal(%s) error: %v", k, err))
			continue
		}
		want := ""
		if mv, ok := m.Internal[k]; ok {
			want = fmt.Sprint(mv)
		}
		if string(v) != want {
			bad = append(bad, fmt.Sprintf("GetInternal(%s)=%q want %q", k, v, want))
		}
	}
	return bad
}
