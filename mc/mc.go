// Package mc is the shared plumbing of the explorers: run bookkeeping, evidence files,
// violation / known-finding classification, deadlines, parallel enumeration helpers.
package mc

import (
	"encoding/json"
	"fmt"
	"io"
	"log"
	"os"
	"os/exec"
	"path/filepath"
	"regexp"
	"runtime"
	"runtime/debug"
	"runtime/pprof"
	"sort"
	"strconv"
	"strings"
	"sync"
	"sync/atomic"
	"syscall"
	"time"
)

// Root is the /verif directory (or the snapshot the binary was started from).
func Root() string {
	if r := os.Getenv("VERIF_ROOT"); r != "" {
		return r
	}
	wd, _ := os.Getwd()
	return wd
}

type violation struct {
	Class  string `json:"class"`
	Detail string `json:"detail"`
	Replay any    `json:"replay"`
	Count  int    `json:"count"`
}

// Finding is one entry of known_findings.json.
type Finding struct {
	Property string `json:"property"`
	Class    string `json:"class"`
	Kind     string `json:"kind"` // known | fixed
	Commit   string `json:"commit,omitempty"`
	Example  string `json:"example,omitempty"`
	Note     string `json:"note,omitempty"`
}

// Run collects what one check run covered.
type Run struct {
	Prop  string
	Tier  string
	Seed  int
	Level string

	start    time.Time
	deadline time.Time

	evals       atomic.Int64
	states      atomic.Int64
	transitions atomic.Int64

	mu          sync.Mutex
	outcomes    map[string]int
	samples     []any
	counters    map[string]int64
	viol        map[string]*violation
	violOrder   []string
	rule        string
	assumptions []string
	notes       map[string]any
	exhaustive  bool
	caps        []string
	finished    bool
}

// Start begins a run; it arms the internal deadline (exit 0, exhaustive:false).
func Start(prop, level string) *Run {
	tier := os.Getenv("VERIF_TIER")
	if tier != "thorough" {
		tier = "quick"
	}
	seed, _ := strconv.Atoi(os.Getenv("VERIF_SEED"))
	r := &Run{Prop: prop, Tier: tier, Seed: seed, Level: level, start: time.Now(),
		outcomes: map[string]int{}, counters: map[string]int64{}, viol: map[string]*violation{},
		notes: map[string]any{}, exhaustive: true}
	dl := 150
	if tier == "thorough" {
		dl = 1500
	}
	if s := os.Getenv("VERIF_DEADLINE_S"); s != "" {
		if v, err := strconv.Atoi(s); err == nil && v > 0 {
			dl = v
		}
	}
	r.deadline = r.start.Add(time.Duration(dl) * time.Second)
	// hard stop: if the enumeration does not notice the deadline itself, write what we have.
	go func() {
		time.Sleep(time.Until(r.deadline) + 20*time.Second)
		r.Cap("hard internal deadline reached; run ended by watchdog")
		r.Finish()
	}()
	return r
}

func (r *Run) Quick() bool { return r.Tier == "quick" }

// Pick returns q in the quick tier and t in the thorough tier.
func Pick[T any](r *Run, q, t T) T {
	if r.Quick() {
		return q
	}
	return t
}

// Expired reports whether the internal deadline has passed; enumerations poll it and stop.
func (r *Run) Expired() bool { return time.Now().After(r.deadline) }

func (r *Run) Remaining() time.Duration { return time.Until(r.deadline) }

func (r *Run) Eval(n int)       { r.evals.Add(int64(n)) }
func (r *Run) State(n int)      { r.states.Add(int64(n)) }
func (r *Run) Transition(n int) { r.transitions.Add(int64(n)) }
func (r *Run) Evals() int64     { return r.evals.Load() }

// Outcome records one observed outcome; distinct outcomes are the vacuity measure.
func (r *Run) Outcome(key string) {
	r.mu.Lock()
	r.outcomes[key]++
	r.mu.Unlock()
}

func (r *Run) Count(name string, d int64) {
	r.mu.Lock()
	r.counters[name] += d
	r.mu.Unlock()
}

func (r *Run) Sample(v any) {
	r.mu.Lock()
	if len(r.samples) < 8 {
		r.samples = append(r.samples, v)
	}
	r.mu.Unlock()
}

func (r *Run) Rule(s string)      { r.rule = s }
func (r *Run) Assume(s ...string) { r.assumptions = append(r.assumptions, s...) }
func (r *Run) Note(k string, v any) {
	r.mu.Lock()
	r.notes[k] = v
	r.mu.Unlock()
}

// Cap records that a bound was not completed.
func (r *Run) Cap(why string) {
	r.mu.Lock()
	r.exhaustive = false
	for _, c := range r.caps {
		if c == why {
			r.mu.Unlock()
			return
		}
	}
	r.caps = append(r.caps, why)
	r.mu.Unlock()
}

// Violation records a counterexample. class names the failing input / call site / history
// structurally; the first counterexample per class is kept as the replay.
func (r *Run) Violation(class, detail string, replay any) {
	r.mu.Lock()
	defer r.mu.Unlock()
	if v, ok := r.viol[class]; ok {
		v.Count++
		return
	}
	r.viol[class] = &violation{Class: class, Detail: detail, Replay: replay, Count: 1}
	r.violOrder = append(r.violOrder, class)
}

func (r *Run) NumViolationClasses() int {
	r.mu.Lock()
	defer r.mu.Unlock()
	return len(r.viol)
}

// LoadKnown reads known_findings.json.
func LoadKnown() []Finding {
	b, err := os.ReadFile(filepath.Join(Root(), "known_findings.json"))
	if err != nil {
		return nil
	}
	var fs []Finding
	if err := json.Unmarshal(b, &fs); err != nil {
		fmt.Fprintln(os.Stderr, "known_findings.json unreadable:", err)
		os.Exit(2)
	}
	return fs
}

var slugRe = regexp.MustCompile(`[^A-Za-z0-9_.-]+`)

func slug(s string) string {
	s = slugRe.ReplaceAllString(s, "_")
	if len(s) > 60 {
		s = s[:60]
	}
	return s
}

// AtExit, when set, runs just before Finish exits the process.
var AtExit func()

// Finish writes the evidence file and replays, prints the interface lines and exits.
func (r *Run) Finish() {
	r.mu.Lock()
	if r.finished {
		r.mu.Unlock()
		select {}
	}
	r.finished = true
	root := Root()
	known := map[string]Finding{}
	for _, f := range LoadKnown() {
		if f.Property == r.Prop && f.Kind == "known" {
			known[f.Class] = f
		}
	}
	nviol, nknown := 0, 0
	var lines []string
	var vlist []map[string]any
	os.MkdirAll(filepath.Join(root, "replays"), 0o755)
	for _, c := range r.violOrder {
		v := r.viol[c]
		if f, ok := known[c]; ok {
			nknown++
			lines = append(lines, fmt.Sprintf("KNOWN-FINDING: property=%s class=%s %s (seen %d×; e.g. %s)", r.Prop, c, f.Example, v.Count, oneLine(v.Detail)))
			vlist = append(vlist, map[string]any{"class": c, "known": true, "count": v.Count, "detail": v.Detail})
			continue
		}
		nviol++
		p := filepath.Join(root, "replays", fmt.Sprintf("%s-%s.json", r.Prop, slug(c)))
		b, _ := json.MarshalIndent(map[string]any{"property": r.Prop, "class": c, "detail": v.Detail, "count": v.Count, "tier": r.Tier, "replay": v.Replay}, "", " ")
		os.WriteFile(p, b, 0o644)
		lines = append(lines, fmt.Sprintf("VIOLATION property=%s replay=%s", r.Prop, p))
		fmt.Fprintf(os.Stderr, "violation class=%s (×%d): %s\n", c, v.Count, v.Detail)
		vlist = append(vlist, map[string]any{"class": c, "known": false, "count": v.Count, "detail": v.Detail, "replay": p})
	}
	distinct := 0
	for range r.outcomes {
		distinct++
	}
	cov := map[string]any{
		"evaluations":         r.evals.Load(),
		"distinct_nontrivial": distinct,
		"rule":                r.rule,
		"samples":             r.samples,
		"exhaustive":          r.exhaustive,
		"caps_hit":            r.caps,
		"counters":            r.counters,
		"outcome_histogram":   topOutcomes(r.outcomes, 12),
		"violation_classes":   vlist,
		"known_findings_seen": nknown,
	}
	if r.states.Load() > 0 || r.transitions.Load() > 0 {
		cov["states"] = r.states.Load()
		cov["transitions"] = r.transitions.Load()
		cov["traces_validated_against_impl"] = r.transitions.Load()
	}
	for k, v := range r.notes {
		cov[k] = v
	}
	if len(r.samples) == 0 {
		cov["samples"] = []any{"(no case was explored)"}
	}
	ev := map[string]any{
		"property_id": r.Prop, "tier": r.Tier, "seed": r.Seed, "level": r.Level,
		"coverage": cov, "assumptions": r.assumptions,
		"wall_s": time.Since(r.start).Seconds(), "violations": nviol,
	}
	evDir := filepath.Join(root, "evidence")
	if d := os.Getenv("VERIF_EVIDENCE_DIR"); d != "" {
		evDir = d // debug runs (scenario filter, seeded changes) must not overwrite the evidence of full runs
	}
	os.MkdirAll(evDir, 0o755)
	b, _ := json.MarshalIndent(ev, "", " ")
	os.WriteFile(filepath.Join(evDir, r.Prop+".json"), b, 0o644)
	for _, l := range lines {
		fmt.Println(l)
	}
	fmt.Printf("%s %s: evaluations=%d states=%d transitions=%d distinct_outcomes=%d exhaustive=%v violations=%d known=%d wall=%.1fs\n",
		r.Prop, r.Tier, r.evals.Load(), r.states.Load(), r.transitions.Load(), distinct, r.exhaustive, nviol, nknown, time.Since(r.start).Seconds())
	for _, c := range r.caps {
		fmt.Println("  cap:", c)
	}
	if AtExit != nil {
		AtExit()
	}
	cleanScratch()
	if distinct < 2 && nviol == 0 {
		fmt.Fprintln(os.Stderr, "harness: fewer than 2 distinct outcomes observed — exploration was vacuous")
		os.Exit(3)
	}
	if nviol > 0 {
		os.Exit(1)
	}
	os.Exit(0)
}

func oneLine(s string) string {
	s = strings.ReplaceAll(s, "\n", " ")
	if len(s) > 200 {
		s = s[:200] + "…"
	}
	return s
}

func topOutcomes(m map[string]int, n int) map[string]int {
	type kv struct {
		k string
		v int
	}
	var l []kv
	for k, v := range m {
		l = append(l, kv{k, v})
	}
	sort.Slice(l, func(i, j int) bool {
		if l[i].v != l[j].v {
			return l[i].v > l[j].v
		}
		return l[i].k < l[j].k
	})
	out := map[string]int{}
	for i, e := range l {
		if i >= n {
			break
		}
		k := e.k
		if len(k) > 120 {
			k = k[:120] + "…"
		}
		out[k] = e.v
	}
	return out
}

// ParFor runs f(i) for i in [0,n) on w workers (work stealing); stops handing out work once
// the run's deadline has passed (and records the cap).
func (r *Run) ParFor(n, w int, f func(i int)) {
	if w <= 0 {
		w = runtime.NumCPU()
	}
	if w > n {
		w = n
	}
	var next atomic.Int64
	var wg sync.WaitGroup
	for k := 0; k < w; k++ {
		wg.Add(1)
		go func() {
			defer wg.Done()
			for {
				i := int(next.Add(1) - 1)
				if i >= n {
					return
				}
				if r.Expired() {
					r.Cap(fmt.Sprintf("deadline: enumeration stopped at item %d of %d", i, n))
					return
				}
				f(i)
			}
		}()
	}
	wg.Wait()
}

// Try runs f and returns the panic value and stack if it panicked.
func Try(f func()) (pv any, stack string) {
	defer func() {
		if e := recover(); e != nil {
			pv = e
			stack = string(debug.Stack())
		}
	}()
	f()
	return nil, ""
}

// WithTimeout runs f in a goroutine; false means it did not return within d (the goroutine
// is abandoned — callers that see false should treat the process as tainted).
func WithTimeout(d time.Duration, f func()) (ok bool, pv any, stack string) {
	done := make(chan struct{})
	go func() {
		defer close(done)
		pv, stack = Try(f)
	}()
	select {
	case <-done:
		return true, pv, stack
	case <-time.After(d):
		return false, nil, ""
	}
}

// TrimStack keeps the panic site lines of a stack.
func TrimStack(s string) string {
	lines := strings.Split(s, "\n")
	var out []string
	for _, l := range lines {
		if strings.Contains(l, "/repo/") || strings.Contains(l, "blevesearch") {
			out = append(out, strings.TrimSpace(l))
		}
		if len(out) >= 8 {
			break
		}
	}
	return strings.Join(out, " | ")
}

// ScratchDir returns a fresh directory on tmpfs for index files.
func ScratchDir(tag string) string {
	base := "/dev/shm"
	if st, err := os.Stat(base); err != nil || !st.IsDir() {
		base = os.TempDir()
	}
	d, err := os.MkdirTemp(base, "verif-"+tag+"-")
	if err != nil {
		panic(err)
	}
	scratchMu.Lock()
	scratchDirs = append(scratchDirs, d)
	scratchMu.Unlock()
	return d
}

var (
	scratchMu   sync.Mutex
	scratchDirs []string
)

// cleanScratch removes whatever scratch directories are left when the run ends (workers that were
// still busy when the run finished early never reach their own deferred removal).
func cleanScratch() {
	scratchMu.Lock()
	defer scratchMu.Unlock()
	for _, d := range scratchDirs {
		os.RemoveAll(d)
	}
	scratchDirs = nil
}

// Main is the entry point of a per-property check binary.
func Main(prop, level string, run func(*Run)) {
	if os.Getenv("VERIF_LOG") == "" {
		log.SetOutput(io.Discard) // bleve logs expected recoveries through the std logger
	}
	// enumeration is allocation-heavy and short-lived: trade memory for fewer GC cycles
	if os.Getenv("GOGC") == "" {
		debug.SetGCPercent(300)
	}
	debug.SetMemoryLimit(12 << 30)
	if pf := os.Getenv("VERIF_CPUPROFILE"); pf != "" {
		f, _ := os.Create(pf)
		pprof.StartCPUProfile(f)
		AtExit = pprof.StopCPUProfile
	}
	if os.Getenv("VERIF_CHILD") == "" && os.Getenv("VERIF_NO_SUPERVISOR") == "" {
		supervise(prop, level) // does not return
	}
	r := Start(prop, level)
	if pf := os.Getenv("VERIF_PROGRESS_FILE"); pf != "" {
		go func() {
			for {
				time.Sleep(3 * time.Second)
				r.ExportSummary(pf + ".tmp")
				os.Rename(pf+".tmp", pf)
			}
		}()
	}
	run(r)
	if cs := os.Getenv("VERIF_COMPANION_SUMMARY"); cs != "" {
		if err := r.ImportSummary(cs, "companion"); err != nil {
			fmt.Fprintln(os.Stderr, "harness: companion summary unreadable:", err)
			r.Cap("the schedule-exploration companion run left no summary: " + err.Error())
		}
		os.Remove(cs)
	}
	r.Finish()
}

// Summary is what a companion run (a schedule-exploration binary run on behalf of a plain-flavour
// check) hands over: everything it would have put into an evidence file.
type Summary struct {
	Evals       int64            `json:"evaluations"`
	States      int64            `json:"states"`
	Transitions int64            `json:"transitions"`
	Outcomes    map[string]int   `json:"outcomes"`
	Counters    map[string]int64 `json:"counters"`
	Violations  []violation      `json:"violations"`
	Caps        []string         `json:"caps"`
	Notes       map[string]any   `json:"notes"`
	Samples     []any            `json:"samples"`
	Rule        string           `json:"rule"`
	Assumptions []string         `json:"assumptions"`
}

// ExportSummary writes the run's bookkeeping to path (no evidence file, no interface lines).
func (r *Run) ExportSummary(path string) error {
	r.mu.Lock()
	defer r.mu.Unlock()
	s := Summary{Evals: r.evals.Load(), States: r.states.Load(), Transitions: r.transitions.Load(),
		Outcomes: r.outcomes, Counters: r.counters, Caps: r.caps, Notes: r.notes, Samples: r.samples, Rule: r.rule, Assumptions: r.assumptions}
	for _, c := range r.violOrder {
		s.Violations = append(s.Violations, *r.viol[c])
	}
	b, err := json.MarshalIndent(s, "", " ")
	if err != nil {
		return err
	}
	return os.WriteFile(path, b, 0o644)
}

// ImportSummary folds a companion run's summary into this run; tag prefixes its outcome, counter
// and note keys.
func (r *Run) ImportSummary(path, tag string) error {
	b, err := os.ReadFile(path)
	if err != nil {
		return err
	}
	var s Summary
	if err := json.Unmarshal(b, &s); err != nil {
		return err
	}
	r.evals.Add(s.Evals)
	r.states.Add(s.States)
	r.transitions.Add(s.Transitions)
	for k, v := range s.Outcomes {
		for i := 0; i < v; i++ {
			r.Outcome(tag + ":" + k)
			if i >= 0 {
				break
			}
		}
	}
	for k, v := range s.Counters {
		r.Count(tag+":"+k, v)
	}
	for _, v := range s.Violations {
		for i := 0; i < v.Count; i++ {
			r.Violation(v.Class, v.Detail, v.Replay)
			if i >= 0 {
				break
			}
		}
	}
	for _, c := range s.Caps {
		r.Cap(tag + ": " + c)
	}
	for k, v := range s.Notes {
		r.Note(tag+":"+k, v)
	}
	for _, sm := range s.Samples {
		r.Sample(sm)
	}
	if s.Rule != "" {
		r.Note(tag+":rule", s.Rule)
	}
	r.assumptions = append(r.assumptions, s.Assumptions...)
	return nil
}

// ShmBase is the directory for scratch index files: tmpfs when present.
func ShmBase() string {
	if st, err := os.Stat("/dev/shm"); err == nil && st.IsDir() {
		return "/dev/shm"
	}
	return os.TempDir()
}

// supervise runs the check proper in a child process. A panic in a goroutine that the code under
// test started itself (scorch's persister, merger, in-memory merge workers …) cannot be recovered
// by the harness and kills the process: without a supervisor such a crash would end the check
// with neither an evidence file nor a VIOLATION line. The parent passes the child's output
// through; if the child dies of a Go panic / fatal error whose innermost non-runtime frame is not
// harness code, the crash is reported as a violation (class crash:<function>) of the property
// being checked, with whatever bookkeeping the child had checkpointed; a crash inside harness
// code, or a child killed from outside, is a harness problem (exit 3).
func supervise(prop, level string) {
	root := Root()
	os.MkdirAll(filepath.Join(root, ".build"), 0o755)
	progress := filepath.Join(root, ".build", fmt.Sprintf("progress-%s-%d.json", prop, os.Getpid()))
	defer os.Remove(progress)
	cmd := exec.Command(os.Args[0], os.Args[1:]...)
	cmd.Env = append(os.Environ(), "VERIF_CHILD=1", "VERIF_PROGRESS_FILE="+progress)
	cmd.Stdin, cmd.Stdout = os.Stdin, os.Stdout
	cmd.SysProcAttr = &syscall.SysProcAttr{Pdeathsig: syscall.SIGKILL} // the child must not outlive a killed supervisor
	tail := &tailWriter{max: 1 << 20}
	cmd.Stderr = io.MultiWriter(os.Stderr, tail)
	err := cmd.Run()
	if err == nil {
		os.Remove(progress)
		os.Exit(0)
	}
	code := -1
	if ee, ok := err.(*exec.ExitError); ok {
		code = ee.ExitCode()
	}
	msg, top, stack := parseCrash(tail.String())
	if code != 2 || msg == "" {
		// an ordinary verdict (1 = violation, 3 = harness problem) or a death from outside
		os.Remove(progress)
		if code < 0 {
			fmt.Fprintln(os.Stderr, "harness: the check process was killed:", err)
			code = 3
		}
		os.Exit(code)
	}
	if top == "" || strings.HasPrefix(top, "verif/") || strings.HasPrefix(top, "main.") {
		fmt.Fprintf(os.Stderr, "harness: the check process crashed inside harness code (%s): %s\n", top, msg)
		os.Remove(progress)
		os.Exit(3)
	}
	r := Start(prop, level)
	if err := r.ImportSummary(progress, "before-crash"); err != nil {
		r.Cap("the check process crashed before its first bookkeeping checkpoint")
	}
	os.Remove(progress)
	fn := top
	if i := strings.LastIndex(fn, "/"); i >= 0 {
		fn = fn[i+1:]
	}
	r.Rule("the check process was killed by a panic in a goroutine of the code under test; bookkeeping up to the last checkpoint is reported under before-crash:*")
	r.Cap("the exploring process crashed: " + msg + " — exploration incomplete")
	r.Violation("crash:"+fn, fmt.Sprintf("the process running the check died: %s in %s (a goroutine the harness cannot recover: the library crashed its host process while the harness was using the public API)", msg, top),
		map[string]any{"panic": msg, "innermost_frame": top, "stack": stack, "how": "re-run this check; the crash kills the process"})
	r.Finish()
}

type tailWriter struct {
	mu  sync.Mutex
	buf []byte
	max int
}

func (t *tailWriter) Write(p []byte) (int, error) {
	t.mu.Lock()
	defer t.mu.Unlock()
	t.buf = append(t.buf, p...)
	if len(t.buf) > 2*t.max {
		t.buf = append([]byte{}, t.buf[len(t.buf)-t.max:]...)
	}
	return len(p), nil
}
func (t *tailWriter) String() string { t.mu.Lock(); defer t.mu.Unlock(); return string(t.buf) }

// parseCrash finds the last Go panic / fatal error report in stderr text and returns its message,
// the innermost non-runtime function of the crashing goroutine and a trimmed stack.
func parseCrash(s string) (msg, top, stack string) {
	i := strings.LastIndex(s, "\npanic: ")
	if j := strings.LastIndex(s, "\nfatal error: "); j > i {
		i = j
	}
	if i < 0 {
		if strings.HasPrefix(s, "panic: ") || strings.HasPrefix(s, "fatal error: ") {
			i = 0
		} else {
			return "", "", ""
		}
	} else {
		i++
	}
	lines := strings.Split(s[i:], "\n")
	msg = lines[0]
	var keep []string
	inG := false
	for _, l := range lines[1:] {
		if strings.HasPrefix(l, "goroutine ") {
			if inG {
				break // only the crashing goroutine
			}
			inG = true
			continue
		}
		if !inG || l == "" {
			if inG && l == "" {
				break
			}
			continue
		}
		keep = append(keep, l)
		if top == "" && !strings.HasPrefix(l, "\t") && !strings.HasPrefix(l, "panic(") && !strings.HasPrefix(l, "runtime.") && !strings.HasPrefix(l, "runtime/") && !strings.HasPrefix(l, "[") && !strings.HasPrefix(l, "created by ") {
			top = l
			if k := strings.Index(top, "("); k > 0 {
				// strip the argument list, keep "(*T).method"
				if m := strings.LastIndex(top, "("); m > 0 && !strings.HasPrefix(top[m:], "(*") {
					top = top[:m]
				}
			}
		}
	}
	if len(keep) > 40 {
		keep = keep[:40]
	}
	return msg, top, strings.Join(keep, "\n")
}

// Tier returns the tier of this run ("quick" unless VERIF_TIER=thorough).
func Tier() string {
	if os.Getenv("VERIF_TIER") == "thorough" {
		return "thorough"
	}
	return "quick"
}
