package main

import (
	"verif/mc"
	"verif/props/c06"
)

func main() { mc.Main("C06", "model_checking", c06.Run) }
