package vrt

import "reflect"

// pass-through select via reflect (only used when the scheduler is inactive)

type reflCase interface {
	reflectCase() reflect.SelectCase
	fill(v any, ok bool)
}

func (r *RecvC[T]) reflectCase() reflect.SelectCase {
	return reflect.SelectCase{Dir: reflect.SelectRecv, Chan: reflect.ValueOf(r.ch)}
}
func (r *SendC[T]) reflectCase() reflect.SelectCase {
	return reflect.SelectCase{Dir: reflect.SelectSend, Chan: reflect.ValueOf(r.ch), Send: reflect.ValueOf(&r.v).Elem()}
}
func (r *SendC[T]) fill(v any, ok bool) {}

func realSelect(hasDefault bool, cases []Case) int {
	sc := make([]reflect.SelectCase, 0, len(cases)+1)
	for _, c := range cases {
		sc = append(sc, c.(reflCase).reflectCase())
	}
	if hasDefault {
		sc = append(sc, reflect.SelectCase{Dir: reflect.SelectDefault})
	}
	i, v, ok := reflect.Select(sc)
	if hasDefault && i == len(cases) {
		return -1
	}
	if sc[i].Dir == reflect.SelectRecv {
		var x any
		if ok {
			x = v.Interface()
		}
		cases[i].(reflCase).fill(x, ok)
	}
	return i
}
