package main

import (
	"verif/mc"
	"verif/props/c10"
)

func main() { mc.Main("C10", "model_checking", c10.Run) }
