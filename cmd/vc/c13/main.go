package main

import (
	"verif/mc"
	"verif/props/c13"
)

func main() { mc.Main("C13", "model_checking", c13.Run) }
