// Package c15: KV store adapters are ordered maps with atomic batches and snapshot readers.
//
// E1 (explicit-state breadth-first search over operation sequences, real transition function):
// a state is an operation path; every transition creates a fresh instance of the real store,
// replays the path plus one operation, and then compares every observation the KVReader
// interface offers — on a fresh reader and on every reader still open — with a reference
// model (a sorted Go map, kept per open reader as of its creation). States are merged by a
// canonical key made of model-side facts only: per key {never written, last write was a delete,
// value}, plus the multiset of the open readers' snapshot contents. The search structure is
// therefore independent of what the implementation answers, and deterministic.
//
// Batches are built through NewBatch and (moss everywhere, the others in one search) through
// NewBatchEx with keys and values placed in the returned buffer, which is how upsidedown writes.
//
// Violations are classed by store + operation pattern (classify): every per-key discrepancy of
// an observation is named on its own, so compound counterexamples fall apart into their causes.
//
// A supplementary pass compares the upsidedown index over moss with the same index over gtreap.
package c15

import (
	"bytes"
	"fmt"
	"github.com/couchbase/moss"
	"os"
	"path/filepath"
	"sort"
	"strconv"
	"strings"
	"sync"
	"sync/atomic"
	"time"

	"github.com/blevesearch/bleve/v2"
	"github.com/blevesearch/bleve/v2/index/upsidedown"
	_ "github.com/blevesearch/bleve/v2/index/upsidedown/store/boltdb"
	_ "github.com/blevesearch/bleve/v2/index/upsidedown/store/goleveldb"
	_ "github.com/blevesearch/bleve/v2/index/upsidedown/store/gtreap"
	_ "github.com/blevesearch/bleve/v2/index/upsidedown/store/metrics"
	_ "github.com/blevesearch/bleve/v2/index/upsidedown/store/moss"
	"github.com/blevesearch/bleve/v2/registry"
	store "github.com/blevesearch/upsidedown_store_api"

	"verif/gen"
	"verif/mc"
	"verif/ref"
)

// ---------------------------------------------------------------------------------------------
// alphabets

// keys in byte order; the index into this slice identifies a key everywhere below.
var keys = []string{"a", "a\x00", "a\xff", "a\xffb", "b", "\xff"}

const nKeys = 6

var values = []string{"", "1", "2"}

const absentKey = "ab" // never written by any operation

var prefixes = []string{"", "a", "a\xff", "b", "c"}

func keyIndex(k string) int {
	for i, s := range keys {
		if s == k {
			return i
		}
	}
	return -1
}

// entry is one element of a batch.
type entry struct {
	Kind byte // 's' set, 'd' delete, 'm' merge(+1)
	K    int
	V    string
}

func (e entry) String() string {
	switch e.Kind {
	case 's':
		return fmt.Sprintf("set(%q=%q)", keys[e.K], e.V)
	case 'd':
		return fmt.Sprintf("del(%q)", keys[e.K])
	}
	return fmt.Sprintf("merge(%q,+1)", keys[e.K])
}

// op is one operation of a history.
type op struct {
	Kind byte    // 'b' execute batch, 'o' open reader, 'c' close reader
	B    []entry // batch entries
	R    int     // position (in opening order, among the open readers) of the reader to close
}

func (o op) String() string {
	switch o.Kind {
	case 'o':
		return "open-reader"
	case 'c':
		return fmt.Sprintf("close-reader#%d", o.R)
	}
	var ss []string
	for _, e := range o.B {
		ss = append(ss, e.String())
	}
	return "batch[" + strings.Join(ss, " ") + "]"
}

func pathString(p []op) string {
	var ss []string
	for _, o := range p {
		ss = append(ss, o.String())
	}
	return strings.Join(ss, " ; ")
}

func allEntries(vals []string) []entry {
	var es []entry
	for k := range keys {
		for _, v := range vals {
			es = append(es, entry{'s', k, v})
		}
		es = append(es, entry{'d', k, ""}, entry{'m', k, ""})
	}
	return es
}

// pairOK: inside one batch a key has either merges or sets/deletes (mixing is adapter-defined).
func pairOK(x, y entry) bool {
	return x.K != y.K || (x.Kind == 'm') == (y.Kind == 'm')
}

// wideAlphabet: the empty batch, every single entry, and pairs of entries. level 2 = every
// ordered pair; level 1 = every same-key pair plus, for different keys, the pairs given in
// descending key order (the unsorted order; the ascending one is what single-entry batches
// and sorted stores see anyway) over values {"", "1"}; level 0 = like 1 but pairs only
// among sets of "1", deletes and merges.
func wideAlphabet(level int) [][]entry {
	all := allEntries(values)
	out := [][]entry{{}}
	for _, e := range all {
		out = append(out, []entry{e})
	}
	for _, x := range all {
		for _, y := range all {
			if !pairOK(x, y) {
				continue
			}
			if level < 2 && x.K != y.K {
				if x.K < y.K || x.V == "2" || y.V == "2" {
					continue
				}
				if level < 1 && ((x.Kind == 's' && x.V != "1") || (y.Kind == 's' && y.V != "1")) {
					continue
				}
			}
			out = append(out, []entry{x, y})
		}
	}
	return out
}

func s(k, v string) entry { return entry{'s', keyIndex(k), v} }
func d(k string) entry    { return entry{'d', keyIndex(k), ""} }
func m(k string) entry    { return entry{'m', keyIndex(k), ""} }

// deepAlphabet is the reduced batch alphabet of the deep search: chosen so that histories
// collide on the same keys (set / delete / re-create / merge of one key across batches, the
// same key twice in one batch, neighbours around the 0xff boundaries, empty values).
func deepAlphabet(quick bool) [][]entry {
	al := [][]entry{
		{s("a", "1")}, {s("a", "")}, {s("a\xff", "1")}, {s("a\xffb", "2")}, {s("b", "1")}, {s("\xff", "1")},
		{d("a")}, {d("a\xff")}, {d("b")},
		{m("b")},
		{s("a", "1"), s("a", "2")}, {d("a"), s("a", "1")}, {s("a", "1"), d("a")},
		{s("b", "2"), s("a\xff", "")}, {d("a\xff"), s("a\xffb", "1")}, {m("b"), m("b")},
		{m("a"), s("\xff", "")},
	}
	if !quick {
		al = append(al, [][]entry{{s("a\x00", "1")}, {d("\xff")}, {m("a")}, {d("b"), d("\xff")}}...)
	}
	return al
}

// ---------------------------------------------------------------------------------------------
// reference model

// content is the model of a store or of a snapshot: per key "-" (never written), "x" (last
// write was a delete) or "="+value.
type content [nKeys]string

func emptyContent() content {
	var c content
	for i := range c {
		c[i] = "-"
	}
	return c
}

func (c content) apply(b []entry) content {
	var nm [nKeys]int
	for _, e := range b {
		if e.Kind == 'm' {
			nm[e.K]++
		}
	}
	for k, n := range nm {
		if n > 0 {
			old := 0
			if c[k][0] == '=' {
				old, _ = strconv.Atoi(c[k][1:])
			}
			c[k] = "=" + strconv.Itoa(old+n)
		}
	}
	for _, e := range b {
		switch e.Kind {
		case 's':
			c[e.K] = "=" + e.V
		case 'd':
			c[e.K] = "x"
		}
	}
	return c
}

type kv struct{ k, v string }

func (c content) live() []kv {
	var out []kv
	for k, cell := range c {
		if cell[0] == '=' {
			out = append(out, kv{keys[k], cell[1:]})
		}
	}
	return out
}

func (c content) String() string { return strings.Join(c[:], ",") }

func kvString(l []kv) string {
	var ss []string
	for _, e := range l {
		ss = append(ss, fmt.Sprintf("%q=%q", e.k, e.v))
	}
	return "[" + strings.Join(ss, " ") + "]"
}

// counter merge operator handed to the stores: values are decimal counters ("" = 0), every
// operand adds its value. The model does its own arithmetic in content.apply.
type ctrMO struct{}

func num(b []byte) int { n, _ := strconv.Atoi(string(b)); return n }

func (ctrMO) FullMerge(key, existing []byte, operands [][]byte) ([]byte, bool) {
	n := num(existing)
	for _, o := range operands {
		n += num(o)
	}
	return []byte(strconv.Itoa(n)), true
}
func (ctrMO) PartialMerge(key, l, r []byte) ([]byte, bool) {
	return []byte(strconv.Itoa(num(l) + num(r))), true
}
func (ctrMO) Name() string { return "verif-counter" }

// state of the search: path + model.
type rdr struct {
	openedAt int // number of operations executed before the reader was opened
	snap     content
}

type state struct {
	path    []op
	cur     content
	readers []rdr
}

func (st *state) canon() string {
	var rs []string
	for _, r := range st.readers {
		rs = append(rs, r.snap.String())
	}
	sort.Strings(rs)
	return st.cur.String() + "|" + strings.Join(rs, "|")
}

func (st *state) next(o op) *state {
	n := &state{path: append(append(make([]op, 0, len(st.path)+1), st.path...), o), cur: st.cur}
	switch o.Kind {
	case 'b':
		n.cur = st.cur.apply(o.B)
		n.readers = st.readers
	case 'o':
		n.readers = append(append([]rdr{}, st.readers...), rdr{openedAt: len(st.path), snap: st.cur})
	case 'c':
		n.readers = append(append([]rdr{}, st.readers[:o.R]...), st.readers[o.R+1:]...)
	}
	return n
}

// ---------------------------------------------------------------------------------------------
// observations

type obs struct {
	kind    byte // 'g' Get, 'M' MultiGet(all keys + an absent one), 'E' MultiGet(no keys), 'p' PrefixIterator, 'r' RangeIterator
	a, b    string
	aNil    bool
	bNil    bool
	seek    string
	hasSeek bool
	pre     int // number of Next() calls made before the Seek (0 = Seek directly after creation): a re-seek, possibly backwards
}

func (o obs) String() string {
	sk := ""
	if o.hasSeek {
		sk = fmt.Sprintf("%s.Seek(%q)", strings.Repeat(".Next()", o.pre), o.seek)
	}
	bs := func(s string, isNil bool) string {
		if isNil {
			return "nil"
		}
		return fmt.Sprintf("%q", s)
	}
	switch o.kind {
	case 'g':
		return fmt.Sprintf("Get(%q)", o.a)
	case 'M':
		return "MultiGet(all keys, absent key)"
	case 'E':
		return "MultiGet()"
	case 'p':
		return fmt.Sprintf("PrefixIterator(%q)%s", o.a, sk)
	}
	return fmt.Sprintf("RangeIterator(%s,%s)%s", bs(o.a, o.aNil), bs(o.b, o.bNil), sk)
}

func (o obs) kindName() string {
	n := map[byte]string{'g': "get", 'M': "multiget", 'E': "multiget", 'p': "prefix", 'r': "range"}[o.kind]
	if o.hasSeek && o.pre > 0 {
		n += "+reseek"
	} else if o.hasSeek {
		n += "+seek"
	}
	return n
}

// buildObs lists the observations made on every reader. full = every (start,end) pair with every
// Seek; otherwise the degenerate ranges (start ≥ end, always empty) are only iterated plainly.
func buildObs(full bool) []obs {
	var l []obs
	for _, k := range keys {
		l = append(l, obs{kind: 'g', a: k})
	}
	l = append(l, obs{kind: 'g', a: absentKey}, obs{kind: 'M'}, obs{kind: 'E'})
	withSeeks := func(o obs) {
		l = append(l, o)
		for _, k := range keys {
			o2 := o
			o2.hasSeek, o2.seek = true, k
			l = append(l, o2)
		}
	}
	for _, p := range prefixes {
		withSeeks(obs{kind: 'p', a: p})
	}
	bounds := append([]string{"\x00nil"}, keys...)
	for _, st := range bounds {
		for _, en := range bounds {
			o := obs{kind: 'r', a: st, b: en}
			if st == "\x00nil" {
				o.a, o.aNil = "", true
			}
			if en == "\x00nil" {
				o.b, o.bNil = "", true
			}
			if !full && !o.aNil && !o.bNil && o.a >= o.b {
				l = append(l, o)
				continue
			}
			withSeeks(o)
		}
	}
	// re-seeks: the iterator has been advanced once or twice, then Seek to every key — forwards and
	// BACKWARDS (upsidedown's doc-id reader re-seeks backwards); the answer is the same as for a Seek
	// made directly after creation
	for pre := 1; pre <= 2; pre++ {
		for _, k := range keys {
			l = append(l, obs{kind: 'r', aNil: true, bNil: true, hasSeek: true, seek: k, pre: pre})
			for _, p := range []string{"", "a"} {
				l = append(l, obs{kind: 'p', a: p, hasSeek: true, seek: k, pre: pre})
			}
		}
	}
	return l
}

// expect is the reference answer of an observation on a model content.
func expect(o obs, c content) []kv {
	var out []kv
	for _, e := range c.live() {
		switch o.kind {
		case 'g':
			if e.k != o.a {
				continue
			}
		case 'E':
			continue
		case 'p':
			if !strings.HasPrefix(e.k, o.a) {
				continue
			}
		case 'r':
			if (!o.aNil && e.k < o.a) || (!o.bNil && e.k >= o.b) {
				continue
			}
		}
		if o.hasSeek && e.k < o.seek {
			continue
		}
		out = append(out, e)
	}
	return out
}

const maxIter = 24 // more entries than any reachable store holds: an iteration that long does not end

// observe runs one observation on a real reader. special names a failure that is not a
// got/want difference (error, nil iterator, Current() disagreeing, endless iteration, ...).
func observe(rd store.KVReader, o obs) (got []kv, special string) {
	nb := func(s string, isNil bool) []byte {
		if isNil {
			return nil
		}
		return []byte(s)
	}
	switch o.kind {
	case 'g':
		v, err := rd.Get([]byte(o.a))
		if err != nil {
			return nil, "error: " + err.Error()
		}
		if v != nil {
			got = append(got, kv{o.a, string(v)})
		}
		return got, ""
	case 'M', 'E':
		var ks [][]byte
		if o.kind == 'M' {
			for _, k := range keys {
				ks = append(ks, []byte(k))
			}
			ks = append(ks, []byte(absentKey))
		}
		vs, err := rd.MultiGet(ks)
		if err != nil {
			return nil, "error: " + err.Error()
		}
		if len(vs) != len(ks) {
			return nil, fmt.Sprintf("wrong-length: %d values for %d keys", len(vs), len(ks))
		}
		for i, v := range vs {
			if v != nil {
				got = append(got, kv{string(ks[i]), string(v)})
			}
		}
		return got, ""
	}
	var it store.KVIterator
	if o.kind == 'p' {
		it = rd.PrefixIterator([]byte(o.a))
	} else {
		it = rd.RangeIterator(nb(o.a, o.aNil), nb(o.b, o.bNil))
	}
	if it == nil {
		return nil, "nil-iterator"
	}
	if o.hasSeek {
		for n := 0; n < o.pre && it.Valid(); n++ {
			it.Next()
		}
		it.Seek([]byte(o.seek))
	}
	for n := 0; it.Valid(); n++ {
		if n >= maxIter {
			special = "iteration-does-not-end"
			break
		}
		k, v := it.Key(), it.Value()
		ck, cv, ok := it.Current()
		if special == "" && (!ok || !bytes.Equal(ck, k) || !bytes.Equal(cv, v)) {
			special = fmt.Sprintf("current-disagrees: Current()=(%q,%q,%v) Key()=%q Value()=%q Valid()=true", ck, cv, ok, k, v)
		}
		got = append(got, kv{string(k), string(v)})
		it.Next()
	}
	if special == "" {
		if _, _, ok := it.Current(); ok {
			special = "current-disagrees: Current() valid while Valid()=false"
		}
	}
	if err := it.Close(); err != nil && special == "" {
		special = "error: iterator Close: " + err.Error()
	}
	return got, special
}

func sameKVs(a, b []kv) bool {
	if len(a) != len(b) {
		return false
	}
	for i := range a {
		if a[i] != b[i] {
			return false
		}
	}
	return true
}

// ---------------------------------------------------------------------------------------------
// classifier: a pure function of (store, history visible to the reader, observation, got, want)

type finding struct {
	class  string
	detail string
	replay map[string]any
}

// dupKeys: keys that some batch among ops wrote twice with set/delete entries.
func dupKeys(ops []op) (dup [nKeys]bool, any bool) {
	for _, o := range ops {
		if o.Kind != 'b' {
			continue
		}
		var n [nKeys]int
		for _, e := range o.B {
			if e.Kind != 'm' {
				n[e.K]++
				if n[e.K] > 1 {
					dup[e.K], any = true, true
				}
			}
		}
	}
	return
}

func panicSite(stack string) string {
	for _, l := range strings.Split(stack, "\n") {
		l = strings.TrimSpace(l)
		if (strings.HasPrefix(l, "github.com/") || strings.HasPrefix(l, "go.etcd.io/")) && strings.Contains(l, "(") && !strings.Contains(l, "verif/") {
			l = l[:strings.LastIndex(l, "(")]
			l = strings.TrimPrefix(l, "github.com/blevesearch/bleve/v2/index/upsidedown/store/")
			l = strings.TrimPrefix(l, "github.com/blevesearch/")
			l = strings.TrimPrefix(l, "github.com/")
			return l
		}
	}
	return "unknown"
}

// classify names the failing (store, operation pattern). A got/want difference is taken apart
// into per-key discrepancies (surplus key, missing key, wrong value, order) and each one is
// named on its own, so that an observation hit by two root causes is reported under both and a
// discrepancy none of the structural rules explains keeps a class of its own.
//
//	view    = the operations visible to the reader (all of them for a fresh reader)
//	snap    = model content the reader must show; cur = model content of the store now
func classify(sname string, view []op, held bool, snap, cur content, o obs, got, want []kv, special string) []string {
	if special != "" {
		w := special
		if i := strings.Index(w, ":"); i >= 0 {
			w = w[:i]
		}
		return []string{fmt.Sprintf("%s:%s:%s", sname, o.kindName(), w)}
	}
	var out []string
	add := func(c string) {
		for _, x := range out {
			if x == c {
				return
			}
		}
		out = append(out, c)
	}
	generic := func(what string) { add(fmt.Sprintf("%s:%s:%s", sname, o.kindName(), what)) }
	dup, _ := dupKeys(view) // keys written twice by set/delete entries of one visible batch
	isDup := func(k string) bool { i := keyIndex(k); return i >= 0 && dup[i] }
	wantM := map[string]string{}
	for _, e := range want {
		wantM[e.k] = e.v
	}
	gotM := map[string]bool{}
	for i, e := range got {
		if i > 0 && got[i-1].k >= e.k {
			if isDup(e.k) || isDup(got[i-1].k) {
				add(sname + ":dup-key-in-batch")
			} else {
				generic("order")
			}
		}
		gotM[e.k] = true
		w, ok := wantM[e.k]
		ki := keyIndex(e.k)
		switch {
		case ok && w == e.v:
		case isDup(e.k):
			add(sname + ":dup-key-in-batch")
		case ok:
			generic("wrong-value")
		// surplus keys
		case o.kind == 'p' && strings.HasSuffix(o.a, "\xff") && e.k > o.a && !strings.HasPrefix(e.k, o.a) && ki >= 0 && snap[ki][0] == '=':
			add(sname + ":prefix-ending-0xff") // a live key beyond the range of a prefix that ends in 0xff
		case o.hasSeek && ki >= 0 && snap[ki] == "x":
			add(sname + ":seek-onto-deleted") // Seek surfaces a key whose last visible write is a delete
		case ki < 0:
			generic("extra:unknown-key")
		case snap[ki] == "x":
			generic("extra:deleted-key")
		case snap[ki] == "-":
			generic("extra:never-written-key")
		case o.hasSeek && e.k < o.seek:
			generic("extra:key-before-seek-target")
		default:
			generic("extra:key-outside-bounds")
		}
	}
	for _, e := range want {
		switch {
		case gotM[e.k]:
		case isDup(e.k):
			add(sname + ":dup-key-in-batch")
		case e.v == "":
			generic("missing:empty-value")
		default:
			generic("missing")
		}
	}
	if len(out) == 0 {
		generic("differs")
	}
	// a held reader that shows exactly what a fresh reader should show now, and whose
	// discrepancies have no structural explanation above: the snapshot follows the live store
	if held && snap != cur && sameKVs(got, expect(o, cur)) {
		explained := false
		for _, c := range out {
			if c == sname+":dup-key-in-batch" || c == sname+":prefix-ending-0xff" || c == sname+":seek-onto-deleted" {
				explained = true
			}
		}
		if !explained {
			return []string{sname + ":snapshot-shows-later-writes"}
		}
	}
	return out
}

// ---------------------------------------------------------------------------------------------
// real stores

var settleMissed atomic.Int64

// mossSettle waits (bounded) until the moss collection behind st has completed one more
// lower-level update than *seen; it only steers the driver: a missed wait is counted, not judged.
func mossSettle(st store.KVStore, seen *uint64) bool {
	mc, ok := st.(interface{ Collection() moss.Collection })
	if !ok {
		return false
	}
	deadline := time.Now().Add(3 * time.Second)
	for {
		s, err := mc.Collection().Stats()
		if err == nil && s.TotPersisterLowerLevelUpdateEnd > *seen {
			*seen = s.TotPersisterLowerLevelUpdateEnd
			return true
		}
		if time.Now().After(deadline) {
			return false
		}
		time.Sleep(200 * time.Microsecond)
	}
}

type storeCfg struct {
	name string
	ctor string
	disk bool
	cfg  func(dir string) map[string]interface{}
	// settle: after every batch wait until moss' background persister has handed the batch to the
	// lower-level store (completion counter of the collection), so that reads are served from there
	settle bool
	// fam: class prefix of content deviations (default: name); the moss variants share "moss", so
	// that moss' known, timing dependent deviations are recognised whichever variant meets them
	fam string
	// ex: batches are created with NewBatchEx and every key and value is placed in the buffer it
	// returns, the way upsidedown's batchRows does (a separate code path in the moss adapter)
	ex bool
}

const exSuffix = "+NewBatchEx"

func (sc storeCfg) family() string {
	if sc.fam != "" {
		return sc.fam
	}
	return sc.name
}

func (sc storeCfg) label() string {
	if sc.ex {
		return sc.name + exSuffix
	}
	return sc.name
}

// newBatch fills a batch with the entries, through NewBatch or through NewBatchEx.
func newBatch(w store.KVWriter, es []entry, ex bool) (store.KVBatch, error) {
	if !ex {
		b := w.NewBatch()
		if b == nil {
			return nil, fmt.Errorf("NewBatch returned nil")
		}
		for _, e := range es {
			switch e.Kind {
			case 's':
				b.Set([]byte(keys[e.K]), []byte(e.V))
			case 'd':
				b.Delete([]byte(keys[e.K]))
			case 'm':
				b.Merge([]byte(keys[e.K]), []byte("1"))
			}
		}
		return b, nil
	}
	var o store.KVBatchOptions
	for _, e := range es {
		switch e.Kind {
		case 's':
			o.NumSets++
			o.TotalBytes += len(keys[e.K]) + len(e.V)
		case 'd':
			o.NumDeletes++
			o.TotalBytes += len(keys[e.K])
		case 'm':
			o.NumMerges++
			o.TotalBytes += 2 * (len(keys[e.K]) + 1) // as upsidedown: the adapter may copy merge operands into the buffer again
		}
	}
	buf, b, err := w.NewBatchEx(o)
	if err != nil {
		return nil, err
	}
	if b == nil {
		return nil, fmt.Errorf("NewBatchEx returned a nil batch")
	}
	if len(buf) < o.TotalBytes {
		return nil, fmt.Errorf("NewBatchEx returned %d bytes, %d requested", len(buf), o.TotalBytes)
	}
	put := func(x string) []byte {
		n := copy(buf, x)
		r := buf[:n] // capacity must reach the end of the buffer: moss locates the key by cap()
		buf = buf[n:]
		return r
	}
	for _, e := range es {
		switch e.Kind {
		case 's':
			k := put(keys[e.K])
			b.Set(k, put(e.V))
		case 'd':
			b.Delete(put(keys[e.K]))
		case 'm':
			k := put(keys[e.K])
			b.Merge(k, put("1"))
		}
	}
	return b, nil
}

const boltMmap = 16 << 20

// goleveldb allocates (and zeroes) its write buffer on every open; the default 4 MiB would
// dominate the cost of a transition, and no history here writes more than a few hundred bytes.
const ldbWriteBuffer = 64 << 10

var stores = []storeCfg{
	{name: "gtreap", ctor: "gtreap", cfg: func(string) map[string]interface{} { return map[string]interface{}{"path": ""} }},
	{name: "moss", ctor: "moss", cfg: func(string) map[string]interface{} { return map[string]interface{}{} }},
	{name: "moss-over-gtreap(maxbatch2)", ctor: "moss", settle: true, fam: "moss", cfg: func(string) map[string]interface{} {
		return map[string]interface{}{"path": "", "mossLowerLevelStoreName": "gtreap", "mossLowerLevelMaxBatchSize": float64(2)}
	}},
	{name: "metrics(gtreap)", ctor: "metrics", cfg: func(string) map[string]interface{} {
		return map[string]interface{}{"kvStoreName_actual": "gtreap", "path": ""}
	}},
	{name: "boltdb", ctor: "boltdb", disk: true, cfg: func(dir string) map[string]interface{} {
		return map[string]interface{}{"path": filepath.Join(dir, "s.bolt"), "initialMmapSize": boltMmap}
	}},
	{name: "goleveldb", ctor: "goleveldb", disk: true, cfg: func(dir string) map[string]interface{} {
		return map[string]interface{}{"path": filepath.Join(dir, "s.ldb"), "create_if_missing": true, "write_buffer_size": float64(ldbWriteBuffer)}
	}},
	{name: "metrics(boltdb)", ctor: "metrics", disk: true, cfg: func(dir string) map[string]interface{} {
		return map[string]interface{}{"kvStoreName_actual": "boltdb", "path": filepath.Join(dir, "s.bolt"), "initialMmapSize": boltMmap}
	}},
}

// watchdog bookkeeping: every execution registers itself; a monitor ends the run if one hangs.
type flight struct {
	start time.Time
	sname string
	path  []op
	phase atomic.Pointer[string] // the store call in progress
}

type checker struct {
	r        *mc.Run
	obsList  []obs
	root     string
	seq      atomic.Int64
	mu       sync.Mutex
	inflight map[int64]*flight
}

const hangAfter = 20 * time.Second

func (c *checker) monitor() {
	for {
		time.Sleep(250 * time.Millisecond)
		c.mu.Lock()
		var hung *flight
		for _, f := range c.inflight {
			if time.Since(f.start) > hangAfter {
				hung = f
				break
			}
		}
		c.mu.Unlock()
		if hung != nil {
			held := 0
			for _, o := range hung.path {
				switch o.Kind {
				case 'o':
					held++
				case 'c':
					held--
				}
			}
			pat := "unknown"
			if p := hung.phase.Load(); p != nil {
				pat = *p
			}
			if held > 0 {
				pat += "+reader-open"
			}
			c.r.Violation(fmt.Sprintf("%s:does-not-return:%s", strings.TrimSuffix(hung.sname, exSuffix), pat),
				fmt.Sprintf("%s: history %s did not complete within %v (blocked in: %s)", hung.sname, pathString(hung.path), hangAfter, pat),
				replayOf(hung.sname, hung.path, "", obs{}, nil, nil))
			c.r.Cap("a store call did not return; run ended by the watchdog")
			os.RemoveAll(c.root)
			c.r.Finish()
		}
	}
}

func replayOf(sname string, path []op, reader string, o obs, got, want []kv) map[string]any {
	var ops []string
	for _, p := range path {
		ops = append(ops, p.String())
	}
	rp := map[string]any{"store": sname, "merge_operator": "decimal counter (+operand)", "ops": ops, "go": goSnippet(sname, path, reader, o)}
	if reader != "" {
		rp["reader"] = reader
		rp["observation"] = o.String()
		rp["got"] = kvString(got)
		rp["want"] = kvString(want)
	}
	return rp
}

// goSnippet renders the counterexample as Go statements against the public store API.
func goSnippet(sname string, path []op, reader string, o obs) string {
	var b strings.Builder
	sc := storeCfg{}
	for _, c := range stores {
		if c.name == strings.TrimSuffix(sname, exSuffix) {
			sc = c
		}
	}
	if sc.cfg == nil {
		return ""
	}
	b.WriteString("// counterMergeOperator: store.MergeOperator whose FullMerge/PartialMerge add decimal counters (\"\" = 0)\n")
	fmt.Fprintf(&b, "s, _ := registry.KVStoreConstructorByName(%q)(counterMergeOperator{}, %#v)\n", sc.ctor, sc.cfg("DIR"))
	b.WriteString("w, _ := s.Writer()\n")
	if strings.HasSuffix(sname, exSuffix) {
		b.WriteString("// every batch below is created with w.NewBatchEx(KVBatchOptions{TotalBytes, NumSets, NumDeletes, NumMerges}) and all keys/values are sub-slices of the buffer it returns (TotalBytes counts merge operands twice, as upsidedown.batchRows does)\n")
	}
	n := 0
	var open []string
	for pi, p := range path {
		switch p.Kind {
		case 'b':
			bn := fmt.Sprintf("b%d", pi)
			fmt.Fprintf(&b, "%s := w.NewBatch(); ", bn)
			for _, e := range p.B {
				switch e.Kind {
				case 's':
					fmt.Fprintf(&b, "%s.Set([]byte(%q), []byte(%q)); ", bn, keys[e.K], e.V)
				case 'd':
					fmt.Fprintf(&b, "%s.Delete([]byte(%q)); ", bn, keys[e.K])
				case 'm':
					fmt.Fprintf(&b, "%s.Merge([]byte(%q), []byte(\"1\")); ", bn, keys[e.K])
				}
			}
			fmt.Fprintf(&b, "_ = w.ExecuteBatch(%s); _ = %s.Close()\n", bn, bn)
		case 'o':
			nm := fmt.Sprintf("r%d", n)
			n++
			open = append(open, nm)
			fmt.Fprintf(&b, "%s, _ := s.Reader()\n", nm)
		case 'c':
			fmt.Fprintf(&b, "_ = %s.Close()\n", open[p.R])
			open = append(open[:p.R:p.R], open[p.R+1:]...)
		}
	}
	if reader != "" {
		rn := "fresh"
		if strings.HasPrefix(reader, "held#") {
			i, _ := strconv.Atoi(reader[5:])
			if i < len(open) {
				rn = open[i]
			}
		} else {
			b.WriteString("fresh, _ := s.Reader()\n")
		}
		fmt.Fprintf(&b, "// observe: %s.%s\n", rn, o.String())
	}
	return b.String()
}

type execResult struct {
	findings []finding
	outcome  string
	nReaders int
	counts   map[string]int64
}

// exec replays path on a fresh store instance and checks all observations after its last step.
func (c *checker) exec(sc storeCfg, path []op) (res execResult) {
	id := c.seq.Add(1)
	fl := &flight{start: time.Now(), sname: sc.label(), path: path}
	c.mu.Lock()
	c.inflight[id] = fl
	c.mu.Unlock()
	defer func() {
		c.mu.Lock()
		delete(c.inflight, id)
		c.mu.Unlock()
	}()
	res.counts = map[string]int64{}
	seen := map[string]bool{}
	add := func(class, detail string, rp map[string]any) {
		if !seen[class] {
			seen[class] = true
			res.findings = append(res.findings, finding{class, detail, rp})
		}
	}
	dir := ""
	if sc.disk {
		dir = filepath.Join(c.root, strconv.FormatInt(id, 10))
		if err := os.MkdirAll(dir, 0o755); err != nil {
			panic(err)
		}
		defer os.RemoveAll(dir)
	}
	opName := ""
	phase := func(n string) { opName = n; fl.phase.Store(&n) }
	phase("construct")
	var st store.KVStore
	var w store.KVWriter
	var persisted uint64
	type openRdr struct {
		rd       store.KVReader
		openedAt int
		snap     content
	}
	var open []openRdr
	cur := emptyContent()
	pv, stack := mc.Try(func() {
		var err error
		st, err = registry.KVStoreConstructorByName(sc.ctor)(ctrMO{}, sc.cfg(dir))
		if err != nil {
			add(sc.name+":error:construct", fmt.Sprintf("%s: constructor: %v", sc.label(), err), replayOf(sc.label(), nil, "", obs{}, nil, nil))
			st = nil
			return
		}
		phase("writer")
		w, err = st.Writer()
		if err != nil {
			add(sc.name+":error:writer", fmt.Sprintf("%s: Writer(): %v", sc.label(), err), replayOf(sc.label(), nil, "", obs{}, nil, nil))
			return
		}
		for i, o := range path {
			switch o.Kind {
			case 'b':
				phase("batch")
				b, err := newBatch(w, o.B, sc.ex)
				if err != nil {
					add(sc.name+":error:new-batch", fmt.Sprintf("%s: after %s: %v", sc.label(), pathString(path[:i+1]), err), replayOf(sc.label(), path[:i+1], "", obs{}, nil, nil))
					return
				}
				if err := w.ExecuteBatch(b); err != nil {
					add(sc.name+":error:execute-batch", fmt.Sprintf("%s: after %s: ExecuteBatch: %v", sc.label(), pathString(path[:i+1]), err), replayOf(sc.label(), path[:i+1], "", obs{}, nil, nil))
				}
				_ = b.Close()
				cur = cur.apply(o.B)
				if sc.settle {
					if !mossSettle(st, &persisted) {
						settleMissed.Add(1)
					}
				}
			case 'o':
				phase("open-reader")
				rd, err := st.Reader()
				if err != nil {
					add(sc.name+":error:open-reader", fmt.Sprintf("%s: after %s: Reader(): %v", sc.label(), pathString(path[:i+1]), err), replayOf(sc.label(), path[:i+1], "", obs{}, nil, nil))
					return
				}
				open = append(open, openRdr{rd, i, cur})
			case 'c':
				phase("close-reader")
				if err := open[o.R].rd.Close(); err != nil {
					add(sc.name+":error:close-reader", fmt.Sprintf("%s: after %s: reader Close: %v", sc.label(), pathString(path[:i+1]), err), replayOf(sc.label(), path[:i+1], "", obs{}, nil, nil))
				}
				open = append(open[:o.R:o.R], open[o.R+1:]...)
			}
		}
		// observations: a fresh reader, then every reader still open
		verify := func(rd store.KVReader, tag string, view []op, snap content) {
			res.nReaders++
			held := tag != "fresh"
			for _, o := range c.obsList {
				want := expect(o, snap)
				var got []kv
				var special string
				pv, stack := mc.Try(func() { got, special = observe(rd, o) })
				if pv != nil {
					site := panicSite(stack)
					cls := fmt.Sprintf("%s:%s:panic@%s", sc.name, o.kindName(), site)
					if strings.HasPrefix(site, "upsidedown_store_api.") {
						cls = fmt.Sprintf("store_api:%s:panic@%s", o.kindName(), site) // shared helper, same for every adapter
					}
					add(cls, fmt.Sprintf("%s: after %s: %s reader: %s panics: %v @ %s", sc.label(), pathString(path), tag, o, pv, mc.TrimStack(stack)), replayOf(sc.label(), path, tag, o, nil, want))
					continue
				}
				if special == "" && sameKVs(got, want) {
					continue
				}
				det := fmt.Sprintf("%s: after %s: %s reader: %s = %s, want %s", sc.label(), pathString(path), tag, o, kvString(got), kvString(want))
				if special != "" {
					det += " (" + special + ")"
				}
				for _, cls := range classify(sc.family(), view, held, snap, cur, o, got, want, special) {
					add(cls, det, replayOf(sc.label(), path, tag, o, got, want))
				}
			}
		}
		phase("observe")
		fr, err := st.Reader()
		if err != nil {
			add(sc.name+":error:open-reader", fmt.Sprintf("%s: after %s: Reader(): %v", sc.label(), pathString(path), err), replayOf(sc.label(), path, "", obs{}, nil, nil))
		} else {
			verify(fr, "fresh", path, cur)
			if err := fr.Close(); err != nil {
				add(sc.name+":error:close-reader", fmt.Sprintf("%s: after %s: fresh reader Close: %v", sc.label(), pathString(path), err), replayOf(sc.label(), path, "", obs{}, nil, nil))
			}
		}
		for i, or := range open {
			verify(or.rd, fmt.Sprintf("held#%d", i), path[:or.openedAt], or.snap)
		}
	})
	if pv != nil {
		add(fmt.Sprintf("%s:%s:panic@%s", sc.name, opName, panicSite(stack)), fmt.Sprintf("%s: history %s: %s panics: %v @ %s", sc.label(), pathString(path), opName, pv, mc.TrimStack(stack)), replayOf(sc.label(), path, "", obs{}, nil, nil))
	}
	// teardown: readers first (bbolt's Close waits for open read transactions)
	pv, stack = mc.Try(func() {
		phase("teardown:close-readers")
		for _, or := range open {
			_ = or.rd.Close()
		}
		if w != nil {
			_ = w.Close()
		}
		phase("teardown:close-store")
		if st != nil {
			if err := st.Close(); err != nil {
				add(sc.name+":error:close-store", fmt.Sprintf("%s: history %s: store Close: %v", sc.label(), pathString(path), err), replayOf(sc.label(), path, "", obs{}, nil, nil))
			}
		}
	})
	if pv != nil {
		add(fmt.Sprintf("%s:close:panic@%s", sc.name, panicSite(stack)), fmt.Sprintf("%s: history %s: teardown panics: %v @ %s", sc.label(), pathString(path), pv, mc.TrimStack(stack)), replayOf(sc.label(), path, "", obs{}, nil, nil))
	}
	// vacuity bookkeeping (model side)
	stale := 0
	for _, or := range open {
		if or.snap != cur {
			stale++
		}
	}
	res.outcome = fmt.Sprintf("live=%d|open=%d|stale=%d", len(cur.live()), len(open), stale)
	if stale > 0 {
		res.counts["transitions_with_reader_behind_later_writes"]++
	}
	if cur[keyIndex("b")][0] == '=' {
		res.counts["transitions_prefix_a_ff_with_key_b_present"]++
	}
	if _, any := dupKeys(path); any {
		res.counts["transitions_same_key_twice_in_a_batch"]++
	}
	tomb, empty, merged := false, false, false
	for k, cell := range cur {
		if cell == "x" {
			for j := k + 1; j < nKeys; j++ {
				if cur[j][0] == '=' {
					tomb = true
				}
			}
		}
		if cell == "=" {
			empty = true
		}
	}
	seenKey := [nKeys]bool{}
	for _, o := range path {
		for _, e := range o.B {
			if e.Kind == 'm' && seenKey[e.K] {
				merged = true
			}
		}
		for _, e := range o.B {
			seenKey[e.K] = true
		}
	}
	if tomb {
		res.counts["transitions_deleted_key_followed_by_live_key"]++
	}
	if empty {
		res.counts["transitions_with_empty_value_present"]++
	}
	if merged {
		res.counts["transitions_merge_onto_key_written_by_earlier_batch"]++
	}
	return res
}

// ---------------------------------------------------------------------------------------------
// search

type scenario struct {
	name         string
	alphabet     [][]entry
	depth        int
	wrapperDepth int // depth for the metrics wrapper (pure delegation; its inner stores are searched to the full depth)
	maxOpen      int
}

func (c *checker) bfs(sc storeCfg, sn scenario) {
	r := c.r
	dump := os.Getenv("VERIF_C15_DUMP") // debugging aid: print every finding whose class contains this text
	t0 := time.Now()
	defer func() {
		r.Note(fmt.Sprintf("wall_s:%s:%s", sn.name, sc.label()), fmt.Sprintf("%.1f", time.Since(t0).Seconds()))
	}()
	init := &state{cur: emptyContent()}
	seen := map[string]bool{init.canon(): true}
	r.State(1)
	frontier := []*state{init}
	workers := 16
	if sc.disk {
		workers = 8
	}
	depth := sn.depth
	if sc.ctor == "metrics" {
		depth = sn.wrapperDepth
	}
	for level := 1; level <= depth && len(frontier) > 0; level++ {
		type tr struct {
			from *state
			o    op
		}
		var trs []tr
		for _, st := range frontier {
			for _, b := range sn.alphabet {
				trs = append(trs, tr{st, op{Kind: 'b', B: b}})
			}
			if len(st.readers) < sn.maxOpen {
				trs = append(trs, tr{st, op{Kind: 'o'}})
			}
			for i := range st.readers {
				trs = append(trs, tr{st, op{Kind: 'c', R: i}})
			}
		}
		results := make([]*execResult, len(trs))
		r.ParFor(len(trs), workers, func(i int) {
			nxt := trs[i].from.next(trs[i].o)
			res := c.exec(sc, nxt.path)
			results[i] = &res
			r.Transition(1)
			r.Eval(res.nReaders)
		})
		var next []*state
		tot := map[string]int64{}
		outc := map[string]int{}
		done := 0
		for i, res := range results {
			if res == nil {
				continue // deadline
			}
			done++
			for _, f := range res.findings {
				r.Violation(f.class, f.detail, f.replay)
				if dump != "" && strings.Contains(f.class, dump) {
					fmt.Fprintln(os.Stderr, "dump:", f.class, "::", f.detail)
				}
			}
			outc[res.outcome]++
			for k, v := range res.counts {
				tot[k] += v
			}
			nxt := trs[i].from.next(trs[i].o)
			if k := nxt.canon(); !seen[k] {
				seen[k] = true
				r.State(1)
				next = append(next, nxt)
			}
		}
		for k, n := range outc {
			for j := 0; j < n; j++ {
				r.Outcome(k)
			}
		}
		for k, v := range tot {
			r.Count(k, v)
		}
		r.Count(fmt.Sprintf("transitions:%s:%s", sn.name, sc.label()), int64(done))
		if done < len(trs) {
			r.Cap(fmt.Sprintf("%s/%s: level %d of %d incomplete (%d of %d transitions)", sc.label(), sn.name, level, depth, done, len(trs)))
			return
		}
		r.Note(fmt.Sprintf("completed:%s:%s", sn.name, sc.label()), fmt.Sprintf("depth %d", level))
		frontier = next
	}
}

// ---------------------------------------------------------------------------------------------
// supplementary: the upsidedown index over moss against the same index over gtreap

// indexOverMoss builds the same document history (every document of the shared alphabet in its
// own batch, then deletions in later batches, optionally one re-index) on upsidedown/moss and
// on upsidedown/gtreap and requires identical hit sets for the whole query family, and that no
// deleted document is ever returned. It shows whether the moss deviations reported above reach
// search results.
func (c *checker) indexOverMoss() {
	r := c.r
	ls := gen.Leaves()
	qs := append([]*ref.Q{}, ls...)
	red := gen.Reduced(ls, 5)
	for _, a := range red {
		for _, b := range red {
			qs = append(qs,
				&ref.Q{Kind: "conj", Subs: []*ref.Q{a, b}},
				&ref.Q{Kind: "disj", Subs: []*ref.Q{a, b}, DMin: 1},
				&ref.Q{Kind: "boolean", Must: []*ref.Q{a}, MustNot: []*ref.Q{b}},
				&ref.Q{Kind: "boolean", Must: []*ref.Q{a}, Filter: []*ref.Q{b}})
		}
	}
	n := len(gen.DocAlphabet)
	type script struct {
		del     []int
		reindex bool
	}
	scripts := []script{{del: []int{2, 4, 7}}, {del: []int{2, 4, 7}, reindex: true}, {del: []int{0}}, {del: []int{n - 1, 0}}}
	if !r.Quick() {
		for _, sub := range gen.Subsets(n, 2) {
			scripts = append(scripts, script{del: sub})
			if len(sub) == 1 {
				scripts = append(scripts, script{del: sub, reindex: true})
			}
		}
		all := script{}
		for i := 0; i < n; i++ {
			all.del = append(all.del, i)
		}
		scripts = append(scripts, all)
	}
	r.Note("index_over_moss", fmt.Sprintf("%d delete scripts × %d queries", len(scripts), len(qs)))
	r.ParFor(len(scripts), 0, func(si int) {
		sc := scripts[si]
		fid := c.seq.Add(1)
		fl := &flight{start: time.Now(), sname: "index-over-moss"}
		ph := "build-or-search"
		fl.phase.Store(&ph)
		c.mu.Lock()
		c.inflight[fid] = fl
		c.mu.Unlock()
		defer func() {
			c.mu.Lock()
			delete(c.inflight, fid)
			c.mu.Unlock()
		}()
		build := func(kv string) bleve.Index {
			idx, err := bleve.NewUsing("", gen.TextMapping(), upsidedown.Name, kv, nil)
			if err != nil {
				panic(err)
			}
			for i, d := range gen.DocAlphabet {
				if err := idx.Index(gen.DocID(i), d); err != nil {
					panic(err)
				}
			}
			for _, i := range sc.del {
				if err := idx.Delete(gen.DocID(i)); err != nil {
					panic(err)
				}
			}
			if sc.reindex {
				i := sc.del[len(sc.del)-1]
				if err := idx.Index(gen.DocID(i), gen.DocAlphabet[i]); err != nil {
					panic(err)
				}
			}
			return idx
		}
		deleted := map[string]bool{}
		for k, i := range sc.del {
			if !(sc.reindex && k == len(sc.del)-1) {
				deleted[gen.DocID(i)] = true
			}
		}
		rep := func(q *ref.Q) map[string]any {
			return map[string]any{"index": "upsidedown", "kvstore": "moss", "history": fmt.Sprintf("index d0..d%d one per batch; delete %v one per batch; reindex last deleted: %v", n-1, sc.del, sc.reindex), "query": q.String()}
		}
		var im, ig bleve.Index
		if pv, st := mc.Try(func() { im, ig = build("moss"), build("gtreap") }); pv != nil {
			r.Violation("index-over-moss:build-panics", fmt.Sprintf("%v: %v @ %s", rep(&ref.Q{Kind: "all"}), pv, mc.TrimStack(st)), rep(&ref.Q{Kind: "all"}))
			return
		}
		defer im.Close()
		defer ig.Close()
		for _, q := range qs {
			c.mu.Lock()
			fl.start = time.Now() // the watchdog bounds one query, not the script
			c.mu.Unlock()
			ids := func(idx bleve.Index) (map[string]bool, uint64, error) {
				req := bleve.NewSearchRequest(ref.ToBleve(q))
				req.Size = n + 3
				res, err := idx.Search(req)
				if err != nil {
					return nil, 0, err
				}
				got := map[string]bool{}
				for _, h := range res.Hits {
					got[h.ID] = true
				}
				return got, res.Total, nil
			}
			var gm, gg map[string]bool
			var tm, tg uint64
			var em, eg error
			pv, st := mc.Try(func() { gm, tm, em = ids(im); gg, tg, eg = ids(ig) })
			r.Eval(1)
			if pv != nil {
				r.Violation("index-over-moss:search-panics", fmt.Sprintf("%v: %v @ %s", rep(q), pv, mc.TrimStack(st)), rep(q))
				continue
			}
			if (em != nil) != (eg != nil) {
				r.Violation("index-over-moss:error-differs-from-gtreap", fmt.Sprintf("%v: moss err=%v gtreap err=%v", rep(q), em, eg), rep(q))
				continue
			}
			if em != nil {
				r.Outcome("index|" + q.Kind + "|error")
				continue
			}
			for id := range gm {
				if deleted[id] {
					r.Violation("index-over-moss:deleted-document-returned", fmt.Sprintf("%v: deleted %s among hits %v", rep(q), id, sortedKeys(gm)), rep(q))
				}
			}
			if strings.Join(sortedKeys(gm), ",") != strings.Join(sortedKeys(gg), ",") || tm != tg {
				r.Violation("index-over-moss:hits-differ-from-gtreap", fmt.Sprintf("%v: moss %v (total %d), gtreap %v (total %d)", rep(q), sortedKeys(gm), tm, sortedKeys(gg), tg), rep(q))
			}
			r.Outcome(fmt.Sprintf("index|%s|%d", q.Kind, len(gm)))
		}
		r.Count("index_over_moss_scripts", 1)
	})
}

func sortedKeys(m map[string]bool) []string {
	out := make([]string, 0, len(m))
	for k := range m {
		out = append(out, k)
	}
	sort.Strings(out)
	return out
}

func Run(r *mc.Run) {
	c := &checker{r: r, root: mc.ScratchDir("c15"), inflight: map[int64]*flight{}}
	prev := mc.AtExit
	mc.AtExit = func() {
		os.RemoveAll(c.root)
		if prev != nil {
			prev()
		}
	}
	defer os.RemoveAll(c.root)
	go c.monitor()

	c.obsList = buildObs(!r.Quick())
	var scenarios []scenario
	if r.Quick() {
		scenarios = []scenario{
			{name: "wide1", alphabet: wideAlphabet(0), depth: 1, wrapperDepth: 1, maxOpen: 1},
			{name: "deep", alphabet: deepAlphabet(true), depth: 3, wrapperDepth: 2, maxOpen: 2},
		}
	} else {
		scenarios = []scenario{
			{name: "wide1", alphabet: wideAlphabet(2), depth: 1, wrapperDepth: 1, maxOpen: 1},
			{name: "wide2", alphabet: wideAlphabet(0), depth: 2, wrapperDepth: 0, maxOpen: 1},
			{name: "deep", alphabet: deepAlphabet(false), depth: 4, wrapperDepth: 3, maxOpen: 2},
		}
	}

	r.Rule("E1 breadth-first search over operation sequences on each real store (boltdb, goleveldb, gtreap, moss, metrics over gtreap and over boltdb): operations = execute a batch of ≤ 2 entries from {Set, Delete, Merge(+1)} over keys {a, a\\x00, a\\xff, a\\xffb, b, \\xff} and values {\"\",1,2}, open a reader, close a reader; every transition replays its path on a fresh store instance and then checks, on a fresh reader and on every still-open reader (against the model as of its creation), Get of every key and an absent one, MultiGet, PrefixIterator for 5 prefixes and RangeIterator for all 49 (start,end) pairs incl. nil bounds, each plain and after Seek to every key, as exact key/value sequences; states are merged on (per key: never written / deleted / value; multiset of open snapshot contents). Searches per store: wide1 = every batch of the alphabet from the empty store (quick: pairs thinned), wide2 (thorough) = depth 2 over the thinned pair alphabet, deep = depth 3 → 4 over a 17 → 21-batch alphabet that makes histories collide on the same keys, with up to 2 open readers. Supplementary: the upsidedown index over moss against the same index over gtreap on delete scripts × the shared query family (identical hit sets, no deleted document). An outcome is (live keys, open readers, readers behind later writes), resp. (query kind, number of hits)")
	r.Assume("boltdb is opened with the adapter's initialMmapSize option = 16 MiB (a bbolt write that must grow the mmap waits for open read transactions; isolation, not progress, is claimed)",
		"goleveldb is opened with the adapter's write_buffer_size option = 64 KiB (the default 4 MiB buffer is allocated and zeroed on every open)",
		"inside one batch a key has either merges or sets/deletes, never both (adapter-defined, unused by upsidedown)",
		"Seek is called once, directly after the iterator is created; Seek before the range start is expected to clamp to the start",
		"moss is used in memory (no lower-level store) with the adapter's default collection options",
		"the metrics wrapper only delegates: it is searched one level less deep than the stores it wraps in the deep search and left out of wide2",
		"moss merges segments in a background goroutine the check does not control: which layout a reader meets can depend on timing, so the number of moss:seek-onto-deleted / moss:dup-key-in-batch instances may differ by a few between runs (the set of classes did not in any run)",
		"merge operator: decimal counter (FullMerge and PartialMerge both supported)",
		"batches are built through NewBatch, and through NewBatchEx with keys/values placed in the returned buffer as upsidedown does (all searches for moss, where it is a separate code path; thorough wide1 for the others)",
		"supplementary index-level pass: upsidedown over moss is compared with upsidedown over gtreap (same history, same queries), not with the reference query evaluator — query semantics are C02's subject")
	for _, sn := range scenarios {
		r.Note("alphabet:"+sn.name, fmt.Sprintf("%d batches + open/close reader, depth %d (metrics wrapper %d), ≤ %d open readers", len(sn.alphabet), sn.depth, sn.wrapperDepth, sn.maxOpen))
	}
	r.Note("observations_per_reader", len(c.obsList))
	r.Sample(map[string]any{"store": "moss", "history": pathString([]op{{Kind: 'b', B: []entry{s("a", "1")}}, {Kind: 'o'}, {Kind: 'b', B: []entry{d("a"), s("b", "2")}}}), "checked": fmt.Sprintf("fresh reader against {b=2}; held#0 against {a=1}; %d observations each", len(c.obsList))})
	so := obs{kind: 'r', a: "a\x00", b: "b", hasSeek: true, seek: "a"}
	r.Sample(map[string]any{"observation": so.String(), "on": "{a=1, a\\xff=\"\", b=2}", "want": kvString(expect(so, emptyContent().apply([]entry{s("a", "1"), s("a\xff", "")}).apply([]entry{s("b", "2")})))})
	r.Sample(map[string]any{"wide_alphabet_example": op{Kind: 'b', B: scenarios[0].alphabet[len(scenarios[0].alphabet)/2]}.String(), "deep_alphabet_example": op{Kind: 'b', B: deepAlphabet(true)[11]}.String()})

	only := os.Getenv("VERIF_C15_STORE")
	for _, sn := range scenarios {
		for _, sc := range stores {
			if only != "" && only != sc.name {
				continue
			}
			for _, ex := range []bool{false, true} {
				// NewBatchEx: a code path of its own in the moss adapter (searched everywhere);
				// the other adapters only allocate the buffer (searched in wide1)
				if ex && sc.ctor != "moss" && (sn.name != "wide1" || r.Quick()) {
					continue
				}
				if r.Expired() {
					r.Cap("deadline before " + sc.name + "/" + sn.name)
					return
				}
				sc.ex = ex
				c.bfs(sc, sn)
			}
		}
	}
	if only == "" || only == "index" {
		c.indexOverMoss()
	}
}
