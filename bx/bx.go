// Package bx holds small helpers around the bleve API shared by the property packages.
package bx

import (
	"fmt"
	"os"
	"sort"

	"github.com/blevesearch/bleve/v2"
	"github.com/blevesearch/bleve/v2/index/scorch"
	"github.com/blevesearch/bleve/v2/index/upsidedown"
	"github.com/blevesearch/bleve/v2/index/upsidedown/store/gtreap"
	"github.com/blevesearch/bleve/v2/mapping"
)

// Engine creates an in-memory index of one engine.
type Engine struct {
	Name string
	Mk   func(m mapping.IndexMapping) bleve.Index
}

func must(i bleve.Index, err error) bleve.Index {
	if err != nil {
		panic(err)
	}
	return i
}

// MemEngines: in-memory scorch (segments accumulate, never merged) and upsidedown/gtreap.
var MemEngines = []Engine{
	{"scorch", func(m mapping.IndexMapping) bleve.Index {
		return must(bleve.NewUsing("", m, scorch.Name, scorch.Name, nil))
	}},
	{"upsidedown", func(m mapping.IndexMapping) bleve.Index {
		return must(bleve.NewUsing("", m, upsidedown.Name, gtreap.Name, nil))
	}},
}

// HitIDs returns the hit ids of a result in order.
func HitIDs(res *bleve.SearchResult) []string {
	ids := make([]string, 0, len(res.Hits))
	for _, h := range res.Hits {
		ids = append(ids, h.ID)
	}
	return ids
}

func SortedCopy(s []string) []string {
	c := append([]string{}, s...)
	sort.Strings(c)
	return c
}

func Keys(m map[string]bool) []string {
	r := make([]string, 0, len(m))
	for k := range m {
		r = append(r, k)
	}
	sort.Strings(r)
	return r
}

func RemoveAll(d string) {
	if d != "" {
		os.RemoveAll(d)
	}
}

func Sf(format string, a ...any) string { return fmt.Sprintf(format, a...) }

func Fp(f float64) *float64 { return &f }
func Bp(b bool) *bool       { return &b }

// CopyConfig deep-copies a runtime config map (bleve stores path etc. into the map it is given).
func CopyConfig(c map[string]interface{}) map[string]interface{} {
	if c == nil {
		return nil
	}
	out := make(map[string]interface{}, len(c))
	for k, v := range c {
		if m, ok := v.(map[string]interface{}); ok {
			out[k] = CopyConfig(m)
		} else {
			out[k] = v
		}
	}
	return out
}
