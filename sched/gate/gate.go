// Package gate: generic event gates for workload-family scenarios of the scheduler flavour.
//
// scorch's PUBLIC event callback registry runs harness code inside the persister / merger thread.
// Under the cooperative scheduler that code can park on a managed channel, which turns a timing
// window that no small deviation bound reaches ("the merger is suspended between building a merged
// segment and introducing it while two batches land") into an ordinary step of the driver. Which
// windows are opened — event kind, the driver step after which the gate is armed, occurrence, and
// for how many further driver steps it stays closed — is an ENVIRONMENT CHOICE of the explorer
// (vrt.Choose): every member of the menu is explored. A menu member is no gate, one gate, or a pair
// (one gate on the persister, one on the merger), so that "the persister purges and persists while
// the merger sits between writing a merged file and introducing it" is a member too.
package gate

import (
	"fmt"
	"os"
	"strings"

	"github.com/blevesearch/bleve/v2/index/scorch"

	"verif/sched/vrt"
)

// Name is the callback name to put into the index configuration ("eventCallbackName").
const Name = "verif-family-gate"

// Spec is one gate.
type Spec struct {
	Kind     scorch.EventKind
	ArmAfter int // the gate is armed after this many driver steps (0 = before the first)
	Occ      int // park at this occurrence of the event after arming (1-based)
	Steps    int // driver steps the gate stays closed after the step in which it parked
	Label    string
	Then     *Spec // after it has opened, the gate is armed once more with this (a thread that is held back twice)
}

// Choice is one member of the menu: zero, one or two gates.
type Choice struct {
	Gates []Spec
	Label string
}

var persisterKinds = []struct {
	k scorch.EventKind
	n string
}{
	{scorch.EventKindPersisterProgress, "persister-after-round"},
	{scorch.EventKindPurgerCheck, "persister-before-purge"},
}
var mergerKinds = []struct {
	k scorch.EventKind
	n string
}{
	{scorch.EventKindMergeTaskIntroductionStart, "merger-before-introducing-merge"},
	{scorch.EventKindPreMergeCheck, "merger-before-planning"},
}

func singles(kinds []struct {
	k scorch.EventKind
	n string
}, maxSteps int) []Spec {
	var m []Spec
	for _, k := range kinds {
		for arm := 0; arm <= 2; arm++ {
			for occ := 1; occ <= 2; occ++ {
				for steps := 1; steps <= maxSteps; steps++ {
					m = append(m, Spec{Kind: k.k, ArmAfter: arm, Occ: occ, Steps: steps, Label: fmt.Sprintf("%s@%d#%d+%d", k.n, arm, occ, steps)})
				}
			}
		}
	}
	return m
}

func thorough() bool { return os.Getenv("VERIF_TIER") == "thorough" }

// Menu: no gate; every single gate {persister finished a round, persister about to purge, merger
// about to plan, merger about to introduce a merged segment} x armed after driver step {0,1,2} x
// occurrence {1,2} x closed for 1 (thorough: 1 or 2) further steps.
func Menu() []Choice {
	maxSteps := 1
	if thorough() {
		maxSteps = 2
	}
	m := []Choice{{Label: "none"}}
	for _, s := range append(singles(mergerKinds, maxSteps), singles(persisterKinds, maxSteps)...) {
		m = append(m, Choice{Gates: []Spec{s}, Label: s.Label})
	}
	return m
}

// MenuPairs: Menu plus pairs of one persister gate and one merger gate. thorough: every pair of
// single gates (closed for 1 or 2 steps each); quick: pairs armed after the same driver step, with
// closing times (1,2) and (2,1) so that either one opens while the other is still closed.
func MenuPairs() []Choice {
	m := Menu()
	ps, ms := singles(persisterKinds, 2), singles(mergerKinds, 2)
	for _, p := range ps {
		for _, q := range ms {
			if !thorough() && (p.ArmAfter != q.ArmAfter || p.Steps == q.Steps) {
				continue
			}
			m = append(m, Choice{Gates: []Spec{p, q}, Label: p.Label + " & " + q.Label})
		}
	}
	if thorough() {
		m = append(m, twice()...)
	}
	if f := os.Getenv("VERIF_GATE_FILTER"); f != "" { // debugging aid: restrict the menu
		var out []Choice
		for _, c := range m {
			if strings.Contains(c.Label, f) {
				out = append(out, c)
			}
		}
		return out
	}
	return m
}

// twice (thorough tier): a background thread that is held back twice. The merger is first parked before planning from the
// start for two or three driver steps (so that files accumulate un-merged), then again before introducing its
// 1st / 2nd merge; the persister is first parked after its first round for two steps (so that segments pile
// up unpersisted), then again before its purge / after its next round. Each is paired with every single
// gate (closed for one step) of the other thread.
func twice() []Choice {
	var m []Choice
	mk := func(first Spec, then Spec, others []Spec) {
		for _, o := range others {
			if o.Steps != 1 {
				continue
			}
			f := first
			t := then
			f.Then = &t
			f.Label = first.Label + " then " + then.Label
			m = append(m, Choice{Gates: []Spec{o, f}, Label: o.Label + " & " + f.Label})
		}
	}
	for occ := 1; occ <= 3; occ++ {
		for st := 2; st <= 3; st++ {
			mk(Spec{Kind: scorch.EventKindPreMergeCheck, Occ: 1, Steps: st, Label: fmt.Sprintf("merger-before-planning@0#1+%d", st)},
				Spec{Kind: scorch.EventKindMergeTaskIntroductionStart, Occ: occ, Steps: 1, Label: fmt.Sprintf("merger-before-introducing-merge#%d+1", occ)},
				singles(persisterKinds, 1))
		}
	}
	mk(Spec{Kind: scorch.EventKindPersisterProgress, Occ: 1, Steps: 2, Label: "persister-after-round@0#1+2"},
		Spec{Kind: scorch.EventKindPurgerCheck, Occ: 1, Steps: 1, Label: "persister-before-purge#1+1"}, singles(mergerKinds, 1))
	mk(Spec{Kind: scorch.EventKindPersisterProgress, Occ: 1, Steps: 2, Label: "persister-after-round@0#1+2"},
		Spec{Kind: scorch.EventKindPersisterProgress, Occ: 1, Steps: 1, Label: "persister-after-round#1+1"}, singles(mergerKinds, 1))
	return m
}

// G is an armed gate.
type G struct {
	Spec
	seen    int
	Parked  bool // a background thread is parked at the gate right now
	Was     bool // it parked at some moment
	left    int
	everWas bool
	opened  bool
	release chan int
}

// Set is the armed member of the menu.
type Set struct {
	gs       []*G
	stepsRun int
	disarmed bool
	final    bool // Open was called: nothing parks any more
}

var cur *Set
var trace = os.Getenv("VERIF_GATE_TRACE") != ""

func init() {
	scorch.RegistryEventCallbacks[Name] = func(e scorch.Event) bool {
		s := cur
		if s == nil || s.disarmed || s.final {
			return true
		}
		for _, g := range s.gs {
			if g.Was || e.Kind != g.Kind || s.stepsRun < g.ArmAfter {
				continue
			}
			g.seen++
			if trace {
				fmt.Fprintf(os.Stderr, "GATE %s sees its event, occurrence %d (driver steps run: %d)\n", g.Label, g.seen, s.stepsRun)
			}
			if g.seen == g.Occ {
				g.Was, g.Parked = true, true
				g.left = g.Steps
				if trace {
					fmt.Fprintf(os.Stderr, "GATE %s parks (driver steps run: %d)\n", g.Label, s.stepsRun)
				}
				vrt.Recv(g.release)
				g.Parked = false
				if trace {
					fmt.Fprintf(os.Stderr, "GATE %s goes on (driver steps run: %d)\n", g.Label, s.stepsRun)
				}
			}
		}
		return true
	}
}

// Arm installs the chosen gates.
func Arm(c Choice) *Set {
	s := &Set{}
	for _, sp := range c.Gates {
		s.gs = append(s.gs, &G{Spec: sp, release: make(chan int, 1)})
	}
	cur = s
	return s
}

// Step is called by the driver after each of its steps (when everything has settled): a gate opens
// when it has been closed for its number of steps. It reports whether a gate opened now (the driver
// then lets things settle again).
func (s *Set) Step() bool {
	if s == nil {
		return false
	}
	s.stepsRun++
	opened := false
	for _, g := range s.gs {
		if !g.Parked || g.opened {
			continue
		}
		if g.left > 0 {
			g.left--
			continue
		}
		g.open()
		opened = true
	}
	return opened
}

func (g *G) open() {
	if g.opened {
		return
	}
	g.opened = true
	vrt.Send(g.release, 1)
	if g.Then != nil && g.Was {
		// armed once more: the thread will be held back a second time
		t := *g.Then
		g.Spec = t
		g.ArmAfter = 0
		g.seen, g.Was, g.opened, g.everWas = 0, false, false, true
		g.release = make(chan int, 1)
	}
}

// Open opens every gate for good (harmless when nothing is or ever gets parked).
func (s *Set) Open() {
	if s == nil {
		return
	}
	s.final = true
	for _, g := range s.gs {
		g.Then = nil
		g.open()
	}
}

// Was reports how many gates parked a background thread at some moment.
func (s *Set) Was() int {
	n := 0
	if s != nil {
		for _, g := range s.gs {
			if g.Was || g.everWas {
				n++
			}
		}
	}
	return n
}

// Disarm opens and removes the gates.
func (s *Set) Disarm() {
	if s == nil {
		return
	}
	s.Open()
	s.disarmed = true
	if cur == s {
		cur = nil
	}
}
