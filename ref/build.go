package ref

import (
	"fmt"
	"strings"
	"sync"
	"time"

	"github.com/blevesearch/bleve/v2"
	"github.com/blevesearch/bleve/v2/mapping"
	"github.com/blevesearch/bleve/v2/search/query"
)

// ToBleve builds the real query for a reference query.
func ToBleve(q *Q) query.Query {
	switch q.Kind {
	case "all":
		return bleve.NewMatchAllQuery()
	case "none":
		return bleve.NewMatchNoneQuery()
	case "term":
		r := bleve.NewTermQuery(q.Text)
		r.SetField(q.Field)
		return r
	case "match":
		r := bleve.NewMatchQuery(q.Text)
		r.SetField(q.Field)
		if q.And {
			r.SetOperator(query.MatchQueryOperatorAnd)
		}
		r.SetFuzziness(q.Fuzz)
		r.SetPrefix(q.PLen)
		return r
	case "phrase":
		return bleve.NewPhraseQuery(q.Terms, q.Field)
	case "mphrase":
		r := bleve.NewMatchPhraseQuery(q.Text)
		r.SetField(q.Field)
		return r
	case "prefix":
		r := bleve.NewPrefixQuery(q.Text)
		r.SetField(q.Field)
		return r
	case "wildcard":
		r := bleve.NewWildcardQuery(q.Text)
		r.SetField(q.Field)
		return r
	case "regexp":
		r := bleve.NewRegexpQuery(q.Text)
		r.SetField(q.Field)
		return r
	case "fuzzy":
		r := bleve.NewFuzzyQuery(q.Text)
		r.SetField(q.Field)
		r.SetFuzziness(q.Fuzz)
		r.SetPrefix(q.PLen)
		return r
	case "trange":
		r := bleve.NewTermRangeInclusiveQuery(q.SMin, q.SMax, q.IncMin, q.IncMax)
		r.SetField(q.Field)
		return r
	case "nrange":
		r := bleve.NewNumericRangeInclusiveQuery(q.Min, q.Max, q.IncMin, q.IncMax)
		r.SetField(q.Field)
		return r
	case "drange":
		r := bleve.NewDateRangeInclusiveQuery(q.Start, q.End, q.IncMin, q.IncMax)
		r.SetField(q.Field)
		return r
	case "bool":
		r := bleve.NewBoolFieldQuery(q.BVal)
		r.SetField(q.Field)
		return r
	case "docid":
		return bleve.NewDocIDQuery(q.IDs)
	case "conj":
		var subs []query.Query
		for _, s := range q.Subs {
			subs = append(subs, ToBleve(s))
		}
		return bleve.NewConjunctionQuery(subs...)
	case "disj":
		var subs []query.Query
		for _, s := range q.Subs {
			subs = append(subs, ToBleve(s))
		}
		r := bleve.NewDisjunctionQuery(subs...)
		r.SetMin(float64(q.DMin))
		return r
	case "boolean":
		r := bleve.NewBooleanQuery()
		for _, s := range q.Must {
			r.AddMust(ToBleve(s))
		}
		for _, s := range q.Should {
			r.AddShould(ToBleve(s))
		}
		for _, s := range q.MustNot {
			r.AddMustNot(ToBleve(s))
		}
		for _, s := range q.Filter {
			r.AddFilter(ToBleve(s))
		}
		if len(q.Should) > 0 {
			r.SetMinShould(float64(q.ShouldMin))
		}
		return r
	}
	panic(q.Kind)
}

func list(l []*Q, f func(*Q) string) string {
	var ss []string
	for _, s := range l {
		ss = append(ss, f(s))
	}
	return strings.Join(ss, ",")
}

func (q *Q) String() string {
	switch q.Kind {
	case "conj", "disj":
		return fmt.Sprintf("%s[min%d](%s)", q.Kind, q.DMin, list(q.Subs, (*Q).String))
	case "boolean":
		return fmt.Sprintf("bool(must{%s} should[min%d]{%s} mustnot{%s} filter{%s})", list(q.Must, (*Q).String), q.ShouldMin, list(q.Should, (*Q).String), list(q.MustNot, (*Q).String), list(q.Filter, (*Q).String))
	case "nrange":
		s := fmt.Sprintf("nrange(%s", q.Field)
		if q.Min != nil {
			s += fmt.Sprintf(" min=%v", *q.Min)
		}
		if q.Max != nil {
			s += fmt.Sprintf(" max=%v", *q.Max)
		}
		return s + incs(q) + ")"
	case "drange":
		s := fmt.Sprintf("drange(%s", q.Field)
		if !q.Start.IsZero() {
			s += " start=" + q.Start.Format(time.RFC3339Nano)
		}
		if !q.End.IsZero() {
			s += " end=" + q.End.Format(time.RFC3339Nano)
		}
		return s + incs(q) + ")"
	case "trange":
		return fmt.Sprintf("trange(%s %q..%q%s)", q.Field, q.SMin, q.SMax, incs(q))
	case "all", "none":
		return q.Kind
	case "term", "prefix", "wildcard", "regexp", "mphrase":
		return fmt.Sprintf("%s(%s:%q)", q.Kind, q.Field, q.Text)
	case "phrase":
		return fmt.Sprintf("phrase(%s:%q)", q.Field, q.Terms)
	case "fuzzy":
		return fmt.Sprintf("fuzzy(%s:%q~%d p%d)", q.Field, q.Text, q.Fuzz, q.PLen)
	case "match":
		return fmt.Sprintf("match(%s:%q and=%v ~%d p%d)", q.Field, q.Text, q.And, q.Fuzz, q.PLen)
	case "bool":
		return fmt.Sprintf("boolfield(%s=%v)", q.Field, q.BVal)
	case "docid":
		return fmt.Sprintf("docid%v", q.IDs)
	}
	return q.Kind
}

func incs(q *Q) string {
	s := ""
	if q.IncMin != nil {
		s += fmt.Sprintf(" incmin=%v", *q.IncMin)
	}
	if q.IncMax != nil {
		s += fmt.Sprintf(" incmax=%v", *q.IncMax)
	}
	return s
}

// Shape names the structure of a query by kinds only (used for violation classes).
func Shape(q *Q) string {
	switch q.Kind {
	case "conj", "disj":
		return fmt.Sprintf("%s%d(%s)", q.Kind, q.DMin, list(q.Subs, Shape))
	case "boolean":
		return fmt.Sprintf("bool(m{%s} s%d{%s} n{%s} f{%s})", list(q.Must, Shape), q.ShouldMin, list(q.Should, Shape), list(q.MustNot, Shape), list(q.Filter, Shape))
	}
	return q.Kind
}

// Analyser returns the function turning query text into terms for a field under mapping m.
func Analyser(m mapping.IndexMapping) func(field, text string) []string {
	var mu sync.Mutex
	cache := map[[2]string][]string{}
	return func(field, text string) []string {
		k := [2]string{field, text}
		mu.Lock()
		r, ok := cache[k]
		mu.Unlock()
		if ok {
			return r
		}
		a := m.AnalyzerNamed(m.AnalyzerNameForPath(field))
		r = []string{}
		for _, tok := range a.Analyze([]byte(text)) {
			r = append(r, string(tok.Term))
		}
		mu.Lock()
		cache[k] = r
		mu.Unlock()
		return r
	}
}

// Expected evaluates q over docs: must = ids that must be hits, may = ids that may be.
func Expected(q *Q, docs []*RDoc, analyse func(field, text string) []string) (must, may map[string]bool) {
	must, may = map[string]bool{}, map[string]bool{}
	for _, d := range docs {
		switch Eval(q, d, analyse) {
		case Yes:
			must[d.ID] = true
		case Either:
			may[d.ID] = true
		}
	}
	return
}

// ShapeAbs is Shape with every leaf abstracted to "·" (class names for compound-searcher defects).
func ShapeAbs(q *Q) string {
	abs := func(x *Q) string { return ShapeAbs(x) }
	switch q.Kind {
	case "conj", "disj":
		return fmt.Sprintf("%s%d(%s)", q.Kind, q.DMin, list(q.Subs, abs))
	case "boolean":
		return fmt.Sprintf("bool(m{%s} s%d{%s} n{%s} f{%s})", list(q.Must, abs), q.ShouldMin, list(q.Should, abs), list(q.MustNot, abs), list(q.Filter, abs))
	}
	return "·"
}
