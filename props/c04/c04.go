// Package c04: readers see whole batches, in order, and a reader's view never changes.
//
// E3 scenarios: 2–3 client threads (writers, a reader holding a long-lived index reader, a
// searcher, a forced merge) plus the real introducer / persister / merger goroutines of scorch,
// explored over all schedules within a deviation bound. The oracle is evaluated inside every
// execution on every read.
package c04

import (
	"context"
	"fmt"
	"os"
	"strconv"
	"strings"

	"github.com/blevesearch/bleve/v2"
	"github.com/blevesearch/bleve/v2/index/scorch"
	index "github.com/blevesearch/bleve_index_api"

	"verif/bx"
	"verif/lww"
	"verif/mc"
	"verif/sched/drv"
	fgate "verif/sched/gate"
	"verif/sched/vrt"
)

type cfg struct {
	name     string
	engine   string // scorch | upsidedown
	conf     map[string]interface{}
	writers  int
	batches  int
	forceMrg bool // a thread calling ForceMerge
	searcher bool // reader thread also uses Index.Search
}

// batch j (1-based) of writer w: a,b carry seq=j; c exists iff j is odd; d<j> is new in batch j and
// never touched again (so every segment keeps a live document when a,b,c are obsoleted — a segment
// that loses ALL its documents drops out of the root and takes a different code path); internal w<w>=j.
func fillBatch(b *bleve.Batch, w, j int) {
	// a struct, not a map: bleve walks map documents in Go's random map order
	type wdoc struct {
		W   string `json:"w"`
		Seq string `json:"seq"`
	}
	doc := func() *wdoc {
		return &wdoc{W: fmt.Sprintf("w%d", w), Seq: strconv.Itoa(j)}
	}
	b.Index(fmt.Sprintf("%d.a", w), doc())
	b.Index(fmt.Sprintf("%d.b", w), doc())
	if j%2 == 1 {
		b.Index(fmt.Sprintf("%d.c", w), doc())
	} else {
		b.Delete(fmt.Sprintf("%d.c", w))
	}
	dd := doc()
	dd.Seq = "d" + strconv.Itoa(j)
	b.Index(fmt.Sprintf("%d.d%d", w, j), dd)
	b.SetInternal([]byte(fmt.Sprintf("w%d", w)), []byte(strconv.Itoa(j)))
}

// liveDocs is the number of documents of one writer after its batch j.
func liveDocs(j int) int {
	if j == 0 {
		return 0
	}
	n := 2 + j
	if j%2 == 1 {
		n++
	}
	return n
}

func docSeq(d index.Document) int {
	if d == nil {
		return 0
	}
	s := 0
	d.VisitFields(func(f index.Field) {
		if f.Name() == "seq" {
			s, _ = strconv.Atoi(string(f.Value()))
		}
	})
	return s
}

// readView reads one view through a single index reader and checks its internal consistency.
func readView(c *drv.Ctx, r index.IndexReader, writers int) (view []int, ok bool) {
	view = make([]int, writers)
	exp := uint64(0)
	for w := 0; w < writers; w++ {
		v, err := r.GetInternal([]byte(fmt.Sprintf("w%d", w)))
		if err != nil {
			c.Fail("error:reader", "GetInternal: %v", err)
			return view, false
		}
		j := 0
		if v != nil {
			j, _ = strconv.Atoi(string(v))
		}
		view[w] = j
		for _, sfx := range []string{"a", "b", "c"} {
			d, err := r.Document(fmt.Sprintf("%d.%s", w, sfx))
			if err != nil {
				c.Fail("error:reader", "Document: %v", err)
				return view, false
			}
			want := j
			if sfx == "c" && j%2 == 0 {
				want = 0
			}
			if got := docSeq(d); got != want {
				c.Fail("torn-view:reader", "one reader shows writer %d at batch %d (internal key) but document %d.%s at seq %d (want %d)", w, j, w, sfx, got, want)
				return view, false
			}
		}
		exp += uint64(liveDocs(j))
		for dj := 1; dj <= j+1; dj++ {
			d, err := r.Document(fmt.Sprintf("%d.d%d", w, dj))
			if err != nil {
				c.Fail("error:reader", "Document: %v", err)
				return view, false
			}
			if (d != nil) != (dj <= j) {
				c.Fail("torn-view:reader", "one reader shows writer %d at batch %d but document %d.d%d present=%v", w, j, w, dj, d != nil)
				return view, false
			}
		}
		// postings view: term w:w<w> must list exactly the live docs of the writer
		tfr, err := r.TermFieldReader(context.Background(), []byte(fmt.Sprintf("w%d", w)), "w", false, false, false)
		if err != nil {
			c.Fail("error:reader", "TermFieldReader: %v", err)
			return view, false
		}
		n := uint64(0)
		for {
			td, err := tfr.Next(nil)
			if err != nil || td == nil {
				break
			}
			n++
		}
		tfr.Close()
		wantN := uint64(liveDocs(j))
		if n != wantN {
			c.Fail("torn-view:postings", "one reader shows writer %d at batch %d but term w:w%d has %d postings (want %d)", w, j, w, n, wantN)
			return view, false
		}
	}
	cnt, err := r.DocCount()
	if err != nil {
		c.Fail("error:reader", "DocCount: %v", err)
		return view, false
	}
	if cnt != exp {
		c.Fail("reader-doccount-not-atomic-with-snapshot", "DocCount %d but the same reader's documents and postings show view %v (expects %d documents)", cnt, view, exp)
		return view, false
	}
	return view, true
}

// searchView runs one search per writer; each search is one view of that writer's prefix.
func searchView(c *drv.Ctx, idx bleve.Index, writers int) (view []int, ok bool) {
	view = make([]int, writers)
	for w := 0; w < writers; w++ {
		q := bleve.NewTermQuery(fmt.Sprintf("w%d", w))
		q.SetField("w")
		req := bleve.NewSearchRequest(q)
		req.Size = 30
		req.Fields = []string{"seq"}
		res, err := idx.Search(req)
		if err != nil {
			c.Fail("error:search", "Search: %v", err)
			return view, false
		}
		j := -1
		nd := 0
		for _, h := range res.Hits {
			sv := fmt.Sprint(h.Fields["seq"])
			if strings.HasPrefix(sv, "d") {
				nd++
				continue
			}
			s, _ := strconv.Atoi(sv)
			if j == -1 {
				j = s
			} else if s != j {
				c.Fail("torn-view:search", "one search returned documents of writer %d from different batches (%d and %d)", w, j, s)
				return view, false
			}
		}
		if j == -1 {
			j = 0
		}
		want := liveDocs(j)
		if len(res.Hits) != want || int(res.Total) != want || nd != j {
			c.Fail("torn-view:search", "search for writer %d at batch %d returned %d hits (Total %d, %d per-batch documents), want %d (%d per-batch documents)", w, j, len(res.Hits), res.Total, nd, want, j)
			return view, false
		}
		view[w] = j
	}
	return view, true
}

func body(k cfg) func(c *drv.Ctx) {
	return func(c *drv.Ctx) {
		var idx bleve.Index
		vrt.Free(func() {
			var err error
			m := bleve.NewIndexMapping()
			if k.engine == "upsidedown" {
				idx, err = bleve.NewUsing("", m, "upside_down", "gtreap", nil)
			} else {
				idx, err = bleve.NewUsing(c.Dir+"/idx", m, scorch.Name, scorch.Name, bx.CopyConfig(k.conf))
			}
			if err != nil {
				panic(err)
			}
		})
		acked := make([]int, k.writers)
		var wg vrt.WaitGroup
		tokens := make(chan int, 64)
		total := k.writers * k.batches
		for w := 0; w < k.writers; w++ {
			w := w
			wg.Add(1)
			vrt.Go(func() {
				defer wg.Done()
				for j := 1; j <= k.batches; j++ {
					b := idx.NewBatch()
					fillBatch(b, w, j)
					if err := idx.Batch(b); err != nil {
						c.Fail("error:batch", "Batch: %v", err)
						return
					}
					acked[w] = j
					vrt.Send(tokens, w)
				}
			})
		}
		if k.forceMrg {
			wg.Add(1)
			vrt.Go(func() {
				defer wg.Done()
				if s := bx.Scorch(idx); s != nil {
					vrt.Point("pt:before-forcemerge")
					if err := s.ForceMerge(context.Background(), nil); err != nil {
						c.Fail("error:forcemerge", "ForceMerge: %v", err)
					}
					c.Count("forcemerge_done", 1)
				}
			})
		}
		wg.Add(1)
		vrt.Go(func() {
			defer wg.Done()
			adv, _ := idx.Advanced()
			last := make([]int, k.writers)
			lastS := make([]int, k.writers)
			var held index.IndexReader
			var heldView []int
			for n := 0; n < total; n++ {
				vrt.Recv(tokens)
				before := append([]int{}, acked...)
				r, err := adv.Reader()
				if err != nil {
					c.Fail("error:reader", "Reader: %v", err)
					return
				}
				v, ok := readView(c, r, k.writers)
				if !ok {
					r.Close()
					return
				}
				c.Observe(fmt.Sprint(v))
				for w := 0; w < k.writers; w++ {
					if v[w] < before[w] {
						c.Fail("stale-read:reader", "writer %d: batch %d had been acknowledged before the reader was obtained, the reader shows %d", w, before[w], v[w])
					}
					if v[w] < last[w] {
						c.Fail("non-monotonic:reader", "writer %d went backwards for one client: %d then %d", w, last[w], v[w])
					}
					if v[w] > k.batches {
						c.Fail("future-read", "writer %d at %d > submitted", w, v[w])
					}
				}
				last = v
				if held == nil {
					held, heldView = r, v
				} else {
					r.Close()
					hv, ok := readView(c, held, k.writers)
					if ok && fmt.Sprint(hv) != fmt.Sprint(heldView) {
						c.Fail("reader-changed", "a held reader first showed %v, later %v", heldView, hv)
					}
				}
				if k.searcher {
					beforeS := append([]int{}, acked...)
					sv, ok := searchView(c, idx, k.writers)
					if !ok {
						return
					}
					c.Observe("s" + fmt.Sprint(sv))
					for w := 0; w < k.writers; w++ {
						if sv[w] < beforeS[w] {
							c.Fail("stale-read:search", "writer %d: batch %d acknowledged before the search began, search shows %d", w, beforeS[w], sv[w])
						}
						if sv[w] < lastS[w] || sv[w] < v[w] {
							c.Fail("non-monotonic:search", "writer %d went backwards for one client: earlier %d / reader %d, search %d", w, lastS[w], v[w], sv[w])
						}
					}
					lastS = sv
				}
				vrt.Point("pt:reader-pause")
			}
			if held != nil {
				hv, ok := readView(c, held, k.writers)
				if ok && fmt.Sprint(hv) != fmt.Sprint(heldView) {
					c.Fail("reader-changed", "a held reader first showed %v, at the end %v", heldView, hv)
				}
				held.Close()
			}
		})
		wg.Wait()
		vrt.Free(func() {
			adv, _ := idx.Advanced()
			r, err := adv.Reader()
			if err == nil {
				v, ok := readView(c, r, k.writers)
				r.Close()
				if ok {
					for w := 0; w < k.writers; w++ {
						if v[w] != k.batches {
							c.Fail("final-state", "after all batches returned writer %d is at %d", w, v[w])
						}
					}
				}
			}
			if err := idx.Close(); err != nil {
				c.Fail("error:close", "Close: %v", err)
			}
		})
	}
}

// ---- gated merge: the public event callback parks the merger between "merged segment built" and
// "handed to the introducer", which turns the timing window "a batch lands while a merge is in
// flight" into an ordinary step of the driver (deviations explore around it).

type mergeGate struct {
	armed   bool
	parked  chan int
	release chan int
}

var gate *mergeGate

func init() {
	scorch.RegistryEventCallbacks["verif-c04-merge-gate"] = func(e scorch.Event) bool {
		if g := gate; g != nil && g.armed && e.Kind == scorch.EventKindMergeTaskIntroductionStart {
			g.armed = false
			vrt.Send(g.parked, 1)
			vrt.Recv(g.release)
		}
		return true
	}
}

func bodyGated(conf map[string]interface{}, viaForceMerge bool) func(c *drv.Ctx) {
	return func(c *drv.Ctx) {
		g := &mergeGate{parked: make(chan int, 1), release: make(chan int, 1)}
		gate = g
		defer func() { gate = nil }()
		var idx bleve.Index
		vrt.Free(func() {
			var err error
			cf := bx.CopyConfig(conf)
			cf["eventCallbackName"] = "verif-c04-merge-gate"
			idx, err = bleve.NewUsing(c.Dir+"/idx", bleve.NewIndexMapping(), scorch.Name, scorch.Name, cf)
			if err != nil {
				panic(err)
			}
		})
		adv, _ := idx.Advanced()
		// do(ws, j): ONE batch carrying batch j of every writer family in ws
		do := func(ws []int, j int) bool {
			b := idx.NewBatch()
			for _, w := range ws {
				fillBatch(b, w, j)
			}
			if err := idx.Batch(b); err != nil {
				c.Fail("error:batch", "Batch: %v", err)
				return false
			}
			return true
		}
		read := func(what string, want []int) {
			r, err := adv.Reader()
			if err != nil {
				c.Fail("error:reader", "Reader: %v", err)
				return
			}
			v, ok := readView(c, r, 2)
			r.Close()
			if ok && fmt.Sprint(v) != fmt.Sprint(want) {
				c.Fail("stale-read:reader", "%s: batches %v had been acknowledged, a fresh reader shows %v", what, want, v)
			}
			sv, ok := searchView(c, idx, 2)
			if ok && fmt.Sprint(sv) != fmt.Sprint(want) {
				c.Fail("stale-read:search", "%s: batches %v had been acknowledged, a search shows %v", what, want, sv)
			}
			c.Observe(fmt.Sprintf("%s:%v", what, v))
		}
		dbg := func(at string) {
			if os.Getenv("VERIF_DEBUG") != "" {
				fmt.Fprintln(os.Stderr, "DEBUG", at, bx.ScorchLayout(idx))
			}
		}
		// two segments with disjoint ids: neither carries an obsoleted document when the merge begins
		if !do([]int{0}, 1) {
			return
		}
		g.armed = true
		var wg vrt.WaitGroup
		if !do([]int{1}, 1) {
			return
		}
		if viaForceMerge {
			wg.Add(1)
			vrt.Go(func() {
				defer wg.Done()
				if err := bx.Scorch(idx).ForceMerge(context.Background(), nil); err != nil {
					c.Fail("error:forcemerge", "ForceMerge: %v", err)
				}
			})
		}
		vrt.Recv(g.parked) // the merged segment of segments 1+2 is built, not yet introduced
		c.Count("merges_parked_before_introduction", 1)
		dbg("merge parked")
		// one batch obsoleting documents of BOTH merge inputs (each input keeps a live document)
		if !do([]int{0, 1}, 2) {
			return
		}
		dbg("batch landed")
		read("while-merge-in-flight", []int{2, 2})
		held, err := adv.Reader()
		if err != nil {
			c.Fail("error:reader", "Reader: %v", err)
			return
		}
		hv, _ := readView(c, held, 2)
		vrt.Send(g.release, 1)
		wg.Wait()
		vrt.WaitIdle() // the merge result has replaced its inputs
		dbg("merge introduced")
		read("after-merge-introduced", []int{2, 2})
		if hv2, ok := readView(c, held, 2); ok && fmt.Sprint(hv2) != fmt.Sprint(hv) {
			c.Fail("reader-changed", "a held reader first showed %v, after the merge %v", hv, hv2)
		}
		held.Close()
		if !do([]int{0}, 3) {
			return
		}
		vrt.WaitIdle()
		read("after-next-batch", []int{3, 2})
		vrt.Free(func() {
			if err := idx.Close(); err != nil {
				c.Fail("error:close", "Close: %v", err)
			}
		})
	}
}

// ---- persist / in-memory-merge window: the persister is parked (public event callback) while two
// unsafe batches pile up; it is released together with a low-priority client thread issuing a
// delete-only batch (a handful of scheduling steps), so that one deviation inside the persister's
// merge-and-flush window lands that batch between "persister took its snapshot" and "merged /
// persisted segments introduced". Every reader must keep showing whole batches.

type persistGate struct {
	armed   bool
	parked  chan int
	release chan int
}

var pgate *persistGate

func init() {
	scorch.RegistryEventCallbacks["verif-c04-persister-gate"] = func(e scorch.Event) bool {
		if g := pgate; g != nil && g.armed && e.Kind == scorch.EventKindPersisterProgress {
			g.armed = false
			vrt.Send(g.parked, 1)
			vrt.Recv(g.release)
		}
		return true
	}
}

var winWorkload = []lww.Batch{
	{{Kind: "I", ID: "a", V: 1}, {Kind: "I", ID: "b", V: 1}, {Kind: "S", ID: "seq", V: 1}},
	{{Kind: "I", ID: "c", V: 1}, {Kind: "I", ID: "d", V: 2}, {Kind: "S", ID: "seq", V: 2}},
	{{Kind: "D", ID: "a"}, {Kind: "D", ID: "c"}, {Kind: "S", ID: "seq", V: 3}},
	{{Kind: "I", ID: "a", V: 2}, {Kind: "S", ID: "seq", V: 4}},
}
var winIDs = []string{"a", "b", "c", "d", "zz"}

func winModel(q int) *lww.Model {
	m := lww.New()
	for j := 0; j < q; j++ {
		m.Apply(winWorkload[j])
	}
	return m
}

func bodyPersistWindow(conf map[string]interface{}) func(c *drv.Ctx) {
	return func(c *drv.Ctx) {
		g := &persistGate{armed: true, parked: make(chan int, 1), release: make(chan int, 1)}
		pgate = g
		defer func() { pgate = nil }()
		var idx bleve.Index
		vrt.Free(func() {
			cf := bx.CopyConfig(conf)
			cf["eventCallbackName"] = "verif-c04-persister-gate"
			var err error
			idx, err = bleve.NewUsing(c.Dir+"/idx", bleve.NewIndexMapping(), scorch.Name, scorch.Name, cf)
			if err != nil {
				panic(err)
			}
		})
		vrt.Recv(g.parked)
		adv, _ := idx.Advanced()
		submitted := 0
		do := func(j int) {
			submitted = j
			if err := lww.ExecBatch(idx, winWorkload[j-1]); err != nil {
				c.Fail("error:batch", "Batch %d: %v", j, err)
			}
		}
		// view: one reader = one whole-batch state, not older than `atLeast` (unsafe batches are visible
		// as soon as their call returned)
		view := func(what string, atLeast int) (index.IndexReader, int) {
			r, err := adv.Reader()
			if err != nil {
				c.Fail("error:reader", "Reader: %v", err)
				return nil, 0
			}
			v, _ := r.GetInternal([]byte("seq"))
			q := 0
			if v != nil {
				q, _ = strconv.Atoi(string(v))
			}
			if q > submitted || q < atLeast {
				c.Fail("stale-read:reader", "%s: reader shows batch %d, expected between %d (returned) and %d (submitted)", what, q, atLeast, submitted)
			} else if bad := winModel(q).CheckReader(r, winIDs, []string{"seq"}); len(bad) > 0 {
				c.Fail("torn-view:reader", "%s: one reader shows batch %d (internal key) but: %s", what, q, strings.Join(bad, "; "))
			}
			c.Observe(fmt.Sprintf("%s=%d", what, q))
			return r, q
		}
		do(1)
		do(2)
		held, hq := view("after-batch-2", 2)
		start := make(chan int, 1)
		var wg vrt.WaitGroup
		wg.Add(1)
		vrt.Go(func() { // created last: lowest priority in the default schedule
			defer wg.Done()
			vrt.Recv(start)
			do(3)
		})
		vrt.Send(start, 1)
		vrt.Send(g.release, 1)
		wg.Wait()
		if r, _ := view("after-delete-only-batch", 3); r != nil {
			r.Close()
		}
		vrt.WaitIdle() // merged / persisted segments have replaced the in-memory ones
		if r, _ := view("after-persist-settled", 3); r != nil {
			r.Close()
		}
		if held != nil {
			if bad := winModel(hq).CheckReader(held, winIDs, []string{"seq"}); len(bad) > 0 {
				c.Fail("reader-changed", "a reader held since batch %d no longer shows that state: %s", hq, strings.Join(bad, "; "))
			}
			held.Close()
		}
		do(4)
		vrt.WaitIdle()
		if r, _ := view("after-batch-4", 4); r != nil {
			r.Close()
		}
		vrt.Free(func() {
			if bad := winModel(4).Check(idx, winIDs, []string{"seq"}); len(bad) > 0 {
				c.Fail("final-state", "after all batches: %s", strings.Join(bad, "; "))
			}
			if err := idx.Close(); err != nil {
				c.Fail("error:close", "Close: %v", err)
			}
		})
	}
}

// ---- a merge that leaves a segment out: with the partial merge plan a segment that keeps two or
// more live documents is not eligible, the small segments around it are merged; the segment left
// out carries a deletion. Global document numbers (offset + local number) of the new root must
// still be those of whole batches; nothing is written between the merge and the reads.

var partialWorkload = []lww.Batch{
	{{Kind: "I", ID: "a", V: 1}, {Kind: "I", ID: "b", V: 1}, {Kind: "I", ID: "c", V: 1}, {Kind: "S", ID: "seq", V: 1}},
	{{Kind: "I", ID: "a", V: 2}, {Kind: "S", ID: "seq", V: 2}},
	{{Kind: "I", ID: "d", V: 1}, {Kind: "S", ID: "seq", V: 3}},
	{{Kind: "I", ID: "b", V: 2}, {Kind: "I", ID: "e", V: 1}, {Kind: "S", ID: "seq", V: 4}},
	{{Kind: "I", ID: "f", V: 1}, {Kind: "S", ID: "seq", V: 5}},
}
var partialIDs = []string{"a", "b", "c", "d", "e", "f", "zz"}

func partialModel(q int) *lww.Model {
	m := lww.New()
	for j := 0; j < q; j++ {
		m.Apply(partialWorkload[j])
	}
	return m
}

func bodyPartialMerge(c *drv.Ctx) {
	var idx bleve.Index
	vrt.Free(func() {
		var err error
		idx, err = bleve.NewUsing(c.Dir+"/idx", bleve.NewIndexMapping(), scorch.Name, scorch.Name,
			map[string]interface{}{"scorchMergePlanOptions": bx.CopyConfig(bx.PartialMergePlan)})
		if err != nil {
			panic(err)
		}
	})
	adv, _ := idx.Advanced()
	submitted, returned := 0, 0
	view := func(what string) {
		atLeast := returned
		r, err := adv.Reader()
		if err != nil {
			c.Fail("error:reader", "Reader: %v", err)
			return
		}
		defer r.Close()
		v, _ := r.GetInternal([]byte("seq"))
		q := 0
		if v != nil {
			q, _ = strconv.Atoi(string(v))
		}
		if q > submitted || q < atLeast {
			c.Fail("stale-read:reader", "%s: reader shows batch %d, expected between %d (returned) and %d (submitted)", what, q, atLeast, submitted)
		} else if bad := partialModel(q).CheckReader(r, partialIDs, []string{"seq"}); len(bad) > 0 {
			c.Fail("torn-view:reader", "%s: one reader shows batch %d (internal key) but: %s", what, q, strings.Join(bad, "; "))
		}
		c.Observe(fmt.Sprintf("%s=%d", what, q))
	}
	var wg vrt.WaitGroup
	wg.Add(1)
	stop := false
	vrt.Go(func() {
		defer wg.Done()
		for i := 0; i < 4 && !stop; i++ {
			view(fmt.Sprintf("concurrent-%d", i))
		}
	})
	for j := 1; j <= len(partialWorkload); j++ {
		submitted = j
		if err := lww.ExecBatch(idx, partialWorkload[j-1]); err != nil {
			c.Fail("error:batch", "Batch %d: %v", j, err)
		}
		returned = j
		if j >= 3 {
			vrt.WaitIdle() // merges of the small segments have been introduced; nothing written since
			view(fmt.Sprintf("settled-after-%d", j))
		}
	}
	stop = true
	wg.Wait()
	c.Observe("layout=" + bx.ScorchLayout(idx))
	vrt.Free(func() {
		if err := idx.Close(); err != nil {
			c.Fail("error:close", "Close: %v", err)
		}
	})
}

// ---- several flush groups: five unsafe batches pile up behind the parked persister as separate
// in-memory segments, the last one obsoleting one document in the first and one in the third
// segment (every segment keeps live documents); with two persister workers one round cuts them into
// three flush groups that are merged in memory concurrently. A reader thread runs across the round.

var manyWorkload = []lww.Batch{
	{{Kind: "I", ID: "a", V: 1}, {Kind: "I", ID: "b", V: 1}, {Kind: "S", ID: "seq", V: 1}},
	{{Kind: "I", ID: "c", V: 1}, {Kind: "I", ID: "d", V: 1}, {Kind: "S", ID: "seq", V: 2}},
	{{Kind: "I", ID: "e", V: 1}, {Kind: "I", ID: "f", V: 1}, {Kind: "S", ID: "seq", V: 3}},
	{{Kind: "I", ID: "g", V: 1}, {Kind: "I", ID: "h", V: 1}, {Kind: "S", ID: "seq", V: 4}},
	{{Kind: "D", ID: "a"}, {Kind: "I", ID: "e", V: 2}, {Kind: "S", ID: "seq", V: 5}},
	{{Kind: "I", ID: "c", V: 2}, {Kind: "S", ID: "seq", V: 6}},
}
var manyIDs = []string{"a", "b", "c", "d", "e", "f", "g", "h", "zz"}

func manyModel(q int) *lww.Model {
	m := lww.New()
	for j := 0; j < q; j++ {
		m.Apply(manyWorkload[j])
	}
	return m
}

func bodyManyFlushGroups(conf map[string]interface{}) func(c *drv.Ctx) {
	return func(c *drv.Ctx) {
		g := &persistGate{armed: true, parked: make(chan int, 1), release: make(chan int, 1)}
		pgate = g
		defer func() { pgate = nil }()
		var idx bleve.Index
		vrt.Free(func() {
			cf := bx.CopyConfig(conf)
			cf["eventCallbackName"] = "verif-c04-persister-gate"
			var err error
			idx, err = bleve.NewUsing(c.Dir+"/idx", bleve.NewIndexMapping(), scorch.Name, scorch.Name, cf)
			if err != nil {
				panic(err)
			}
		})
		vrt.Recv(g.parked)
		adv, _ := idx.Advanced()
		submitted, returned := 0, 0
		do := func(j int) {
			submitted = j
			if err := lww.ExecBatch(idx, manyWorkload[j-1]); err != nil {
				c.Fail("error:batch", "Batch %d: %v", j, err)
			}
			returned = j
		}
		view := func(what string) {
			atLeast := returned
			r, err := adv.Reader()
			if err != nil {
				c.Fail("error:reader", "Reader: %v", err)
				return
			}
			defer r.Close()
			v, _ := r.GetInternal([]byte("seq"))
			q := 0
			if v != nil {
				q, _ = strconv.Atoi(string(v))
			}
			if q > submitted || q < atLeast {
				c.Fail("stale-read:reader", "%s: reader shows batch %d, expected between %d (returned) and %d (submitted)", what, q, atLeast, submitted)
			} else if bad := manyModel(q).CheckReader(r, manyIDs, []string{"seq"}); len(bad) > 0 {
				c.Fail("torn-view:reader", "%s: one reader shows batch %d (internal key) but: %s", what, q, strings.Join(bad, "; "))
			}
			c.Observe(fmt.Sprintf("%s=%d", what, q))
		}
		for j := 1; j <= 5; j++ {
			do(j)
		}
		held, err := adv.Reader()
		if err != nil {
			c.Fail("error:reader", "Reader: %v", err)
			return
		}
		if st, err := bx.Scorch(idx).VerifFileState(); err == nil {
			c.Observe(fmt.Sprintf("unpersisted=%d,with-deletions=%d", st.MemSegments, st.MemSegmentsWithDeletions))
		}
		var wg vrt.WaitGroup
		wg.Add(2)
		vrt.Go(func() {
			defer wg.Done()
			view("during-1")
			view("during-2")
		})
		vrt.Go(func() {
			defer wg.Done()
			do(6)
		})
		vrt.Send(g.release, 1)
		wg.Wait()
		view("after-batch-6")
		vrt.WaitIdle() // merged / persisted segments have replaced the in-memory ones
		view("after-persist-settled")
		if bad := manyModel(5).CheckReader(held, manyIDs, []string{"seq"}); len(bad) > 0 {
			c.Fail("reader-changed", "a reader held since batch 5 no longer shows that state: %s", strings.Join(bad, "; "))
		}
		held.Close()
		vrt.Free(func() {
			if bad := manyModel(6).Check(idx, manyIDs, []string{"seq"}); len(bad) > 0 {
				c.Fail("final-state", "after all batches: %s", strings.Join(bad, "; "))
			}
			if err := idx.Close(); err != nil {
				c.Fail("error:close", "Close: %v", err)
			}
		})
	}
}

// ---- two writers on the SAME document ids: whatever the interleaving, once both calls have returned
// the index must equal one of the two serial orders (each call is one batch: all-or-nothing), and a
// reader obtained in between must show the initial state or the state after some serial prefix.

type sameIDCase struct {
	name string
	a, b lww.Batch
}

var sameIDInit = lww.Batch{{Kind: "I", ID: "x", V: 1}, {Kind: "I", ID: "y", V: 1}, {Kind: "S", ID: "seq", V: 0}}
var sameIDIDs = []string{"x", "y", "zz"}

func sameIDCases() []sameIDCase {
	I := func(id string, v int) lww.Op { return lww.Op{Kind: "I", ID: id, V: v} }
	D := func(id string) lww.Op { return lww.Op{Kind: "D", ID: id} }
	return []sameIDCase{
		{"delete||update", lww.Batch{D("x")}, lww.Batch{I("x", 2)}},
		{"delete||delete", lww.Batch{D("x")}, lww.Batch{D("x")}},
		{"update||update", lww.Batch{I("x", 2)}, lww.Batch{I("x", 3)}},
		{"batch||batch", lww.Batch{I("x", 2), D("y")}, lww.Batch{D("x"), I("y", 3)}},
	}
}

func bodySameID(engine string, cs sameIDCase) func(c *drv.Ctx) {
	return func(c *drv.Ctx) {
		var idx bleve.Index
		vrt.Free(func() {
			var err error
			m := bleve.NewIndexMapping()
			switch engine {
			case "upsidedown":
				idx, err = bleve.NewUsing("", m, "upside_down", "gtreap", nil)
			case "upsidedown-boltdb":
				idx, err = bleve.NewUsing(c.Dir+"/idx", m, "upside_down", "boltdb", map[string]interface{}{"initialMmapSize": 16 << 20})
			default:
				idx, err = bleve.NewUsing(c.Dir+"/idx", m, scorch.Name, scorch.Name, nil)
			}
			if err != nil {
				panic(err)
			}
			if err := lww.ExecBatch(idx, sameIDInit); err != nil {
				panic(err)
			}
		})
		// single Index/Delete calls when the batch has one operation (the non-batch code paths), a
		// Batch call otherwise
		exec := func(b lww.Batch) error {
			if len(b) == 1 && b[0].Kind == "I" {
				return idx.Index(b[0].ID, lww.Body(b[0].V))
			}
			if len(b) == 1 && b[0].Kind == "D" {
				return idx.Delete(b[0].ID)
			}
			return lww.ExecBatch(idx, b)
		}
		states := func() map[string]*lww.Model {
			out := map[string]*lww.Model{}
			for name, order := range map[string][]lww.Batch{"initial": {}, "a": {cs.a}, "b": {cs.b}, "a;b": {cs.a, cs.b}, "b;a": {cs.b, cs.a}} {
				m := lww.New()
				m.Apply(sameIDInit)
				for _, b := range order {
					m.Apply(b)
				}
				out[name] = m
			}
			return out
		}()
		var wg vrt.WaitGroup
		done := make(chan int, 2)
		for i, b := range []lww.Batch{cs.a, cs.b} {
			i, b := i, b
			wg.Add(1)
			vrt.Go(func() {
				defer wg.Done()
				if err := exec(b); err != nil {
					c.Fail("error:write", "writer %d: %v", i, err)
				}
				vrt.Send(done, i)
			})
		}
		// a reader in between: some serial prefix
		wg.Add(1)
		vrt.Go(func() {
			defer wg.Done()
			vrt.Recv(done)
			adv, _ := idx.Advanced()
			r, err := adv.Reader()
			if err != nil {
				c.Fail("error:reader", "Reader: %v", err)
				return
			}
			defer r.Close()
			ok := ""
			var why []string
			countOnly := false
			for _, name := range []string{"a", "b", "a;b", "b;a"} {
				bad := states[name].CheckReader(r, sameIDIDs, nil)
				if len(bad) == 0 {
					ok = name
					break
				}
				if len(bad) == 1 && strings.HasPrefix(bad[0], "DocCount=") {
					// documents, postings and internal values are a serial prefix; only DocCount is off. That is
					// the known "count from another moment" only if the count IS the count of another serial state
					var got int
					fmt.Sscanf(bad[0], "DocCount=%d", &got)
					for _, st := range states {
						if len(st.Docs) == got {
							countOnly = true
						}
					}
				}
				why = append(why, name+": "+bad[0])
			}
			if ok == "" && countOnly {
				c.Fail("reader-doccount-not-atomic-with-snapshot", "a reader's documents and postings show a serial prefix of the two calls but its DocCount belongs to another moment (%s)", strings.Join(why, " | "))
			} else if ok == "" {
				c.Fail("torn-view:same-id-writers", "a reader obtained after one of the two calls had returned shows no serial prefix of them (%s)", strings.Join(why, " | "))
			}
			c.Observe("mid=" + ok)
		})
		wg.Wait()
		vrt.Free(func() {
			ab := states["a;b"].Check(idx, sameIDIDs, nil)
			ba := states["b;a"].Check(idx, sameIDIDs, nil)
			switch {
			case len(ab) == 0 && len(ba) == 0:
				c.Observe("final=either")
			case len(ab) == 0:
				c.Observe("final=a;b")
			case len(ba) == 0:
				c.Observe("final=b;a")
			default:
				c.Fail("not-serializable:same-id-writers", "after both calls returned the index equals neither serial order: vs a;b: %s || vs b;a: %s", strings.Join(ab, "; "), strings.Join(ba, "; "))
			}
			if err := idx.Close(); err != nil {
				c.Fail("error:close", "Close: %v", err)
			}
		})
	}
}

var unsafe2 = map[string]interface{}{"unsafe_batch": true, "scorchPersisterOptions": map[string]interface{}{"NumPersisterWorkers": 2, "MaxSizeInMemoryMergePerWorker": 1}}
var aggressive = map[string]interface{}{"scorchMergePlanOptions": bx.AggressiveMergePlan}
var nomerge = map[string]interface{}{"scorchMergePlanOptions": bx.NoMergePlan}

// Scenarios of C04.
// ---- gated workload families (word x gate are environment choices of the explorer): every batch in
// its own client thread, started when everything the previous one set in motion has settled; after
// every step a reader is opened — it must show one whole-batch state S_q with acknowledged <= q <=
// submitted — and KEPT; at the end every kept reader must still show exactly its state.
func bodyGatedFamily(conf map[string]interface{}, unsafe bool, words []string) func(c *drv.Ctx) {
	menu := fgate.MenuPairs()
	return func(c *drv.Ctx) {
		word := words[vrt.Choose(len(words), "workload")]
		spec := menu[vrt.Choose(len(menu), "gate")]
		wl := lww.BuildWord(word)
		model := func(q int) *lww.Model {
			m := lww.New()
			for j := 0; j < q; j++ {
				m.Apply(wl[j])
			}
			return m
		}
		var idx bleve.Index
		vrt.Free(func() {
			cf := bx.CopyConfig(conf)
			if cf == nil {
				cf = map[string]interface{}{}
			}
			cf["eventCallbackName"] = fgate.Name
			if unsafe {
				cf["unsafe_batch"] = true
			}
			var err error
			idx, err = bleve.NewUsing(c.Dir+"/idx", bleve.NewIndexMapping(), scorch.Name, scorch.Name, cf)
			if err != nil {
				panic(err)
			}
			vrt.WaitIdle()
		})
		g := fgate.Arm(spec)
		defer g.Disarm()
		adv, _ := idx.Advanced()
		returned, submitted := 0, 0
		type heldT struct {
			r    index.IndexReader
			q    int
			what string
		}
		var held []heldT
		view := func(what string) {
			r, err := adv.Reader()
			if err != nil {
				c.Fail("error:reader", "Reader: %v", err)
				return
			}
			v, _ := r.GetInternal([]byte("seq"))
			q := 0
			if v != nil {
				q, _ = strconv.Atoi(string(v))
			}
			if q > submitted || q < returned {
				c.Fail("stale-read:reader", "%s: reader shows batch %d, expected between %d (returned) and %d (submitted)", what, q, returned, submitted)
			} else if bad := model(q).CheckReader(r, lww.FamilyIDs, []string{"seq"}); len(bad) > 0 {
				c.Fail("torn-view:reader", "%s: one reader shows batch %d (internal key) but: %s", what, q, strings.Join(bad, "; "))
			}
			held = append(held, heldT{r, q, what})
		}
		var wg vrt.WaitGroup
		for j := 1; j <= len(wl); j++ {
			j := j
			wg.Add(1)
			vrt.Go(func() {
				defer wg.Done()
				if j > submitted {
					submitted = j
				}
				if err := lww.ExecBatch(idx, wl[j-1]); err != nil {
					c.Fail("error:batch", "Batch %d: %v", j, err)
					return
				}
				if j > returned {
					returned = j
				}
			})
			vrt.WaitIdle()
			view(fmt.Sprintf("after-step-%d", j))
			if g.Step() {
				vrt.WaitIdle()
				view(fmt.Sprintf("after-gate-opened-%d", j))
			}
		}
		parked := g.Was()
		g.Open()
		wg.Wait()
		vrt.WaitIdle()
		view("settled")
		for _, h := range held {
			if bad := model(h.q).CheckReader(h.r, lww.FamilyIDs, []string{"seq"}); len(bad) > 0 {
				c.Fail("reader-changed", "the reader opened at %s showed batch %d; re-read at the end: %s", h.what, h.q, strings.Join(bad, "; "))
			}
			h.r.Close()
		}
		if parked > 0 {
			c.Count("executions_in_which_a_gate_parked_a_background_thread", 1)
		}
		if parked > 1 {
			c.Count("executions_in_which_persister_and_merger_were_both_parked", 1)
		}
		c.Observe(fmt.Sprintf("wl=%s gate=%s parked=%v", word, spec.Label, parked))
		c.Count("family_words_x_gates_run", 1)
		vrt.Free(func() {
			if bad := model(len(wl)).Check(idx, lww.FamilyIDs, []string{"seq"}); len(bad) > 0 {
				c.Fail("final-state", "after all batches: %s", strings.Join(bad, "; "))
			}
			if err := idx.Close(); err != nil {
				c.Fail("error:close", "Close: %v", err)
			}
		})
	}
}

func Scenarios() []drv.Scenario {
	d1 := []drv.Phase{{Bound: 1}}
	d1r := []drv.Phase{{Bound: 1, Filter: "restricted"}}
	var same []drv.Scenario
	for _, eng := range []string{"upsidedown", "scorch", "upsidedown-boltdb"} {
		for _, cs := range sameIDCases() {
			sc := drv.Scenario{Name: "S10-same-id-writers:" + eng + ":" + cs.name, Doc: "two writers on the same ids, reader in between; final state must equal a serial order",
				Body: bodySameID(eng, cs), Workers: 2, Class: eng,
				Thorough: []drv.Phase{{Bound: 1}, {Bound: 2, Filter: "restricted"}}}
			if eng != "upsidedown-boltdb" && (eng == "upsidedown" || cs.name == "delete||update" || cs.name == "batch||batch") {
				sc.Quick = []drv.Phase{{Bound: 1}}
			}
			same = append(same, sc)
		}
	}
	d0 := []drv.Phase{{Bound: 0}}
	words := lww.GatedWords(mc.Tier())
	gdoc := "gated workload family: every word over the batch-shape alphabet x every member of the gate menu (none; merger parked before introducing a merge / before planning, persister parked after a round / before its purge; 1st or 2nd occurrence; reopened after 1 or 2 further batches); a reader after every step, all kept and re-read at the end"
	return append([]drv.Scenario{
		{Name: "G1-gated-family-safe-default-merges", Doc: gdoc, Body: bodyGatedFamily(nil, false, words), Quick: d0, Thorough: d0},
		{Name: "G2-gated-family-safe-partial-merges", Doc: gdoc, Body: bodyGatedFamily(map[string]interface{}{"scorchMergePlanOptions": bx.PartialMergePlan}, false, words), Quick: d0, Thorough: d0},
		{Name: "G3-gated-family-unsafe-2-persister-workers", Doc: gdoc, Body: bodyGatedFamily(unsafe2, true, words), Quick: d0, Thorough: d0},
		{Name: "G4-gated-family-unsafe-nomerge", Doc: gdoc, Body: bodyGatedFamily(nomerge, true, words), Quick: d0, Thorough: d0},
		{Name: "S1-two-writers-reader", Doc: "2 writers × 2 batches ∥ reader with a held index reader; scorch on disk, default options",
			Body: body(cfg{engine: "scorch", writers: 2, batches: 2}), Quick: d1r,
			Thorough: []drv.Phase{{Bound: 1}, {Bound: 2, Filter: "restricted"}}},
		{Name: "S3-writer-searcher-aggressive-merge", Doc: "1 writer × 3 batches (updates + deletes of earlier segments) ∥ reader + searcher; merge plan forcing file merges after every batch",
			Body: body(cfg{engine: "scorch", conf: aggressive, writers: 1, batches: 3, searcher: true}), Quick: d1r,
			Thorough: []drv.Phase{{Bound: 1}, {Bound: 2, Filter: "restricted"}}},
		{Name: "S2-writer-reader-forcemerge", Doc: "1 writer × 3 batches ∥ long-lived reader ∥ ForceMerge",
			Body: body(cfg{engine: "scorch", writers: 1, batches: 3, forceMrg: true}), Quick: d1r,
			Thorough: []drv.Phase{{Bound: 1}, {Bound: 2, Filter: "restricted"}}},
		{Name: "S4-unsafe-two-persister-workers", Doc: "2 writers × 2 unsafe batches ∥ reader; 2 persister workers with in-memory merges",
			Body: body(cfg{engine: "scorch", conf: unsafe2, writers: 2, batches: 2}), Quick: d1r,
			Thorough: []drv.Phase{{Bound: 1}, {Bound: 2, Filter: "restricted"}}},
		{Name: "S6-batch-lands-while-file-merge-in-flight", Doc: "writer ∥ background file merge parked (public event callback) between building the merged segment and its introduction; a batch obsoleting documents of the merge inputs lands in between",
			Body: bodyGated(aggressive, false), Quick: d1r, Thorough: []drv.Phase{{Bound: 1}, {Bound: 2, Filter: "restricted"}}},
		{Name: "S7-batch-lands-while-forced-merge-in-flight", Doc: "the same with merging suppressed and a ForceMerge thread",
			Body: bodyGated(nomerge, true), Quick: d1, Thorough: []drv.Phase{{Bound: 1}, {Bound: 2, Filter: "restricted"}}},
		{Name: "S8-delete-only-batch-lands-in-persist-window", Doc: "two unsafe batches pile up behind a parked persister; it is released together with a low-priority delete-only batch; readers before, during and after",
			Body: bodyPersistWindow(unsafe2), Quick: d1r, Thorough: []drv.Phase{{Bound: 1}, {Bound: 2, Filter: "restricted"}}},
		{Name: "S9-delete-only-batch-lands-in-persist-window-legacy-flush", Doc: "the same with one persister worker (legacy one-shot in-memory merge + flush)",
			Body: bodyPersistWindow(map[string]interface{}{"unsafe_batch": true}), Quick: d1r, Thorough: []drv.Phase{{Bound: 1}, {Bound: 2, Filter: "restricted"}}},
		{Name: "S12-merge-leaves-out-a-segment-with-deletions", Doc: "partial merge plan: the small segments are merged around a three-document segment that stays and carries a deletion; reads right after the merge settled, a reader thread alongside",
			Body: bodyPartialMerge, Quick: d1r, Thorough: []drv.Phase{{Bound: 1}, {Bound: 2, Filter: "restricted"}}},
		{Name: "S11-five-unpersisted-segments-flushed-in-three-groups-by-two-workers", Doc: "five unsafe batches pile up behind a parked persister (segments keep live documents, two carry deletions); one round with two workers merges three flush groups in memory while a reader thread and a sixth batch run",
			Body: bodyManyFlushGroups(unsafe2), Quick: d1r, Thorough: []drv.Phase{{Bound: 1}, {Bound: 2, Filter: "restricted"}}},
		{Name: "S5-upsidedown-gtreap", Class: "upsidedown", Doc: "2 writers × 2 batches ∥ reader + searcher on upsidedown/gtreap",
			Body: body(cfg{engine: "upsidedown", writers: 2, batches: 2, searcher: true}), Quick: d1r,
			Thorough: []drv.Phase{{Bound: 2}}},
	}, same...)
}

func Describe(r *mc.Run) {
	r.Rule("E3: stateless exploration of ALL schedules of each closed driver (client threads + scorch's introducer, persister, merger and analysis goroutines, mechanically re-routed through a cooperative scheduler) within a bound on deviations from the deterministic default schedule (pre-emptions, non-default thread at a blocking point, non-default ready select arm); the oracle runs inside every execution on every read: one reader = one whole-batch prefix per writer (internal key, three documents, postings, DocCount agree), never older than a batch acknowledged before the read began, per-client monotonic, held readers immutable; an outcome is the vector of views the reader observed")
	r.Assume("sequentially consistent interleavings at synchronisation granularity (locks, channels, select, WaitGroup, go); atomics and un-instrumented dependencies (zapx, bbolt, roaring) run atomically between scheduling points", "timers never fire (no driver uses PersisterNapTimeMSec)")
}
