// Package c01: index contents equal the last-write-wins replay of the operation history.
//
// E1: explicit-state breadth-first search over batch sequences; every transition replays the
// path on a fresh real index of the configuration and compares all observations with the
// map model; states are deduplicated by (model state, physical layout signature).
package c01

import (
	"context"
	"fmt"
	"os"
	"strings"
	"time"

	"github.com/blevesearch/bleve/v2"
	"github.com/blevesearch/bleve/v2/index/scorch"
	"github.com/blevesearch/bleve/v2/index/upsidedown"
	_ "github.com/blevesearch/bleve/v2/index/upsidedown/store/boltdb"
	_ "github.com/blevesearch/bleve/v2/index/upsidedown/store/goleveldb"
	"github.com/blevesearch/bleve/v2/index/upsidedown/store/gtreap"
	_ "github.com/blevesearch/bleve/v2/index/upsidedown/store/moss"

	"verif/bx"
	"verif/lww"
	"verif/mc"
)

type conf struct {
	pileUp bool // park the persister at its idle point (unsafe batches): every batch of the history is still an unpersisted segment when it resumes and one round merges them in memory
	gated  bool // park the first merge task (public event callback) and let the following operations land while it is in flight
	name   string
	disk   bool
	scorch bool
	unsafe bool
	itype  string
	kv     string
	cfg    map[string]interface{}
}

func (c conf) open(dir string, create bool) (bleve.Index, error) {
	return c.openWith(dir, create, "")
}

func (c conf) openWith(dir string, create bool, callback string) (bleve.Index, error) {
	cfg := bx.CopyConfig(c.cfg) // bleve writes into the config map: never share it between instances
	if callback != "" {
		if cfg == nil {
			cfg = map[string]interface{}{}
		}
		cfg["eventCallbackName"] = callback
	}
	if !c.disk {
		return bleve.NewUsing("", bleve.NewIndexMapping(), c.itype, c.kv, cfg)
	}
	if create {
		return bleve.NewUsing(dir, bleve.NewIndexMapping(), c.itype, c.kv, cfg)
	}
	return bleve.OpenUsing(dir, cfg)
}

func cfgWith(kv ...interface{}) map[string]interface{} {
	m := map[string]interface{}{}
	for i := 0; i+1 < len(kv); i += 2 {
		m[kv[i].(string)] = kv[i+1]
	}
	return m
}

func confs(quick bool) []conf {
	cs := []conf{
		{name: "scorch-mem", scorch: true, itype: scorch.Name, kv: scorch.Name},
		{name: "scorch-disk-nomerge", disk: true, scorch: true, itype: scorch.Name, kv: scorch.Name, cfg: cfgWith("scorchMergePlanOptions", bx.NoMergePlan)},
		{name: "scorch-disk-aggressive", disk: true, scorch: true, itype: scorch.Name, kv: scorch.Name, cfg: cfgWith("scorchMergePlanOptions", bx.AggressiveMergePlan)},
		{name: "scorch-disk-partial-merge", disk: true, scorch: true, itype: scorch.Name, kv: scorch.Name, cfg: cfgWith("scorchMergePlanOptions", bx.PartialMergePlan)},
		{name: "scorch-disk-merge-gated", gated: true, disk: true, scorch: true, itype: scorch.Name, kv: scorch.Name, cfg: cfgWith("scorchMergePlanOptions", bx.AggressiveMergePlan)},
		{name: "scorch-disk-unsafe-2workers", disk: true, scorch: true, unsafe: true, itype: scorch.Name, kv: scorch.Name,
			cfg: cfgWith("unsafe_batch", true, "scorchPersisterOptions", map[string]interface{}{"NumPersisterWorkers": 2, "MaxSizeInMemoryMergePerWorker": 1})},
		{name: "scorch-disk-unsafe-2workers-history-merged-in-memory-in-one-round", pileUp: true, disk: true, scorch: true, unsafe: true, itype: scorch.Name, kv: scorch.Name,
			cfg: cfgWith("unsafe_batch", true, "scorchPersisterOptions", map[string]interface{}{"NumPersisterWorkers": 2, "MaxSizeInMemoryMergePerWorker": 1})},
		{name: "upsidedown-gtreap", itype: upsidedown.Name, kv: gtreap.Name},
		{name: "upsidedown-boltdb", disk: true, itype: upsidedown.Name, kv: "boltdb"},
		{name: "scorch-mem-zap15", scorch: true, itype: scorch.Name, kv: scorch.Name, cfg: cfgWith("forceSegmentType", "zap", "forceSegmentVersion", 15)},
	}
	if !quick {
		cs = append(cs,
			conf{name: "scorch-disk-default", disk: true, scorch: true, itype: scorch.Name, kv: scorch.Name},
			conf{name: "upsidedown-moss", itype: upsidedown.Name, kv: "moss"},
			conf{name: "upsidedown-goleveldb", disk: true, itype: upsidedown.Name, kv: "goleveldb"},
			conf{name: "scorch-disk-zap16-aggressive", disk: true, scorch: true, itype: scorch.Name, kv: scorch.Name, cfg: cfgWith("forceSegmentType", "zap", "forceSegmentVersion", 16, "scorchMergePlanOptions", bx.AggressiveMergePlan)},
		)
		for _, v := range []int{11, 12, 13, 14, 16} {
			cs = append(cs, conf{name: fmt.Sprintf("scorch-mem-zap%d", v), scorch: true, itype: scorch.Name, kv: scorch.Name, cfg: cfgWith("forceSegmentType", "zap", "forceSegmentVersion", v)})
		}
	}
	return cs
}

// op: a batch, or a layout operation.
type op struct {
	batch  lww.Batch
	layout string // "" | "forcemerge" | "reopen"
}

func (o op) String() string {
	if o.layout != "" {
		return o.layout
	}
	return o.batch.String()
}

// partialAlphabet: a small alphabet for the partial-merge configuration (a 3-document batch whose
// segment stays behind with obsoleted documents while the small segments around it merge), explored
// one level deeper than the general alphabet.
func partialAlphabet(quick bool) []op {
	I := func(id string, v int) lww.Op { return lww.Op{Kind: "I", ID: id, V: v} }
	D := func(id string) lww.Op { return lww.Op{Kind: "D", ID: id} }
	bs := []lww.Batch{
		{I("a", 1), I("b", 1), I("c", 1)}, {I("a", 2)}, {I("d", 1)}, {I("b", 2)}, {D("b")}, {I("c", 2), D("d")}, {I("zz", 1)}, {I("d", 2), I("never", 1)},
	}
	if quick {
		bs = append(bs[:3:3], bs[3], bs[5], bs[6]) // quick tier: 6 batches
	}
	var ops []op
	for _, b := range bs {
		ops = append(ops, op{batch: b})
	}
	if quick {
		return ops
	}
	return append(ops, op{layout: "reopen"})
}

func alphabet(quick bool) []op {
	I := func(id string, v int) lww.Op { return lww.Op{Kind: "I", ID: id, V: v} }
	D := func(id string) lww.Op { return lww.Op{Kind: "D", ID: id} }
	S := func(v int) lww.Op { return lww.Op{Kind: "S", ID: "k", V: v} }
	X := lww.Op{Kind: "X", ID: "k"}
	bs := []lww.Batch{
		{I("a", 1)}, {I("a", 2)}, {I("b", 1)}, {I("b", 2)}, {D("a")}, {D("b")},
		{S(1)}, {S(2)}, {X}, {},
		{I("a", 1), D("a")}, {D("a"), I("a", 2)}, {I("a", 1), I("a", 2)}, {I("b", 2), D("a")},
		{I("a", 1), I("b", 1)}, {D("a"), D("b")}, {I("a", 3), S(1)}, {D("zz")},
		{I("a", 1), D("a"), I("a", 3)}, {D("b"), I("b", 1), D("b")},
	}
	if !quick {
		bs = append(bs, lww.Batch{I("a", 2), D("b"), X}, lww.Batch{I("b", 3), I("a", 3), S(2)}, lww.Batch{I("a", 3)})
	}
	var ops []op
	for _, b := range bs {
		ops = append(ops, op{batch: b})
	}
	ops = append(ops, op{layout: "forcemerge"}, op{layout: "reopen"})
	return ops
}

var ids = []string{"a", "b", "c", "d", "zz", "never"}
var keys = []string{"k", "unused"}

func Run(r *mc.Run) {
	ops := alphabet(r.Quick())
	depth := mc.Pick(r, 3, 4)
	r.Rule("E1: breadth-first search over sequences of batches (single ops, multi-op batches incl. several operations on one id, empty batch, delete of an absent id, internal keys) and layout operations (ForceMerge, Close+Open) up to the depth bound, per index configuration; every transition replays the path on a fresh real index and compares DocCount, Document(id) for every id of the id space and a never-used id, match-all, doc-id and term searches and GetInternal with the map model; states are deduplicated by (model state, physical segment layout signature)")
	r.Assume("document order inside one batch segment is unspecified and never compared", "Fields() is not compared (segments legitimately remember fields of obsoleted documents)")
	r.Note("alphabet_size", len(ops))
	r.Note("depth", depth)
	var names []string
	for _, o := range ops {
		names = append(names, o.String())
	}
	r.Note("alphabet", names)
	for ci, c := range confs(r.Quick()) {
		if r.Expired() {
			r.Cap("deadline before configuration " + c.name)
			break
		}
		d := depth
		if c.disk && r.Quick() && ci > 2 {
			d = depth - 1 // quick tier: on-disk variants one level shallower
		}
		cops := ops
		if c.name == "scorch-disk-partial-merge" || c.gated || c.pileUp {
			cops, d = partialAlphabet(r.Quick()), depth+1
		}
		t0 := time.Now()
		st, tr := explore(r, c, cops, d)
		r.Note("conf:"+c.name, map[string]any{"states": st, "transitions": tr, "depth": d, "wall_s": time.Since(t0).Seconds()})
	}
}

func explore(r *mc.Run, c conf, ops []op, depth int) (int, int) {
	seq := mc.Seq{N: len(ops), Depth: depth, OpName: func(i int) string { return ops[i].String() }}
	if c.disk {
		seq.Workers = 12
	}
	seq.Exec = func(path []int) (string, bool) {
		var key string
		ok := true
		rep := map[string]any{"configuration": c.name, "path": seq.PathString(path)}
		done, pv, st := mc.WithTimeout(60*time.Second, func() { key, ok = execPath(r, c, ops, path, rep) })
		if !done {
			r.Cap(fmt.Sprintf("execution hung (>60s) in %s after %s — abandoned, not counted as a violation of C01", c.name, seq.PathString(path)))
			return "", false
		}
		if pv != nil {
			r.Violation("panic:"+c.name, fmt.Sprintf("%v: panic %v @ %s", rep, pv, mc.TrimStack(st)), rep)
			return "", false
		}
		return key, ok
	}
	return r.BFS(seq)
}

func execPath(r *mc.Run, c conf, ops []op, path []int, rep map[string]any) (string, bool) {
	dir := ""
	if c.disk {
		dir = mc.ScratchDir("c01")
		defer os.RemoveAll(dir)
		dir = dir + "/idx"
	}
	var g *bx.MergeGate
	cb := ""
	if c.gated {
		g = bx.AcquireGate()
		cb = g.Name()
		defer g.Free()
	}
	if c.pileUp {
		g = bx.AcquireGateFor(scorch.EventKindPurgerCheck)
		cb = g.Name()
		defer g.Free()
		g.Arm() // the persister parks the first time it goes idle, i.e. right after the index is created
	}
	idx, err := c.openWith(dir, true, cb)
	if err != nil {
		r.Violation("open:"+c.name, fmt.Sprintf("%v: create failed: %v", rep, err), rep)
		return "", false
	}
	defer func() {
		if g != nil {
			g.Release() // a parked merger must be released before Close
		}
		if idx != nil {
			idx.Close()
		}
	}()
	if c.gated {
		g.Arm()
	}
	if c.pileUp {
		g.WaitParked(3 * time.Second)
	}
	m := lww.New()
	lastKind := "init"
	for si, oi := range path {
		o := ops[oi]
		switch o.layout {
		case "":
			if err := lww.ExecBatch(idx, o.batch); err != nil {
				r.Violation("batch-error:"+c.name, fmt.Sprintf("%v: step %d %s: %v", rep, si, o, err), rep)
				return "", false
			}
			m.Apply(o.batch)
			lastKind = "batch"
		case "forcemerge":
			s := bx.Scorch(idx)
			if s == nil || !c.disk {
				return "", false // not applicable
			}
			if err := s.ForceMerge(context.Background(), nil); err != nil {
				r.Violation("forcemerge-error:"+c.name, fmt.Sprintf("%v: step %d: %v", rep, si, err), rep)
				return "", false
			}
			lastKind = "forcemerge"
		case "reopen":
			if !c.disk {
				return "", false
			}
			if c.pileUp {
				g.Release() // the persister resumes: the history so far is merged in memory and persisted
			}
			if c.unsafe && !bx.Persisted(idx, 10*time.Second) {
				r.Cap("unsafe-batch index did not persist within 10s before a reopen; path skipped")
				return "", false
			}
			if g != nil {
				g.Release()
			}
			if err := idx.Close(); err != nil {
				r.Violation("close-error:"+c.name, fmt.Sprintf("%v: step %d: %v", rep, si, err), rep)
				idx = nil
				return "", false
			}
			idx, err = c.openWith(dir, false, cb)
			if err != nil {
				idx = nil
				r.Violation("reopen-error:"+c.name, fmt.Sprintf("%v: step %d: %v", rep, si, err), rep)
				return "", false
			}
			lastKind = "reopen"
		}
		switch {
		case c.pileUp:
			// nothing to wait for: unsafe batches return once introduced, the persister is parked
		case g != nil && !g.IsParked():
			g.WaitParkedOrQuiet(idx, 2*time.Second)
		case g != nil:
			bx.Persisted(idx, 2*time.Second) // a merge is parked: later operations land while it is in flight
		case c.disk && c.scorch:
			bx.Quiesce(idx, 2*time.Second)
		}
	}
	if g != nil && g.IsParked() {
		// observe the state while the merge is still in flight, then let it be introduced
		r.Eval(1)
		when := "while-merge-in-flight"
		if c.pileUp {
			when = "while-nothing-is-persisted"
			r.Count("histories_observed_with_every_batch_unpersisted", 1)
		} else {
			r.Count("histories_observed_with_a_merge_in_flight", 1)
		}
		if bad := m.Check(idx, ids, keys); len(bad) > 0 {
			r.Violation(fmt.Sprintf("lww:%s:%s", c.name, when), fmt.Sprintf("%v: %s", rep, strings.Join(bad, "; ")), rep)
		}
		g.Release()
		bx.Quiesce(idx, 2*time.Second)
		if c.pileUp {
			lastKind += "+merged-in-memory-and-persisted-afterwards"
		} else {
			lastKind += "+merge-introduced-afterwards"
		}
	}
	r.Eval(1)
	if bad := m.Check(idx, ids, keys); len(bad) > 0 {
		what := bad[0]
		if i := strings.IndexAny(what, "=( "); i > 0 {
			what = what[:i]
		}
		r.Violation(fmt.Sprintf("lww:%s:%s:after-%s", c.name, what, lastKind), fmt.Sprintf("%v: %s", rep, strings.Join(bad, "; ")), rep)
	}
	layout := bx.ScorchLayout(idx)
	r.Outcome(fmt.Sprintf("%s|docs=%d|int=%d", c.name, len(m.Docs), len(m.Internal)))
	if strings.Contains(layout, "!") {
		r.Count("states_with_obsoleted_docs_in_live_segments", 1)
	}
	if len(path) == 3 && path[0] != path[1] {
		r.Sample(map[string]any{"configuration": c.name, "path": rep["path"], "model": m.Key(), "layout": layout})
	}
	return m.Key() + "#" + layout, true
}
