// Package c19: analysis and highlighting never panic; offsets always point into the source text.
//
// E2. Four exhaustive phases over explicit finite alphabets:
//
//	A  every registered analyzer / tokenizer / token filter / char filter (registry enumerated at
//	   run time, components that need a configuration get the minimal ones of the tables below)
//	   × every string of length ≤ L over a 14-symbol alphabet (ASCII classes, multi-byte scripts,
//	   a zero-width non-joiner, an astral-plane emoji, the invalid bytes 0xff and a truncated 0xc3)
//	   plus long-token / repeated patterns: no panic, terminates, and for tokenizers the offset and
//	   position clauses of the statement;
//	B  the highlighters driven directly (public highlight API) on every short stored value × every
//	   term location / pair of term locations (also cutting runes, also beyond the value): no panic;
//	C  real indexes (field analyzer = every named analyzer + a family of custom ones) × documents
//	   built from a small word alphabet × a reduced C02 query family × highlighters {html, ansi} ×
//	   fragment sizes: no panic; where the analyzer's char filters leave the length of the stored
//	   value unchanged every fragment, markup and escaping removed, is a contiguous slice of the
//	   stored value and every marked span is the bytes at a reported term location.
package c19

import (
	"encoding/hex"
	"encoding/json"
	"fmt"
	"html"
	"sort"
	"strconv"
	"strings"
	"sync"
	"sync/atomic"
	"time"
	"unicode/utf8"

	"github.com/blevesearch/bleve/v2"
	"github.com/blevesearch/bleve/v2/analysis"
	_ "github.com/blevesearch/bleve/v2/analysis/token/hierarchy" // present in the tree, not imported by config
	_ "github.com/blevesearch/bleve/v2/analysis/token/snowball"  // present in the tree, not imported by config
	_ "github.com/blevesearch/bleve/v2/config"
	"github.com/blevesearch/bleve/v2/document"
	"github.com/blevesearch/bleve/v2/mapping"
	"github.com/blevesearch/bleve/v2/registry"
	"github.com/blevesearch/bleve/v2/search"
	"github.com/blevesearch/bleve/v2/search/highlight"
	"github.com/blevesearch/bleve/v2/search/query"
	index "github.com/blevesearch/bleve_index_api"

	"verif/bx"
	"verif/mc"
)

// ---------------------------------------------------------------------------------------------
// input space

// Alphabet: letter, capital, digit, space, hyphen, apostrophe, full stop, 2-byte letter, 3-byte
// ideograph, right-to-left letter, zero-width non-joiner, 4-byte emoji, a byte that is never
// valid UTF-8, and a lead byte whose continuation is missing.
var Alphabet = []string{"a", "B", "1", " ", "-", "'", ".", "é", "日", "ا", "‌", "😀", "\xff", "\xc3"}

// allStrings returns every string of length ≤ maxLen symbols, shortest first.
func allStrings(alpha []string, maxLen int) []string {
	out := []string{""}
	level := []string{""}
	for l := 1; l <= maxLen; l++ {
		next := make([]string, 0, len(level)*len(alpha))
		for _, p := range level {
			for _, a := range alpha {
				next = append(next, p+a)
			}
		}
		out = append(out, next...)
		level = next
	}
	return out
}

// patterns: long tokens and repetitions (buffer boundaries, quadratic loops, deep n-gram output).
func patterns() []string {
	var p []string
	for _, a := range Alphabet {
		p = append(p, strings.Repeat(a, 64))
	}
	for _, n := range []int{255, 256, 257, 1023, 1025, 4097} {
		p = append(p, strings.Repeat("a", n))
	}
	p = append(p,
		strings.Repeat("é", 300), strings.Repeat("日", 300), strings.Repeat("😀", 130),
		strings.Repeat("aB", 200), strings.Repeat("a1B", 100), strings.Repeat("éB日a", 80),
		strings.Repeat("a ", 300), strings.Repeat("a-B.1'é 日", 60), strings.Repeat("ا‌", 100),
		strings.Repeat("\xff", 300), strings.Repeat("a\xc3", 150), strings.Repeat("\xc3 ", 150),
		strings.Repeat("a", 300)+"\xc3", "\xff"+strings.Repeat("é", 200), strings.Repeat("a'", 200),
		strings.Repeat("l'a ", 100), strings.Repeat("a.B-", 150), strings.Repeat(" ", 500),
		strings.Repeat("日本語 テキスト ", 60), strings.Repeat("aaB1 ", 40)+strings.Repeat("😀é", 40),
	)
	return p
}

func utf8Cause(s string) string {
	if utf8.ValidString(s) {
		return "valid"
	}
	return "invalid-utf8"
}

// ---------------------------------------------------------------------------------------------
// violation collector: the representative of a class is the simplest counterexample in
// enumeration order (not the first one a worker happened to reach), so runs are reproducible.

type okey struct{ l, a, b int }

func (k okey) less(o okey) bool {
	if k.l != o.l {
		return k.l < o.l
	}
	if k.a != o.a {
		return k.a < o.a
	}
	return k.b < o.b
}

type vent struct {
	key    okey
	detail string
	replay any
	sig    string
	n      int
}

// Classes of the form <group>:<analyzer> are folded at flush time into <group>:any-analyzer when
// the plain `standard` analyzer is among the affected ones (the root cause is then not the
// analyzer); otherwise the analyzer stays in the class.
const baselineAnalyzer = "standard"

// causes of the directly driven highlighter, simplest first: a failure that already shows on
// rune-aligned in-range locations absorbs the same failure (same site, same message) on harder input
var directCauses = []string{"locations-on-rune-boundaries", "location-splits-rune", "invalid-utf8-value", "location-beyond-value"}

type collector struct {
	mu sync.Mutex
	m  map[string]*vent
}

func (c *collector) add(class string, k okey, sig string, mk func() (string, any)) {
	c.mu.Lock()
	defer c.mu.Unlock()
	e := c.m[class]
	if e == nil {
		d, rp := mk()
		c.m[class] = &vent{key: k, detail: d, replay: rp, sig: sig, n: 1}
		return
	}
	e.n++
	if k.less(e.key) {
		e.key = k
		e.sig = sig
		e.detail, e.replay = mk()
	}
}

func (c *collector) seen(class string) bool {
	c.mu.Lock()
	defer c.mu.Unlock()
	return c.m[class] != nil
}

// flush hands the collected classes to mc. A component that panics at the same site on valid
// input and on invalid UTF-8 has one root cause: the invalid-utf8 class is folded into the
// valid one.
func (c *collector) flush(r *mc.Run) {
	c.mu.Lock()
	defer c.mu.Unlock()
	merge := func(into, from string) {
		a, b := c.m[into], c.m[from]
		if b == nil || into == from {
			return
		}
		if a == nil {
			c.m[into] = b
		} else {
			a.n += b.n
			if b.key.less(a.key) {
				a.key, a.detail, a.replay, a.sig = b.key, b.detail, b.replay, b.sig
			}
		}
		delete(c.m, from)
	}
	names := func() []string {
		var cls []string
		for cl := range c.m {
			cls = append(cls, cl)
		}
		sort.Strings(cls)
		return cls
	}
	for _, cl := range names() {
		e := c.m[cl]
		switch {
		case strings.HasPrefix(cl, "panic:") && strings.HasSuffix(cl, ":invalid-utf8"):
			v := strings.TrimSuffix(cl, ":invalid-utf8") + ":valid"
			if c.m[v] != nil && c.m[v].sig == e.sig {
				merge(v, cl)
			}
		case strings.HasPrefix(cl, "panic:highlight:"):
			for _, simple := range directCauses {
				if strings.HasSuffix(cl, ":"+simple) {
					break
				}
				i := strings.LastIndex(cl, ":")
				v := cl[:i+1] + simple
				if c.m[v] != nil && c.m[v].sig == e.sig {
					merge(v, cl)
					break
				}
			}
		}
	}
	for _, cl := range names() {
		if strings.HasSuffix(cl, "@"+baselineAnalyzer) {
			g := strings.TrimSuffix(cl, "@"+baselineAnalyzer)
			for _, o := range names() {
				if strings.HasPrefix(o, g+"@") {
					merge(g+"@any-analyzer", o)
				}
			}
		}
	}
	for _, cl := range names() {
		e := c.m[cl]
		for i := 0; i < e.n; i++ {
			r.Violation(cl, e.detail, e.replay)
		}
	}
	c.m = map[string]*vent{}
}

// panicSite names the innermost bleve function on a panic stack, e.g. "reverse.reverse".
func panicSite(stack string) string {
	for _, l := range strings.Split(stack, "\n") {
		if !strings.HasPrefix(l, "github.com/blevesearch/") {
			continue
		}
		if i := strings.LastIndex(l, "("); i > 0 {
			l = l[:i]
		}
		if i := strings.LastIndex(l, "/"); i >= 0 {
			l = l[i+1:]
		}
		return l
	}
	return "outside-bleve"
}

var digitsRe = strings.NewReplacer("0", "#", "1", "#", "2", "#", "3", "#", "4", "#", "5", "#", "6", "#", "7", "#", "8", "#", "9", "#")

func panicSig(pv any, stack string) string {
	return panicSite(stack) + "|" + digitsRe.Replace(fmt.Sprint(pv))
}

// ---------------------------------------------------------------------------------------------
// run context, watchdog

type ctx struct {
	r     *mc.Run
	coll  *collector
	stall time.Duration

	mu           sync.Mutex
	outcomes     map[string]bool
	observed     map[string]int64 // not asserted: filter/analyzer tokens whose offsets leave the input
	searchErrors map[string]string
}

func (c *ctx) outcome(keys map[string]bool) {
	c.mu.Lock()
	var fresh []string
	for k := range keys {
		if !c.outcomes[k] {
			c.outcomes[k] = true
			fresh = append(fresh, k)
		}
	}
	c.mu.Unlock()
	for _, k := range fresh {
		c.r.Outcome(k)
	}
}

// guarded runs one batch (a ParFor item) under a progress watchdog: body stores the index of the
// evaluation it is about to start in *prog; if that index does not move for c.stall the
// evaluation is declared non-terminating, which ends the run (the goroutine cannot be killed).
func (c *ctx) guarded(what string, describe func(i int64) (class, detail string, replay any), body func(prog *atomic.Int64)) {
	var prog atomic.Int64
	prog.Store(-1)
	done := make(chan struct{})
	go func() {
		defer close(done)
		body(&prog)
	}()
	last, lastChange := prog.Load(), time.Now()
	t := time.NewTicker(250 * time.Millisecond)
	defer t.Stop()
	for {
		select {
		case <-done:
			return
		case <-t.C:
			cur := prog.Load()
			if cur != last {
				last, lastChange = cur, time.Now()
				continue
			}
			if time.Since(lastChange) < c.stall || cur < 0 {
				continue
			}
			class, detail, replay := describe(cur)
			c.coll.flush(c.r)
			c.r.Violation(class, fmt.Sprintf("%s: no progress for %v: %s", what, c.stall, detail), replay)
			c.r.Cap("an evaluation did not terminate within the step budget; run ended at once (" + what + ")")
			c.r.Finish()
		}
	}
}

// ---------------------------------------------------------------------------------------------
// phase A: analysis components

type cfg = map[string]interface{}

// Minimal configurations of the components whose constructor refuses an empty configuration.
var tokenizerCfgs = map[string][]cfg{
	"regexp":    {{"regexp": `[0-9a-zA-Zé日]+`}, {"regexp": `\w*`}, {"regexp": `.`}},
	"exception": {{"exceptions": []interface{}{`a-B`, `[0-9]'`}, "tokenizer": "unicode"}, {"exceptions": []interface{}{`é|\s-`}, "tokenizer": "whitespace"}},
}

var tokenMapCfgs = map[string]cfg{
	"c19_words":    {"type": "custom", "tokens": []interface{}{"a", "B", "1", "aB", "é", "日", "aa"}},
	"c19_articles": {"type": "custom", "tokens": []interface{}{"a", "b", "é", "l"}},
}

var tokenFilterCfgs = map[string][]cfg{
	"ngram":             {{"min": 1.0, "max": 3.0}, {"min": 2.0, "max": 2.0}},
	"edge_ngram":        {{"min": 1.0, "max": 3.0, "back": false}, {"min": 1.0, "max": 2.0, "back": true}},
	"shingle":           {{"min": 2.0, "max": 2.0, "output_original": true}, {"min": 2.0, "max": 3.0, "output_original": false, "separator": "_", "filler": "-"}},
	"length":            {{"min": 1.0, "max": 2.0}, {"min": 2.0}},
	"truncate_token":    {{"length": 2.0}, {"length": 1.0}},
	"dict_compound":     {{"dict_token_map": "c19_words", "min_word_size": 1.0, "min_subword_size": 1.0, "max_subword_size": 3.0}, {"dict_token_map": "c19_words", "only_longest_match": true}},
	"elision":           {{"articles_token_map": "c19_articles"}},
	"keyword_marker":    {{"keywords_token_map": "c19_words"}},
	"stop_tokens":       {{"stop_token_map": "c19_words"}},
	"normalize_unicode": {{"form": "nfc"}, {"form": "nfd"}, {"form": "nfkc"}, {"form": "nfkd"}},
	"hierarchy":         {{"delimiter": "-"}, {"delimiter": "-", "max": 3.0}, {"delimiter": ".", "max": 2.0, "split_input": false}},
	"stemmer_snowball":  {{"language": "english"}, {"language": "russian"}},
}

var charFilterCfgs = map[string][]cfg{
	"regexp": {{"regexp": "a", "replace": "aa"}, {"regexp": "[é日]", "replace": ""}, {"regexp": `(.)`, "replace": "$1$1"}},
}

var analyzerCfgs = map[string][]cfg{
	"custom": {
		{"tokenizer": "unicode", "char_filters": []interface{}{"html"}, "token_filters": []interface{}{"to_lower"}},
		{"tokenizer": "whitespace", "char_filters": []interface{}{"zero_width_spaces", "asciifolding"}, "token_filters": []interface{}{"camelCase", "to_lower", "unique"}},
	},
}

func withType(c cfg, typ string) cfg {
	o := cfg{"type": typ}
	for k, v := range c {
		o[k] = v
	}
	return o
}

func cfgString(c cfg) string {
	if c == nil {
		return ""
	}
	b, _ := json.Marshal(c)
	return string(b)
}

type unit struct {
	kind, name, cfg, via string
	tokenize             func(in []byte) analysis.TokenStream // analyzer | tokenizer | driver of a token filter
	filter               func(analysis.TokenStream) analysis.TokenStream
	bytes                func(in []byte) []byte // char filter
}

func (u unit) label() string {
	s := u.kind + ":" + u.name
	if u.cfg != "" {
		s += u.cfg
	}
	if u.via != "" {
		s += " on " + u.via
	}
	return s
}

type inventory struct {
	units       []unit
	built       map[string][]string
	unbuildable []string
}

// construct builds v through f, turning a constructor panic into an error.
func construct[T any](f func() (T, error)) (v T, err error) {
	pv, st := mc.Try(func() { v, err = f() })
	if pv != nil {
		err = fmt.Errorf("constructor panicked: %v @ %s", pv, mc.TrimStack(st))
	}
	return
}

func sorted(s []string) []string { sort.Strings(s); return s }

// buildInventory enumerates the registry and builds every component through one registry.Cache.
func buildInventory(drivers []string) *inventory {
	inv := &inventory{built: map[string][]string{}}
	cache := registry.NewCache()
	fail := func(kind, name string, c cfg, err error) {
		inv.unbuildable = append(inv.unbuildable, fmt.Sprintf("%s:%s%s: %v", kind, name, cfgString(c), err))
	}
	for _, n := range sorted([]string{"c19_words", "c19_articles"}) {
		if _, err := cache.DefineTokenMap(n, tokenMapCfgs[n]); err != nil {
			fail("token_map", n, tokenMapCfgs[n], err)
		}
	}

	// tokenizers
	type namedTk struct {
		name, cfg string
		tk        analysis.Tokenizer
	}
	var tks []namedTk
	types, insts := registry.TokenizerTypesAndInstances()
	for _, n := range sorted(insts) {
		tk, err := construct(func() (analysis.Tokenizer, error) { return cache.TokenizerNamed(n) })
		if err != nil {
			fail("tokenizer", n, nil, err)
			continue
		}
		tks = append(tks, namedTk{n, "", tk})
	}
	for _, n := range sorted(types) {
		cs := tokenizerCfgs[n]
		if len(cs) == 0 {
			fail("tokenizer", n, nil, fmt.Errorf("needs a configuration and the check knows none"))
		}
		for i, c := range cs {
			tk, err := construct(func() (analysis.Tokenizer, error) {
				return cache.DefineTokenizer(fmt.Sprintf("c19_%s_%d", n, i), withType(c, n))
			})
			if err != nil {
				fail("tokenizer", n, c, err)
				continue
			}
			tks = append(tks, namedTk{n, cfgString(c), tk})
		}
	}
	drv := map[string]analysis.Tokenizer{}
	for _, t := range tks {
		t := t
		inv.units = append(inv.units, unit{kind: "tokenizer", name: t.name, cfg: t.cfg, tokenize: t.tk.Tokenize})
		inv.built["tokenizer"] = append(inv.built["tokenizer"], t.name+t.cfg)
		if t.cfg == "" {
			drv[t.name] = t.tk
		}
	}

	// token filters, each driven on the output of the driver tokenizers
	addFilter := func(name, c string, f analysis.TokenFilter) {
		inv.built["token_filter"] = append(inv.built["token_filter"], name+c)
		for _, d := range drivers {
			tk := drv[d]
			if tk == nil {
				continue
			}
			inv.units = append(inv.units, unit{kind: "token_filter", name: name, cfg: c, via: d, tokenize: tk.Tokenize, filter: f.Filter})
		}
	}
	types, insts = registry.TokenFilterTypesAndInstances()
	for _, n := range sorted(insts) {
		f, err := construct(func() (analysis.TokenFilter, error) { return cache.TokenFilterNamed(n) })
		if err != nil {
			fail("token_filter", n, nil, err)
			continue
		}
		addFilter(n, "", f)
	}
	for _, n := range sorted(types) {
		cs := tokenFilterCfgs[n]
		if len(cs) == 0 {
			fail("token_filter", n, nil, fmt.Errorf("needs a configuration and the check knows none"))
		}
		for i, c := range cs {
			f, err := construct(func() (analysis.TokenFilter, error) {
				return cache.DefineTokenFilter(fmt.Sprintf("c19_%s_%d", n, i), withType(c, n))
			})
			if err != nil {
				fail("token_filter", n, c, err)
				continue
			}
			addFilter(n, cfgString(c), f)
		}
	}

	// char filters
	types, insts = registry.CharFilterTypesAndInstances()
	for _, n := range sorted(insts) {
		f, err := construct(func() (analysis.CharFilter, error) { return cache.CharFilterNamed(n) })
		if err != nil {
			fail("char_filter", n, nil, err)
			continue
		}
		inv.units = append(inv.units, unit{kind: "char_filter", name: n, bytes: f.Filter})
		inv.built["char_filter"] = append(inv.built["char_filter"], n)
	}
	for _, n := range sorted(types) {
		cs := charFilterCfgs[n]
		if len(cs) == 0 {
			fail("char_filter", n, nil, fmt.Errorf("needs a configuration and the check knows none"))
		}
		for i, c := range cs {
			f, err := construct(func() (analysis.CharFilter, error) {
				return cache.DefineCharFilter(fmt.Sprintf("c19_%s_%d", n, i), withType(c, n))
			})
			if err != nil {
				fail("char_filter", n, c, err)
				continue
			}
			inv.units = append(inv.units, unit{kind: "char_filter", name: n, cfg: cfgString(c), bytes: f.Filter})
			inv.built["char_filter"] = append(inv.built["char_filter"], n+cfgString(c))
		}
	}

	// analyzers
	types, insts = registry.AnalyzerTypesAndInstances()
	for _, n := range sorted(insts) {
		a, err := construct(func() (analysis.Analyzer, error) { return cache.AnalyzerNamed(n) })
		if err != nil {
			fail("analyzer", n, nil, err)
			continue
		}
		inv.units = append(inv.units, unit{kind: "analyzer", name: n, tokenize: a.Analyze})
		inv.built["analyzer"] = append(inv.built["analyzer"], n)
	}
	for _, n := range sorted(types) {
		cs := analyzerCfgs[n]
		if len(cs) == 0 {
			fail("analyzer", n, nil, fmt.Errorf("needs a configuration and the check knows none"))
		}
		for i, c := range cs {
			a, err := construct(func() (analysis.Analyzer, error) {
				return cache.DefineAnalyzer(fmt.Sprintf("c19_%s_%d", n, i), withType(c, n))
			})
			if err != nil {
				fail("analyzer", n, c, err)
				continue
			}
			inv.units = append(inv.units, unit{kind: "analyzer", name: n, cfg: cfgString(c), tokenize: a.Analyze})
			inv.built["analyzer"] = append(inv.built["analyzer"], n+cfgString(c))
		}
	}
	return inv
}

func unitReplay(u unit, s string) map[string]any {
	rp := map[string]any{"kind": u.kind, "component": u.name, "input_go": strconv.Quote(s), "input_hex": hex.EncodeToString([]byte(s))}
	if u.cfg != "" {
		rp["config"] = u.cfg
	}
	in := "[]byte(" + strconv.Quote(s) + ")"
	get := func(kind, def string) string {
		if u.cfg == "" {
			return fmt.Sprintf("c.%sNamed(%q)", kind, u.name)
		}
		return fmt.Sprintf("c.Define%s(\"x\", map[string]interface{}{\"type\":%q, /* + config */})", def, u.name)
	}
	pre := `import _ "github.com/blevesearch/bleve/v2/config"; c := registry.NewCache(); `
	switch u.kind {
	case "analyzer":
		rp["go"] = pre + "a, _ := " + get("Analyzer", "Analyzer") + "; a.Analyze(" + in + ")"
	case "tokenizer":
		rp["go"] = pre + "t, _ := " + get("Tokenizer", "Tokenizer") + "; t.Tokenize(" + in + ")"
	case "char_filter":
		rp["go"] = pre + "f, _ := " + get("CharFilter", "CharFilter") + "; f.Filter(" + in + ")"
	case "token_filter":
		rp["driver_tokenizer"] = u.via
		rp["go"] = pre + fmt.Sprintf("t, _ := c.TokenizerNamed(%q); f, _ := ", u.via) + get("TokenFilter", "TokenFilter") + "; f.Filter(t.Tokenize(" + in + "))"
	}
	return rp
}

// tokenizerProblem decides the offset / position clauses of the statement for one token stream.
func tokenizerProblem(ts analysis.TokenStream, n int) (cause, detail string) {
	lastStart, lastPos := 0, 0
	for i, t := range ts {
		switch {
		case t == nil:
			return "nil-token", fmt.Sprintf("token %d is nil", i)
		case t.Start < 0:
			cause = "negative-start"
		case t.End < t.Start:
			cause = "end-before-start"
		case t.End > n:
			cause = "end-beyond-input"
		case t.Start < lastStart:
			cause = "start-decreasing"
		case t.Position < 1:
			cause = "position-below-1"
		case t.Position < lastPos:
			cause = "position-decreasing"
		}
		if cause != "" {
			return cause, fmt.Sprintf("token %d term=%q start=%d end=%d position=%d (previous start=%d position=%d, input length %d)", i, t.Term, t.Start, t.End, t.Position, lastStart, lastPos, n)
		}
		lastStart, lastPos = t.Start, t.Position
	}
	return "", ""
}

func bucket(n int) string {
	switch {
	case n <= 3:
		return strconv.Itoa(n)
	case n <= 8:
		return "4-8"
	case n <= 64:
		return "9-64"
	}
	return ">64"
}

// runUnit pushes every input through one component.
func (c *ctx) runUnit(ui int, u unit, inputs []string, prog *atomic.Int64) {
	r := c.r
	out := map[string]bool{}
	var n, panics, tokens, outside, driverPanics, invalid int64
	for i, s := range inputs {
		if i&255 == 0 && r.Expired() {
			r.Cap(fmt.Sprintf("deadline: %s stopped at input %d of %d", u.label(), i, len(inputs)))
			break
		}
		prog.Store(int64(i))
		var ts analysis.TokenStream
		var bs []byte
		stage := 0
		pv, st := mc.Try(func() {
			in := []byte(s) // fresh copy: components may keep or rewrite the buffer
			if u.bytes != nil {
				bs = u.bytes(in)
				return
			}
			ts = u.tokenize(in)
			if u.filter != nil {
				stage = 1
				ts = u.filter(ts)
			}
			if u.kind == "analyzer" {
				stage = 2
				analysis.TokenFrequency(ts, nil, index.IncludeTermVectors)
			}
		})
		n++
		if !utf8.ValidString(s) {
			invalid++
		}
		if pv != nil {
			if u.filter != nil && stage == 0 {
				driverPanics++ // the tokenizer's own unit reports it
				continue
			}
			panics++
			kind := u.kind
			if stage == 2 {
				kind = "token_frequency_of_analyzer"
			}
			class := fmt.Sprintf("panic:%s:%s:%s", kind, u.name, utf8Cause(s))
			c.coll.add(class, okey{len(s), i, ui}, panicSig(pv, st), func() (string, any) {
				return fmt.Sprintf("%s on input %q: panic %v @ %s", u.label(), s, pv, mc.TrimStack(st)), unitReplay(u, s)
			})
			out[u.kind+"|panic"] = true
			continue
		}
		if u.bytes != nil {
			d := "same-length"
			if len(bs) < len(s) {
				d = "shorter"
			} else if len(bs) > len(s) {
				d = "longer"
			}
			out["char_filter|"+d] = true
			continue
		}
		tokens += int64(len(ts))
		if u.kind == "tokenizer" {
			if cause, detail := tokenizerProblem(ts, len(s)); cause != "" {
				class := fmt.Sprintf("offsets:tokenizer:%s:%s:%s", u.name, cause, utf8Cause(s))
				c.coll.add(class, okey{len(s), i, ui}, "", func() (string, any) {
					return fmt.Sprintf("%s on input %q: %s", u.label(), s, detail), unitReplay(u, s)
				})
				out["tokenizer|"+cause] = true
				continue
			}
		} else {
			for _, t := range ts {
				if t != nil && (t.Start < 0 || t.End < t.Start || t.End > len(s)) {
					outside++
					break
				}
			}
		}
		out[u.kind+"|tokens="+bucket(len(ts))] = true
	}
	r.Eval(int(n))
	r.Count("analyses:"+u.kind, n)
	r.Count("analyses_on_invalid_utf8", invalid)
	r.Count("tokens_emitted:"+u.kind, tokens)
	if panics > 0 {
		r.Count("panics_caught", panics)
	}
	if driverPanics > 0 {
		r.Count("driver_tokenizer_panics(reported by the tokenizer unit)", driverPanics)
	}
	if outside > 0 {
		c.mu.Lock()
		c.observed[u.kind+":"+u.name+u.cfg] += outside
		c.mu.Unlock()
	}
	c.outcome(out)
}

func (c *ctx) phaseAnalysis(maxLen map[string]int, drivers []string) {
	r := c.r
	inv := buildInventory(drivers)
	r.Note("components_built", inv.built)
	r.Note("components_not_buildable", inv.unbuildable)
	r.Count("components_not_buildable", int64(len(inv.unbuildable)))
	for k, v := range inv.built {
		r.Count("components_built:"+k, int64(len(v)))
	}
	byLen := map[int][]string{}
	maxL := 0
	for _, l := range maxLen {
		if l > maxL {
			maxL = l
		}
	}
	all := allStrings(Alphabet, maxL)
	pats := patterns()
	for l := 0; l <= maxL; l++ {
		// strings of ≤ l symbols are a prefix of the shortest-first enumeration
		n := 0
		p := 1
		for k := 0; k <= l; k++ {
			n += p
			p *= len(Alphabet)
		}
		byLen[l] = append(append([]string{}, all[:n]...), pats...)
	}
	r.Note("alphabet", fmt.Sprintf("%q", Alphabet))
	r.Note("string_length_bound_by_kind", maxLen)
	r.Note("long_patterns", len(pats))
	r.Note("token_filter_driver_tokenizers", drivers)
	r.Count("analysis_units(component×config×driver)", int64(len(inv.units)))
	// heavy kinds first so the tail of the parallel loop is short
	order := make([]int, len(inv.units))
	for i := range order {
		order[i] = i
	}
	sort.SliceStable(order, func(a, b int) bool {
		return len(byLen[maxLen[inv.units[order[a]].kind]]) > len(byLen[maxLen[inv.units[order[b]].kind]])
	})
	r.ParFor(len(order), 0, func(k int) {
		ui := order[k]
		u := inv.units[ui]
		inputs := byLen[maxLen[u.kind]]
		c.guarded(u.label(), func(i int64) (string, string, any) {
			s := inputs[i]
			return fmt.Sprintf("terminates:%s:%s:%s", u.kind, u.name, utf8Cause(s)), fmt.Sprintf("input %q", s), unitReplay(u, s)
		}, func(prog *atomic.Int64) { c.runUnit(ui, u, inputs, prog) })
	})
	c.coll.flush(r)
}

// ---------------------------------------------------------------------------------------------
// fragments: removing markup and escaping

type markup struct {
	before, after string
	escaped       bool
}

var markups = map[string]markup{
	"html": {"<mark>", "</mark>", true},
	"ansi": {"\x1b[43m", "\x1b[0m", false},
}

const sep = "…"

type span struct{ s, e int }

// strip removes separator, markup and escaping from a formatted fragment.
func strip(frag string, mk markup) (plain string, marks []span, cutL, cutR bool, problem string) {
	if strings.HasPrefix(frag, sep) {
		frag, cutL = frag[len(sep):], true
	}
	if strings.HasSuffix(frag, sep) {
		frag, cutR = frag[:len(frag)-len(sep)], true
	}
	un := func(s string) string {
		if mk.escaped {
			return html.UnescapeString(s)
		}
		return s
	}
	var b strings.Builder
	rest := frag
	for {
		i := strings.Index(rest, mk.before)
		if i < 0 {
			if strings.Contains(rest, mk.after) {
				return "", nil, cutL, cutR, "closing markup without opening markup"
			}
			b.WriteString(un(rest))
			break
		}
		if j := strings.Index(rest[:i], mk.after); j >= 0 {
			return "", nil, cutL, cutR, "closing markup without opening markup"
		}
		b.WriteString(un(rest[:i]))
		rest = rest[i+len(mk.before):]
		j := strings.Index(rest, mk.after)
		if j < 0 {
			return "", nil, cutL, cutR, "opening markup never closed"
		}
		if strings.Contains(rest[:j], mk.before) {
			return "", nil, cutL, cutR, "nested markup"
		}
		s := b.Len()
		b.WriteString(un(rest[:j]))
		marks = append(marks, span{s, b.Len()})
		rest = rest[j+len(mk.after):]
	}
	return b.String(), marks, cutL, cutR, ""
}

type tloc struct {
	s, e int
	term string
}

// acceptable spans of one stored value: every reported location, and every union of a chain of
// overlapping reported locations (the highlighter merges overlapping locations into one mark;
// the statement's "text at a matched term's location" is read as covering that).
func acceptable(locs []tloc) map[span]bool {
	sort.Slice(locs, func(i, j int) bool {
		if locs[i].s != locs[j].s {
			return locs[i].s < locs[j].s
		}
		return locs[i].e < locs[j].e
	})
	acc := map[span]bool{}
	for i, l := range locs {
		acc[span{l.s, l.e}] = true
		end := l.e
		for _, m := range locs[i+1:] {
			if m.s >= end {
				break
			}
			if m.e > end {
				end = m.e
			}
			acc[span{l.s, end}] = true
		}
	}
	return acc
}

// checkFragment decides the slice / marked-span clause for one formatted fragment against the
// stored values (one per array element) and the reported locations of each.
// termPreserving: the analyzer only splits and case-folds, so the marked text must be the term.
func checkFragment(frag string, mk markup, values []string, locs [][]tloc, applies []bool, termPreserving bool) (cause, detail string, nmarks int) {
	plain, marks, cutL, cutR, problem := strip(frag, mk)
	if problem != "" {
		return "unbalanced-markup", problem, 0
	}
	nmarks = len(marks)
	for _, a := range applies {
		if !a {
			return "", "", nmarks // some element changes length under the char filters: only no-panic applies
		}
	}
	sliceOf, okSomewhere := false, false
	var why string
	for vi, v := range values {
		acc := acceptable(locs[vi])
		for o := 0; o+len(plain) <= len(v); o++ {
			if v[o:o+len(plain)] != plain {
				continue
			}
			sliceOf = true
			ok := true
			for _, m := range marks {
				sp := span{o + m.s, o + m.e}
				if !acc[sp] {
					ok = false
					why = fmt.Sprintf("marked span %q = bytes [%d,%d) of the stored value is not a reported location (locations %v)", plain[m.s:m.e], sp.s, sp.e, locs[vi])
					break
				}
				if termPreserving && utf8.ValidString(plain[m.s:m.e]) {
					exact, match := false, false
					for _, l := range locs[vi] {
						if l.s == sp.s && l.e == sp.e {
							exact = true
							if l.term == plain[m.s:m.e] || l.term == strings.ToLower(plain[m.s:m.e]) {
								match = true
							}
						}
					}
					if exact && !match {
						ok = false
						why = fmt.Sprintf("marked span %q at bytes [%d,%d) is not the matched term reported for that location (locations %v)", plain[m.s:m.e], sp.s, sp.e, locs[vi])
						break
					}
				}
			}
			if ok {
				// not asserted (the statement is silent about it): the separator is emitted
				// exactly when the fragment does not touch that end of the value
				if cutL == (o != 0) && cutR == (o+len(plain) != len(v)) {
					return "", "", nmarks
				}
				okSomewhere = true
			}
		}
	}
	if okSomewhere {
		return "", "separator", nmarks
	}
	if !sliceOf {
		return "fragment-not-a-slice-of-stored-value", fmt.Sprintf("fragment %q stripped to %q is not a contiguous piece of %q", frag, plain, values), nmarks
	}
	return "marked-span-not-at-reported-location", fmt.Sprintf("fragment %q: %s", frag, why), nmarks
}

// ---------------------------------------------------------------------------------------------
// phase B: highlighters driven directly

type hl struct {
	name, formatter string
	size            int // 0 = registry default
}

func hlReplayDirect(h hl, v string, ls []span, num int) map[string]any {
	var l []string
	for _, x := range ls {
		l = append(l, fmt.Sprintf("{Start:%d End:%d}", x.s, x.e))
	}
	return map[string]any{"highlighter": h.name, "formatter": h.formatter, "fragment_size": h.size, "stored_value_go": strconv.Quote(v),
		"stored_value_hex": hex.EncodeToString([]byte(v)), "term_locations": l, "fragments_requested": num,
		"go": "h, _ := registry.NewCache().HighlighterNamed(name) /* or DefineFragmenter{type:simple,size} + DefineHighlighter{type:simple,fragmenter,formatter} */; doc := document.NewDocument(\"d\"); doc.AddField(document.NewTextField(\"t\", nil, []byte(v))); dm := &search.DocumentMatch{Locations: search.FieldTermLocationMap{\"t\": {\"x\": {&search.Location{Pos:1, Start:s, End:e}}, ...}}}; h.BestFragmentsInField(dm, doc, \"t\", num)"}
}

func runeAligned(v string, p int) bool {
	return p >= 0 && p <= len(v) && (p == len(v) || utf8.RuneStart(v[p]))
}

func (c *ctx) phaseDirect(lenPairs, lenSingles int) {
	r := c.r
	cache := registry.NewCache()
	var hls []hl
	var built []string
	_, insts := registry.HighlighterTypesAndInstances()
	hmap := map[string]highlight.Highlighter{}
	for _, n := range sorted(insts) {
		h, err := construct(func() (highlight.Highlighter, error) { return cache.HighlighterNamed(n) })
		if err != nil {
			r.Count("highlighters_not_buildable", 1)
			r.Note("highlighter_not_buildable:"+n, err.Error())
			continue
		}
		hls = append(hls, hl{n, n, 0})
		hmap[n] = h
		built = append(built, n)
	}
	_, fmts := registry.FragmentFormatterTypesAndInstances()
	_, frs := registry.FragmenterTypesAndInstances()
	for _, fr := range sorted(frs) {
		for _, size := range []int{1, 2, 5} {
			frn := fmt.Sprintf("c19_%s_%d", fr, size)
			if _, err := construct(func() (highlight.Fragmenter, error) {
				return cache.DefineFragmenter(frn, cfg{"type": fr, "size": float64(size)})
			}); err != nil {
				r.Note("fragmenter_not_buildable:"+frn, err.Error())
				continue
			}
			for _, fm := range sorted(fmts) {
				hn := fmt.Sprintf("c19_%s_%s_%d", fr, fm, size)
				h, err := construct(func() (highlight.Highlighter, error) {
					return cache.DefineHighlighter(hn, cfg{"type": "simple", "fragmenter": frn, "formatter": fm})
				})
				if err != nil {
					r.Note("highlighter_not_buildable:"+hn, err.Error())
					continue
				}
				hls = append(hls, hl{hn, fm, size})
				hmap[hn] = h
				built = append(built, hn)
			}
		}
	}
	r.Note("direct_highlighters", built)
	values := allStrings(Alphabet, lenSingles)
	nPairs := len(allStrings(Alphabet, lenPairs))
	r.Note("direct_highlight_bounds", map[string]int{"values_with_all_single_locations": len(values), "values_with_all_location_pairs": nPairs, "location_overshoot_bytes": 2})
	const chunk = 64
	nchunks := (len(values) + chunk - 1) / chunk
	type item struct{ h, ch int }
	var items []item
	for hi := range hls {
		for ch := 0; ch < nchunks; ch++ {
			items = append(items, item{hi, ch})
		}
	}
	r.ParFor(len(items), 0, func(k int) {
		it := items[k]
		h := hls[it.h]
		hh := hmap[h.name]
		lo, hi := it.ch*chunk, (it.ch+1)*chunk
		if hi > len(values) {
			hi = len(values)
		}
		var curLocs atomic.Value
		c.guarded("direct highlighter "+h.name, func(i int64) (string, string, any) {
			v := values[i]
			ls, _ := curLocs.Load().([]span)
			return fmt.Sprintf("terminates:highlight:%s:%s", h.formatter, utf8Cause(v)), fmt.Sprintf("stored value %q locations %v", v, ls), hlReplayDirect(h, v, ls, 1)
		}, func(prog *atomic.Int64) {
			out := map[string]bool{}
			var n, panics int64
			for vi := lo; vi < hi; vi++ {
				if r.Expired() {
					r.Cap(fmt.Sprintf("deadline: direct highlighting stopped at value %d of %d", vi, len(values)))
					break
				}
				v := values[vi]
				prog.Store(int64(vi))
				one := func(ls []span, num int) {
					curLocs.Store(ls)
					doc := document.NewDocument("d")
					doc.AddField(document.NewTextFieldWithIndexingOptions("t", nil, []byte(v), index.StoreField|index.IncludeTermVectors))
					tlm := search.TermLocationMap{}
					cause := "locations-on-rune-boundaries"
					for li, l := range ls {
						term := string(rune('x' + li))
						tlm[term] = append(tlm[term], &search.Location{Pos: uint64(li + 1), Start: uint64(l.s), End: uint64(l.e)})
						if !runeAligned(v, l.s) || !runeAligned(v, l.e) {
							cause = "location-splits-rune"
						}
					}
					if !utf8.ValidString(v) {
						cause = "invalid-utf8-value"
					}
					for _, l := range ls {
						if l.e > len(v) {
							cause = "location-beyond-value"
						}
					}
					dm := &search.DocumentMatch{ID: "d", Locations: search.FieldTermLocationMap{"t": tlm}}
					var frags []string
					pv, st := mc.Try(func() { frags = hh.BestFragmentsInField(dm, doc, "t", num) })
					n++
					if pv != nil {
						panics++
						class := fmt.Sprintf("panic:highlight:%s:%s", panicSite(st), cause)
						c.coll.add(class, okey{len(v)*8 + len(ls), vi, it.h}, panicSig(pv, st), func() (string, any) {
							return fmt.Sprintf("highlighter %s (formatter %s, fragment size %d) on stored value %q with term locations %v: panic %v @ %s", h.name, h.formatter, h.size, v, ls, pv, mc.TrimStack(st)), hlReplayDirect(h, v, ls, num)
						})
						out["direct|panic|"+cause] = true
						return
					}
					nm := 0
					if mk, ok := markups[h.formatter]; ok {
						for _, f := range frags {
							nm += strings.Count(f, mk.before)
						}
					}
					out[fmt.Sprintf("direct|%s|frags=%d|marks=%s", cause, len(frags), bucket(nm))] = true
				}
				L := len(v)
				one(nil, 1)
				for s := 0; s <= L+2; s++ {
					for e := s; e <= L+2; e++ {
						one([]span{{s, e}}, 1)
					}
				}
				if vi < nPairs {
					for s := 0; s <= L; s++ {
						for e := s; e <= L; e++ {
							for s2 := 0; s2 <= L; s2++ {
								for e2 := s2; e2 <= L; e2++ {
									one([]span{{s, e}, {s2, e2}}, 1+(s+e2)%2*2)
								}
							}
						}
					}
				}
			}
			r.Eval(int(n))
			r.Count("direct_highlight_calls", n)
			if panics > 0 {
				r.Count("panics_caught", panics)
			}
			c.outcome(out)
		})
	})
	c.coll.flush(r)
}

// ---------------------------------------------------------------------------------------------
// phase C: highlighting through Search

type hlAnalyzer struct {
	name           string
	custom         cfg  // nil: registered analyzer of that name
	termPreserving bool // marked text must equal the (case-folded) term
}

// custom analyzers of the highlighting family; the filters/tokenizers they name are defined on
// the mapping by defineCustoms.
var customHL = []hlAnalyzer{
	{"c19_camel", cfg{"type": "custom", "tokenizer": "whitespace", "token_filters": []interface{}{"camelCase"}}, true},
	{"c19_camel_lower", cfg{"type": "custom", "tokenizer": "unicode", "token_filters": []interface{}{"camelCase", "to_lower"}}, true},
	{"c19_html", cfg{"type": "custom", "tokenizer": "unicode", "char_filters": []interface{}{"html"}, "token_filters": []interface{}{"to_lower"}}, true},
	{"c19_regexp_tokenizer", cfg{"type": "custom", "tokenizer": "c19_rx_tk", "token_filters": []interface{}{"to_lower"}}, true},
	{"c19_exception_tokenizer", cfg{"type": "custom", "tokenizer": "c19_ex_tk", "token_filters": []interface{}{"to_lower"}}, true},
	{"c19_ngram", cfg{"type": "custom", "tokenizer": "unicode", "token_filters": []interface{}{"to_lower", "c19_ng"}}, false},
	{"c19_edge_ngram", cfg{"type": "custom", "tokenizer": "unicode", "token_filters": []interface{}{"to_lower", "c19_eng"}}, false},
	{"c19_shingle", cfg{"type": "custom", "tokenizer": "unicode", "token_filters": []interface{}{"to_lower", "c19_sh"}}, false},
	{"c19_reverse", cfg{"type": "custom", "tokenizer": "letter", "token_filters": []interface{}{"reverse"}}, false},
	// these change the length of the text before tokenising: only the no-panic clause applies
	{"c19_grow", cfg{"type": "custom", "tokenizer": "unicode", "char_filters": []interface{}{"c19_rx_grow"}, "token_filters": []interface{}{"to_lower"}}, false},
	{"c19_shrink", cfg{"type": "custom", "tokenizer": "unicode", "char_filters": []interface{}{"c19_rx_shrink"}, "token_filters": []interface{}{"to_lower"}}, false},
	{"c19_asciifold", cfg{"type": "custom", "tokenizer": "unicode", "char_filters": []interface{}{"asciifolding"}, "token_filters": []interface{}{"to_lower"}}, false},
}

func defineCustoms(m *mapping.IndexMappingImpl) error {
	for _, e := range []error{
		m.AddCustomTokenizer("c19_rx_tk", cfg{"type": "regexp", "regexp": `[0-9a-zA-Zé日本']+`}),
		m.AddCustomTokenizer("c19_ex_tk", cfg{"type": "exception", "exceptions": []interface{}{`a'b`, `<b>`}, "tokenizer": "unicode"}),
		m.AddCustomTokenFilter("c19_ng", cfg{"type": "ngram", "min": 1.0, "max": 2.0}),
		m.AddCustomTokenFilter("c19_eng", cfg{"type": "edge_ngram", "min": 1.0, "max": 2.0}),
		m.AddCustomTokenFilter("c19_sh", cfg{"type": "shingle", "min": 2.0, "max": 3.0, "output_original": true}),
		m.AddCustomCharFilter("c19_rx_grow", cfg{"type": "regexp", "regexp": "x", "replace": "xxx"}),
		m.AddCustomCharFilter("c19_rx_shrink", cfg{"type": "regexp", "regexp": "é|日|<", "replace": ""}),
	} {
		if e != nil {
			return e
		}
	}
	return nil
}

// filters that only drop tokens, split them, or fold case: the term is the text at its offsets
var termPreservingFilters = map[string]bool{
	"*lowercase.LowerCaseFilter": true, "*stop.StopTokensFilter": true, "*camelcase.CamelCaseFilter": true,
	"*length.LengthFilter": true, "*keyword.KeyWordMarkerFilter": true,
}

func mkMapping(a hlAnalyzer) (*mapping.IndexMappingImpl, *analysis.DefaultAnalyzer, bool, error) {
	m := bleve.NewIndexMapping()
	if err := defineCustoms(m); err != nil {
		return nil, nil, false, err
	}
	if a.custom != nil {
		if err := m.AddCustomAnalyzer(a.name, a.custom); err != nil {
			return nil, nil, false, err
		}
	}
	m.DefaultAnalyzer = a.name
	an := m.AnalyzerNamed(a.name)
	if an == nil {
		return nil, nil, false, fmt.Errorf("mapping does not know analyzer %q", a.name)
	}
	da, _ := an.(*analysis.DefaultAnalyzer)
	tp := a.termPreserving
	if a.custom == nil && da != nil && len(da.CharFilters) == 0 {
		tp = true
		for _, f := range da.TokenFilters {
			if !termPreservingFilters[fmt.Sprintf("%T", f)] {
				tp = false
			}
		}
	}
	return m, da, tp, nil
}

type hq struct {
	name   string
	mk     func() query.Query
	fields []string // Highlight.Fields (nil: every field with matches)
}

func hlQueries() []hq {
	match := func(s string) func() query.Query {
		return func() query.Query { q := bleve.NewMatchQuery(s); q.SetField("t"); return q }
	}
	qs := []hq{
		{"term(x)", func() query.Query { q := bleve.NewTermQuery("x"); q.SetField("t"); return q }, nil},
		{"match(x)", match("x"), nil},
		{"match(y xy)", match("y xy"), nil},
		{"match-and(x y)", func() query.Query {
			q := bleve.NewMatchQuery("x y")
			q.SetField("t")
			q.SetOperator(query.MatchQueryOperatorAnd)
			return q
		}, nil},
		{"match_phrase(x y)", func() query.Query { q := bleve.NewMatchPhraseQuery("x y"); q.SetField("t"); return q }, nil},
		{"match(é)", match("é"), nil},
		{"match(日本)", match("日本"), nil},
		{"match(b)", match("b"), nil},
		{"match(a'b)", match("a'b"), nil},
		{"match(xY éaB)", match("xY éaB"), nil},
		{"prefix(x)", func() query.Query { q := bleve.NewPrefixQuery("x"); q.SetField("t"); return q }, nil},
		{"wildcard(*y)", func() query.Query { q := bleve.NewWildcardQuery("*y"); q.SetField("t"); return q }, nil},
		{"regexp(.*[xé].*)", func() query.Query { q := bleve.NewRegexpQuery(".*[xé].*"); q.SetField("t"); return q }, nil},
		{"fuzzy(xy,1)", func() query.Query { q := bleve.NewFuzzyQuery("xy"); q.SetField("t"); q.SetFuzziness(1); return q }, nil},
		{"bool(must match(x) should match(y) must_not match(é))", func() query.Query {
			b := bleve.NewBooleanQuery()
			b.AddMust(match("x")())
			b.AddShould(match("y")())
			b.AddMustNot(match("é")())
			return b
		}, nil},
		{"disj(match(日本) prefix(x) match(filler spot))", func() query.Query {
			p := bleve.NewPrefixQuery("x")
			p.SetField("t")
			return bleve.NewDisjunctionQuery(match("日本")(), p, match("filler spot")())
		}, nil},
		{"match_all highlight-fields[t]", func() query.Query { return bleve.NewMatchAllQuery() }, []string{"t"}},
		{"match(x) highlight-fields[t,nosuch]", match("x"), []string{"t", "nosuch"}},
	}
	return qs
}

// hlDocs: every 3-word text over the word alphabet × seps3, every 2-word text × seps2,
// array-valued documents, long ones.
func hlDocs(words, seps3, seps2 []string) []interface{} {
	var docs []interface{}
	for _, a := range words {
		for _, b := range words {
			for _, s := range seps2 {
				docs = append(docs, a+s+b)
			}
			for _, c := range words {
				for _, s := range seps3 {
					docs = append(docs, a+s+b+s+c)
				}
			}
		}
	}
	for _, a := range words {
		for _, b := range words {
			docs = append(docs, []interface{}{a, b + " " + a, "y " + b})
		}
	}
	docs = append(docs, strings.Repeat("filler words here ", 20)+"x marks the spot "+strings.Repeat("more filler text é 日本 ", 20)+"y",
		strings.Repeat("日本 filler ", 40)+"xy"+strings.Repeat(" é&<b>", 50))
	return docs
}

func hlNames(hls []hl) []string {
	var o []string
	for _, h := range hls {
		o = append(o, fmt.Sprintf("%s(formatter %s, fragment size %d; 0 = default 200)", h.name, h.formatter, h.size))
	}
	return o
}

func docID(i int) string { return fmt.Sprintf("d%05d", i) }

var hlDefineOnce sync.Once

// searchHighlighters registers the sized highlighters in bleve's global cache (once, before any
// parallel phase) and returns the styles to request.
func searchHighlighters(r *mc.Run, sizes []int) []hl {
	hls := []hl{}
	_, insts := registry.HighlighterTypesAndInstances()
	for _, n := range sorted(insts) {
		hls = append(hls, hl{n, n, 0})
	}
	_, fmts := registry.FragmentFormatterTypesAndInstances()
	hlDefineOnce.Do(func() {
		for _, size := range []int{1, 4, 11} {
			frn := fmt.Sprintf("c19-frag-%d", size)
			if _, err := bleve.Config.Cache.DefineFragmenter(frn, cfg{"type": "simple", "size": float64(size)}); err != nil {
				r.Note("search_fragmenter_not_buildable:"+frn, err.Error())
				continue
			}
			for _, fm := range fmts {
				if _, err := bleve.Config.Cache.DefineHighlighter(fmt.Sprintf("c19-%s-%d", fm, size), cfg{"type": "simple", "fragmenter": frn, "formatter": fm}); err != nil {
					r.Note("search_highlighter_not_buildable:"+fm, err.Error())
				}
			}
		}
	})
	for _, size := range sizes {
		for _, fm := range sorted(fmts) {
			n := fmt.Sprintf("c19-%s-%d", fm, size)
			if h, err := bleve.Config.Cache.HighlighterNamed(n); err == nil && h != nil {
				hls = append(hls, hl{n, fm, size})
			}
		}
	}
	return hls
}

func storedValues(v interface{}) []string {
	switch x := v.(type) {
	case string:
		return []string{x}
	case []interface{}:
		var out []string
		for _, e := range x {
			s, _ := e.(string)
			out = append(out, s)
		}
		return out
	}
	return nil
}

func (c *ctx) phaseSearch(analyzers []hlAnalyzer, engines []bx.Engine, words, seps3, seps2 []string, hls, hls2 []hl, extraEngine map[string]bool) {
	r := c.r
	docs := hlDocs(words, seps3, seps2)
	var anNames []string
	for _, a := range analyzers {
		anNames = append(anNames, a.name)
	}
	qs := hlQueries()
	r.Note("highlight_search_family", map[string]any{"documents": len(docs), "words": fmt.Sprintf("%q", words), "separators_3_word_texts": fmt.Sprintf("%q", seps3), "separators_2_word_texts": fmt.Sprintf("%q", seps2),
		"queries": len(qs), "highlighters": hlNames(hls), "highlighters_on_second_engine": hlNames(hls2), "analyzers": anNames})
	type item struct {
		a   hlAnalyzer
		eng bx.Engine
		hls []hl
	}
	var items []item
	for _, a := range analyzers {
		for ei, e := range engines {
			if ei > 0 && extraEngine != nil && !extraEngine[a.name] {
				continue
			}
			if ei == 0 {
				items = append(items, item{a, e, hls})
			} else {
				items = append(items, item{a, e, hls2})
			}
		}
	}
	r.ParFor(len(items), 0, func(k int) {
		it := items[k]
		m, da, termPreserving, err := mkMapping(it.a)
		if err != nil {
			r.Count("highlight_analyzers_not_buildable", 1)
			r.Note("highlight_analyzer_not_buildable:"+it.a.name, err.Error())
			return
		}
		// does the analyzer leave the length of this text unchanged before tokenising?
		applies := func(v string) bool {
			if da == nil {
				return false
			}
			b := []byte(v)
			for _, cf := range da.CharFilters {
				b = cf.Filter(b)
			}
			return len(b) == len(v)
		}
		replayOf := func(q hq, h hl, doc interface{}) map[string]any {
			rp := map[string]any{"engine": it.eng.Name, "field_analyzer": it.a.name, "query": q.name, "highlight_style": h.name, "formatter": h.formatter, "fragment_size(0=default)": h.size,
				"highlight_fields": q.fields, "mapping": "bleve.NewIndexMapping(); DefaultAnalyzer = field_analyzer; field t"}
			if it.a.custom != nil {
				rp["analyzer_config"] = cfgString(it.a.custom)
			}
			if doc != nil {
				b, _ := json.Marshal(doc)
				rp["document_t"] = string(b)
				rp["document_t_go"] = fmt.Sprintf("%q", doc)
			}
			return rp
		}
		mkReq := func(q hq, h hl, size int) *bleve.SearchRequest {
			req := bleve.NewSearchRequest(q.mk())
			req.Size = size
			req.Fields = []string{"t"}
			req.IncludeLocations = true
			req.Highlight = bleve.NewHighlightWithStyle(h.name)
			req.Highlight.Fields = q.fields
			return req
		}
		var cur atomic.Value
		c.guarded(fmt.Sprintf("highlighting through Search, analyzer %s on %s", it.a.name, it.eng.Name), func(i int64) (string, string, any) {
			d, _ := cur.Load().(string)
			return fmt.Sprintf("terminates:highlight-search:%s", it.a.name), d, map[string]any{"engine": it.eng.Name, "field_analyzer": it.a.name, "step": d}
		}, func(prog *atomic.Int64) {
			out := map[string]bool{}
			var n, checked, skipped, nfr, sepOdd, nerr, dropped int64
			step := int64(0)
			cur.Store("indexing documents")
			prog.Store(step)
			idx := it.eng.Mk(m)
			defer idx.Close()
			// Indexing analyses on goroutines of bleve's analysis queue, where a panic cannot be
			// recovered: analyse every value here first and leave out documents that panic
			// (phase A reports analyzer panics on its own alphabet; these are reported too).
			an := m.AnalyzerNamed(it.a.name)
			var perr error
			pv, st := mc.Try(func() {
				b := idx.NewBatch()
				for i, d := range docs {
					bad := false
					for _, v := range storedValues(d) {
						pv1, st1 := mc.Try(func() { an.Analyze([]byte(v)) })
						if pv1 != nil {
							bad = true
							dropped++
							v := v
							c.coll.add(fmt.Sprintf("panic:index-analysis:%s:%s@%s", panicSite(st1), utf8Cause(v), it.a.name), okey{len(v), i, k}, panicSig(pv1, st1), func() (string, any) {
								return fmt.Sprintf("analyzer %s on field value %q: panic %v @ %s", it.a.name, v, pv1, mc.TrimStack(st1)), replayOf(hq{name: "(indexing)"}, hl{}, v)
							})
							break
						}
					}
					if bad {
						continue
					}
					if e := b.Index(docID(i), map[string]interface{}{"t": d}); e != nil {
						perr = e
						return
					}
				}
				perr = idx.Batch(b)
			})
			if pv != nil || perr != nil {
				c.coll.add(fmt.Sprintf("panic-or-error:index@%s", it.a.name), okey{0, k, 0}, "", func() (string, any) {
					return fmt.Sprintf("indexing the document family with analyzer %s on %s: panic %v error %v @ %s", it.a.name, it.eng.Name, pv, perr, mc.TrimStack(st)), replayOf(hq{name: "(indexing)"}, hl{}, nil)
				})
				out["hl|indexing-failed"] = true
				c.outcome(out)
				return
			}
			if dropped > 0 {
				r.Count("documents_left_out_because_their_analysis_panics", dropped)
				out["hl|document-analysis-panics"] = true
			}
			for qi, q := range qs {
				for hi, h := range it.hls {
					if r.Expired() {
						r.Cap("deadline: highlighting through Search stopped early for analyzer " + it.a.name)
						break
					}
					step++
					cur.Store(fmt.Sprintf("query %s style %s", q.name, h.name))
					prog.Store(step)
					var res *bleve.SearchResult
					var err error
					pv, st := mc.Try(func() { res, err = idx.Search(mkReq(q, h, len(docs)+1)) })
					if pv != nil {
						site := panicSite(st)
						class := fmt.Sprintf("panic:highlight-search:%s@%s", site, it.a.name)
						var culprit interface{}
						if !c.coll.seen(class) {
							// find the first single document that reproduces it
							for i, d := range docs {
								one := it.eng.Mk(m)
								one.Index(docID(i), map[string]interface{}{"t": d})
								pv1, _ := mc.Try(func() { one.Search(mkReq(q, h, 2)) })
								one.Close()
								if pv1 != nil {
									culprit = d
									break
								}
							}
						}
						c.coll.add(class, okey{0, k, qi*100 + hi}, panicSig(pv, st), func() (string, any) {
							return fmt.Sprintf("Search with highlighting (analyzer %s, %s, query %s, style %s), single document reproducing it: %q: panic %v @ %s", it.a.name, it.eng.Name, q.name, h.name, culprit, pv, mc.TrimStack(st)), replayOf(q, h, culprit)
						})
						out["hl|panic"] = true
						n++
						continue
					}
					if err != nil {
						// the statement is about panics, not errors: recorded, not alarmed
						nerr++
						c.mu.Lock()
						if len(c.searchErrors) < 12 {
							c.searchErrors[fmt.Sprintf("%s|%s|%s", it.eng.Name, it.a.name, q.name)] = err.Error()
						}
						c.mu.Unlock()
						out["hl|error"] = true
						n++
						continue
					}
					mk, known := markups[h.formatter]
					if len(res.Hits) == 0 {
						out["hl|no-hits"] = true
					}
					for _, hit := range res.Hits {
						n++
						frags := hit.Fragments["t"]
						nfr += int64(len(frags))
						values := storedValues(hit.Fields["t"])
						if !known || len(values) == 0 {
							skipped++
							continue
						}
						locs := make([][]tloc, len(values))
						app := make([]bool, len(values))
						anyApp := true // the oracle applies when no element changes length
						for vi, v := range values {
							app[vi] = applies(v)
							anyApp = anyApp && app[vi]
						}
						for term, ls := range hit.Locations["t"] {
							for _, l := range ls {
								vi := 0
								if len(l.ArrayPositions) > 0 {
									vi = int(l.ArrayPositions[0])
								}
								if vi < len(values) {
									locs[vi] = append(locs[vi], tloc{int(l.Start), int(l.End), term})
								}
							}
						}
						nm := 0
						for _, f := range frags {
							cause, detail, m := checkFragment(f, mk, values, locs, app, termPreserving)
							nm += m
							if anyApp {
								checked++
							} else {
								skipped++
							}
							if cause == "" && detail == "separator" {
								sepOdd++
							}
							if cause != "" {
								class := fmt.Sprintf("highlight:%s:%s@%s", cause, h.formatter, it.a.name)
								idn, _ := strconv.Atoi(strings.TrimPrefix(hit.ID, "d"))
								c.coll.add(class, okey{len(strings.Join(values, "")), idn, k*10000 + qi*100 + hi}, "", func() (string, any) {
									return fmt.Sprintf("analyzer %s on %s, query %s, style %s (fragment size %d), stored value %q: %s", it.a.name, it.eng.Name, q.name, h.name, h.size, values, detail), replayOf(q, h, hit.Fields["t"])
								})
								out["hl|"+cause] = true
							}
						}
						out[fmt.Sprintf("hl|%s|size=%d|frags=%d|marks=%s|oracle=%v", h.formatter, h.size, len(frags), bucket(nm), anyApp)] = true
					}
				}
			}
			r.Eval(int(n))
			r.Count("highlighted_hits", n)
			r.Count("fragments_returned", nfr)
			r.Count("fragments_checked_against_stored_value", checked)
			r.Count("fragments_where_only_no_panic_applies(length-changing analysis)", skipped)
			if nerr > 0 {
				r.Count("observed_not_asserted:searches_returning_an_error", nerr)
			}
			if sepOdd > 0 {
				r.Count("observed_not_asserted:fragments_whose_separators_disagree_with_their_position", sepOdd)
			}
			if termPreserving {
				r.Count("analyzer×engine_items_with_marked-text=term_check", 1)
			}
			c.outcome(out)
		})
	})
	c.coll.flush(r)
}

// ---------------------------------------------------------------------------------------------

func Run(r *mc.Run) {
	c := &ctx{r: r, coll: &collector{m: map[string]*vent{}}, stall: mc.Pick(r, 60*time.Second, 120*time.Second),
		outcomes: map[string]bool{}, observed: map[string]int64{}, searchErrors: map[string]string{}}

	r.Rule("E2. (A) every analyzer, tokenizer, token filter (on the output of each driver tokenizer) and char filter found in the registry at run time — components needing a configuration get the minimal ones listed under components_built — × every string of ≤ L symbols over the 14-symbol alphabet (see alphabet, string_length_bound_by_kind) plus long-token/repeated patterns: no panic, terminates, tokenizers satisfy 0 ≤ Start ≤ End ≤ len(input), starts non-decreasing, positions ≥ 1 and non-decreasing. (B) every registered highlighter and every fragmenter × formatter × fragment size {1,2,5}, driven directly on every short stored value × every single term location (also cutting runes, also up to 2 bytes beyond the value) and every pair of in-range locations: no panic. (C) real indexes whose field analyzer is a registered analyzer or one of 12 custom ones (camelCase, html, regexp/exception tokenizer, n-gram, edge n-gram, shingle, reverse, length-changing char filters) × all 3-word and 2-word documents over a word alphabet (multi-byte words, '<b>', '&', apostrophe, camel case, empty word, invalid byte) × separators, array values, long texts × 18 queries × highlighters {html, ansi} × fragment sizes {default, 1, 4, 11}: no panic; where the char filters keep the length of every stored value of the field, each fragment with separator, markup and escaping removed is a contiguous slice of a stored value, every marked span is the bytes of a reported location (or the union of overlapping ones), and for analyzers that only split / drop / case-fold, the marked text is the term reported for that location. An outcome is (component kind, token-count bucket | char-filter length change | highlighter, fragment size, fragments, marks).")
	r.Assume(
		"offset clauses are asserted for tokenizers only (as the statement says); token filters and analyzers are checked for panics/termination, their out-of-input offsets are counted under observed_not_asserted",
		"termination = progress watchdog per batch: one evaluation that makes no progress for the stall budget ends the run with a terminates: violation",
		"a marked span that is the union of overlapping reported locations is accepted (the highlighter merges overlapping locations)",
		"components are shared by the worker goroutines, as bleve itself shares analyzers between indexing goroutines",
		"token filters hierarchy and stemmer_snowball live in the tree but are not imported by bleve/v2/config; the check imports them so that they are registered too")

	quick := r.Quick()
	// phase A
	maxLen := map[string]int{"analyzer": 3, "tokenizer": 3, "token_filter": 3, "char_filter": 3}
	drivers := []string{"unicode", "single", "web"}
	if !quick {
		maxLen = map[string]int{"analyzer": 4, "tokenizer": 5, "token_filter": 4, "char_filter": 5}
		drivers = []string{"unicode", "whitespace", "single", "web"}
	}
	r.Sample(map[string]any{"phase": "A", "component": "token_filter reverse on tokenizer unicode", "input_go": strconv.Quote("a\xc3é"), "oracle": "no panic"})
	r.Sample(map[string]any{"phase": "A", "component": "tokenizer exception{exceptions:[a-B,[0-9]'],tokenizer:unicode}", "input": "1'日", "oracle": "0≤Start≤End≤5, starts and positions non-decreasing, positions ≥ 1"})
	t0 := time.Now()
	phaseWall := map[string]float64{}
	c.phaseAnalysis(maxLen, drivers)
	phaseWall["A_analysis_components"] = time.Since(t0).Seconds()
	r.Note("observed_not_asserted:inputs_with_filter_or_analyzer_token_offsets_outside_input", c.observed)

	// phase B
	r.Sample(map[string]any{"phase": "B", "highlighter": "simple fragmenter size 2 + html formatter", "stored_value_go": strconv.Quote("é\xff"), "term_locations": "[{1 4}]", "oracle": "no panic"})
	if !r.Expired() {
		t1 := time.Now()
		c.phaseDirect(mc.Pick(r, 2, 3), mc.Pick(r, 3, 4))
		phaseWall["B_highlighters_direct"] = time.Since(t1).Seconds()
	}

	// phase C
	var named []hlAnalyzer
	_, insts := registry.AnalyzerTypesAndInstances()
	quickNamed := map[string]bool{"standard": true, "simple": true, "keyword": true, "en": true, "cjk": true, "fa": true}
	var left []string
	for _, n := range sorted(insts) {
		if quick && !quickNamed[n] {
			left = append(left, n)
			continue
		}
		named = append(named, hlAnalyzer{name: n})
	}
	if len(left) > 0 {
		r.Note("highlight_named_analyzers_left_to_thorough_tier", left)
	}
	analyzers := append(named, customHL...)
	words := mc.Pick(r, []string{"x", "y", "xy", "é", "日本", "<b>", "&", "a'b", "", "éaB"}, []string{"x", "y", "xy", "é", "日本", "<b>", "&", "a'b", "", "éaB", "\xff"})
	seps3 := mc.Pick(r, []string{" "}, []string{" ", ", ", "\n"})
	seps2 := mc.Pick(r, []string{", ", "\n"}, []string{"  ", "-"})
	all := searchHighlighters(r, []int{1, 4, 11})
	pick := func(names ...string) []hl {
		var o []hl
		for _, h := range all {
			for _, n := range names {
				if h.name == n {
					o = append(o, h)
				}
			}
		}
		return o
	}
	hls, hls2 := all, pick("html", "c19-ansi-4")
	if quick {
		hls, hls2 = pick("html", "ansi", "c19-html-4", "c19-ansi-1"), pick("html", "c19-ansi-4")
	}
	r.Sample(map[string]any{"phase": "C", "analyzer": "standard", "document": "<b>, é, xy", "query": "match(é)", "style": "c19-html-4",
		"oracle": "fragment minus '…', <mark>, escaping is a slice of the stored value; marked span = bytes at a reported location = the term"})
	if !r.Expired() {
		t2 := time.Now()
		c.phaseSearch(analyzers, bx.MemEngines, words, seps3, seps2, hls, hls2, mc.Pick(r, map[string]bool{"standard": true, "c19_camel": true}, nil))
		phaseWall["C_highlighting_through_search"] = time.Since(t2).Seconds()
	}
	if len(c.searchErrors) > 0 {
		r.Note("observed_not_asserted:search_errors(engine|analyzer|query)", c.searchErrors)
	}
	r.Note("phase_wall_s", phaseWall)
	c.coll.flush(r)
}
