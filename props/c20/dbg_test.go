package c20

import (
	"fmt"
	"testing"

	"github.com/blevesearch/bleve/v2"
)

func TestDet(t *testing.T) {
	a := Doc{Name: "x", Items: []Item{{K: "x", V: "x"}}, Tags: []Tag{{"x"}}, TagsFirst: true}
	b := a
	b.TagsFirst = false
	q := &Q{Kind: "bool", Must: []*Q{T("tags.t", "x")}, MustNot: []*Q{{Kind: "conj", Subs: []*Q{T("items.k", "x"), T("tags.t", "x")}}}}
	seen := map[string]int{}
	for i := 0; i < 100; i++ {
		idx := newMem(true)
		idx.Index("a", a.Data())
		idx.Index("b", b.Data())
		req := bleve.NewSearchRequest(q.ToBleve())
		req.Size = 20
		res, _ := idx.Search(req)
		s := ""
		for _, h := range res.Hits {
			s += h.ID + " "
		}
		// internal order
		adv, _ := idx.Advanced()
		rd, _ := adv.Reader()
		dr, _ := rd.DocIDReaderAll()
		o := ""
		for {
			id, _ := dr.Next()
			if id == nil {
				break
			}
			x, _ := rd.ExternalID(id)
			o += x + ","
		}
		rd.Close()
		seen[s+" | "+o]++
		idx.Close()
	}
	for k, n := range seen {
		fmt.Println(n, k)
	}
}
