package c20

import (
	"fmt"
	"strings"
	"sync"
	"testing"

	"github.com/blevesearch/bleve/v2"
	"github.com/blevesearch/bleve/v2/search/collector"
)

func TestFlaky(t *testing.T) {
	collector.PreAllocSizeSkipCap = 8
	f := families(true)
	c := &corpus{name: "B", pos: map[string]int{}}
	for i := 0; i < 120; i++ {
		id := fmt.Sprintf("B%03d", i)
		c.pos[id] = i
		c.ids = append(c.ids, id)
		c.docs = append(c.docs, f[1].docs[i])
		c.internal += f[1].docs[i].size()
	}
	idx := buildCorpus(c, true, layOne)
	q := &Q{Kind: "bool", Must: []*Q{T("tags.t", "x")}, MustNot: []*Q{{Kind: "conj", Subs: []*Q{T("items.k", "x"), T("tags.t", "x")}}}}
	run := func() string {
		req := bleve.NewSearchRequest(q.ToBleve())
		req.Size = c.internal + 5
		res, err := idx.Search(req)
		if err != nil {
			return err.Error()
		}
		got := map[string]bool{}
		for _, h := range res.Hits {
			got[h.ID] = true
		}
		return strings.Join(bxKeys(got), " ")
	}
	seen := map[string]int{}
	for i := 0; i < 200; i++ {
		seen[run()]++
	}
	fmt.Println("sequential distinct results:", len(seen))
	for k, n := range seen {
		fmt.Println(n, k)
	}
	var mu sync.Mutex
	seen2 := map[string]int{}
	var wg sync.WaitGroup
	for w := 0; w < 8; w++ {
		wg.Add(1)
		go func() {
			defer wg.Done()
			for i := 0; i < 200; i++ {
				s := run()
				mu.Lock()
				seen2[s]++
				mu.Unlock()
			}
		}()
	}
	wg.Wait()
	fmt.Println("concurrent distinct results:", len(seen2))
	for k, n := range seen2 {
		fmt.Println(n, k)
	}
}
