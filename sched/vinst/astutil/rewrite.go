// Copyright 2017 The Go Authors. All rights reserved.
// Use of this source code is governed by a BSD-style
// license that can be found in the LICENSE file.

package astutil

import (
	"fmt"
	"go/ast"
	"reflect"
	"sort"
)

// An ApplyFunc is invoked by Apply for each node n, even if n is nil,
// before and/or after the node's children, using a Cursor describing
// the current node and providing operations on it.
//
// The return value of ApplyFunc controls the syntax tree traversal.
// See Apply for details.
type ApplyFunc func(*Cursor) bool

// Apply traverses a syntax tree recursively, starting with root,
// and calling pre and post for each node as described below.
// Apply returns the syntax tree, possibly modified.
//
// If pre is not nil, it is called for each node before the node's
// children are traversed (pre-order). If pre returns false, no
// children are traversed, and post is not called for that node.
//
// If post is not nil, and a prior call of pre didn't return false,
// post is called for each node after its children are traversed
// (post-order). If post returns false, traversal is terminated and
// Apply returns immediately.
//
// Only fields that refer to AST nodes are considered children;
// i.e., token.Pos, Scopes, Objects, and fields of basic types
// (strings, etc.) are ignored.
//
// Children are traversed in the order in which they appear in the
// respective node's struct definition. A package's files are
// traversed in the filenames' alphabetical order.
func Apply(root ast.Node, pre, post ApplyFunc) (result ast.Node) {
	parent := &struct{ ast.Node }{root}
	defer func() {
		if r := recover(); r != nil && r != abort {
			panic(r)
		}
		result = parent.Node
	}()
	a := &application{pre: pre, post: post}
	a.apply(parent, "Node", nil, root)
	return
}

var abort = new(int) // singleton, to signal termination of Apply

// A Cursor describes a node encountered during Apply.
// Information about the node and its parent is available
// from the Node, Parent, Name, and Index methods.
//
// If p is a variable of type and value of the current parent node
// c.Parent(), and f is the field identifier with name c.Name(),
// the following invariants hold:
//
//	p.f            == c.Node()  if c.Index() <  0
//	p.f[c.Index()] == c.Node()  if c.Index() >= 0
//
// The methods Replace, Delete, InsertBefore, and InsertAfter
// can be used to change the AST without disrupting Apply.
type Cursor struct {
	parent ast.Node
	name   string
	iter   *iterator // valid if non-nil
	node   ast.Node
}

// Node returns the current Node.
func (c *Cursor) Node() ast.Node { return c.node }

// Parent returns the parent of the current Node.
func (c *Cursor) Parent() ast.Node { return c.parent }

// Name returns the name of the parent Node field that contains the current Node.
// If the parent is a *ast.Package and the current Node is a *ast.File, Name returns
// the filename for the current Node.
func (c *Cursor) Name() string { return c.name }

// Index reports the index >= 0 of the current Node in the slice of Nodes that
// contains it, or a value < 0 if the current Node is not part of a slice.
// The index of the current node changes if InsertBefore is called while
// processing the current node.
func (c *Cursor) Index() int {
	if c.iter != nil {
		return c.iter.index
	}
	return -1
}

// field returns the current node's parent field value.
func (c *Cursor) field() reflect.Value {
	return reflect.Indirect(reflect.ValueOf(c.parent)).FieldByName(c.name)
}

// Replace replaces the current Node with n.
// The replacement node is not walked by Apply.
func (c *Cursor) Replace(n ast.Node) {
	if _, ok := c.node.(*ast.File); ok {
		file, ok := n.(*ast.File)
		if !ok {
			panic("attempt to replace *ast.File with non-*ast.File")
		}
		c.parent.(*ast.Package).Files[c.name] = file
		return
	}

	v := c.field()
	if i := c.Index(); i >= 0 {
		v = v.Index(i)
	}
	v.Set(reflect.ValueOf(n))
}

// Delete deletes the current Node from its containing slice.
// If the current Node is not part of a slice, Delete panics.
// As a special case, if the current node is a package file,
// Delete removes it from the package's Files map.
func (c *Cursor) Delete() {
	if _, ok := c.node.(*ast.File); ok {
		delete(c.parent.(*ast.Package).Files, c.name)
		return
	}

	i := c.Index()
	if i < 0 {
		panic("Delete node not contained in slice")
	}
	v := c.field()
	l := v.Len()
	reflect.Copy(v.Slice(i, l), v.Slice(i+1, l))
	v.Index(l - 1).Set(reflect.Zero(v.Type().Elem()))
	v.SetLen(l - 1)
	c.iter.step--
}

// InsertAfter inserts n after the current Node in its containing slice.
// If the current Node is not part of a slice, InsertAfter panics.
// Apply does not walk n.
func (c *Cursor) InsertAfter(n ast.Node) {
	i := c.Index()
	if i < 0 {
		panic("InsertAfter node not contained in slice")
	}
	v := c.field()
	v.Set(reflect.Append(v, reflect.Zero(v.Type().Elem())))
	l := v.Len()
	reflect.Copy(v.Slice(i+2, l), v.Slice(i+1, l))
	v.Index(i + 1).Set(reflect.ValueOf(n))
	c.iter.step++
}

// InsertBefore inserts n before the current Node in its containing slice.
// If the current Node is not part of a slice, InsertBefore panics.
// Apply will not walk n.
func (c *Cursor) InsertBefore(n ast.Node) {
	i := c.Index()
	if i < 0 {
		panic("InsertBefore node not contained in slice")
	}
	v := c.field()
	v.Set(reflect.Append(v, reflect.Zero(v.Type().Elem())))
	l := v.Len()
	reflect.Copy(v.Slice(i+1, l), v.Slice(i, l))
	v.Index(i).Set(reflect.ValueOf(n))
	c.iter.index++
}

// application carries all the shared data so we can pass it around cheaply.
type application struct {
	pre, post ApplyFunc
	cursor    Cursor
	iter      iterator
}

func (a *application) apply(parent ast.Node, name string, iter *iterator, n ast.Node) {
	// convert typed nil into untyped nil
	if v := reflect.ValueOf(n); v.Kind() == reflect.Ptr && v.IsNil() {
		n = nil
	}

	// avoid heap-allocating a new cursor for each apply call; reuse a.cursor instead
	saved := a.cursor
	a.cursor.parent = parent
	a.cursor.name = name
	a.cursor.iter = iter
	a.cursor.node = n

	if a.pre != nil && !a.pre(&a.cursor) {
		a.cursor = saved
		return
	}

	// walk children
	// (the order of the cases matches the order of the corresponding node types in go/ast)
	switch n := n.(type) {
	case nil:
		// nothing to do

	// Comments and fields
	case *ast.Comment:
		// nothing to do

	case *ast.CommentGroup:
		if n != nil {
			a.applyList(n, "List")
		}

	case *ast.Field:
		a.apply(n, "Doc", nil, n.Doc)
		a.applyList(n, "Names")
		a.apply(n, "Type", nil, n.Type)
		a.apply(n, "Tag", nil, n.Tag)
		a.apply(n, "Comment", nil, n.Comment)

	case *ast.FieldList:
		a.applyList(n, "List")

	// Expressions
	case *ast.BadExpr, *ast.Ident, *ast.BasicLit:
		// nothing to do

	case *ast.Ellipsis:
		a.apply(n, "Elt", nil, n.Elt)

	case *ast.FuncLit:
		a.apply(n, "Type", nil, n.Type)
		a.apply(n, "Body", nil, n.Body)

	case *ast.CompositeLit:
		a.apply(n, "Type", nil, n.Type)
		a.applyList(n, "Elts")

	case *ast.ParenExpr:
		a.apply(n, "X", nil, n.X)

	case *ast.SelectorExpr:
		a.apply(n, "X", nil, n.X)
		a.apply(n, "Sel", nil, n.Sel)

	case *ast.IndexExpr:
		a.apply(n, "X", nil, n.X)
		a.apply(n, "Index", nil, n.Index)

	case *ast.IndexListExpr:
		a.apply(n, "X", nil, n.X)
		a.applyList(n, "Indices")

	case *ast.SliceExpr:
		a.apply(n, "X", nil, n.X)
		a.apply(n, "Low", nil, n.Low)
		a.apply(n, "High", nil, n.High)
		a.apply(n, "Max", nil, n.Max)

	case *ast.TypeAssertExpr:
		a.apply(n, "X", nil, n.X)
		a.apply(n, "Type", nil, n.Type)

	case *ast.CallExpr:
		a.apply(n, "Fun", nil, n.Fun)
		a.applyList(n, "Args")

	case *ast.StarExpr:
		a.apply(n, "X", nil, n.X)

	case *ast.UnaryExpr:
		a.apply(n, "X", nil, n.X)

	case *ast.BinaryExpr:
		a.apply(n, "X", nil, n.X)
		a.apply(n, "Y", nil, n.Y)

	case *ast.KeyValueExpr:
		a.apply(n, "Key", nil, n.Key)
		a.apply(n, "Value", nil, n.Value)

	// Types
	case *ast.ArrayType:
		a.apply(n, "Len", nil, n.Len)
		a.apply(n, "Elt", nil, n.Elt)

	case *ast.StructType:
		a.apply(n, "Fields", nil, n.Fields)

	case *ast.FuncType:
		if tparams := n.TypeParams; tparams != nil {
			a.apply(n, "TypeParams", nil, tparams)
		}
		a.apply(n, "Params", nil, n.Params)
		a.apply(n, "Results", nil, n.Results)

	case *ast.InterfaceType:
		a.apply(n, "Methods", nil, n.Methods)

	case *ast.MapType:
		a.apply(n, "Key", nil, n.Key)
		a.apply(n, "Value", nil, n.Value)

	case *ast.ChanType:
		a.apply(n, "Value", nil, n.Value)

	// Statements
	case *ast.BadStmt:
		// nothing to do

	case *ast.DeclStmt:
		a.apply(n, "Decl", nil, n.Decl)

	case *ast.EmptyStmt:
		// nothing to do

	case *ast.LabeledStmt:
		a.apply(n, "Label", nil, n.Label)
		a.apply(n, "Stmt", nil, n.Stmt)

	case *ast.ExprStmt:
		a.apply(n, "X", nil, n.X)

	case *ast.SendStmt:
		a.apply(n, "Chan", nil, n.Chan)
		a.apply(n, "Value", nil, n.Value)

	case *ast.IncDecStmt:
		a.apply(n, "X", nil, n.X)

	case *ast.AssignStmt:
		a.applyList(n, "Lhs")
		a.applyList(n, "Rhs")

	case *ast.GoStmt:
		a.apply(n, "Call", nil, n.Call)

	case *ast.DeferStmt:
		a.apply(n, "Call", nil, n.Call)

	case *ast.ReturnStmt:
		a.applyList(n, "Results")

	case *ast.BranchStmt:
		a.apply(n, "Label", nil, n.Label)

	case *ast.BlockStmt:
		a.applyList(n, "List")

	case *ast.IfStmt:
		a.apply(n, "Init", nil, n.Init)
		a.apply(n, "Cond", nil, n.Cond)
		a.apply(n, "Body", nil, n.Body)
		a.apply(n, "Else", nil, n.Else)

	case *ast.CaseClause:
		a.applyList(n, "List")
		a.applyList(n, "Body")

	case *ast.SwitchStmt:
		a.apply(n, "Init", nil, n.Init)
		a.apply(n, "Tag", nil, n.Tag)
		a.apply(n, "Body", nil, n.Body)

	case *ast.TypeSwitchStmt:
		a.apply(n, "Init", nil, n.Init)
		a.apply(n, "Assign", nil, n.Assign)
		a.apply(n, "Body", nil, n.Body)

	case *ast.CommClause:
		a.apply(n, "Comm", nil, n.Comm)
		a.applyList(n, "Body")

	case *ast.SelectStmt:
		a.apply(n, "Body", nil, n.Body)

	case *ast.ForStmt:
		a.apply(n, "Init", nil, n.Init)
		a.apply(n, "Cond", nil, n.Cond)
		a.apply(n, "Post", nil, n.Post)
		a.apply(n, "Body", nil, n.Body)

	case *ast.RangeStmt:
		a.apply(n, "Key", nil, n.Key)
		a.apply(n, "Value", nil, n.Value)
		a.apply(n, "X", nil, n.X)
		a.apply(n, "Body", nil, n.Body)

	// Declarations
	case *ast.ImportSpec:
		a.apply(n, "Doc", nil, n.Doc)
		a.apply(n, "Name", nil, n.Name)
		a.apply(n, "Path", nil, n.Path)
		a.apply(n, "Comment", nil, n.Comment)

	case *ast.ValueSpec:
		a.apply(n, "Doc", nil, n.Doc)
		a.applyList(n, "Names")
		a.apply(n, "Type", nil, n.Type)
		a.applyList(n, "Values")
		a.apply(n, "Comment", nil, n.Comment)

	case *ast.TypeSpec:
		a.apply(n, "Doc", nil, n.Doc)
		a.apply(n, "Name", nil, n.Name)
		if tparams := n.TypeParams; tparams != nil {
			a.apply(n, "TypeParams", nil, tparams)
		}
		a.apply(n, "Type", nil, n.Type)
		a.apply(n, "Comment", nil, n.Comment)

	case *ast.BadDecl:
		// nothing to do

	case *ast.GenDecl:
		a.apply(n, "Doc", nil, n.Doc)
		a.applyList(n, "Specs")

	case *ast.FuncDecl:
		a.apply(n, "Doc", nil, n.Doc)
		a.apply(n, "Recv", nil, n.Recv)
		a.apply(n, "Name", nil, n.Name)
		a.apply(n, "Type", nil, n.Type)
		a.apply(n, "Body", nil, n.Body)

	// Files and packages
	case *ast.File:
		a.apply(n, "Doc", nil, n.Doc)
		a.apply(n, "Name", nil, n.Name)
		a.applyList(n, "Decls")
		// Don't walk n.Comments; they have either been walked already if
		// they are Doc comments, or they can be easily walked explicitly.

	case *ast.Package:
		// collect and sort names for reproducible behavior
		var names []string
		for name := range n.Files {
			names = append(names, name)
		}
		sort.Strings(names)
		for _, name := range names {
			a.apply(n, name, nil, n.Files[name])
		}

	default:
		panic(fmt.Sprintf("Apply: unexpected node type %T", n))
	}

	if a.post != nil && !a.post(&a.cursor) {
		panic(abort)
	}

	a.cursor = saved
}

// An iterator controls iteration over a slice of nodes.
type iterator struct {
	index, step int
}

func (a *application) applyList(parent ast.Node, name string) {
	// avoid heap-allocating a new iterator for each applyList call; reuse a.iter instead
	saved := a.iter
	a.iter.index = 0
	for {
		// must reload parent.name each time, since cursor modifications might change it
		v := reflect.Indirect(reflect.ValueOf(parent)).FieldByName(name)
		if a.iter.index >= v.Len() {
			break
		}

		// element x may be nil in a bad AST - be cautious
		var x ast.Node
		if e := v.Index(a.iter.index); e.IsValid() {
			x = e.Interface().(ast.Node)
		}

		a.iter.step = 1
		a.apply(parent, name, &a.iter, x)
		a.iter.index += a.iter.step
	}
	a.iter = saved
}
