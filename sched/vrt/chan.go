package vrt

import "unsafe"

func chanKey[T any](ch chan T) uintptr {
	return uintptr(*(*unsafe.Pointer)(unsafe.Pointer(&ch)))
}

// bidirectional view helpers: Go lets us convert chan T to directional types
// but not back, so the generic front-ends take the most general type they can
// and the instrumenter passes the channel expression unchanged.

func mkRecvOp[T any](ch <-chan T) *chanOp {
	c := &chanOp{key: uintptr(*(*unsafe.Pointer)(unsafe.Pointer(&ch)))}
	c.bufLen = func() int { return len(ch) }
	c.bufCap = func() int { return cap(ch) }
	c.realRecv = func() (any, bool, bool) {
		select {
		case v, ok := <-ch:
			return v, ok, true
		default:
			return nil, false, false
		}
	}
	if ch != nil {
		S.keep = append(S.keep, ch)
	}
	return c
}

func mkSendOp[T any](ch chan<- T, v T) *chanOp {
	c := &chanOp{key: uintptr(*(*unsafe.Pointer)(unsafe.Pointer(&ch))), isSend: true, val: v}
	c.bufLen = func() int { return len(ch) }
	c.bufCap = func() int { return cap(ch) }
	c.realSend = func(x any) {
		var tv T
		if x != nil {
			tv = x.(T)
		}
		ch <- tv
	}
	if ch != nil {
		S.keep = append(S.keep, ch)
	}
	return c
}

func Send[T any](ch chan<- T, v T) {
	s := S
	if !s.active {
		ch <- v
		return
	}
	if s.abort {
		return
	}
	s.yield(&pendingOp{kind: opSend, ch: mkSendOp(ch, v), label: "send"})
}

// SendTo is the curried form used by the instrumenter: the value is converted
// to the channel's element type by ordinary assignability at the call.
func SendTo[T any](ch chan<- T) func(T) {
	return func(v T) { Send(ch, v) }
}

func SendCaseTo[T any](ch chan<- T) func(T) *SendC[T] {
	return func(v T) *SendC[T] { return SendCase(ch, v) }
}

func Recv[T any](ch <-chan T) T {
	v, _ := Recv2(ch)
	return v
}

func Recv2[T any](ch <-chan T) (T, bool) {
	s := S
	var zero T
	if !s.active {
		v, ok := <-ch
		return v, ok
	}
	if s.abort {
		return zero, false
	}
	c := mkRecvOp(ch)
	s.yield(&pendingOp{kind: opRecv, ch: c, label: "recv"})
	if c.val == nil {
		return zero, c.ok
	}
	return c.val.(T), c.ok
}

func Close[T any](ch chan<- T) {
	s := S
	if s.active && !s.abort {
		s.closed[uintptr(*(*unsafe.Pointer)(unsafe.Pointer(&ch)))] = true
		s.keep = append(s.keep, ch) // the identity must not be reused while it is in the closed set
	}
	if s.active && s.abort {
		defer func() { recover() }()
	}
	close(ch)
}

// ---------------------------------------------------------------------------
// select

type Case interface{ op() *chanOp }

type RecvC[T any] struct {
	ch  <-chan T
	c   *chanOp
	Val T
	Ok  bool
}

func (r *RecvC[T]) op() *chanOp { return r.c }

type SendC[T any] struct {
	ch chan<- T
	v  T
	c  *chanOp
}

func (r *SendC[T]) op() *chanOp { return r.c }

func RecvCase[T any](ch <-chan T) *RecvC[T] {
	r := &RecvC[T]{ch: ch}
	if S.active {
		r.c = mkRecvOp(ch)
	}
	return r
}

func SendCase[T any](ch chan<- T, v T) *SendC[T] {
	r := &SendC[T]{ch: ch, v: v}
	if S.active {
		r.c = mkSendOp(ch, v)
	}
	return r
}

type realCase interface {
	fill(v any, ok bool)
}

func (r *RecvC[T]) fill(v any, ok bool) {
	if v != nil {
		r.Val = v.(T)
	}
	r.Ok = ok
}

// Select returns the index of the chosen case, or -1 for default.
func Select(hasDefault bool, cases ...Case) int {
	s := S
	if !s.active {
		return realSelect(hasDefault, cases)
	}
	if s.abort {
		if hasDefault {
			return -1
		}
		panic(abortSignal{})
	}
	op := &pendingOp{kind: opSelect, hasDefault: hasDefault, label: "select", chosen: -1}
	for _, c := range cases {
		op.cases = append(op.cases, c.op())
	}
	s.yield(op)
	if op.chosen >= 0 {
		if rc, ok := cases[op.chosen].(realCase); ok {
			co := op.cases[op.chosen]
			rc.fill(co.val, co.ok)
		}
	}
	return op.chosen
}
