package vrt

import "time"

// Result of one deviation-bounded exploration.
type Result struct {
	Execs      int
	Steps      int64
	Points     int // choice points in the default execution
	MaxPoints  int
	Stopped    bool // check returned false
	Complete   bool // the bound was fully enumerated (no deadline / stop)
	FailPrefix []int
	FailExpect []Choice
	FailTrace  []Choice
	FailV      Verdict
}

// DeviationFilter, when set, restricts the choice points at which deviations are
// explored (the default schedule and forced choices are unaffected).
var DeviationFilter func(c Choice) bool

// Explore runs the deviation-bounded DFS: the default schedule, then for every recorded choice
// point i and every alternative alt >= 1 whose cumulative number of deviations stays <= bound,
// the schedule with prefix choices[:i]+[alt]. body runs once per schedule inside the scheduler;
// check runs after each execution (outside) and returns false to stop. Sharding: first-level
// subtrees (index of the first deviation) are dealt round-robin to nshards; shard 0 also owns the
// default schedule. deadline zero = none.
func Explore(bound int, maxSteps int, shard, nshards int, deadline time.Time, body func(), check func(prefix []int, tr []Choice, v Verdict) bool) Result {
	res := Result{Complete: true}
	var rec func(prefix []int, expect []Choice, used int, depth int) bool
	rec = func(prefix []int, expect []Choice, used int, depth int) bool {
		if !deadline.IsZero() && time.Now().After(deadline) {
			res.Complete = false
			return false
		}
		tr, v := RunExpect(prefix, expect, maxSteps, nil, body)
		countIt := depth > 0 || shard == 0
		if countIt {
			res.Execs++
			res.Steps += int64(v.Steps)
		}
		if depth == 0 {
			res.Points = len(tr)
		}
		if len(tr) > res.MaxPoints {
			res.MaxPoints = len(tr)
		}
		if countIt || v.Diverged != "" {
			if !check(prefix, tr, v) {
				res.Stopped = true
				res.Complete = false
				res.FailPrefix = append([]int{}, prefix...)
				res.FailExpect = expect
				res.FailTrace = tr
				res.FailV = v
				return false
			}
		}
		for i := len(prefix); i < len(tr); i++ {
			// environment choices (vrt.Choose) are enumerated completely and cost no deviation
			env := tr[i].Kind == "env"
			if !env && (used >= bound || (DeviationFilter != nil && !DeviationFilter(tr[i]))) {
				continue
			}
			cost := 1
			if env {
				cost = 0
			}
			for alt := 1; alt < tr[i].N; alt++ {
				if depth == 0 && nshards > 1 {
					if env && (alt%nshards) != shard {
						continue
					}
					if !env && (i%nshards) != shard {
						continue
					}
				}
				np := make([]int, 0, i+1)
				for j := 0; j < i; j++ {
					np = append(np, tr[j].Chosen)
				}
				np = append(np, alt)
				if !rec(np, tr[:i+1], used+cost, depth+1) {
					return false
				}
			}
		}
		return true
	}
	rec(nil, nil, 0, 0)
	return res
}
