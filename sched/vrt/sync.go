package vrt

import (
	"cmp"
	"slices"
	"sync"
	"time"
)

// Mutex replaces sync.Mutex in instrumented code.
type Mutex struct {
	real sync.Mutex
	held bool
}

func (m *Mutex) Lock() {
	s := S
	if !s.active {
		m.real.Lock()
		return
	}
	if s.abort {
		return
	}
	s.yield(&pendingOp{kind: opLock, mu: m, label: "Lock@" + lockSite()})
}

func (m *Mutex) Unlock() {
	s := S
	if !s.active {
		m.real.Unlock()
		return
	}
	if s.abort {
		return
	}
	if !m.held {
		panic("vrt: unlock of unlocked mutex")
	}
	m.held = false
}

func (m *Mutex) TryLock() bool {
	s := S
	if !s.active {
		return m.real.TryLock()
	}
	if m.held {
		return false
	}
	m.held = true
	return true
}

// RWMutex replaces sync.RWMutex (writer preference as in Go).
type RWMutex struct {
	real     sync.RWMutex
	w        bool
	wWaiting int
	readers  int
}

func (m *RWMutex) Lock() {
	s := S
	if !s.active {
		m.real.Lock()
		return
	}
	if s.abort {
		return
	}
	s.yield(&pendingOp{kind: opWLockAnnounce, rw: m, label: "RW.Lock@" + lockSite()})
}

func (m *RWMutex) Unlock() {
	s := S
	if !s.active {
		m.real.Unlock()
		return
	}
	if s.abort {
		return
	}
	if !m.w {
		panic("vrt: unlock of unlocked rwmutex")
	}
	m.w = false
}

func (m *RWMutex) RLock() {
	s := S
	if !s.active {
		m.real.RLock()
		return
	}
	if s.abort {
		return
	}
	s.yield(&pendingOp{kind: opRLock, rw: m, label: "RW.RLock@" + lockSite()})
}

func (m *RWMutex) RUnlock() {
	s := S
	if !s.active {
		m.real.RUnlock()
		return
	}
	if s.abort {
		return
	}
	if m.readers <= 0 {
		panic("vrt: runlock of unlocked rwmutex")
	}
	m.readers--
}

func (m *RWMutex) RLocker() sync.Locker { return (*rlocker)(m) }

type rlocker RWMutex

func (r *rlocker) Lock()   { (*RWMutex)(r).RLock() }
func (r *rlocker) Unlock() { (*RWMutex)(r).RUnlock() }

// WaitGroup replaces sync.WaitGroup.
type WaitGroup struct {
	real sync.WaitGroup
	n    int
}

func (w *WaitGroup) Add(d int) {
	if !S.active {
		w.real.Add(d)
		return
	}
	w.n += d
	if w.n < 0 {
		panic("vrt: negative WaitGroup counter")
	}
}

func (w *WaitGroup) Done() { w.Add(-1) }

func (w *WaitGroup) Wait() {
	s := S
	if !s.active {
		w.real.Wait()
		return
	}
	if s.abort {
		return
	}
	s.yield(&pendingOp{kind: opWGWait, wg: w, label: "WG.Wait"})
}

// ---------------------------------------------------------------------------
// virtual time

var vclock int64

func Now() time.Time {
	if !S.active {
		return time.Now()
	}
	vclock++
	return time.Unix(1_700_000_000, vclock*1000)
}

func Since(t time.Time) time.Duration {
	if !S.active {
		return time.Since(t)
	}
	return Now().Sub(t)
}

// After: timers never fire under the scheduler in this prototype (a nil-like
// channel that is never ready); real timer otherwise.
func After(d time.Duration) <-chan time.Time {
	if !S.active {
		return time.After(d)
	}
	return make(chan time.Time)
}

func Sleep(d time.Duration) {
	if !S.active {
		time.Sleep(d)
		return
	}
	Point("sleep")
}

type Ticker struct {
	C    <-chan time.Time
	real *time.Ticker
}

func NewTicker(d time.Duration) *Ticker {
	if !S.active {
		t := time.NewTicker(d)
		return &Ticker{C: t.C, real: t}
	}
	return &Ticker{C: make(chan time.Time)}
}

func (t *Ticker) Stop() {
	if t.real != nil {
		t.real.Stop()
	}
}

// SortedKeys returns the keys of m in ascending order (the instrumenter routes map iteration in
// instrumented packages through it so that iteration order is owned by the harness).
func SortedKeys[M ~map[K]V, K cmp.Ordered, V any](m M) []K {
	ks := make([]K, 0, len(m))
	for k := range m {
		ks = append(ks, k)
	}
	slices.Sort(ks)
	return ks
}
